#!/bin/bash
# /verif/run.sh <ID> <quick|thorough>        run one property's check against /repo's current tree
# /verif/run.sh <ID> --replay <file>         re-run the witness stored in a replay file
# /verif/run.sh --build                      build only (MANIFEST.setup_cmd)
#
# Exit 0: property held on everything explored (KNOWN-FINDING lines may be printed).
# Exit 1: "VIOLATION property=<id> replay=<path>" was printed.
# Exit 3: inconclusive / harness could not run (never reported as a violation).
set -u
HERE="$(cd "$(dirname "$0")" && pwd)"
export VERIF_DIR="$HERE"
export GOFLAGS=-mod=mod GOPROXY=off GOSUMDB=off GOTOOLCHAIN=local
export GOMAXPROCS="${GOMAXPROCS:-}"
[ -z "$GOMAXPROCS" ] && unset GOMAXPROCS
cd "$HERE/harness" || exit 3
mkdir -p bin

needs_race() { case "$1" in C06|C07|C09|C10|--build) return 0;; *) return 1;; esac; }

build() {
  # Always rebuilt from /repo's working tree (go build is incremental); serialised with a lock
  # so that concurrent invocations do not overwrite each other's binaries half-way.
  (
    flock 9
    go build -tags verif -o bin/vcheck.tmp ./cmd/vcheck && mv bin/vcheck.tmp bin/vcheck || exit 3
    if needs_race "$1"; then
      go build -race -tags verif -o bin/vcheck-race.tmp ./cmd/vcheck && mv bin/vcheck-race.tmp bin/vcheck-race || exit 3
    fi
  ) 9>bin/.build.lock
}

if [ "${1:-}" = "--build" ]; then
  build --build || { echo "BUILD FAILED"; exit 3; }
  exit 0
fi

ID="${1:?usage: run.sh <ID> <quick|thorough>}"
MODE="${2:-quick}"
build "$ID" || { echo "INCONCLUSIVE property=$ID: harness build failed against /repo's current tree"; exit 3; }
export VERIF_RACE_BIN="$HERE/harness/bin/vcheck-race"
if [ "$MODE" = "--replay" ]; then
  exec bin/vcheck replay "$ID" "${3:?replay file}"
fi
exec bin/vcheck drive "$ID" "$MODE"
