#!/bin/bash
# /verif/run.sh <ID> <quick|thorough>        run one property's check against /repo's current tree
# /verif/run.sh <ID> --replay <file>         re-run the witness stored in a replay file
# /verif/run.sh --build                      build only (MANIFEST.setup_cmd)
#
# Exit 0: property held on everything explored (KNOWN-FINDING lines may be printed).
# Exit 1: "VIOLATION property=<id> replay=<path>" was printed.
# Exit 3: inconclusive / harness could not run (never reported as a violation).
#
# Development knobs (not used by MANIFEST.json):
#   VERIF_REPO=<dir>   build against a scratch copy/worktree of risor instead of /repo (for seeded mutants);
#                      binaries go to harness/bin-alt-<hash>/, evidence/replays to $VERIF_OUT (default: a temp dir)
#   VERIF_MAIN=<pkg>   main package to build instead of ./cmd/vcheck (per-property dev mains)
set -u
HERE="$(cd "$(dirname "$0")" && pwd)"
export VERIF_DIR="$HERE"
export GOFLAGS=-mod=mod GOPROXY=off GOSUMDB=off GOTOOLCHAIN=local
cd "$HERE/harness" || exit 3

MAIN="${VERIF_MAIN:-./cmd/vcheck}"
BIN=bin
MODFLAG=""
if [ -n "${VERIF_REPO:-}" ]; then
  H=$(echo "$VERIF_REPO" | md5sum | cut -c1-8)
  BIN="bin-alt-$H"
  mkdir -p "$BIN"
  sed "s#=> /repo#=> $VERIF_REPO#" go.mod > "$BIN/go.mod"
  cp go.sum "$BIN/go.sum"
  MODFLAG="-modfile=$BIN/go.mod"
  if [ -z "${VERIF_OUT:-}" ]; then
    export VERIF_OUT="/tmp/verif-out-$H"
  fi
  mkdir -p "$VERIF_OUT"
fi
if [ "$MAIN" != "./cmd/vcheck" ]; then
  BIN="$BIN-$(basename "$MAIN")"
fi
mkdir -p "$BIN"

needs_race() { case "$1" in C06|C07|C09|C10|--build) return 0;; *) return 1;; esac; }

build() {
  # Always rebuilt from the repository's working tree (go build is incremental); serialised with a
  # lock so that concurrent invocations do not overwrite each other's binaries half-way.
  (
    flock 9
    go build $MODFLAG -tags verif -o "$BIN/vcheck.tmp.$$" "$MAIN" && mv "$BIN/vcheck.tmp.$$" "$BIN/vcheck" || exit 3
    if needs_race "$1"; then
      go build $MODFLAG -race -tags verif -o "$BIN/vcheck-race.tmp.$$" "$MAIN" && mv "$BIN/vcheck-race.tmp.$$" "$BIN/vcheck-race" || exit 3
    fi
  ) 9>"$BIN/.build.lock"
}

if [ "${1:-}" = "--build" ]; then
  build --build || { echo "BUILD FAILED"; exit 3; }
  exit 0
fi

ID="${1:?usage: run.sh <ID> <quick|thorough>}"
MODE="${2:-quick}"
build "$ID" || { echo "INCONCLUSIVE property=$ID: harness build failed against the repository's current tree"; exit 3; }
export VERIF_RACE_BIN="$HERE/harness/$BIN/vcheck-race"
if [ "$MODE" = "--replay" ]; then
  exec "$BIN/vcheck" replay "$ID" "${3:?replay file}"
fi
exec "$BIN/vcheck" drive "$ID" "$MODE"
