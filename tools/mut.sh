#!/bin/bash
# tools/mut.sh <name> <file> <python-expr-old> <python-expr-new> -- <prop> [<prop>...]
# Applies one textual mutation (exact string replace, must match once) to a scratch worktree of /repo
# and runs the given checks (quick) against it. Prints one line per check. Cleans up afterwards.
set -u
NAME=$1; FILE=$2; OLD=$3; NEW=$4; shift 5
WT=/tmp/wt-mut-$NAME-$$
git -C /repo worktree add -q "$WT" HEAD || exit 2
python3 - "$WT/$FILE" "$OLD" "$NEW" <<'PY' || { git -C /repo worktree remove --force "$WT"; exit 2; }
import sys
p,old,new=sys.argv[1:4]
s=open(p).read()
n=s.count(old)
if n!=1:
    print("MUTATION DOES NOT APPLY: %d matches"%n); sys.exit(1)
open(p,'w').write(s.replace(old,new))
PY
(cd "$WT" && GOPROXY=off go build ./... 2>&1 | head -5)
export VERIF_OUT=/tmp/verif-out-mut-$NAME-$$
for P in "$@"; do
  OUT=$(cd /verif && VERIF_REPO="$WT" ./run.sh "$P" quick 2>&1)
  RC=$?
  SIGS=$(echo "$OUT" | grep "signature:" | sort | uniq -c | sort -rn | head -4 | tr '\n' ';')
  echo "MUTANT $NAME $P exit=$RC $(echo "$OUT" | grep -c '^VIOLATION') violations: $SIGS"
done
H=$(echo "$WT" | md5sum | cut -c1-8)
rm -rf "/verif/harness/bin-alt-$H" "/verif/harness/bin-alt-$H-"* "$VERIF_OUT"
git -C /repo worktree remove --force "$WT"
