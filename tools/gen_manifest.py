#!/usr/bin/env python3
"""Regenerates /verif/MANIFEST.json from the table below (single source of truth for the interface)."""
import json, os, subprocess

HERE = os.path.dirname(os.path.dirname(os.path.abspath(__file__)))

def hook_commits():
    try:
        out = subprocess.check_output(["git", "-C", "/repo", "log", "--format=%H %s"], text=True)
    except Exception:
        return []
    return [l.split()[0] for l in out.splitlines() if l.split(" ", 1)[1].startswith("verif:")]

# id -> (level category, technique, level text, level note, design ref)
CHECKS = {
 "C15": ("exploration", "law monitor over an exhaustively paired/tripled boundary-value pool (runtime oracle on the real object API and scripts)",
         "Every law in the statement is evaluated on all ordered pairs and triples of a ~150-value boundary pool plus seed-determined random nested values and sort inputs; held on what was enumerated, not a proof over all values.",
         "Trusts Go's == on HashKey structs and the harness's classification of which lists are 'of one type'. NaN excluded as stated.", "DESIGN.md §5 C15"),
 "C11": ("exploration", "reachability monitor by object identity over the configured globals + generated access attempts (every default name x every access path), differential against the default configuration",
         "All ~246 default global names and module members are denied/overridden one by one (exhaustive over the live name set) and every access path is attempted through real evaluations; held on the configurations and paths explored.",
         "Access-path list is finite (identifier, import forms, attribute, getattr, __module__ back-references, functions/closures/spawn/try, precompiled code); hook VerifAttrNames enumerates module attributes.", "DESIGN.md §5 C11"),
 "C19": ("exploration", "differential monitor against the Go standard library over a completeness-checked wrapper table; round-trip/malformed-input monitor for codecs",
         "Every wrapped function found in the live modules is called with generated boundary arguments through the object API and through scripts and compared with the Go function it wraps; codecs are round-tripped and fed malformed input. Held on the argument classes explored.",
         "The function->Go mapping table is hand-written from the wrappers' source/docs; the run is inconclusive if a live function has no entry.", "DESIGN.md §5 C19"),
 "C01": ("exploration", "reference-model monitor: generated programs evaluated by an independent reference interpreter and by the real lexer/parser/compiler/VM, outcomes compared; exhaustive operator-pair precedence and evaluation-order probes",
         "Tens of thousands (quick) to millions (thorough) of generated programs plus fixed probe programs agree with an executable model of the pinned language rules on value, error class, printed output and final globals; held on the programs generated, with generator feature coverage enforced.",
         "The reference interpreter is a specification reconstructed from the implementation and its tests at the pinned commit (design/LANGUAGE_RULES.md); constructs whose behaviour is not pinned are not generated; undecidable programs are discarded and counted.", "DESIGN.md §2, §5 C01"),
 "C12": ("exploration", "recording OS + real-OS canaries + real stdio capture + strace syscall monitor over every live os/filepath/fmt function, OS builtin and file method in 10 execution contexts (top level, spawn, go, clone, module, late clone/call, deferred call under a passed deadline, bare VirtualOS, globals map shared with an earlier evaluation) x 2 OS-supply routes",
         "Every live operation is executed under a recording OS in every context/route; the oracle is that the recording OS saw it and that canaries, real stdio and the strace trace show no access carrying the sentinel token. Held on the operations and argument shapes explored.",
         "strace must be available (preflight, else inconclusive); file-object method names are read from the source tree the binary was built from.", "DESIGN.md §5 C12"),
 "C14": ("exploration", "recording fs.FS + strace for import paths, execution-count (tick) monitor and shared-state/separate-globals value monitor over generated module graphs and import spellings",
         "Generated module trees are imported through FSImporter and LocalImporter with every accepted spelling and hostile path texts; names reaching the filesystem, module body execution counts and values seen through every alias are checked against a small model. Held on the graphs/spellings explored.",
         "Order of module body execution and values of unsynchronised concurrent increments are not demanded.", "DESIGN.md §5 C14"),
 "C16": ("exploration", "reference-model monitor over container operation histories (script route and object-API route), all live containers compared after every step",
         "Random and directed operation histories (<=40 steps, aliases/copies/slices) on list/map/set/string/byte_slice are run through scripts and the object API and compared step by step with plain Go models. Held on the histories explored.",
         "Where the statement leaves behaviour open (slice starting at len, absent members) either outcome is accepted; pinned choices are listed in the evidence assumptions.", "DESIGN.md §5 C16"),
 "C05": ("exploration", "consistency monitor over repetitions: K compilations+evaluations per process and the same programs again in fresh processes; digests of bytecode, result, error, output and side-effect order compared",
         "Engine programs and order-sensitive templates (map/set literals with side effects and duplicate keys, iteration, printing, encoding, defaults, error messages) give identical observations across 4 in-process repetitions and 3 processes (Go re-rolls map iteration order per range and the hash seed per process). Held on the programs explored.",
         "No model: only self-consistency is demanded. rand/time/goroutines/host pointers are never used by the programs.", "DESIGN.md §5 C05"),
 "C17": ("translation_validation", "translation-validation differential: marshal/unmarshal/re-marshal byte equality and side-by-side execution of original and reloaded code for every generated program",
         "For every generated program the marshalled bytes are deterministic (also across independent compilations), unmarshalling succeeds, re-marshalling reproduces the bytes, and original and reloaded code behave identically (result, error text, output, globals) on fresh VMs; the reloaded run is also compared with the reference interpreter.",
         "Programs come from C01's generator; equality is exact text equality of renderings.", "DESIGN.md §5 C17"),
 "C13": ("exploration", "effect monitor (outside-tree snapshot), read monitor and strace syscall monitor for localfs; recording filesystems and a reference mount resolver for VirtualOS; exhaustive path enumeration over the segment alphabet",
         "All path strings over the stated segment alphabet (<=4 segments quick, <=6 thorough; exhaustive within that bound) plus random Unicode paths are pushed through every filesystem operation of localfs (in a chroot sandbox) and of VirtualOS mount layouts; nothing outside the base may change or be read, and the observed (mount, relative path) must equal a 10-line reference resolver.",
         "Following pre-existing symlinks that point outside the base is out of scope (the statement is about path strings); strace sampling covers a subset of the localfs operations.", "DESIGN.md §5 C13"),
 "C20": ("exploration", "differential monitor over layout variants (AST rendering and bytecode equality) and invariant monitor over reported error positions for token-level mutations",
         "Generated programs are re-rendered with spaces, block comments, line comments, blank lines, CRLF and accepted line breaks at every token gap (many-gap and single-gap variants); parse tree rendering and compiled bytes must not change. Token-level mutations must yield errors whose line/column exist and whose quoted line is verbatim, and whose rendering never panics or hangs.",
         "Where line breaks are accepted is taken from the parser (after , ( [ { binary operators | and .); compile errors without a position are counted, not flagged.", "DESIGN.md §5 C20"),
 "C03": ("exploration", "fatal/panic monitor: every embedding-API stage (NewConfig, Parse, Compile, Eval/EvalCode/Call, Error()/FriendlyErrorMessage()/ParserError accessors of every returned error chain, Inspect()/Interface() of every result) runs under recover() in isolated worker processes with a per-case stage log; a recovered panic or a process death attributed to the input (and repeated alone under Go's default stack limit) is the violation",
         "Workloads: token soups, byte soups, listed snippets x contexts, token mutations of generated programs and of the repository's own sources, nesting of every recursive production, and scripts over the live enumeration of callables (628 callables x 62 argument values incl. cyclic, deep, huge, nil-like, channels, closures; 0/1 args exhaustive, 2/3 sampled), operation templates and special scripts (threads, defer recursion, Call-only). Held on ~10^5 (quick) / 3*10^6 (thorough) inputs apart from the recorded findings (cyclic data, threads sharing a map/set, 10^6-deep nesting/data).",
         "Screening runs with a 16 MB native stack so that unbounded recursion dies fast; only deaths that repeat alone under the default 1 GB limit count. Memory-guard kills, OOM kills and watchdog hits are inconclusive (hangs are C06's business). exec/http/net/dns/fetch are withheld; scripts run under a VirtualOS without mounts.", "DESIGN.md §5 C03"),
"C04": ("exploration", "emitted-code invariant (abstract interpretation of every compiled code object's CFG with pinned opcode stack effects) + operand-stack depth sampled at a VM hook between all statements + scaled loop bounds (10 / 3000 / 100000) against the reference interpreter",
         "For every generated program all control-flow paths of its bytecode (also unexecuted ones) have consistent, non-negative stack heights with exactly one value at the end of main; at run time the depth relative to the frame base is constant per statement boundary over all iterations and recursion depths and a finished run leaves sp==0; loop-dominated programs give model-equal results for bounds up to 100x the stack capacity.",
         "Opcode stack effects are pinned from vm.eval; hooks VerifSP/VerifFrameBaseSP. 'All compiled programs' is sampled by the generator.", "DESIGN.md §5 C04"),
 "C18": ("exploration", "differential history monitor: the REPL's one-compiler/one-VM protocol driven piece by piece against the reference interpreter run incrementally, over partitions of generated programs with rejected and failing pieces inserted",
         "For each generated program all (short programs) or sampled partitions into pieces, with rejected pieces (syntax error, undefined name, const reassignment, duplicate function) and naturally failing pieces, agree with the incrementally run reference interpreter on per-piece status, value, error class, output and on all final globals; long sessions of thousands of pieces are included.",
         "The protocol is driven through public calls in the order of cmd/risor/repl getEvaluator (that closure lives in a separate module).", "DESIGN.md §5 C18"),
 "C02": ("exploration", "reference-model monitor over generated closure scenarios (nested function trees x escape routes x call orders x host-side vm.Get/vm.Call); the model mirrors the VM frame stack to attribute a recorded finding",
         "Scenario programs with function literals nested to depth 5, reading and writing bindings of any enclosing level and escaping through 12 routes, are evaluated by the reference interpreter (environment-pointer semantics) and by the real VM, including calls made from Go after the run; every observation, return value and the final state must agree. Held on the scenarios explored.",
         "Spawned calls are waited for at once (no interleavings). Disagreements are attributed to recorded finding D1 only when the model's mirror of the call stack shows an off-stack deep capture in that run.", "DESIGN.md §5 C02"),
 "C08": ("exploration", "round-trip monitor over generated Go types (reflect-built and declared named types to depth 3) x values x routes (global, field read/write, method parameter/return), with delta-minimised type paths as signatures",
         "Every enumerated (type, value, route) either converts to a script value with equal contents that converts back to an equal Go value, or is rejected with an error; a Go panic (escaping or VM-recovered) is never accepted; field writes read back equal from both sides; Go methods receive exactly the arguments passed. Types to depth 2 are exhaustive over the base-kind roster, depth 3 sampled (quick) / enumerated (thorough).",
         "nil and empty slices/maps are not told apart; inside interface positions only contents are compared. Converter caches are process-global, so types are spread over fresh worker processes.", "DESIGN.md §5 C08"),
 "C06": ("exploration", "bounded-progress monitor: logical cancellation instants (k-th host tick / parked signal), tick counters sampled after return, errors.Is on the returned error; race detector on the goroutine-spawning sample",
         "Liveness is restated as bounded progress: for about 55 non-terminating or blocking program shapes (loop forms, recursion, callbacks inside builtins, blocked channel operations, sleep, thread.wait, exec of children that ignore signals) x goroutine nesting to depth 3 x cancellation instants x {cancel, deadline}, Eval returns with an error satisfying errors.Is(err, ctx.Err()), at most a bounded number of further ticks happen, and the tick counter stops after return. Held on the shapes and instants explored.",
         "An unbounded 'eventually' cannot be decided by a finite run; the watchdog (10 s) is the only wall-clock element and a hit is re-run alone and must repeat to count.", "DESIGN.md §5 C06"),
 "C07": ("exploration", "differential history monitor: invocation histories (RunCode / Call / REPL-style Run; value, error, panic, overflow, cancelled; cancel events of earlier contexts made deterministic with the VerifHalt hook) on one VM compared with the same invocation on a fresh VM; absolute invariants (running=false, fp=0, sp restored); race detector on a sample",
         "All histories of length <= 3 over the alphabet (exhaustive) and sampled histories up to length 6 give, for every invocation, the result and error it gives on a fresh VM, never (nil, nil) or a partial value.",
         "Run and RunCode are not mixed on one VM (undefined by the statement). Hook: vm.VerifHalt/VerifSP/VerifFP/VerifRunning.", "DESIGN.md §5 C07"),
 "C09": ("exploration", "Go race detector (GORACE log parsed, reports deduplicated by innermost risor frame pair) over concurrent evaluations in one process, plus a differential monitor: every result line is compared with the same program run alone afterwards in the same process",
         "N in {2,4,8,16} goroutines released from barriers, each with its own configuration, globals and Go values, drive first-use paths of every process-wide cache (Go type registry and converters on fresh generic instantiations, reflect.StructOf types, codecs, small-int caches, ~130 module functions, shared importers, one shared compiler.Code, Clone+Call in three orderings) at GOMAXPROCS 2 and 16. Held on the interleavings that occurred: no race report with a risor frame, no fatal, no result differing from the sequential reference.",
         "The race detector is happens-before based: it reports unsynchronised access pairs the workload executes, whether or not they overlapped in wall-clock time. Watchdog timeouts and workers killed without a Go fatal are inconclusive.", "DESIGN.md §5 C09"),
"C10": ("exploration", "history checker over recorded send/receive histories: conservation (exactly-once), per-sender order, close semantics, wait() results, spawn-argument capture; porcupine linearizability check of stamped histories against a bounded FIFO queue; race detector over every scenario",
         "Producer/consumer topologies (1..4 senders and receivers, buffer 0..8, all send/receive/iteration styles, three spawn forms, GOMAXPROCS 1..16, injected yields) are run in plain and -race workers; unique message ids make the histories unambiguous; stamped histories of buffered channels are checked with porcupine. Held on the schedules that occurred.",
         "Goroutines share only channels by construction, so race reports concern interpreter state. porcupine timeouts are inconclusive.", "DESIGN.md §5 C10"),
}

NOT_YET = {}

def main():
    props = [json.loads(l) for l in open(os.path.join(HERE, "properties.jsonl"))]
    checks, na = [], []
    for p in props:
        pid = p["id"]
        if pid in CHECKS:
            cat, tech, text, note, ref = CHECKS[pid]
            checks.append({
                "property_id": pid,
                "quick_cmd": f"./run.sh {pid} quick",
                "thorough_cmd": f"./run.sh {pid} thorough",
                "evidence_file": f"/verif/evidence/{pid}.json",
                "replay_cmd_template": f"./run.sh {pid} --replay {{path}}",
                "engine": "vcheck",
                "level_claimed": {"category": cat, "text": text, "design_ref": ref},
                "level_note": note,
                "technique": tech,
            })
        else:
            na.append({"property_id": pid, "reason": NOT_YET.get(pid, "check not built yet in this session (runtime monitor planned in DESIGN.md §5); not claimed until it exists and is silent on the unchanged tree")})
    m = {
        "version": 1,
        "setup_cmd": "./run.sh --build",
        "hooks": {
            "guard": "verif",
            "enable": "go build -tags verif (the harness module in /verif/harness replaces github.com/risor-io/risor with /repo and is always built with -tags verif)",
            "baseline_off_cmd": "/verif/tools/baseline.sh",
            "source_commits": hook_commits(),
            "add_only": True,
        },
        "engines": [{
            "name": "vcheck", "path": "/verif/harness",
            "serves_properties": sorted(CHECKS.keys()),
            "kind_free_text": "Go driver + isolated worker processes running the real lexer/parser/compiler/VM/object model under generated workloads with runtime monitors (reference-model, differential, law, history checkers, race detector, strace)",
        }],
        "checks": checks,
        "not_applicable": na,
        "notes": "Technique family: runtime monitoring and sanitizers. Exit codes: 0 held, 1 VIOLATION, 3 inconclusive/harness problem. VERIF_SEED selects the (fixed-size) case list. Known findings: /verif/known_findings.json.",
    }
    json.dump(m, open(os.path.join(HERE, "MANIFEST.json"), "w"), indent=1)
    print("MANIFEST.json:", len(checks), "checks,", len(na), "not_applicable")

main()
