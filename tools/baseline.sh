#!/bin/bash
# Runs the repository's pinned baseline suite with the verif guard OFF and compares the
# set of passing tests with BASELINE.json's stable_pass. Exit 0 iff every stable_pass test passed.
# (No GOSUMDB=off / GOTOOLCHAIN=local here: inside /repo go must auto-switch to the cached go1.24.0.)
export GOPROXY=off
unset GOFLAGS GOSUMDB GOTOOLCHAIN
OUT=${1:-/tmp/verif-baseline.$$.json}
: > "$OUT"
. /w/out/goenv.sh
for m in $(cat /w/out/gomods.txt); do
  MF=$(cd /repo/$m && gomodflag)
  (cd /repo/$m && go test $MF -json -vet=off -count=1 -timeout 25m ./... 2>/dev/null) >> "$OUT"
done
python3 - "$OUT" <<'PY'
import json,sys
passed=set()
for l in open(sys.argv[1]):
    try: e=json.loads(l)
    except Exception: continue
    if e.get('Action')=='pass' and e.get('Test'):
        passed.add(e['Package']+'::'+e['Test'])
b=json.load(open('/root/.vp/BASELINE.json'))
missing=[t for t in b['stable_pass'] if t not in passed]
print("baseline: stable_pass=%d passed_now=%d missing=%d"%(len(b['stable_pass']),len(passed),len(missing)))
for t in missing[:40]: print("  MISSING",t)
sys.exit(1 if missing else 0)
PY
rc=$?
[ -z "$1" ] && rm -f "$OUT"
exit $rc
