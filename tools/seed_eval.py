#!/usr/bin/env python3
"""Confirm a seeded defect produced by an independent sub-agent and run the checks against it.

usage: seed_eval.py <id> <srcdir> <demo-kind> <demo-target> <prop> [<prop>...]
  <id>          name under /verif/seeded/ (e.g. c13-m1)
  <srcdir>      directory with patch.diff, README.md and the demonstration
  <demo-kind>   test | main
  <demo-target> for test: package dir relative to the repo root + ':' + -run pattern (e.g. os:TestC13M1)
                for main: path of the demo main.go directory relative to <srcdir> (copied to <wt>/demo_seed/)
  <prop>...     property ids whose quick checks are run against the mutated tree

Steps (all on a scratch worktree of /repo's HEAD, removed afterwards; /repo itself is never touched):
  1. demonstration on the clean tree must PASS
  2. apply patch.diff; go build ./... must succeed; root-module tests must pass wherever they pass on HEAD
  3. demonstration must FAIL
  4. each check's quick tier is run with VERIF_REPO=<worktree>; exit codes and signatures are recorded
Writes /verif/seeded/<id>/{patch.diff, demo..., README.md, meta.json}.
"""
import json, os, shutil, subprocess, sys, hashlib, re

def sh(cmd, cwd=None, env=None, timeout=3600):
    e = dict(os.environ)
    if env:
        e.update(env)
    r = subprocess.run(cmd, shell=True, cwd=cwd, env=e, capture_output=True, text=True, errors="replace", timeout=timeout)
    return r.returncode, r.stdout + r.stderr

def main():
    sid, src, kind, target = sys.argv[1:5]
    props = sys.argv[5:]
    wt = f"/tmp/wt-seed-{sid}"
    sh(f"git -C /repo worktree remove --force {wt}")
    rc, out = sh(f"git -C /repo worktree add -q {wt} HEAD")
    assert rc == 0, out
    head = sh("git -C /repo rev-parse --short HEAD")[1].strip()
    goenv = {"GOPROXY": "off"}
    for k in ("GOFLAGS", "GOSUMDB", "GOTOOLCHAIN"):
        os.environ.pop(k, None)
    meta = {"id": sid, "repo_head": head, "properties": props, "source": "independent sub-agent (given only the property text and a scratch worktree)"}
    try:
        # install the demonstration
        if kind == "test":
            pkg, pat = target.split(":")
            for f in os.listdir(src):
                if f.endswith("_test.go"):
                    shutil.copy(os.path.join(src, f), os.path.join(wt, pkg, f))
            demo_cmd = f"go test -vet=off -count=1 -run '{pat}' ./{pkg}/"
        else:
            shutil.copytree(os.path.join(src, target), os.path.join(wt, "demo_seed"))
            demo_cmd = "go run ./demo_seed"
        meta["demo_cmd"] = demo_cmd
        rc0, out0 = sh(demo_cmd, cwd=wt, env=goenv)
        meta["demo_on_clean_tree"] = "pass" if rc0 == 0 else "FAIL"
        # suite on clean tree (pass set)
        rcA, outA = sh("go test -vet=off -count=1 ./... 2>&1 | grep -E '^(ok|FAIL|---)' | sort", cwd=wt, env=goenv)
        clean_ok = set(l.split()[1] for l in outA.splitlines() if l.startswith("ok"))
        # apply
        rc, out = sh(f"git apply {os.path.join(src, 'patch.diff')}", cwd=wt)
        if rc != 0:
            rc, out = sh(f"git apply -3 {os.path.join(src, 'patch.diff')}", cwd=wt)
        meta["patch_applies"] = rc == 0
        if rc != 0:
            meta["patch_error"] = out[-500:]
            raise SystemExit("patch does not apply: " + out[-300:])
        rc, out = sh("go build ./...", cwd=wt, env=goenv)
        meta["builds"] = rc == 0
        rcB, outB = sh("go test -vet=off -count=1 ./... 2>&1 | grep -E '^(ok|FAIL|---)' | sort", cwd=wt, env=goenv)
        mut_ok = set(l.split()[1] for l in outB.splitlines() if l.startswith("ok"))
        # the demo test lives in one package: its failure is expected there
        broken = sorted(p for p in clean_ok - mut_ok)
        if kind == "test":
            # re-run that package without the demo test to see whether the EXISTING tests still pass
            pkg = target.split(":")[0]
            moved = []
            for f in os.listdir(src):
                if f.endswith("_test.go"):
                    os.rename(os.path.join(wt, pkg, f), os.path.join(wt, pkg, f + ".off"))
                    moved.append(f)
            rcC, outC = sh(f"go test -vet=off -count=1 ./{pkg}/", cwd=wt, env=goenv)
            for f in moved:
                os.rename(os.path.join(wt, pkg, f + ".off"), os.path.join(wt, pkg, f))
            full = "github.com/risor-io/risor" + ("" if pkg in (".", "") else "/" + pkg)
            if rcC == 0 and full in broken:
                broken.remove(full)
        meta["existing_tests_broken_by_patch"] = broken
        rc1, out1 = sh(demo_cmd, cwd=wt, env=goenv)
        meta["demo_with_patch"] = "fail" if rc1 != 0 else "PASSES (not a demonstration)"
        meta["demo_output_tail"] = out1[-600:]
        # run the checks
        results = {}
        h = hashlib.md5((wt + "\n").encode()).hexdigest()[:8]
        outdir = f"/tmp/verif-out-seed-{sid}"
        for p in props:
            rc, out = sh(f"./run.sh {p} quick", cwd="/verif", env={"VERIF_REPO": wt, "VERIF_OUT": outdir})
            sigs = {}
            for m in re.finditer(r'violations with signature "([^"]+)": (\d+)', out):
                sigs[m.group(1)] = int(m.group(2))
            if not sigs:
                for m in re.finditer(r"^  signature: (.+)$", out, re.M):
                    sigs[m.group(1)] = sigs.get(m.group(1), 0) + 1
            summary = [l for l in out.splitlines() if re.match(r"^C\d\d (quick|thorough)", l)]
            results[p] = {"exit": rc, "signatures": sigs, "summary": summary[-1] if summary else out[-300:]}
        meta["checks"] = results
        meta["detected_by"] = [p for p, r in results.items() if r["exit"] == 1]
        shutil.rmtree(outdir, ignore_errors=True)
        shutil.rmtree(f"/verif/harness/bin-alt-{h}", ignore_errors=True)
    finally:
        sh(f"git -C /repo worktree remove --force {wt}")
    dst = f"/verif/seeded/{sid}"
    os.makedirs(dst, exist_ok=True)
    for f in os.listdir(src):
        s = os.path.join(src, f)
        if os.path.isdir(s):
            shutil.copytree(s, os.path.join(dst, f), dirs_exist_ok=True)
        else:
            shutil.copy(s, os.path.join(dst, f))
    readme = os.path.join(src, "README.md")
    if os.path.exists(readme):
        text = open(readme).read()
        m = re.search(r"(?is)(trigger|manifest)[^\n]*\n(.{0,600})", text)
        meta["needs_to_manifest"] = (m.group(0)[:700] if m else text[:700])
    json.dump(meta, open(os.path.join(dst, "meta.json"), "w"), indent=1)
    print(json.dumps({k: meta[k] for k in ("id", "demo_on_clean_tree", "builds", "existing_tests_broken_by_patch", "demo_with_patch", "detected_by")}, indent=1))
    for p, r in meta.get("checks", {}).items():
        print(p, "exit", r["exit"], list(r["signatures"].items())[:4])

main()
