#!/usr/bin/env python3
"""Re-run checks against an already confirmed seeded defect (/verif/seeded/<id>/patch.diff) and update its meta.json.
usage: seed_rerun.py <id> <prop> [<prop>...]   (scratch worktree of /repo HEAD, removed afterwards)"""
import json, os, re, shutil, subprocess, sys, hashlib

def sh(cmd, cwd=None, env=None):
    e = dict(os.environ); e.update(env or {})
    r = subprocess.run(cmd, shell=True, cwd=cwd, env=e, capture_output=True, text=True, errors="replace")
    return r.returncode, r.stdout + r.stderr

sid, props = sys.argv[1], sys.argv[2:]
dst = f"/verif/seeded/{sid}"
wt = f"/tmp/wt-seed-{sid}"
sh(f"git -C /repo worktree remove --force {wt}")
rc, out = sh(f"git -C /repo worktree add -q {wt} HEAD"); assert rc == 0, out
try:
    rc, out = sh(f"git apply {dst}/patch.diff", cwd=wt)
    if rc != 0:
        rc, out = sh(f"git apply -3 {dst}/patch.diff", cwd=wt)
    assert rc == 0, out
    meta = json.load(open(f"{dst}/meta.json"))
    h = hashlib.md5((wt + "\n").encode()).hexdigest()[:8]
    outdir = f"/tmp/verif-out-seed-{sid}"
    for p in props:
        rc, out = sh(f"./run.sh {p} quick", cwd="/verif", env={"VERIF_REPO": wt, "VERIF_OUT": outdir})
        sigs = {}
        for m in re.finditer(r'violations with signature "([^"]+)": (\d+)', out):
            sigs[m.group(1)] = int(m.group(2))
        if not sigs:
            for m in re.finditer(r"^  signature: (.+)$", out, re.M):
                sigs[m.group(1)] = sigs.get(m.group(1), 0) + 1
        summary = [l for l in out.splitlines() if re.match(r"^C\d\d (quick|thorough)", l)]
        meta.setdefault("checks", {})[p] = {"exit": rc, "signatures": sigs, "summary": summary[-1] if summary else out[-300:]}
        print(p, "exit", rc, list(sigs.items())[:5])
    meta["detected_by"] = [p for p, r in meta["checks"].items() if r["exit"] == 1]
    meta["properties"] = sorted(set(meta.get("properties", [])) | set(props))
    json.dump(meta, open(f"{dst}/meta.json", "w"), indent=1)
    shutil.rmtree(outdir, ignore_errors=True)
    shutil.rmtree(f"/verif/harness/bin-alt-{h}", ignore_errors=True)
finally:
    sh(f"git -C /repo worktree remove --force {wt}")
