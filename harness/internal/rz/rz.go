// Package rz runs source text on the real risor implementation (the code under test) and extracts
// an outcome comparable with the reference interpreter's.
package rz

import (
	"bytes"
	"context"
	"fmt"
	"io/fs"
	"runtime/debug"
	"strings"
	"sync"
	"time"

	"github.com/risor-io/risor"
	"github.com/risor-io/risor/compiler"
	"github.com/risor-io/risor/object"
	ros "github.com/risor-io/risor/os"
	"github.com/risor-io/risor/parser"
	"github.com/risor-io/risor/vm"

	"verif/internal/gen"
)

// OutFile is an in-memory ros.File that collects writes (used as the virtual stdout).
type OutFile struct {
	mu  sync.Mutex
	buf bytes.Buffer
}

func (f *OutFile) Write(p []byte) (int, error) {
	f.mu.Lock()
	defer f.mu.Unlock()
	return f.buf.Write(p)
}
func (f *OutFile) Read(p []byte) (int, error) { return 0, fmt.Errorf("not readable") }
func (f *OutFile) Close() error               { return nil }
func (f *OutFile) Stat() (fs.FileInfo, error) { return nil, fmt.Errorf("no stat") }
func (f *OutFile) String() string {
	f.mu.Lock()
	defer f.mu.Unlock()
	return f.buf.String()
}

// Opts configures a real run.
type Opts struct {
	Globals     map[string]any // extra host globals
	GlobalNames []string       // top-level variable names whose final values are wanted
	Timeout     time.Duration  // default 8 s (watchdog; a timeout is reported as Err "timeout")
	Concurrency bool
}

// Result of a real run.
type Result struct {
	gen.Outcome
	Stage   string `json:"stage,omitempty"`    // parse | compile | run: where it failed
	ErrText string `json:"err_text,omitempty"` // the full real error text
	GoPanic string `json:"go_panic,omitempty"` // a Go panic that escaped the embedding API (recovered by the harness)
	FinalSP int    `json:"final_sp"`           // VerifSP after the run (hook)
}

// RenderObj is the typed rendering of a real object, comparable with gen.Render.
func RenderObj(o object.Object) string {
	if o == nil {
		return "<nil-object>"
	}
	switch o.(type) {
	case *object.Function:
		return "function"
	case *object.Builtin:
		return "builtin"
	case *object.Partial:
		return "partial"
	}
	return string(o.Type()) + ":" + o.Inspect()
}

// ClassifyErr maps a real error text to the oracle's error classes.
func ClassifyErr(msg string) string {
	if cat, ok := gen.CategoryOf(msg); ok {
		return cat
	}
	return "user:" + msg
}

// Compiled is the product of the front half of the pipeline.
type Compiled struct {
	Code  *compiler.Code
	Stage string // "" when compiled; else the failing stage
	Err   string
}

func newConfig(ctx context.Context, stdout *OutFile, o Opts) *risor.Config {
	vos := ros.NewVirtualOS(ctx, ros.WithStdout(stdout))
	opts := []risor.Option{risor.WithOS(vos)}
	if o.Concurrency {
		opts = append(opts, risor.WithConcurrency())
	}
	if len(o.Globals) > 0 {
		opts = append(opts, risor.WithGlobals(o.Globals))
	}
	return risor.NewConfig(opts...)
}

// Compile parses and compiles src with the default global names (plus o.Globals).
func Compile(src string, o Opts) (c Compiled) {
	ctx := context.Background()
	cfg := newConfig(ctx, &OutFile{}, o)
	c.Stage = "parse"
	prog, err := parser.Parse(ctx, src)
	if err != nil {
		c.Err = err.Error()
		return
	}
	c.Stage = "compile"
	code, err := compiler.Compile(prog, cfg.CompilerOpts()...)
	if err != nil {
		c.Err = err.Error()
		return
	}
	c.Stage = ""
	c.Code = code
	return
}

// Exec runs compiled code on a fresh VM with fresh default globals, capturing stdout.
func Exec(code *compiler.Code, o Opts) (res Result) {
	if o.Timeout == 0 {
		o.Timeout = 8 * time.Second
	}
	ctx, cancel := context.WithTimeout(context.Background(), o.Timeout)
	defer cancel()
	stdout := &OutFile{}
	defer func() {
		if r := recover(); r != nil {
			res.GoPanic = fmt.Sprintf("%v\n%s", r, debug.Stack())
			res.Out = stdout.String()
		}
	}()
	cfg := newConfig(ctx, stdout, o)
	res.Stage = "run"
	machine := vm.New(code, cfg.VMOpts()...)
	runErr := machine.Run(ctx)
	res.Out = stdout.String()
	res.FinalSP = machine.VerifSP()
	if runErr != nil {
		res.ErrText = runErr.Error()
		if ctx.Err() != nil {
			res.Err = "timeout"
		} else {
			res.Err = ClassifyErr(res.ErrText)
		}
	} else {
		tos, ok := machine.TOS()
		if !ok || tos == nil {
			res.Result = "<no-result>"
		} else {
			res.Result = RenderObj(tos)
		}
		res.Stage = ""
	}
	res.Globals = map[string]string{}
	for _, name := range o.GlobalNames {
		v, err := machine.Get(name)
		if err == nil && v != nil {
			res.Globals[name] = RenderObj(v)
		}
	}
	return
}

// Run parses, compiles and runs src on a fresh VM with the default globals, capturing stdout.
func Run(src string, o Opts) (res Result) {
	var c Compiled
	func() {
		defer func() {
			if r := recover(); r != nil {
				res.GoPanic = fmt.Sprintf("%v\n%s", r, debug.Stack())
			}
		}()
		c = Compile(src, o)
	}()
	if res.GoPanic != "" {
		res.Stage = "parse-or-compile"
		return
	}
	if c.Code == nil {
		res.Stage = c.Stage
		res.ErrText = c.Err
		res.Err = ClassifyErr(c.Err)
		return
	}
	return Exec(c.Code, o)
}

// Diff compares a model outcome with a real result; "" means they agree.
func Diff(want gen.Outcome, got Result) string {
	var d []string
	if got.GoPanic != "" {
		d = append(d, "go panic escaped: "+firstLine(got.GoPanic))
	}
	if want.Err != got.Err {
		d = append(d, fmt.Sprintf("error: model %q, real %q (%s)", want.Err, got.Err, got.ErrText))
	}
	if want.Err == "" && got.Err == "" && want.Result != got.Result {
		d = append(d, fmt.Sprintf("result: model %s, real %s", want.Result, got.Result))
	}
	if want.Out != got.Out {
		d = append(d, fmt.Sprintf("printed output: model %q, real %q", want.Out, got.Out))
	}
	for name, w := range want.Globals {
		g, ok := got.Globals[name]
		if !ok {
			continue // not requested / not retrievable
		}
		if g != w {
			d = append(d, fmt.Sprintf("global %s: model %s, real %s", name, w, g))
		}
	}
	return strings.Join(d, "\n")
}

func firstLine(s string) string {
	if i := strings.IndexByte(s, '\n'); i >= 0 {
		return s[:i]
	}
	return s
}
