// Package eng holds what the engine-based checks (C01, C04, C05, C17, C18, C20) share: deterministic
// program generation from (seed, index), model evaluation with panic capture, signatures.
package eng

import (
	"fmt"
	"sort"
	"strings"

	"verif/internal/gen"
	"verif/internal/mon"
)

// Batch identifies a deterministic list of generated programs.
type Batch struct {
	Seed         uint64 `json:"seed"`
	From         int    `json:"from"`
	N            int    `json:"n"`
	Size         int    `json:"size"`
	Mix          int    `json:"mix"` // -1 = rotate through the mixes
	NoFail       bool   `json:"no_fail,omitempty"`
	NoForwardRef bool   `json:"no_forward_ref,omitempty"`
}

// Program generates program number i of the batch's stream.
func (b Batch) Program(i int) (*gen.Program, *gen.Gen) {
	r := mon.NewRand(b.Seed).SplitN(i)
	m := gen.Mix(i % 4)
	if b.Mix >= 0 {
		m = gen.Mix(b.Mix)
	}
	g := gen.NewGen(r, m)
	g.NoFail = b.NoFail
	g.NoForwardRef = b.NoForwardRef
	size := b.Size
	if size == 0 {
		size = 40 + (i%5)*15
	}
	return g.Program(size), g
}

// Model runs the reference interpreter; ok=false when the program is undecided (discarded).
// A Go panic inside the model is a harness bug and is returned as err.
func Model(p *gen.Program) (out gen.Outcome, in *gen.Interp, ok bool, err error) {
	in = gen.NewInterp()
	defer func() {
		if r := recover(); r != nil {
			err = fmt.Errorf("model panic: %v", r)
			ok = false
		}
	}()
	out, ok = in.Run(p)
	return
}

// FeatureSig is a canonical string of the construct kinds of a program plus its deepest nesting chain.
func FeatureSig(p *gen.Program) string {
	kinds, deepest := gen.Features(p)
	keys := make([]string, 0, len(kinds))
	for k := range kinds {
		keys = append(keys, k)
	}
	sort.Strings(keys)
	return strings.Join(keys, ",") + "|" + deepest
}

// GlobalNames lists the names of a model outcome's globals.
func GlobalNames(o gen.Outcome) []string {
	names := make([]string, 0, len(o.Globals))
	for k := range o.Globals {
		names = append(names, k)
	}
	sort.Strings(names)
	return names
}
