// Package porc pins the porcupine dependency (linearizability checker used by C10).
package porc

import "github.com/anishathalye/porcupine"

// Model is re-exported so that go.mod/go.sum keep the module even before C10 uses it.
type Model = porcupine.Model
