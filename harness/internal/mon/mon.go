// Package mon is the shared monitor runtime of the /verif harness: deterministic PRNG,
// three-valued verdicts, known-findings matching, evidence files, and isolated worker
// processes (a batch of cases per child process, "BEGIN <case>" logged before each case so
// that a process death can be attributed to the case that caused it).
package mon

import (
	"encoding/json"
	"fmt"
	"os"
	"path/filepath"
	"sort"
	"strconv"
	"strings"
	"sync"
	"time"
)

// ---------------------------------------------------------------------------------------
// PRNG (splitmix64; splittable by label so that every case list is a function of the seed)

type Rand struct{ s uint64 }

func NewRand(seed uint64) *Rand { return &Rand{s: seed*0x9E3779B97F4A7C15 + 0x1234567} }

func (r *Rand) Uint64() uint64 {
	r.s += 0x9E3779B97F4A7C15
	z := r.s
	z = (z ^ (z >> 30)) * 0xBF58476D1CE4E5B9
	z = (z ^ (z >> 27)) * 0x94D049BB133111EB
	return z ^ (z >> 31)
}

// Split derives an independent stream from this one and a label.
func (r *Rand) Split(label string) *Rand {
	h := uint64(1469598103934665603)
	for i := 0; i < len(label); i++ {
		h ^= uint64(label[i])
		h *= 1099511628211
	}
	return &Rand{s: r.s ^ (h * 0x9E3779B97F4A7C15)}
}

// SplitN derives an independent stream from this one and an index.
func (r *Rand) SplitN(i int) *Rand {
	x := &Rand{s: r.s ^ (uint64(i)+1)*0xD6E8FEB86659FD93}
	x.Uint64()
	return x
}

func (r *Rand) Intn(n int) int {
	if n <= 0 {
		return 0
	}
	return int(r.Uint64() % uint64(n))
}

// Range returns an int in [lo, hi].
func (r *Rand) Range(lo, hi int) int {
	if hi <= lo {
		return lo
	}
	return lo + r.Intn(hi-lo+1)
}

func (r *Rand) Bool() bool { return r.Uint64()&1 == 1 }

// Chance returns true with probability num/den.
func (r *Rand) Chance(num, den int) bool { return r.Intn(den) < num }

func (r *Rand) Float64() float64 { return float64(r.Uint64()>>11) / (1 << 53) }

func (r *Rand) Perm(n int) []int {
	p := make([]int, n)
	for i := range p {
		p[i] = i
	}
	for i := n - 1; i > 0; i-- {
		j := r.Intn(i + 1)
		p[i], p[j] = p[j], p[i]
	}
	return p
}

func Pick[T any](r *Rand, xs []T) T { return xs[r.Intn(len(xs))] }

// ---------------------------------------------------------------------------------------
// Known findings

type Finding struct {
	Property    string `json:"property"`
	ID          string `json:"id"`
	Signature   string `json:"signature"` // exact signature string produced by the check's oracle
	Description string `json:"description"`
	Witness     string `json:"witness,omitempty"`
}

type KnownFile struct {
	Findings []Finding `json:"findings"`
	Fixed    []string  `json:"fixed"`
}

func LoadKnown(verifDir string) (*KnownFile, error) {
	b, err := os.ReadFile(filepath.Join(verifDir, "known_findings.json"))
	if err != nil {
		if os.IsNotExist(err) {
			return &KnownFile{}, nil
		}
		return nil, err
	}
	var k KnownFile
	if err := json.Unmarshal(b, &k); err != nil {
		return nil, err
	}
	return &k, nil
}

// ---------------------------------------------------------------------------------------
// Driver: verdict bookkeeping + evidence

type Driver struct {
	Prop     string
	Tier     string // quick | thorough
	IsReplay bool   // re-run of one stored case: its evidence goes to evidence/replay/, not over the check's own
	Seed     int64
	VerifDir string
	Scratch  string // removed at the end
	Level    string
	Rule     string
	Assume   []string

	mu            sync.Mutex
	start         time.Time
	evaluations   int64
	distinct      map[string]struct{}
	samples       []any
	maxSamples    int
	events        map[string]int64
	extra         map[string]any
	violations    int
	violationSigs map[string]int
	knownHits     map[string]int
	inconclusive  int
	inconcNotes   []string
	known         *KnownFile
	firstReplay   string
	fatalNote     string
}

func NewDriver(prop, tier string, seed int64, verifDir string) (*Driver, error) {
	k, err := LoadKnown(verifDir)
	if err != nil {
		return nil, fmt.Errorf("known_findings.json: %w", err)
	}
	scratch, err := os.MkdirTemp("", "verif-"+prop+"-")
	if err != nil {
		return nil, err
	}
	return &Driver{
		Prop: prop, Tier: tier, Seed: seed, VerifDir: verifDir, Scratch: scratch,
		Level: "exploration", start: time.Now(),
		distinct: map[string]struct{}{}, events: map[string]int64{}, extra: map[string]any{},
		violationSigs: map[string]int{}, knownHits: map[string]int{}, known: k, maxSamples: 5,
	}, nil
}

// OutDir is where evidence and replay files go: VERIF_OUT when set (development runs against a
// scratch copy of the repository), else the verif directory itself.
func (d *Driver) OutDir() string {
	if o := os.Getenv("VERIF_OUT"); o != "" {
		return o
	}
	return d.VerifDir
}

func (d *Driver) Rand(label string) *Rand {
	return NewRand(uint64(d.Seed)).Split(d.Prop).Split(label)
}

func (d *Driver) Thorough() bool { return d.Tier == "thorough" }

// N picks the quick or thorough size.
func (d *Driver) N(quick, thorough int) int {
	if d.Thorough() {
		return thorough
	}
	return quick
}

func (d *Driver) Eval(n int) {
	d.mu.Lock()
	d.evaluations += int64(n)
	d.mu.Unlock()
}

// Distinct records a distinct non-trivial case key.
func (d *Driver) Distinct(key string) {
	d.mu.Lock()
	d.distinct[key] = struct{}{}
	d.mu.Unlock()
}

func (d *Driver) DistinctCount() int {
	d.mu.Lock()
	defer d.mu.Unlock()
	return len(d.distinct)
}

func (d *Driver) Event(kind string, n int) {
	d.mu.Lock()
	d.events[kind] += int64(n)
	d.mu.Unlock()
}

func (d *Driver) EventCount(kind string) int64 {
	d.mu.Lock()
	defer d.mu.Unlock()
	return d.events[kind]
}

func (d *Driver) Sample(s any) {
	d.mu.Lock()
	if len(d.samples) < d.maxSamples {
		d.samples = append(d.samples, s)
	}
	d.mu.Unlock()
}

// SampleEvery keeps a sample when fewer than max are kept, preferring spread: callers pass
// an index and the sample is kept when idx%stride==0.
func (d *Driver) SampleAt(idx, stride int, s any) {
	if stride <= 0 || idx%stride == 0 {
		d.Sample(s)
	}
}

func (d *Driver) Extra(key string, v any) {
	d.mu.Lock()
	d.extra[key] = v
	d.mu.Unlock()
}

func (d *Driver) Inconclusive(note string) {
	d.mu.Lock()
	d.inconclusiveLocked(note)
	d.mu.Unlock()
}

func (d *Driver) inconclusiveLocked(note string) {
	d.inconclusive++
	if len(d.inconcNotes) < 20 {
		d.inconcNotes = append(d.inconcNotes, note)
	}
}

// Fatal marks the whole run as unusable (exit 3) without claiming a violation.
func (d *Driver) Fatal(note string) {
	d.mu.Lock()
	if d.fatalNote == "" {
		d.fatalNote = note
	}
	d.mu.Unlock()
}

// Violation reports a violation with a machine-checkable signature. If the signature is a
// listed known finding it is counted (a KNOWN-FINDING line is printed at the end); otherwise a
// replay file is written and a VIOLATION line printed.
func (d *Driver) Violation(signature, detail string, replay any) {
	d.mu.Lock()
	defer d.mu.Unlock()
	for _, f := range d.known.Findings {
		if f.Property == d.Prop && f.Signature == signature {
			d.knownHits[f.ID]++
			return
		}
	}
	d.violations++
	d.violationSigs[signature]++
	if d.violationSigs[signature] > 3 || d.violations > 25 {
		return // do not flood; the first ones carry the witnesses
	}
	dir := filepath.Join(d.OutDir(), "replays", d.Prop)
	_ = os.MkdirAll(dir, 0o755)
	name := fmt.Sprintf("%s-seed%d-%d.json", d.Tier, d.Seed, d.violations)
	path := filepath.Join(dir, name)
	body, _ := json.MarshalIndent(map[string]any{
		"property": d.Prop, "signature": signature, "detail": detail, "seed": d.Seed, "tier": d.Tier,
		"case": replay,
	}, "", " ")
	_ = os.WriteFile(path, body, 0o644)
	if d.firstReplay == "" {
		d.firstReplay = path
	}
	fmt.Printf("VIOLATION property=%s replay=%s\n", d.Prop, path)
	fmt.Printf("  signature: %s\n", signature)
	for _, l := range strings.Split(truncate(detail, 4000), "\n") {
		fmt.Printf("  | %s\n", l)
	}
}

func truncate(s string, n int) string {
	if len(s) <= n {
		return s
	}
	return s[:n] + fmt.Sprintf("… (%d more bytes)", len(s)-n)
}

func Truncate(s string, n int) string { return truncate(s, n) }

// Finish writes the evidence file, prints the summary and returns the process exit code.
// minEvaluations / minDistinct: a run that observed less is inconclusive (exit 3).
func (d *Driver) Finish(minEvaluations, minDistinct int) int {
	d.mu.Lock()
	defer d.mu.Unlock()
	defer os.RemoveAll(d.Scratch)

	// KNOWN-FINDING lines
	ids := make([]string, 0, len(d.knownHits))
	for id := range d.knownHits {
		ids = append(ids, id)
	}
	sort.Strings(ids)
	for _, id := range ids {
		for _, f := range d.known.Findings {
			if f.ID == id && f.Property == d.Prop {
				fmt.Printf("KNOWN-FINDING: property=%s %s: %s (observed %d times this run)\n", d.Prop, f.ID, f.Description, d.knownHits[id])
			}
		}
	}
	var notSeen []string
	for _, f := range d.known.Findings {
		if f.Property == d.Prop && d.knownHits[f.ID] == 0 {
			notSeen = append(notSeen, f.ID)
		}
	}

	cov := map[string]any{
		"evaluations":         d.evaluations,
		"distinct_nontrivial": len(d.distinct),
		"rule":                d.Rule,
		"samples":             d.samples,
		"events":              d.events,
		"inconclusive_cases":  d.inconclusive,
	}
	if len(d.inconcNotes) > 0 {
		cov["inconclusive_notes"] = d.inconcNotes
	}
	if len(d.knownHits) > 0 {
		cov["known_findings_observed"] = d.knownHits
	}
	if len(notSeen) > 0 {
		cov["known_findings_not_reproduced_this_run"] = notSeen
	}
	if len(d.violationSigs) > 0 {
		cov["violation_signatures"] = d.violationSigs
	}
	for k, v := range d.extra {
		cov[k] = v
	}
	if d.samples == nil {
		cov["samples"] = []any{}
	}
	ev := map[string]any{
		"property_id": d.Prop,
		"tier":        d.Tier,
		"seed":        d.Seed,
		"level":       d.Level,
		"coverage":    cov,
		"assumptions": d.Assume,
		"wall_s":      time.Since(d.start).Seconds(),
		"violations":  d.violations,
	}
	if d.Assume == nil {
		ev["assumptions"] = []string{}
	}
	body, _ := json.MarshalIndent(ev, "", " ")
	evDir := filepath.Join(d.OutDir(), "evidence")
	if d.IsReplay {
		evDir = filepath.Join(d.OutDir(), "replays", "evidence")
	}
	_ = os.MkdirAll(evDir, 0o755)
	_ = os.WriteFile(filepath.Join(evDir, d.Prop+".json"), body, 0o644)

	evKinds := make([]string, 0, len(d.events))
	for k := range d.events {
		evKinds = append(evKinds, k)
	}
	sort.Strings(evKinds)
	var evs []string
	for _, k := range evKinds {
		evs = append(evs, k+"="+strconv.FormatInt(d.events[k], 10))
	}
	fmt.Printf("%s %s seed=%d: evaluations=%d distinct_nontrivial=%d violations=%d known=%d inconclusive=%d wall=%.1fs\n",
		d.Prop, d.Tier, d.Seed, d.evaluations, len(d.distinct), d.violations, len(d.knownHits), d.inconclusive, time.Since(d.start).Seconds())
	if len(evs) > 0 {
		fmt.Printf("  events: %s\n", strings.Join(evs, " "))
	}
	if d.violations > 0 {
		sigs := make([]string, 0, len(d.violationSigs))
		for k := range d.violationSigs {
			sigs = append(sigs, k)
		}
		sort.Strings(sigs)
		for _, k := range sigs {
			fmt.Printf("  violations with signature %q: %d\n", k, d.violationSigs[k])
		}
		return 1
	}
	if d.fatalNote != "" {
		fmt.Printf("INCONCLUSIVE property=%s: %s\n", d.Prop, d.fatalNote)
		return 3
	}
	if d.evaluations < int64(minEvaluations) || len(d.distinct) < minDistinct {
		fmt.Printf("INCONCLUSIVE property=%s: observed too little (evaluations=%d < %d or distinct=%d < %d)\n",
			d.Prop, d.evaluations, minEvaluations, len(d.distinct), minDistinct)
		return 3
	}
	return 0
}

// ---------------------------------------------------------------------------------------
// Registry of per-property checks

// Prop is one property's check: Drive plans the cases, runs them (usually through RunPool),
// judges them and returns the exit code from Finish. replay != "" means: run only the case
// stored in that replay file.
type Prop struct {
	ID    string
	Drive func(d *Driver, replay string) int
}

var props = map[string]*Prop{}

func Register(p *Prop) { props[p.ID] = p }

func Lookup(id string) *Prop { return props[id] }

// LoadReplay reads the "case" member of a replay file.
func LoadReplay(path string, into any) error {
	b, err := os.ReadFile(path)
	if err != nil {
		return err
	}
	var w struct {
		Case json.RawMessage `json:"case"`
	}
	if err := json.Unmarshal(b, &w); err != nil {
		return err
	}
	return json.Unmarshal(w.Case, into)
}
