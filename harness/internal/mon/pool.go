package mon

import (
	"bufio"
	"bytes"
	"encoding/json"
	"fmt"
	"os"
	"os/exec"
	"path/filepath"
	"runtime"
	"runtime/debug"
	"strings"
	"sync"
	"syscall"
	"time"
)

// Case is one unit of work handed to a worker process.
type Case struct {
	ID   string          `json:"id"`
	Kind string          `json:"kind"`
	Data json.RawMessage `json:"data"`
}

func NewCase(id, kind string, data any) Case {
	b, err := json.Marshal(data)
	if err != nil {
		panic(err)
	}
	return Case{ID: id, Kind: kind, Data: b}
}

// Result is what came back for one case.
type Result struct {
	ID     string          `json:"id"`
	Status string          `json:"status"` // done | crash | timeout | lost
	Data   json.RawMessage `json:"data,omitempty"`
	Panic  string          `json:"panic,omitempty"` // harness-level recovered panic in the worker function
	Crash  *CrashInfo      `json:"crash,omitempty"`
}

type CrashInfo struct {
	Exit       string `json:"exit"`
	FatalLine  string `json:"fatal_line"`
	StderrTail string `json:"stderr_tail"`
	Confirmed  bool   `json:"confirmed"` // reproduced when re-run alone
	BatchDir   string `json:"-"`
}

// WorkerFunc runs one case inside the worker process and returns a JSON-marshalable value.
type WorkerFunc func(kind string, data json.RawMessage) any

var workers = map[string]WorkerFunc{}

func RegisterWorker(prop string, f WorkerFunc) { workers[prop] = f }

// WorkerMain is the entry point of `vcheck worker <prop> <in> <out> <log>`.
func WorkerMain(args []string) int {
	if len(args) != 4 {
		fmt.Fprintln(os.Stderr, "usage: worker <prop> <in> <out> <log>")
		return 2
	}
	prop, in, out, logp := args[0], args[1], args[2], args[3]
	f := workers[prop]
	if f == nil {
		fmt.Fprintln(os.Stderr, "no worker for", prop)
		return 2
	}
	inf, err := os.Open(in)
	if err != nil {
		fmt.Fprintln(os.Stderr, err)
		return 2
	}
	defer inf.Close()
	outf, err := os.OpenFile(out, os.O_CREATE|os.O_WRONLY|os.O_APPEND, 0o644)
	if err != nil {
		fmt.Fprintln(os.Stderr, err)
		return 2
	}
	defer outf.Close()
	logf, err := os.OpenFile(logp, os.O_CREATE|os.O_WRONLY|os.O_APPEND, 0o644)
	if err != nil {
		fmt.Fprintln(os.Stderr, err)
		return 2
	}
	defer logf.Close()
	sc := bufio.NewScanner(inf)
	sc.Buffer(make([]byte, 1<<20), 1<<30)
	for sc.Scan() {
		var c Case
		if err := json.Unmarshal(sc.Bytes(), &c); err != nil {
			fmt.Fprintln(os.Stderr, "bad case line:", err)
			return 2
		}
		fmt.Fprintf(logf, "BEGIN %s\n", c.ID)
		res := runOne(f, c)
		b, err := json.Marshal(res)
		if err != nil {
			b, _ = json.Marshal(Result{ID: c.ID, Status: "done", Panic: "harness: result not marshalable: " + err.Error()})
		}
		outf.Write(append(b, '\n'))
	}
	return 0
}

func runOne(f WorkerFunc, c Case) (res Result) {
	res = Result{ID: c.ID, Status: "done"}
	defer func() {
		if r := recover(); r != nil {
			res.Panic = fmt.Sprintf("%v\n%s", r, debug.Stack())
		}
	}()
	v := f(c.Kind, c.Data)
	b, err := json.Marshal(v)
	if err != nil {
		res.Panic = "harness: result not marshalable: " + err.Error()
		return
	}
	res.Data = b
	return
}

// PoolOpts configures RunPool.
type PoolOpts struct {
	Binary       string        // worker binary; default: this executable
	BatchSize    int           // cases per process (default 200)
	Parallel     int           // concurrent processes (default NumCPU)
	BatchTimeout time.Duration // wall-clock watchdog per process (default 120 s); firing is inconclusive unless it repeats
	Env          []string      // extra environment
	// Wrap, if set, returns the argv prefix that wraps the worker (e.g. strace …) given the batch dir.
	Wrap func(batchDir string) []string
	// AfterBatch is called (serialised) after each worker process ended, before its directory is removed.
	AfterBatch func(batchDir string, cases []Case)
	KeepDirs   bool
	// NoRetry: do not re-run a suspect alone (used when a case is its own process anyway).
	NoRetry bool
	// OnUnconfirmed is called when a case killed/hung its batch process but ran fine alone.
	// Default: counted as inconclusive.
	OnUnconfirmed func(c Case, prev *CrashInfo)
}

type batch struct {
	cases   []Case
	suspect bool // single suspect re-run
	prev    *CrashInfo
}

// RunPool runs all cases in isolated worker processes and calls handle (serialised) for each.
func (d *Driver) RunPool(cases []Case, o PoolOpts, handle func(Case, Result)) {
	if o.BatchSize <= 0 {
		o.BatchSize = 200
	}
	if o.Parallel <= 0 {
		o.Parallel = runtime.NumCPU()
	}
	if o.BatchTimeout <= 0 {
		o.BatchTimeout = 120 * time.Second
	}
	if o.Binary == "" {
		o.Binary, _ = os.Executable()
	}
	var mu sync.Mutex // serialises handle / AfterBatch
	var qmu sync.Mutex
	var queue []batch
	pending := 0
	cond := sync.NewCond(&qmu)
	for i := 0; i < len(cases); i += o.BatchSize {
		j := i + o.BatchSize
		if j > len(cases) {
			j = len(cases)
		}
		queue = append(queue, batch{cases: cases[i:j]})
	}
	pending = len(queue)
	var seq int
	var wg sync.WaitGroup
	for w := 0; w < o.Parallel; w++ {
		wg.Add(1)
		go func() {
			defer wg.Done()
			for {
				qmu.Lock()
				for len(queue) == 0 && pending > 0 {
					cond.Wait()
				}
				if pending == 0 && len(queue) == 0 {
					qmu.Unlock()
					cond.Broadcast()
					return
				}
				b := queue[0]
				queue = queue[1:]
				seq++
				n := seq
				qmu.Unlock()

				more := d.runBatch(n, b, o, &mu, handle)

				qmu.Lock()
				queue = append(queue, more...)
				pending += len(more) - 1
				qmu.Unlock()
				cond.Broadcast()
			}
		}()
	}
	wg.Wait()
}

func (d *Driver) runBatch(n int, b batch, o PoolOpts, mu *sync.Mutex, handle func(Case, Result)) []batch {
	dir := filepath.Join(d.Scratch, fmt.Sprintf("b%06d", n))
	_ = os.MkdirAll(dir, 0o755)
	if !o.KeepDirs {
		defer os.RemoveAll(dir)
	}
	in := filepath.Join(dir, "in.jsonl")
	out := filepath.Join(dir, "out.jsonl")
	logp := filepath.Join(dir, "log.txt")
	var buf bytes.Buffer
	for _, c := range b.cases {
		line, _ := json.Marshal(c)
		buf.Write(line)
		buf.WriteByte('\n')
	}
	_ = os.WriteFile(in, buf.Bytes(), 0o644)

	argv := []string{}
	if o.Wrap != nil {
		argv = append(argv, o.Wrap(dir)...)
	}
	argv = append(argv, o.Binary, "worker", d.Prop, in, out, logp)
	cmd := exec.Command(argv[0], argv[1:]...)
	cmd.Env = append(os.Environ(), o.Env...)
	cmd.Env = append(cmd.Env, "VERIF_BATCH_DIR="+dir)
	cmd.Dir = dir
	stdout, _ := os.Create(filepath.Join(dir, "stdout.txt"))
	stderr, _ := os.Create(filepath.Join(dir, "stderr.txt"))
	cmd.Stdout, cmd.Stderr = stdout, stderr
	cmd.SysProcAttr = &syscall.SysProcAttr{Setpgid: true}
	timedOut := false
	var exitDesc string
	if err := cmd.Start(); err != nil {
		exitDesc = "start failed: " + err.Error()
	} else {
		done := make(chan error, 1)
		go func() { done <- cmd.Wait() }()
		timeout := o.BatchTimeout
		select {
		case err := <-done:
			if err != nil {
				exitDesc = err.Error()
			}
		case <-time.After(timeout):
			timedOut = true
			_ = syscall.Kill(-cmd.Process.Pid, syscall.SIGQUIT)
			select {
			case <-done:
			case <-time.After(10 * time.Second):
				_ = syscall.Kill(-cmd.Process.Pid, syscall.SIGKILL)
				<-done
			}
			exitDesc = "watchdog timeout"
		}
	}
	stdout.Close()
	stderr.Close()

	results := map[string]Result{}
	if f, err := os.Open(out); err == nil {
		sc := bufio.NewScanner(f)
		sc.Buffer(make([]byte, 1<<20), 1<<30)
		for sc.Scan() {
			var r Result
			if json.Unmarshal(sc.Bytes(), &r) == nil && r.ID != "" {
				results[r.ID] = r
			}
		}
		f.Close()
	}
	begun := map[string]bool{}
	if lb, err := os.ReadFile(logp); err == nil {
		for _, l := range strings.Split(string(lb), "\n") {
			if strings.HasPrefix(l, "BEGIN ") {
				begun[strings.TrimPrefix(l, "BEGIN ")] = true
			}
		}
	}

	mu.Lock()
	defer mu.Unlock()
	if o.AfterBatch != nil {
		o.AfterBatch(dir, b.cases)
	}
	var more []batch
	var rest []Case
	suspectSeen := false
	if b.suspect && len(b.cases) == 1 {
		if _, ok := results[b.cases[0].ID]; ok && b.prev != nil {
			// failed inside a batch, fine alone: not reproducible
			if o.OnUnconfirmed != nil {
				o.OnUnconfirmed(b.cases[0], b.prev)
			} else {
				d.Inconclusive("worker died or hung in case " + b.cases[0].ID + " but not when re-run alone: " + b.prev.Exit + " " + b.prev.FatalLine)
			}
		}
	}
	for _, c := range b.cases {
		if r, ok := results[c.ID]; ok {
			handle(c, r)
			continue
		}
		if !suspectSeen && exitDesc != "" {
			// first case without a result: the one the process died in (or was stuck in)
			suspectSeen = true
			tailB, _ := os.ReadFile(filepath.Join(dir, "stderr.txt"))
			ci := &CrashInfo{Exit: exitDesc, FatalLine: fatalLine(string(tailB)), StderrTail: headTail(string(tailB), 6000)}
			status := "crash"
			if timedOut {
				status = "timeout"
			}
			switch {
			case b.suspect:
				ci.Confirmed = true
				handle(c, Result{ID: c.ID, Status: status, Crash: ci})
			case o.NoRetry:
				handle(c, Result{ID: c.ID, Status: status, Crash: ci})
			default:
				more = append(more, batch{cases: []Case{c}, suspect: true, prev: ci})
			}
			continue
		}
		rest = append(rest, c)
	}
	if len(rest) > 0 {
		if !suspectSeen {
			// worker exited normally but produced no result for these: harness problem
			for _, c := range rest {
				handle(c, Result{ID: c.ID, Status: "lost"})
			}
		} else {
			more = append(more, batch{cases: rest})
		}
	}
	_ = begun
	return more
}

func fatalLine(s string) string {
	for _, l := range strings.Split(s, "\n") {
		if strings.HasPrefix(l, "fatal error:") || strings.HasPrefix(l, "panic:") || strings.HasPrefix(l, "runtime: ") ||
			strings.HasPrefix(l, "SIGSEGV") || strings.HasPrefix(l, "SIGQUIT") {
			return l
		}
	}
	return ""
}

func headTail(s string, n int) string {
	if len(s) <= n {
		return s
	}
	return s[:n/2] + "\n…\n" + s[len(s)-n/2:]
}
