package props

import "verif/internal/props/c10"

func init() { registrars = append(registrars, c10.Register) }
