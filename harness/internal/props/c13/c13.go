// Package c13: rooted filesystems and mounts cannot be escaped by any path string.
//
// Two halves, both driven by the same exhaustive enumeration of path strings (paths.go):
//
//	(a) lfs.go    os/localfs rooted at a base directory inside a real tree of sentinels; effect,
//	              read and host-path monitors after every operation, plus strace on a sample
//	              (strace.go);
//	(b) vos.go    os.VirtualOS over recording filesystems, judged by a small reference resolver.
package c13

import (
	"encoding/json"
	"fmt"
	"os"
	"path/filepath"
	"sort"
	"strconv"
	"strings"
	"time"

	"verif/internal/mon"
)

const ID = "C13"

func Register() {
	mon.Register(&mon.Prop{ID: ID, Drive: drive})
	mon.RegisterWorker(ID, worker)
}

func worker(kind string, data json.RawMessage) any {
	switch kind {
	case "lfs":
		return runLfs(decodeLfs(data))
	case "vos":
		return runVos(decodeVos(data))
	}
	panic("c13: unknown case kind " + kind)
}

// replayCase is what a violation's replay file carries.
type replayCase struct {
	Half string   `json:"half"` // lfs | vos
	Lfs  *lfsCase `json:"lfs,omitempty"`
	Vos  *vosCase `json:"vos,omitempty"`
}

type planned struct {
	c       mon.Case
	primary bool // counts towards distinct (operation, path) pairs
}

func straceWrap(batchDir string) []string {
	return []string{"strace", "-f", "--seccomp-bpf", "-y", "-qq", "-s", "8192", "-e", "trace=%file", "-o", filepath.Join(batchDir, "strace.txt")}
}

func drive(d *mon.Driver, replay string) int {
	d.Rule = "(operation, path) pair whose lexically cleaned path differs from the raw string, or that leaves the base / cwd lexically; operations are the 26 localfs operation slots (every FS method, both arguments of Rename/Symlink, MkdirTemp dir and pattern, cp through a virtual OS) and the 19 VirtualOS slots; pairs from the exhaustive path space are counted by the workers (every string is enumerated exactly once), random paths by key"
	d.Assume = []string{
		"following a symlink that already exists inside the base is not a path-string escape; no symlink pointing outside is planted, but Symlink() itself is checked (location and stored target)",
		"operating on the base directory itself (path \"\", \".\", \"/\") is inside the base",
		"cross-mount Rename/Symlink may be refused; relative Chdir semantics are not part of the statement (cwd is set with WithCwd or an absolute Chdir)",
		"the worker chroots into its sentinel tree so that a broken filesystem under test cannot damage the machine; this does not change which host paths the code computes",
	}
	var plan []planned
	var stracePlan []planned

	if replay != "" {
		var rc replayCase
		if err := mon.LoadReplay(replay, &rc); err != nil {
			fmt.Println("cannot load replay:", err)
			return 3
		}
		switch {
		case rc.Half == "lfs" && rc.Lfs != nil && rc.Lfs.Strace:
			stracePlan = append(stracePlan, planned{c: mon.NewCase("replay", "lfs", rc.Lfs)})
		case rc.Half == "lfs" && rc.Lfs != nil:
			plan = append(plan, planned{c: mon.NewCase("replay", "lfs", rc.Lfs)})
		case rc.Half == "vos" && rc.Vos != nil:
			plan = append(plan, planned{c: mon.NewCase("replay", "vos", rc.Vos)})
		default:
			fmt.Println("replay file has no usable case")
			return 3
		}
	} else {
		N := d.N(4, 6)
		ps := newPathSpace(N)
		// (a) localfs, primary base layout: the whole path space
		chunk := d.N(200, 1500)
		for lo := 0; lo < ps.Count(); lo += chunk {
			plan = append(plan, planned{primary: true, c: mon.NewCase(fmt.Sprintf("lfs-clean-%d", lo), "lfs", lfsCase{Base: "clean", N: N, Lo: lo, Hi: lo + chunk})})
		}
		// other spellings of the base: a smaller space
		n2 := d.N(3, 4)
		ps2 := newPathSpace(n2)
		for _, bl := range baseLayouts[1:] {
			for lo := 0; lo < ps2.Count(); lo += chunk {
				plan = append(plan, planned{c: mon.NewCase(fmt.Sprintf("lfs-%s-%d", bl, lo), "lfs", lfsCase{Base: bl, N: n2, Lo: lo, Hi: lo + chunk})})
			}
		}
		// random paths with segments outside the alphabet
		r := d.Rand("random-paths")
		nr := d.N(1200, 20000)
		rp := make([]string, nr)
		for i := range rp {
			rp[i] = randomPath(r)
		}
		rchunk := d.N(100, 500)
		for lo := 0; lo < nr; lo += rchunk {
			hi := min(lo+rchunk, nr)
			bl := baseLayouts[(lo/rchunk)%len(baseLayouts)]
			plan = append(plan, planned{primary: true, c: mon.NewCase(fmt.Sprintf("lfs-random-%d", lo), "lfs", lfsCase{Base: bl, Paths: rp[lo:hi]})})
		}
		// paths into the prefix siblings of the base (names that extend the base's name), every base layout
		sib := siblingPaths()
		for _, bl := range baseLayouts {
			for lo := 0; lo < len(sib); lo += chunk {
				plan = append(plan, planned{primary: true, c: mon.NewCase(fmt.Sprintf("lfs-sibling-%s-%d", bl, lo), "lfs", lfsCase{Base: bl, Paths: sib[lo:min(lo+chunk, len(sib))]})})
			}
		}
		// (b) virtual OS
		vchunk := d.N(400, 3000)
		for lo := 0; lo < ps.Count(); lo += vchunk {
			plan = append(plan, planned{primary: true, c: mon.NewCase(fmt.Sprintf("vos-%d", lo), "vos", vosCase{N: N, Lo: lo, Hi: lo + vchunk})})
		}
		vr := d.N(300, 1000)
		for lo := 0; lo < nr; lo += vr {
			hi := min(lo+vr, nr)
			plan = append(plan, planned{primary: true, c: mon.NewCase(fmt.Sprintf("vos-random-%d", lo), "vos", vosCase{Paths: rp[lo:hi]})})
		}
		// strace sample (seed-determined): 5% of the path space in the thorough tier, a small sample in quick
		rs := d.Rand("strace-sample")
		ns := d.N(480, ps.Count()/20)
		var sp []string
		for len(sp) < ns {
			if s, ok := ps.At(rs.Intn(ps.Count())); ok {
				sp = append(sp, s)
			}
		}
		for i := 0; i < d.N(64, 1000); i++ {
			sp = append(sp, rp[rs.Intn(nr)])
		}
		schunk := d.N(34, 250)
		for lo := 0; lo < len(sp); lo += schunk {
			hi := min(lo+schunk, len(sp))
			bl := baseLayouts[(lo/schunk)%len(baseLayouts)]
			stracePlan = append(stracePlan, planned{c: mon.NewCase(fmt.Sprintf("lfs-strace-%d", lo), "lfs", lfsCase{Base: bl, Paths: sp[lo:hi], Strace: true})})
		}
		d.Extra("path_space_max_segments", N)
		d.Extra("path_space_tuples", ps.Count())
		d.Extra("exhaustive", true)
		d.Extra("exhaustive_scope", fmt.Sprintf("every string over the segment alphabet with 1..%d segments (absolute/relative, with/without trailing separator) x every operation slot, for the localfs base spelled cleanly and for every virtual-OS layout x cwd; the other four spellings of the base use 1..%d segments; random non-alphabet paths and the strace sample are seed-determined samples", N, n2))
	}

	// the workers' sentinel trees live on a tmpfs when there is one (an order of magnitude less system
	// time than the journalled disk), else in the batch directory
	var poolEnv []string
	worlds := ""
	if fi, err := os.Stat("/dev/shm"); err == nil && fi.IsDir() {
		if w, err := os.MkdirTemp("/dev/shm", "verif-c13-"); err == nil {
			worlds = w
			defer os.RemoveAll(w)
			poolEnv = append(poolEnv, "VERIF_C13_WORLDS="+w)
		}
	}
	worldOf := func(batchDir string) string {
		if worlds != "" {
			return filepath.Join(worlds, filepath.Base(batchDir))
		}
		return filepath.Join(batchDir, "t")
	}
	sigCount := map[string]int{}
	knownSig := map[string]bool{}
	if k, err := mon.LoadKnown(d.VerifDir); err == nil {
		for _, f := range k.Findings {
			if f.Property == ID {
				knownSig[f.Signature] = true
			}
		}
	}
	sigExample := map[string]string{}

	// development knob: run only one part of the plan (the result is then inconclusive by construction)
	if only := os.Getenv("VERIF_C13_ONLY"); only != "" && replay == "" {
		var keep []planned
		for _, p := range plan {
			if p.c.Kind == only {
				keep = append(keep, p)
			}
		}
		plan = keep
		if only != "strace" {
			stracePlan = nil
		}
		d.Inconclusive("VERIF_C13_ONLY=" + only + " (development run)")
	}

	primary := map[string]bool{}
	caseIdx := map[string]int{}
	toCases := func(pl []planned) []mon.Case {
		cs := make([]mon.Case, len(pl))
		for i, p := range pl {
			cs[i] = p.c
			primary[p.c.ID] = p.primary
			caseIdx[p.c.ID] = len(caseIdx)
		}
		return cs
	}

	keybuf := make([]byte, 0, 32)
	sampled := map[string]int{}
	var pathStrings int64
	judge := func(c mon.Case, res mon.Result, hits []straceHit, sst *straceStats) {
		var lc lfsCase
		var vc vosCase
		if c.Kind == "lfs" {
			lc = decodeLfs(c.Data)
		} else {
			vc = decodeVos(c.Data)
		}
		if res.Status == "timeout" {
			d.Inconclusive("watchdog timeout in case " + c.ID)
			return
		}
		if res.Status != "done" && lc.Strace {
			// the same paths run untraced in the main pool, where a real crash is attributed; here the
			// likeliest cause is the tracer itself (strace missing, ptrace not permitted)
			note := "strace-wrapped worker did not finish, case " + c.ID
			if res.Crash != nil {
				note += ": " + res.Crash.Exit + " " + mon.Truncate(res.Crash.StderrTail, 300)
			}
			d.Inconclusive(note)
			return
		}
		if res.Status != "done" {
			detail := "worker process died"
			if res.Crash != nil {
				detail = res.Crash.Exit + " " + res.Crash.FatalLine + "\n" + res.Crash.StderrTail
			}
			if res.Status == "lost" {
				d.Inconclusive("no result for case " + c.ID)
				return
			}
			rc := replayCase{Half: c.Kind}
			if c.Kind == "lfs" {
				rc.Lfs = &lc
			} else {
				rc.Vos = &vc
			}
			d.Violation("worker-crash:"+c.Kind, "the process died while exercising the filesystem: "+detail, rc)
			return
		}
		if res.Panic != "" {
			d.Fatal("harness panic in worker, case " + c.ID + ": " + mon.Truncate(res.Panic, 1500))
			return
		}
		var o halfOut
		if err := json.Unmarshal(res.Data, &o); err != nil {
			d.Fatal("bad worker output: " + err.Error())
			return
		}
		d.Eval(int(o.Ops))
		for k, v := range o.Events {
			d.Event(k, int(v))
		}
		d.Event(c.Kind+"-cases", 1)
		if primary[c.ID] {
			pathStrings += o.Paths
			if len(o.Keys) > 0 {
				for _, k := range o.Keys {
					d.Distinct(k)
				}
			} else {
				ci := caseIdx[c.ID]
				for i := int64(0); i < o.NonTrivial; i++ {
					keybuf = strconv.AppendInt(keybuf[:0], int64(ci), 36)
					keybuf = append(keybuf, '#')
					keybuf = strconv.AppendInt(keybuf, i, 36)
					d.Distinct(string(keybuf))
				}
			}
		}
		for _, s := range o.Samples {
			// at most three samples of one half, so that both halves show in the evidence
			if sampled[c.Kind] < 3 && sampled["lfs"]+sampled["vos"] < 5 && (c.Kind == "vos" || sampled["lfs"] < 2 || sampled["vos"] > 0) {
				sampled[c.Kind]++
				d.Sample(s)
			}
		}
		report := func(v viol, strace bool) {
			rc := replayCase{Half: c.Kind}
			if c.Kind == "lfs" {
				rc.Lfs = &lfsCase{Base: lc.Base, Paths: []string{v.Path}, Strace: strace}
				if v.Path == "" && v.Sig == "localfs-escape:unattributed" {
					rc.Lfs = &lc
				}
			} else {
				rc.Vos = &vosCase{Paths: []string{v.Path}, Layout: v.Config, Partner: v.Partner}
			}
			sigCount[v.Sig]++
			if _, ok := sigExample[v.Sig]; !ok {
				sigExample[v.Sig] = v.Detail
			}
			// mon writes replay files for the first 25 violations only: forward two witnesses per
			// signature so that every signature gets one (all occurrences are counted in the summary and
			// in the evidence); occurrences of listed findings are all forwarded (they are only counted)
			if sigCount[v.Sig] > 2 && !knownSig[v.Sig] {
				return
			}
			d.Violation(v.Sig, v.Detail, rc)
		}
		for _, v := range o.Viols {
			report(v, false)
		}
		if sst != nil {
			d.Event("strace-lines", int(sst.Lines))
			d.Event("strace-syscalls-inside-operations", int(sst.InWindow))
			d.Event("strace-path-arguments-checked", int(sst.Paths))
			d.Event("strace-operations-bracketed", int(sst.Marks))
			if int(sst.Marks) != len(o.Marks) {
				d.Inconclusive(fmt.Sprintf("strace saw %d operation markers, the worker made %d (case %s)", sst.Marks, len(o.Marks), c.ID))
			}
			byMark := map[int]markInfo{}
			for _, m := range o.Marks {
				byMark[m.N] = m
			}
			perPath := map[string][]rawViol{}
			var order []string
			for _, h := range hits {
				m, ok := byMark[h.Mark]
				if !ok {
					continue
				}
				if h.Noise {
					d.Event("strace-runtime-noise-ignored", 1)
					continue
				}
				if comps, _, up := components(m.Path); h.ParentDir && m.Slot == "RemoveAll" && len(comps) == 0 && up == 0 {
					// RemoveAll of the base directory itself: Go opens the parent read-only and unlinks "base" in it
					d.Event("strace-parent-dir-open-by-RemoveAll-of-base", 1)
					continue
				}
				s := slotByName(m.Slot)
				if _, ok := perPath[m.Path]; !ok {
					order = append(order, m.Path)
				}
				perPath[m.Path] = append(perPath[m.Path], rawViol{m.Slot, s.group, "syscall", fmt.Sprintf("syscall %s on %q, outside the base %q: %s", h.Syscall, h.Path, o.BasePath, mon.Truncate(h.Line, 300))})
			}
			for _, p := range order {
				for _, v := range foldLfs(lc.Base, p, perPath[p]) {
					report(v, true)
				}
			}
		}
	}

	// strace pool first (small), then the main pool
	if len(stracePlan) > 0 {
		type parsed struct {
			hits []straceHit
			st   straceStats
			err  error
		}
		byCase := map[string]*parsed{}
		d.RunPool(toCases(stracePlan), mon.PoolOpts{BatchSize: 1, BatchTimeout: 15 * time.Minute, Wrap: straceWrap, Env: poolEnv,
			AfterBatch: func(batchDir string, cases []mon.Case) {
				// the worker's world: chroot at worldOf(batch), base /L1/outer/base, cwd /L1/outer
				defer os.RemoveAll(worldOf(batchDir))
				hits, st, err := parseStrace(filepath.Join(batchDir, "strace.txt"), worldOf(batchDir), "/L1/outer/base", "/L1/outer")
				for _, c := range cases {
					byCase[c.ID] = &parsed{hits, st, err}
				}
			}},
			func(c mon.Case, res mon.Result) {
				p := byCase[c.ID]
				if p == nil || p.err != nil {
					d.Inconclusive("no strace output for case " + c.ID)
					judge(c, res, nil, nil)
					return
				}
				judge(c, res, p.hits, &p.st)
			})
		if d.EventCount("strace-operations-bracketed") == 0 && replay == "" {
			d.Inconclusive("strace monitor observed no operation at all")
		}
	}
	if len(plan) > 0 {
		d.RunPool(toCases(plan), mon.PoolOpts{BatchSize: 1, BatchTimeout: 15 * time.Minute, Env: poolEnv,
			AfterBatch: func(batchDir string, cases []mon.Case) { os.RemoveAll(worldOf(batchDir)) }}, func(c mon.Case, res mon.Result) {
			judge(c, res, nil, nil)
		})
	}
	d.Extra("path_strings_enumerated_per_half", pathStrings/2)
	d.Extra("localfs_base_layouts", baseLayouts)
	var ln []string
	for _, l := range layouts {
		ln = append(ln, l.Name+"="+strings.Join(l.Mounts, ","))
	}
	sort.Strings(ln)
	d.Extra("vos_layouts", ln)
	d.Extra("vos_configs", len(allConfigs()))
	if len(sigCount) > 0 {
		var sigs []string
		for s := range sigCount {
			sigs = append(sigs, s)
		}
		sort.Strings(sigs)
		fmt.Println("signatures observed (occurrences; listed findings included):")
		for _, s := range sigs {
			fmt.Printf("  %-70s %d\n", s, sigCount[s])
			if os.Getenv("VERIF_C13_EXAMPLES") != "" {
				for _, l := range strings.Split(mon.Truncate(sigExample[s], 700), "\n") {
					fmt.Printf("      %s\n", l)
				}
			}
		}
		d.Extra("violation_signatures", sigCount)
	}
	if replay != "" {
		return d.Finish(1, 0)
	}
	return d.Finish(d.N(3_000_000, 100_000_000), d.N(100_000, 5_000_000))
}
