package c13

// Half (a): os/localfs rooted at a base directory inside a real tree full of sentinels.
//
// World (the worker process chroots into it, so that even a completely broken filesystem under
// test – think RemoveAll("/") while running as root – can only ever touch this tree):
//
//	/                      sentinel set
//	/L1/                   sentinel set
//	/L1/outer/             sentinel set, slink -> b, hosttmp/ ($TMPDIR), process cwd
//	/L1/outer/base/        the base directory: same names as a sentinel set, "inner" contents
//
// A sentinel set is {a/, a/b, a/a/, a/a/b, b, ..a, a../, a../a, f, d/, é}: the names the enumerated
// paths use, so that a path that leaks out of the base at any level, relative to the process cwd or
// to the (chroot) root hits something that exists. Every sentinel file's content carries the token
// VERIFSENT; every entry's inode is known.
//
// Oracles after every single operation:
//   - effect: every entry outside base has the inode, mode, size, mtime, ctime it had in the snapshot
//     (mtimes are set to 2001, so any write or any entry added to / removed from a directory shows),
//     and the listing of base's parent is unchanged apart from "base"; the full snapshot (contents,
//     link targets, names) is compared whenever that cheap check fails and at the end of each case;
//   - reads: no returned bytes contain VERIFSENT, no returned FileInfo carries an outside inode;
//   - host path: wherever the API hands back the host path it used (File.Name(), the path argument
//     of the WalkDir callback, MkdirTemp's result, the target stored in a created symlink) that path
//     lies in base;
//   - (sampled) strace: see strace.go.

import (
	"context"
	"encoding/json"
	"errors"
	"fmt"
	"io"
	"io/fs"
	"os"
	"path/filepath"
	"sort"
	"strings"
	"syscall"
	"time"

	modos "github.com/risor-io/risor/modules/os"
	"github.com/risor-io/risor/object"
	ros "github.com/risor-io/risor/os"
	"github.com/risor-io/risor/os/localfs"
)

const sentToken = "VERIFSENT"

type entry struct {
	Mode  uint32
	Size  int64
	Mtim  syscall.Timespec
	Ctim  syscall.Timespec
	Ino   uint64
	Data  string // file content, link target, or sorted directory listing
	Loose bool   // times not compared, listing compared without "base" (base's parent)
}

type world struct {
	prefix     string // "" when chrooted
	root       string
	l1         string
	outer      string
	base       string
	hosttmp    string
	snap       map[string]entry
	order      []string
	outsideIno map[uint64]string
	chrooted   bool
	host       string // host path of the world's root directory
	baseOrder  []string
	baseSnap   map[string]entry
	cwd        string // the process's working directory while cases run (outer; the base for the dot layouts)
}

var theWorld *world

func getWorld() *world {
	if theWorld != nil {
		return theWorld
	}
	dir := os.Getenv("VERIF_BATCH_DIR")
	var err error
	if dir == "" {
		dir, err = os.MkdirTemp("", "verif-c13-")
		if err != nil {
			panic(err)
		}
	}
	host := filepath.Join(dir, "t")
	if parent := os.Getenv("VERIF_C13_WORLDS"); parent != "" {
		// a tmpfs directory provided by the driver (removed by the driver after the batch)
		host = filepath.Join(parent, filepath.Base(dir))
	}
	if err := os.MkdirAll(host, 0o755); err != nil {
		panic(err)
	}
	w := &world{host: host}
	if err := syscall.Chroot(host); err == nil {
		w.chrooted = true
		w.prefix = ""
	} else if os.Getuid() == 0 {
		panic("c13: running as root but chroot failed (" + err.Error() + "); refusing to exercise a filesystem under test unconfined")
	} else {
		w.prefix = host
	}
	w.root = w.prefix + "/"
	w.l1 = w.prefix + "/L1"
	w.outer = w.prefix + "/L1/outer"
	w.base = w.outer + "/base"
	w.hosttmp = w.outer + "/hosttmp"
	w.rebuild()
	theWorld = w
	return w
}

func must(err error) {
	if err != nil {
		panic("c13 harness: " + err.Error())
	}
}

// plantSet creates the name set below dir; content = tag + path relative to dir.
func plantSet(dir, tag string) {
	for _, d := range []string{"a", "a/a", "a..", "d"} {
		must(os.MkdirAll(dir+"/"+d, 0o755))
	}
	for _, f := range []string{"a/b", "a/a/b", "b", "..a", "a../a", "f", "\u00e9"} {
		must(os.WriteFile(dir+"/"+f, []byte(tag+f+"\n"), 0o644))
	}
}

func (w *world) rebuild() {
	// remove whatever is there (children of the root; the root itself stays)
	ents, _ := os.ReadDir(w.root)
	for _, e := range ents {
		must(os.RemoveAll(w.root + e.Name()))
	}
	must(os.MkdirAll(w.outer, 0o755))
	for _, lvl := range []string{strings.TrimSuffix(w.root, "/"), w.l1, w.outer} {
		plantSet(lvl, sentToken+":"+lvl+"/")
	}
	// siblings of the base whose names extend the base's name: containment decided on strings
	// ("has the base as a prefix") instead of on path components lets `../base-x/b` through
	for _, sib := range prefixSiblings {
		must(os.MkdirAll(w.outer+"/"+sib, 0o755))
		plantSet(w.outer+"/"+sib, sentToken+":"+w.outer+"/"+sib+"/")
	}
	must(os.Symlink("b", w.outer+"/slink"))
	must(os.Mkdir(w.hosttmp, 0o777))
	must(os.Mkdir(w.base, 0o755))
	w.plantBase()
	if w.cwd == "" {
		w.cwd = w.outer
	}
	must(os.Chdir(w.cwd))
	must(os.Setenv("TMPDIR", w.hosttmp))
	// fixed old mtimes on everything outside base
	w.walkOutside(func(p string, st *syscall.Stat_t) {
		if st.Mode&syscall.S_IFMT != syscall.S_IFLNK {
			must(os.Chtimes(p, oldTime, oldTime))
		}
	})
	w.snap = w.snapshot()
	w.order = w.order[:0]
	w.outsideIno = map[uint64]string{}
	for p, e := range w.snap {
		w.order = append(w.order, p)
		w.outsideIno[e.Ino] = p
	}
	sort.Strings(w.order)
}

func readNames(dir string) []string {
	f, err := os.Open(dir)
	if err != nil {
		return nil
	}
	names, _ := f.Readdirnames(-1)
	f.Close()
	sort.Strings(names)
	return names
}

// walkOutside visits every entry of the world except base and what is below it.
func (w *world) walkOutside(fn func(p string, st *syscall.Stat_t)) {
	var rec func(p string)
	rec = func(p string) {
		var st syscall.Stat_t
		if err := syscall.Lstat(p, &st); err != nil {
			return
		}
		fn(p, &st)
		if st.Mode&syscall.S_IFMT == syscall.S_IFDIR {
			for _, n := range readNames(p) {
				c := strings.TrimSuffix(p, "/") + "/" + n
				if c == w.base {
					continue
				}
				rec(c)
			}
		}
	}
	rec(w.root)
}

func (w *world) snapshot() map[string]entry {
	m := map[string]entry{}
	w.walkOutside(func(p string, st *syscall.Stat_t) {
		e := entry{Mode: st.Mode, Size: st.Size, Mtim: st.Mtim, Ctim: st.Ctim, Ino: st.Ino}
		switch st.Mode & syscall.S_IFMT {
		case syscall.S_IFDIR:
			names := readNames(p)
			if p == w.outer {
				e.Loose = true
				var nn []string
				for _, n := range names {
					if n != "base" {
						nn = append(nn, n)
					}
				}
				names = nn
			}
			e.Data = strings.Join(names, "\x00")
		case syscall.S_IFLNK:
			e.Data, _ = os.Readlink(p)
		default:
			b, _ := os.ReadFile(p)
			e.Data = string(b)
		}
		m[p] = e
	})
	return m
}

// cheapCheck: lstat of every known outside entry + listing of base's parent.
func (w *world) cheapCheck() bool {
	var st syscall.Stat_t
	for _, p := range w.order {
		e := w.snap[p]
		if err := syscall.Lstat(p, &st); err != nil {
			return false
		}
		if st.Ino != e.Ino || st.Mode != e.Mode {
			return false
		}
		if !e.Loose && (st.Size != e.Size || st.Mtim != e.Mtim || st.Ctim != e.Ctim) {
			return false
		}
		if e.Loose {
			var nn []string
			for _, n := range readNames(p) {
				if n != "base" {
					nn = append(nn, n)
				}
			}
			if strings.Join(nn, "\x00") != e.Data {
				return false
			}
		}
	}
	return true
}

// fullDiff compares a fresh full snapshot with the stored one; "" = identical.
func (w *world) fullDiff() string {
	now := w.snapshot()
	var diffs []string
	for _, p := range w.order {
		e := w.snap[p]
		n, ok := now[p]
		switch {
		case !ok:
			diffs = append(diffs, "removed: "+p)
		case n.Ino != e.Ino || n.Mode&syscall.S_IFMT != e.Mode&syscall.S_IFMT:
			diffs = append(diffs, "replaced: "+p)
		case n.Data != e.Data:
			diffs = append(diffs, fmt.Sprintf("content/listing/target changed: %s (%q -> %q)", p, mon80(e.Data), mon80(n.Data)))
		case n.Mode != e.Mode:
			diffs = append(diffs, fmt.Sprintf("mode changed: %s (%o -> %o)", p, e.Mode, n.Mode))
		case !e.Loose && (n.Mtim != e.Mtim || n.Ctim != e.Ctim):
			diffs = append(diffs, "touched (mtime/ctime changed): "+p)
		}
	}
	var added []string
	for p := range now {
		if _, ok := w.snap[p]; !ok {
			added = append(added, p)
		}
	}
	sort.Strings(added)
	for _, p := range added {
		diffs = append(diffs, "created: "+p)
	}
	if len(diffs) > 12 {
		diffs = append(diffs[:12], fmt.Sprintf("… %d more", len(diffs)-12))
	}
	return strings.Join(diffs, "; ")
}

func mon80(s string) string {
	s = strings.ReplaceAll(s, "\x00", ",")
	if len(s) > 80 {
		return s[:80] + "…"
	}
	return s
}

var oldTime = time.Date(2001, 1, 1, 0, 0, 0, 0, time.UTC)

// plantBase fills the (empty) base directory and records the lstat data of its entries; all
// mtimes are set to 2001, so that baseClean can tell with a handful of lstat calls whether an
// operation changed anything inside the base.
func (w *world) plantBase() {
	plantSet(w.base, "inner:")
	w.baseOrder = w.baseOrder[:0]
	w.baseSnap = map[string]entry{}
	for _, rel := range []string{"/a/a/b", "/a/a", "/a/b", "/a", "/a../a", "/a..", "/d", "/b", "/..a", "/f", "/\u00e9", ""} {
		p := w.base + rel
		must(os.Chtimes(p, oldTime, oldTime))
		var st syscall.Stat_t
		must(syscall.Lstat(p, &st))
		w.baseSnap[p] = entry{Mode: st.Mode, Size: st.Size, Mtim: st.Mtim, Ctim: st.Ctim, Ino: st.Ino}
		w.baseOrder = append(w.baseOrder, p)
	}
}

func (w *world) baseClean() bool {
	var st syscall.Stat_t
	for _, p := range w.baseOrder {
		e := w.baseSnap[p]
		if err := syscall.Lstat(p, &st); err != nil {
			return false
		}
		if st.Ino != e.Ino || st.Mode != e.Mode || st.Size != e.Size || st.Mtim != e.Mtim || st.Ctim != e.Ctim {
			return false
		}
	}
	return true
}

func (w *world) resetBase() {
	var st syscall.Stat_t
	if err := syscall.Lstat(w.base, &st); err != nil || st.Mode&syscall.S_IFMT != syscall.S_IFDIR {
		_ = os.RemoveAll(w.base)
		must(os.Mkdir(w.base, 0o755))
	} else {
		for _, n := range readNames(w.base) {
			must(os.RemoveAll(w.base + "/" + n))
		}
	}
	w.plantBase()
}

// inBase: does a host path handed back by the API lie in base (relative ones are relative to the
// process cwd = outer)?
func (w *world) inBase(p string) bool {
	if !strings.HasPrefix(p, "/") {
		cwd := w.cwd
		if cwd == "" {
			cwd = w.outer
		}
		p = cwd + "/" + p
	}
	c := cleanString(p)
	return c == w.base || strings.HasPrefix(c, w.base+"/")
}

// ---------------------------------------------------------------------------------------
// base layouts: spellings of the same base directory given to localfs.WithBase

// prefixSiblings are directories next to the base named <base's name><suffix>.
var prefixSiblings = []string{"base-x", "base2"}

// "dot", "dotslash", "updown": the base is a relative spelling of the working directory itself (the
// process runs inside the base for these cases).
var baseLayouts = []string{"clean", "slash", "unclean", "relative", "dotrel", "dot", "dotslash", "updown"}

func cwdIsBase(layout string) bool { return layout == "dot" || layout == "dotslash" || layout == "updown" }

func (w *world) baseSpec(layout string) string {
	switch layout {
	case "slash":
		return w.base + "/"
	case "unclean":
		return w.prefix + "//L1/./outer/a/../base/."
	case "relative": // relative to the process cwd (= outer)
		return "base"
	case "dotrel":
		return "./a/../base/"
	case "dot":
		return "."
	case "dotslash":
		return "./"
	case "updown":
		return "a/.."
	}
	return w.base
}

// ---------------------------------------------------------------------------------------
// operations

type obs struct {
	err       error
	hostPaths []string
	infos     []fs.FileInfo
	data      [][]byte
	panicked  string
}

type slot struct {
	name     string
	group    string // path1 | Rename.old | Rename.new | Symlink.target | Symlink.link | Rename.both | Symlink.both | MkdirTemp.dir | MkdirTemp.pattern | cp.src | cp.dst
	mutating bool
	run      func(x *lfsCtx, p string, o *obs)
}

type lfsCtx struct {
	w   *world
	fs  *localfs.Filesystem
	vos *ros.VirtualOS
	ctx context.Context
}

func named(f ros.File, o *obs) {
	if n, ok := f.(interface{ Name() string }); ok {
		o.hostPaths = append(o.hostPaths, n.Name())
	}
	if fi, err := f.Stat(); err == nil {
		o.infos = append(o.infos, fi)
	}
}

func readSome(f ros.File, o *obs) {
	buf := make([]byte, 512)
	n, _ := f.Read(buf)
	if n > 0 {
		o.data = append(o.data, buf[:n])
	}
	if d, ok := f.(fs.ReadDirFile); ok {
		if ents, err := d.ReadDir(-1); err == nil {
			for _, e := range ents {
				if fi, err := e.Info(); err == nil {
					o.infos = append(o.infos, fi)
				}
			}
		}
	}
}

func openFileSlot(name string, flag int, write bool) slot {
	return slot{name: name, group: "path1", mutating: write, run: func(x *lfsCtx, p string, o *obs) {
		f, err := x.fs.OpenFile(p, flag, 0o644)
		o.err = err
		if err == nil {
			named(f, o)
			if write {
				_, _ = f.Write([]byte("written-by-op"))
			} else {
				readSome(f, o)
			}
			f.Close()
		}
	}}
}

// partner picks the hostile second path of the *.both slots from the first one.
func partner(p string) string {
	hostile := []string{"../zz", "/../../zz", "a/../../zz", "../b", "../../a/b", "/..", "..", "../f", "./../a..", "zz/../../d"}
	h := 0
	for i := 0; i < len(p); i++ {
		h = h*31 + int(p[i])
	}
	if h < 0 {
		h = -h
	}
	return hostile[h%len(hostile)]
}

func errOf(r object.Object) error {
	if e, ok := r.(*object.Error); ok {
		return e.Value()
	}
	return nil
}

var slots = []slot{
	{name: "Stat", group: "path1", run: func(x *lfsCtx, p string, o *obs) {
		fi, err := x.fs.Stat(p)
		o.err = err
		if err == nil {
			o.infos = append(o.infos, fi)
		}
	}},
	{name: "Open", group: "path1", run: func(x *lfsCtx, p string, o *obs) {
		f, err := x.fs.Open(p)
		o.err = err
		if err == nil {
			named(f, o)
			readSome(f, o)
			f.Close()
		}
	}},
	{name: "ReadFile", group: "path1", run: func(x *lfsCtx, p string, o *obs) {
		b, err := x.fs.ReadFile(p)
		o.err = err
		o.data = append(o.data, b)
	}},
	{name: "ReadDir", group: "path1", run: func(x *lfsCtx, p string, o *obs) {
		ents, err := x.fs.ReadDir(p)
		o.err = err
		for _, e := range ents {
			if fi, err := e.Info(); err == nil {
				o.infos = append(o.infos, fi)
			}
		}
	}},
	{name: "WalkDir", group: "path1", run: func(x *lfsCtx, p string, o *obs) {
		n := 0
		var first error
		err := x.fs.WalkDir(p, func(path string, d fs.DirEntry, err error) error {
			n++
			o.hostPaths = append(o.hostPaths, path)
			if err != nil && first == nil {
				first = err
			}
			if d != nil {
				if fi, e := d.Info(); e == nil {
					o.infos = append(o.infos, fi)
				}
			}
			if n > 200 {
				return fs.SkipAll
			}
			return nil
		})
		o.err = err
		if o.err == nil {
			o.err = first
		}
	}},
	openFileSlot("OpenFile.rdonly", ros.O_RDONLY, false),
	openFileSlot("OpenFile.create", ros.O_RDWR|ros.O_CREATE, true),
	openFileSlot("OpenFile.trunc", ros.O_WRONLY|ros.O_TRUNC, true),
	openFileSlot("OpenFile.append", ros.O_WRONLY|ros.O_APPEND|ros.O_CREATE, true),
	{name: "Create", group: "path1", mutating: true, run: func(x *lfsCtx, p string, o *obs) {
		f, err := x.fs.Create(p)
		o.err = err
		if err == nil {
			named(f, o)
			_, _ = f.Write([]byte("created-by-op"))
			f.Close()
		}
	}},
	{name: "WriteFile", group: "path1", mutating: true, run: func(x *lfsCtx, p string, o *obs) {
		o.err = x.fs.WriteFile(p, []byte("written-by-op"), 0o644)
	}},
	{name: "Mkdir", group: "path1", mutating: true, run: func(x *lfsCtx, p string, o *obs) {
		o.err = x.fs.Mkdir(p, 0o755)
	}},
	{name: "MkdirAll", group: "path1", mutating: true, run: func(x *lfsCtx, p string, o *obs) {
		o.err = x.fs.MkdirAll(p, 0o755)
	}},
	{name: "Remove", group: "path1", mutating: true, run: func(x *lfsCtx, p string, o *obs) {
		o.err = x.fs.Remove(p)
	}},
	{name: "RemoveAll", group: "path1", mutating: true, run: func(x *lfsCtx, p string, o *obs) {
		o.err = x.fs.RemoveAll(p)
	}},
	{name: "Rename.old", group: "Rename.old", mutating: true, run: func(x *lfsCtx, p string, o *obs) {
		o.err = x.fs.Rename(p, "zz")
	}},
	{name: "Rename.new", group: "Rename.new", mutating: true, run: func(x *lfsCtx, p string, o *obs) {
		o.err = x.fs.Rename("f", p)
	}},
	{name: "Rename.new.dir", group: "Rename.new", mutating: true, run: func(x *lfsCtx, p string, o *obs) {
		o.err = x.fs.Rename("d", p)
	}},
	{name: "Rename.both", group: "Rename.both", mutating: true, run: func(x *lfsCtx, p string, o *obs) {
		o.err = x.fs.Rename(p, partner(p))
		if o.err != nil {
			o.err = x.fs.Rename(partner(p), p)
		}
	}},
	{name: "Symlink.target", group: "Symlink.target", mutating: true, run: func(x *lfsCtx, p string, o *obs) {
		o.err = x.fs.Symlink(p, "zz")
		if o.err == nil {
			if t, err := os.Readlink(x.w.base + "/zz"); err == nil {
				if !strings.HasPrefix(t, "/") {
					// a relative target is relative to the directory of the link; when the base itself was
					// given relative to the process cwd the filesystem stores it that way – resolve it the
					// way the kernel would: against the link's directory
					t = x.w.base + "/" + t
				}
				o.hostPaths = append(o.hostPaths, t)
			}
		}
	}},
	{name: "Symlink.link", group: "Symlink.link", mutating: true, run: func(x *lfsCtx, p string, o *obs) {
		o.err = x.fs.Symlink("f", p)
	}},
	{name: "Symlink.both", group: "Symlink.both", mutating: true, run: func(x *lfsCtx, p string, o *obs) {
		o.err = x.fs.Symlink(p, partner(p))
		if o.err != nil {
			o.err = x.fs.Symlink(partner(p), p)
		}
	}},
	{name: "MkdirTemp.dir", group: "MkdirTemp.dir", mutating: true, run: func(x *lfsCtx, p string, o *obs) {
		r, err := x.fs.MkdirTemp(p, "t")
		o.err = err
		if err == nil {
			o.hostPaths = append(o.hostPaths, r)
		}
	}},
	{name: "MkdirTemp.pattern", group: "MkdirTemp.pattern", mutating: true, run: func(x *lfsCtx, p string, o *obs) {
		r, err := x.fs.MkdirTemp("d", p)
		o.err = err
		if err == nil {
			o.hostPaths = append(o.hostPaths, r)
		}
	}},
	// copy, the script-level two-path operation: the os module's cp on a virtual OS whose only mount
	// is the rooted filesystem
	{name: "cp.src", group: "cp.src", mutating: true, run: func(x *lfsCtx, p string, o *obs) {
		o.err = errOf(modos.Copy(x.ctx, object.NewString(p), object.NewString("/zz")))
		if o.err == nil {
			if b, err := os.ReadFile(x.w.base + "/zz"); err == nil {
				o.data = append(o.data, b)
			}
		}
	}},
	{name: "cp.dst", group: "cp.dst", mutating: true, run: func(x *lfsCtx, p string, o *obs) {
		o.err = errOf(modos.Copy(x.ctx, object.NewString("/f"), object.NewString(p)))
	}},
}

func slotByName(n string) *slot {
	for i := range slots {
		if slots[i].name == n {
			return &slots[i]
		}
	}
	return nil
}

// ---------------------------------------------------------------------------------------
// worker

type lfsCase struct {
	Base   string   `json:"base"`
	N      int      `json:"n,omitempty"`
	Lo     int      `json:"lo,omitempty"`
	Hi     int      `json:"hi,omitempty"`
	Paths  []string `json:"paths,omitempty"`
	Strace bool     `json:"strace,omitempty"`
}

type viol struct {
	Sig     string `json:"sig"`
	Detail  string `json:"detail"`
	Path    string `json:"path"`
	Config  string `json:"config,omitempty"`
	Partner string `json:"partner,omitempty"`
}

type markInfo struct {
	N    int    `json:"n"`
	Slot string `json:"slot"`
	Path string `json:"path"`
}

type halfOut struct {
	Ops        int64            `json:"ops"`
	Paths      int64            `json:"paths"`
	NonTrivial int64            `json:"nontrivial"` // (operation, path) pairs under the distinct rule
	Keys       []string         `json:"keys,omitempty"`
	Events     map[string]int64 `json:"events"`
	Viols      []viol           `json:"viols,omitempty"`
	Samples    []string         `json:"samples,omitempty"`
	Marks      []markInfo       `json:"marks,omitempty"`
	Chroot     string           `json:"chroot,omitempty"`
	BasePath   string           `json:"base_path,omitempty"`
}

type rawViol struct {
	slot, group, kind, detail string
}

func strMark(kind byte, n int) {
	_ = syscall.Access(fmt.Sprintf("/VMARK/%c/%d", kind, n), 0)
}

func runLfs(c lfsCase) *halfOut {
	w := getWorld()
	out := &halfOut{Events: map[string]int64{}, BasePath: w.base}
	spec := w.baseSpec(c.Base)
	if cwdIsBase(c.Base) {
		w.cwd = w.base
		must(os.Chdir(w.base))
		defer func() {
			w.cwd = w.outer
			must(os.Chdir(w.outer))
		}()
	}
	lf, err := localfs.New(context.Background(), localfs.WithBase(spec))
	if err != nil {
		panic("c13 harness: localfs.New(" + spec + "): " + err.Error())
	}
	vos := ros.NewVirtualOS(context.Background(), ros.WithMounts(map[string]*ros.Mount{"/": {Source: lf, Target: "/"}}))
	x := &lfsCtx{w: w, fs: lf, vos: vos, ctx: ros.WithOS(context.Background(), vos)}

	var paths []string
	explicit := len(c.Paths) > 0
	if explicit {
		paths = c.Paths
	} else {
		ps := newPathSpace(c.N)
		for i := c.Lo; i < c.Hi && i < ps.Count(); i++ {
			if s, ok := ps.At(i); ok {
				paths = append(paths, s)
			}
		}
	}
	markN := 0
	for _, p := range paths {
		out.Paths++
		var raws []rawViol
		nt := nonTrivial(p)
		for si := range slots {
			s := &slots[si]
			o := &obs{}
			markN++
			if c.Strace {
				out.Marks = append(out.Marks, markInfo{N: markN, Slot: s.name, Path: p})
				strMark('B', markN)
			}
			func() {
				defer func() {
					if r := recover(); r != nil {
						o.panicked = fmt.Sprint(r)
					}
				}()
				s.run(x, p, o)
			}()
			if c.Strace {
				strMark('E', markN)
			}
			out.Ops++
			if nt {
				out.NonTrivial++
				if explicit {
					out.Keys = append(out.Keys, "L:"+s.name+"|"+p)
				}
			}
			switch {
			case o.panicked != "":
				out.Events["lfs-op-panicked"]++
				raws = append(raws, rawViol{s.name, s.group, "panic", "Go panic: " + o.panicked})
			case o.err == nil:
				out.Events["lfs-op-succeeded"]++
			case errors.Is(o.err, fs.ErrInvalid):
				out.Events["lfs-op-rejected-invalid"]++
			default:
				out.Events["lfs-op-os-error"]++
			}
			for _, hp := range o.hostPaths {
				out.Events["lfs-host-paths-observed"]++
				if !w.inBase(hp) {
					raws = append(raws, rawViol{s.name, s.group, "host-path", fmt.Sprintf("the operation used the host path %q, which is not in the base %q", hp, w.base)})
				}
			}
			for _, fi := range o.infos {
				out.Events["lfs-fileinfos-observed"]++
				if st, ok := fi.Sys().(*syscall.Stat_t); ok {
					if op, bad := w.outsideIno[st.Ino]; bad {
						raws = append(raws, rawViol{s.name, s.group, "read", fmt.Sprintf("returned the FileInfo of %s (inode %d), an entry outside the base", op, st.Ino)})
					}
				}
			}
			for _, b := range o.data {
				if len(b) > 0 {
					out.Events["lfs-reads-observed"]++
				}
				if strings.Contains(string(b), sentToken) {
					raws = append(raws, rawViol{s.name, s.group, "read", fmt.Sprintf("returned sentinel content %q", mon80(string(b)))})
				}
			}
			// effect oracle. Under strace every syscall of this harness costs a ptrace round trip, the traced
			// paths are a sample of what the untraced pool checks with the effect oracle anyway, and the
			// deciding monitor here is strace itself: the tree is then only kept sane (checked every 64
			// operations and silently rebuilt) so that a late discovery is not attributed to a wrong operation.
			if !c.Strace {
				out.Events["lfs-outside-tree-checks"]++
				if !w.cheapCheck() {
					d := w.fullDiff()
					if d == "" {
						d = "(cheap check failed, full snapshot equal?)"
					}
					raws = append(raws, rawViol{s.name, s.group, "write", "the tree outside the base changed: " + d})
					w.rebuild()
				}
			} else if markN%64 == 0 && !w.cheapCheck() {
				out.Events["lfs-strace-mode-world-rebuilt"]++
				w.rebuild()
			}
			if s.mutating && !w.baseClean() {
				out.Events["lfs-base-resets"]++
				w.resetBase()
			}
			if len(out.Samples) < 3 && nt && si == int(out.Paths)%len(slots) {
				out.Samples = append(out.Samples, fmt.Sprintf("localfs(base=%s).%s(%q) -> err=%v", c.Base, s.name, p, o.err))
			}
		}
		out.Viols = append(out.Viols, foldLfs(c.Base, p, raws)...)
		if len(out.Viols) > 200 {
			out.Viols = out.Viols[:200]
		}
	}
	// full comparison at the end of the case
	out.Events["lfs-full-snapshot-checks"]++
	if d := w.fullDiff(); d != "" && !c.Strace {
		out.Viols = append(out.Viols, viol{Sig: "localfs-escape:unattributed", Detail: "full snapshot comparison at the end of the case: " + d, Path: "", Config: c.Base})
		w.rebuild()
	}
	if w.chrooted {
		out.Chroot = w.host
	}
	return out
}

// foldLfs turns the raw observations for one path into violations with coarse signatures: when
// two or more of the single-path operations fail the defect sits in the shared resolution and
// one signature "path1" stands for all of them (and for the two-path operations on the same path).
func foldLfs(base, p string, raws []rawViol) []viol {
	if len(raws) == 0 {
		return nil
	}
	class := pathClass(p)
	bySlot := map[string][]rawViol{}
	var order []string
	p1 := map[string]bool{}
	for _, r := range raws {
		if _, ok := bySlot[r.slot]; !ok {
			order = append(order, r.slot)
		}
		bySlot[r.slot] = append(bySlot[r.slot], r)
		if r.group == "path1" {
			p1[r.slot] = true
		}
	}
	describe := func(slotsIn []string) string {
		var sb strings.Builder
		for _, sn := range slotsIn {
			for _, r := range bySlot[sn] {
				fmt.Fprintf(&sb, "%s(%q) [%s]: %s\n", sn, p, r.kind, r.detail)
			}
		}
		return sb.String()
	}
	var res []viol
	if len(p1) >= 2 {
		res = append(res, viol{Sig: "localfs-escape:path1:" + class, Path: p, Config: base,
			Detail: fmt.Sprintf("base layout %s, path %q (class %s)\n%s", base, p, class, describe(order))})
		return res
	}
	groups := map[string][]string{}
	var gorder []string
	for _, sn := range order {
		g := bySlot[sn][0].group
		if g == "path1" {
			g = sn
		}
		if _, ok := groups[g]; !ok {
			gorder = append(gorder, g)
		}
		groups[g] = append(groups[g], sn)
	}
	for _, g := range gorder {
		cl := class
		if strings.HasSuffix(g, ".both") {
			// either argument may be the one at fault; when the one-argument slot of the same operation
			// already failed for this path it is that defect
			op := strings.TrimSuffix(g, ".both")
			dup := false
			for _, og := range gorder {
				if og != g && strings.HasPrefix(og, op+".") {
					dup = true
				}
			}
			if dup {
				continue
			}
			cl = "pair"
		}
		res = append(res, viol{Sig: "localfs-escape:" + g + ":" + cl, Path: p, Config: base,
			Detail: fmt.Sprintf("base layout %s, path %q (class %s)\n%s", base, p, class, describe(groups[g]))})
	}
	return res
}

func decodeLfs(data json.RawMessage) lfsCase {
	var c lfsCase
	if err := json.Unmarshal(data, &c); err != nil {
		panic(err)
	}
	return c
}

var _ = io.EOF
