package c13

import (
	"strings"

	"verif/internal/mon"
)

// ---------------------------------------------------------------------------------------
// The path space of the property statement: all strings
//
//	["/"] seg1 "/" seg2 … "/" segk ["/"]        1 <= k <= N, seg ∈ alphabet
//
// enumerated by index. A string can have more than one such decomposition ("" as first segment of
// a relative path spells an absolute one, "" as last segment spells a trailing separator); only
// the canonical decomposition is kept, so every string is visited exactly once.

var alphabet = []string{"", ".", "..", "a", "b", "..a", "a.."}

type pathSpace struct {
	N    int
	offs []int // offs[k-1] = first index of the block with k segments; offs[N] = total
}

func newPathSpace(n int) *pathSpace {
	ps := &pathSpace{N: n}
	tot, pow := 0, 1
	for k := 1; k <= n; k++ {
		pow *= len(alphabet)
		ps.offs = append(ps.offs, tot)
		tot += 4 * pow
	}
	ps.offs = append(ps.offs, tot)
	return ps
}

func (ps *pathSpace) Count() int { return ps.offs[ps.N] }

// At returns the i-th tuple as a string; ok=false when the tuple is a non-canonical spelling of a
// string that another index produces.
func (ps *pathSpace) At(i int) (string, bool) {
	k := 1
	for k < ps.N && i >= ps.offs[k] {
		k++
	}
	j := i - ps.offs[k-1]
	variant := j % 4
	seq := j / 4
	abs, trail := variant&1 == 1, variant&2 == 2
	segs := make([]string, k)
	for x := k - 1; x >= 0; x-- {
		segs[x] = alphabet[seq%len(alphabet)]
		seq /= len(alphabet)
	}
	if !abs && segs[0] == "" && (k > 1 || trail) {
		return "", false // spells an absolute path
	}
	if !trail && segs[k-1] == "" && k > 1 {
		return "", false // spells a trailing separator
	}
	s := strings.Join(segs, "/")
	if abs {
		s = "/" + s
	}
	if trail {
		s += "/"
	}
	return s, true
}

// substitute renames the alphabet's plain names in a path (layouts with other mount names).
func substitute(p string, sub map[string]string) string {
	if len(sub) == 0 {
		return p
	}
	segs := strings.Split(p, "/")
	for i, s := range segs {
		if r, ok := sub[s]; ok {
			segs[i] = r
		}
	}
	return strings.Join(segs, "/")
}

// ---------------------------------------------------------------------------------------
// random segments beyond the alphabet

var exoticSegs = []string{
	"\u00e9", "\u65e5\u672c", "a\u0301", "\u2025", "\uff0e\uff0e", "\u200b..", "..\u200b", " ", "...", "....", "..\\", "\\..", "..\\..",
	"%2e%2e", "..%2f", "\xff", "\xc0\xae\xc0\xae", "\x00", "..\x00", "~", "-", "a\nb", "..\n", "\u202e..", "\u3002\u3002",
	"base-x", "base2", "base", strings.Repeat("a", 255), strings.Repeat("\u00e9", 128), ". .", ".. ", " ..",
}

// siblingPaths: every path of the small space below each prefix sibling of the base, reached by climbing
// out of the base in the ways a relative or absolute argument can.
func siblingPaths() []string {
	ps := newPathSpace(2)
	var out []string
	for _, sib := range prefixSiblings {
		for _, climb := range []string{"../" + sib, "a/../../" + sib, "./../" + sib, "/../" + sib, "..//" + sib, "../" + sib + "/../" + sib} {
			out = append(out, climb, climb+"/")
			for i := 0; i < ps.Count(); i++ {
				if t, ok := ps.At(i); ok && !strings.HasPrefix(t, "/") {
					out = append(out, climb+"/"+t)
				}
			}
		}
	}
	return out
}

func randomPath(r *mon.Rand) string {
	k := r.Range(1, 8)
	segs := make([]string, k)
	exotic := false
	for i := range segs {
		if r.Bool() {
			segs[i] = mon.Pick(r, alphabet)
		} else {
			segs[i] = mon.Pick(r, exoticSegs)
			exotic = true
		}
	}
	if !exotic {
		segs[r.Intn(k)] = mon.Pick(r, exoticSegs)
	}
	s := strings.Join(segs, "/")
	if r.Bool() {
		s = "/" + s
	}
	if r.Chance(1, 3) {
		s += "/"
	}
	return s
}

// ---------------------------------------------------------------------------------------
// lexical model of a path (independent of path/filepath: this is the oracle's own Clean)

// components resolves "." , "" and ".." lexically. For an absolute path ".." at the root stays at the
// root; for a relative path up counts how many levels the path climbs above its starting point.
func components(p string) (comps []string, abs bool, up int) {
	abs = strings.HasPrefix(p, "/")
	for _, s := range strings.Split(p, "/") {
		switch s {
		case "", ".":
		case "..":
			if len(comps) > 0 {
				comps = comps[:len(comps)-1]
			} else if !abs {
				up++
			}
		default:
			comps = append(comps, s)
		}
	}
	return
}

// cleanString is the oracle's rendering of the lexically cleaned path (what filepath.Clean is
// documented to return).
func cleanString(p string) string {
	comps, abs, up := components(p)
	s := strings.Repeat("../", up) + strings.Join(comps, "/")
	s = strings.TrimSuffix(s, "/")
	if abs {
		return "/" + s
	}
	if s == "" {
		return "."
	}
	return s
}

func inAlphabet(s string) bool {
	for _, a := range alphabet {
		if a == s {
			return true
		}
	}
	return false
}

// nonTrivial is the DESIGN §11 rule: the cleaned path differs from the raw string, or the path
// leaves the base lexically.
func nonTrivial(p string) bool {
	_, _, up := components(p)
	return up > 0 || cleanString(p) != p
}

// pathClass is the coarse shape of a path string used in localfs signatures:
//
//	empty | (abs|rel)-(up|dotdot|dotname|plain)[+uni]
//
// up: ".." climbs above the starting point (relative) or above the root (absolute);
// dotdot: has ".." segments that stay inside; dotname: no ".." segment but names that begin or end
// with ".."; +uni: a segment outside the statement's alphabet and no ".." segment at all.
func pathClass(p string) string {
	if p == "" {
		return "empty"
	}
	abs := strings.HasPrefix(p, "/")
	depth, minDepth := 0, 0
	hasDD, hasDN, uni := false, false, false
	for _, s := range strings.Split(p, "/") {
		if !inAlphabet(s) {
			uni = true
		}
		switch {
		case s == "" || s == ".":
		case s == "..":
			hasDD = true
			depth--
			if depth < minDepth {
				minDepth = depth
			}
			if abs && depth < 0 {
				depth = 0
			}
		default:
			if strings.HasPrefix(s, "..") || strings.HasSuffix(s, "..") {
				hasDN = true
			}
			depth++
		}
	}
	c := "rel-"
	if abs {
		c = "abs-"
	}
	switch {
	case minDepth < 0:
		c += "up"
	case hasDD:
		c += "dotdot"
	case hasDN:
		c += "dotname"
	default:
		c += "plain"
	}
	if uni && !hasDD {
		// only when no true ".." segment is involved can the exotic segment itself be what matters
		c += "+uni"
	}
	return c
}
