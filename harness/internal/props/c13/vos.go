package c13

// Half (b): os.VirtualOS assembled from mounts whose sources are recording filesystems.
//
// The oracle is refResolve (a dozen lines): join a relative path with the cwd, clean it
// lexically, choose the mount whose mount point is the longest component-wise prefix, the
// relative path is the remainder. The observed (mount, path) pairs are what the recording
// filesystems saw. A path under no mount point must produce an error and no call at all.

import (
	"context"
	"encoding/json"
	"fmt"
	"io/fs"
	"strings"

	ros "github.com/risor-io/risor/os"
)

// ---------------------------------------------------------------------------------------
// recording filesystem

type call struct {
	Mount  int
	Method string
	Paths  []string
}

type recLog struct{ calls []call }

type recFS struct {
	id  int
	log *recLog
}

var _ ros.FS = (*recFS)(nil)

func (r *recFS) rec(method string, paths ...string) {
	r.log.calls = append(r.log.calls, call{Mount: r.id, Method: method, Paths: paths})
}

func (r *recFS) Create(name string) (ros.File, error) {
	r.rec("Create", name)
	return ros.NewInMemoryFile(nil), nil
}
func (r *recFS) Mkdir(name string, perm ros.FileMode) error { r.rec("Mkdir", name); return nil }
func (r *recFS) MkdirAll(path string, perm ros.FileMode) error {
	r.rec("MkdirAll", path)
	return nil
}
func (r *recFS) Open(name string) (ros.File, error) {
	r.rec("Open", name)
	return ros.NewInMemoryFile([]byte("x")), nil
}
func (r *recFS) OpenFile(name string, flag int, perm ros.FileMode) (ros.File, error) {
	r.rec("OpenFile", name)
	return ros.NewInMemoryFile(nil), nil
}
func (r *recFS) ReadFile(name string) ([]byte, error) {
	r.rec("ReadFile", name)
	return []byte("x"), nil
}
func (r *recFS) Remove(name string) error    { r.rec("Remove", name); return nil }
func (r *recFS) RemoveAll(path string) error { r.rec("RemoveAll", path); return nil }
func (r *recFS) Rename(oldpath, newpath string) error {
	r.rec("Rename", oldpath, newpath)
	return nil
}
func (r *recFS) Stat(name string) (ros.FileInfo, error) {
	r.rec("Stat", name)
	return ros.NewFileInfo(ros.GenericFileInfoOpts{Name: "x"}), nil
}
func (r *recFS) Symlink(oldname, newname string) error {
	r.rec("Symlink", oldname, newname)
	return nil
}
func (r *recFS) WriteFile(name string, data []byte, perm ros.FileMode) error {
	r.rec("WriteFile", name)
	return nil
}
func (r *recFS) ReadDir(name string) ([]ros.DirEntry, error) { r.rec("ReadDir", name); return nil, nil }
func (r *recFS) WalkDir(root string, fn ros.WalkDirFunc) error {
	r.rec("WalkDir", root)
	return nil
}

// ---------------------------------------------------------------------------------------
// layouts

type layout struct {
	Name   string
	Mounts []string          // mount points as spelled (map key and Mount.Target)
	Sub    map[string]string // the alphabet's plain names are renamed for this layout
	Cwds   []string
	Tmps   []string
}

var subTmp = map[string]string{"a": "tmp", "b": "tmpfoo"}
var subData = map[string]string{"a": "data", "b": "datax"}

var layouts = []layout{
	{Name: "root", Mounts: []string{"/"}, Cwds: []string{"/", "/a", "/a/b/", "/a/../b/./", "a"}, Tmps: []string{"/", "/a", "/a/b"}},
	{Name: "tmp+tmpfoo", Mounts: []string{"/tmp", "/tmpfoo"}, Sub: subTmp, Cwds: []string{"/", "/tmp", "/tmpfoo/x", "/tmp/../tmpfoo"}, Tmps: []string{"/tmp", "/tmp/x", "/tmpfoo", "/other"}},
	{Name: "tmp", Mounts: []string{"/tmp"}, Sub: subTmp, Cwds: []string{"/", "/tmp", "/tmpfoo"}, Tmps: []string{"/tmp", "/tmpfoo"}},
	{Name: "a+a/b", Mounts: []string{"/a", "/a/b"}, Cwds: []string{"/", "/a", "/a/b", "/a/b/a", "/b"}, Tmps: []string{"/a", "/a/b", "/a/b/t", "/a/t"}},
	{Name: "data/", Mounts: []string{"/data/"}, Sub: subData, Cwds: []string{"/", "/data", "/data/", "/data/a"}, Tmps: []string{"/data/", "/data", "/data/t"}},
	{Name: "three-deep", Mounts: []string{"/a", "/a/b", "/a/b/a"}, Cwds: []string{"/", "/a/b", "/a/b/a/b"}, Tmps: []string{"/a/b/a"}},
	{Name: "root+a/", Mounts: []string{"/", "/a/"}, Cwds: []string{"/", "/a", "/b"}, Tmps: []string{"/a/", "/a"}},
	{Name: "a/+a/b/", Mounts: []string{"/a/", "/a/b/"}, Cwds: []string{"/", "/a/", "/a/b"}, Tmps: []string{"/a/b/"}},
	{Name: "dotnames", Mounts: []string{"/..a", "/a..", "/a../b"}, Cwds: []string{"/", "/..a", "/a../b"}, Tmps: []string{"/a.."}},
	{Name: "a", Mounts: []string{"/a"}, Cwds: []string{"/", "/a", "/a.."}, Tmps: []string{"/a"}},
	{Name: "sameleaf", Mounts: []string{"/b", "/a/b"}, Cwds: []string{"/", "/a"}, Tmps: []string{"/a/b"}},
}

func layoutByName(n string) *layout {
	for i := range layouts {
		if layouts[i].Name == n {
			return &layouts[i]
		}
	}
	return nil
}

type config struct {
	L     *layout
	Cwd   string
	Chdir bool // cwd set with Chdir instead of WithCwd
}

func (c config) String() string {
	how := "WithCwd"
	if c.Chdir {
		how = "Chdir"
	}
	return fmt.Sprintf("mounts %v, %s(%q)", c.L.Mounts, how, c.Cwd)
}

func allConfigs() []config {
	var res []config
	for i := range layouts {
		l := &layouts[i]
		for _, cwd := range l.Cwds {
			res = append(res, config{L: l, Cwd: cwd})
		}
		if len(l.Cwds) > 1 {
			res = append(res, config{L: l, Cwd: l.Cwds[1], Chdir: true})
		}
	}
	return res
}

// ---------------------------------------------------------------------------------------
// the reference

type refRes struct {
	ok    bool
	mount int      // index into layout.Mounts
	rel   []string // components below the mount point
	abs   []string // components of the cleaned absolute path (nil when the path is not absolute)
	isAbs bool
}

func refResolve(mounts [][]string, cwd, p string) refRes {
	if !strings.HasPrefix(p, "/") {
		p = cwd + "/" + p
	}
	comps, abs, _ := components(p)
	if !abs {
		return refRes{} // relative to a relative cwd: under no mount point
	}
	best := -1
	for i, mc := range mounts {
		if len(mc) <= len(comps) && equalStrings(comps[:len(mc)], mc) && (best < 0 || len(mc) > len(mounts[best])) {
			best = i
		}
	}
	if best < 0 {
		return refRes{abs: comps, isAbs: true}
	}
	return refRes{ok: true, mount: best, rel: comps[len(mounts[best]):], abs: comps, isAbs: true}
}

func equalStrings(a, b []string) bool {
	if len(a) != len(b) {
		return false
	}
	for i := range a {
		if a[i] != b[i] {
			return false
		}
	}
	return true
}

// lexEscapes: does a path handed to a mount's filesystem climb above that filesystem's root?
func lexEscapes(p string) bool {
	depth := 0
	for _, s := range strings.Split(p, "/") {
		switch s {
		case "", ".":
		case "..":
			depth--
			if depth < 0 {
				return true
			}
		default:
			depth++
		}
	}
	return false
}

func mpShape(mp string) string {
	switch {
	case mp == "/":
		return "root"
	case strings.HasSuffix(mp, "/"):
		return "mp-slash"
	}
	return "mp"
}

// relation of a path (as resolved by the reference) to the mount table, for signatures.
func relation(l *layout, r refRes, raw string) string {
	rel := ""
	switch {
	case !r.isAbs:
		rel = "relative-cwd"
	case r.ok && len(r.rel) == 0:
		rel = "at-mountpoint"
	case r.ok:
		rel = "below-mountpoint"
	default:
		rel = "outside"
		cl := "/" + strings.Join(r.abs, "/")
		for _, m := range l.Mounts {
			mt := strings.TrimSuffix(m, "/")
			if mt != "" && strings.HasPrefix(cl, mt) {
				rel = "prefix-sibling"
			}
		}
	}
	if strings.HasSuffix(raw, "/") {
		rel += "+slash"
	}
	return rel
}

// ---------------------------------------------------------------------------------------
// worker

type vosCase struct {
	N       int      `json:"n,omitempty"`
	Lo      int      `json:"lo,omitempty"`
	Hi      int      `json:"hi,omitempty"`
	Paths   []string `json:"paths,omitempty"`
	Layout  string   `json:"layout,omitempty"` // replay: restrict to one layout
	Partner string   `json:"partner,omitempty"`
}

type vraw struct {
	op    string // for group path1: the operation that was observed
	group string // path1 | Rename.old | Rename.new | Symlink.old | Symlink.new | MkdirTemp…
	kind  string
	shape string
	rel   string
	text  string
}

type vosEnv struct {
	cfg    config
	vos    *ros.VirtualOS
	log    *recLog
	mcomps [][]string
}

func buildVOS(l *layout, log *recLog, opts ...ros.Option) (*ros.VirtualOS, [][]string) {
	mounts := map[string]*ros.Mount{}
	var mcomps [][]string
	for i, m := range l.Mounts {
		mounts[m] = &ros.Mount{Source: &recFS{id: i, log: log}, Target: m, Type: "rec"}
		c, _, _ := components(m)
		mcomps = append(mcomps, c)
	}
	all := append([]ros.Option{ros.WithMounts(mounts)}, opts...)
	return ros.NewVirtualOS(context.Background(), all...), mcomps
}

var singleOps = []struct {
	name string
	run  func(v *ros.VirtualOS, p string) error
}{
	{"Create", func(v *ros.VirtualOS, p string) error { _, err := v.Create(p); return err }},
	{"Mkdir", func(v *ros.VirtualOS, p string) error { return v.Mkdir(p, 0o755) }},
	{"MkdirAll", func(v *ros.VirtualOS, p string) error { return v.MkdirAll(p, 0o755) }},
	{"Open", func(v *ros.VirtualOS, p string) error { _, err := v.Open(p); return err }},
	{"OpenFile", func(v *ros.VirtualOS, p string) error {
		_, err := v.OpenFile(p, ros.O_RDWR|ros.O_CREATE, 0o644)
		return err
	}},
	{"ReadFile", func(v *ros.VirtualOS, p string) error { _, err := v.ReadFile(p); return err }},
	{"Remove", func(v *ros.VirtualOS, p string) error { return v.Remove(p) }},
	{"RemoveAll", func(v *ros.VirtualOS, p string) error { return v.RemoveAll(p) }},
	{"Stat", func(v *ros.VirtualOS, p string) error { _, err := v.Stat(p); return err }},
	{"WriteFile", func(v *ros.VirtualOS, p string) error { return v.WriteFile(p, []byte("x"), 0o644) }},
	{"ReadDir", func(v *ros.VirtualOS, p string) error { _, err := v.ReadDir(p); return err }},
	{"WalkDir", func(v *ros.VirtualOS, p string) error {
		return v.WalkDir(p, func(string, fs.DirEntry, error) error { return nil })
	}},
}

var twoOps = []struct {
	name string
	run  func(v *ros.VirtualOS, a, b string) error
}{
	{"Rename", func(v *ros.VirtualOS, a, b string) error { return v.Rename(a, b) }},
	{"Symlink", func(v *ros.VirtualOS, a, b string) error { return v.Symlink(a, b) }},
}

// number of (operation, path) slots per path, for the distinct count
const vosSlotsPerPath = 12 + 2*3 + 1

func safeCall(f func() error) (err error, panicked string) {
	defer func() {
		if r := recover(); r != nil {
			panicked = fmt.Sprint(r)
		}
	}()
	return f(), ""
}

func fmtCalls(l *layout, calls []call) string {
	if len(calls) == 0 {
		return "no filesystem call"
	}
	var parts []string
	for _, c := range calls {
		parts = append(parts, fmt.Sprintf("mount %q: %s(%s)", l.Mounts[c.Mount], c.Method, quoteAll(c.Paths)))
	}
	return strings.Join(parts, "; ")
}

func quoteAll(ss []string) string {
	q := make([]string, len(ss))
	for i, s := range ss {
		q[i] = fmt.Sprintf("%q", s)
	}
	return strings.Join(q, ", ")
}

func fmtRef(l *layout, r refRes) string {
	if !r.ok {
		if !r.isAbs {
			return "refuse (relative path against a relative cwd lies under no mount point)"
		}
		return fmt.Sprintf("refuse (/%s lies under no mount point)", strings.Join(r.abs, "/"))
	}
	return fmt.Sprintf("mount %q, relative path %q", l.Mounts[r.mount], strings.Join(r.rel, "/"))
}

// judgeArg checks one path argument of one recorded call against the reference.
func judgeArg(l *layout, c call, argIdx int, r refRes) (kind string) {
	if c.Mount != r.mount {
		return "vos-wrong-mount"
	}
	if argIdx >= len(c.Paths) {
		return "vos-wrong-relpath"
	}
	got := c.Paths[argIdx]
	if lexEscapes(got) {
		return "vos-escapes-source"
	}
	gc, _, _ := components(got)
	if !equalStrings(gc, r.rel) {
		return "vos-wrong-relpath"
	}
	return ""
}

// judgeSingle: verdict for a one-path operation from its error and the recorded calls.
func judgeSingle(l *layout, err error, calls []call, r refRes) string {
	if !r.ok {
		if len(calls) > 0 || err == nil {
			return "vos-not-refused"
		}
		return ""
	}
	if len(calls) == 0 {
		return "vos-refused-under-mount"
	}
	for _, c := range calls {
		if k := judgeArg(l, c, 0, r); k != "" {
			return k
		}
	}
	return ""
}

func shapeOf(l *layout, r refRes, calls []call) string {
	if r.ok {
		return mpShape(l.Mounts[r.mount])
	}
	if len(calls) > 0 {
		return mpShape(l.Mounts[calls[0].Mount])
	}
	return "-"
}

func (e *vosEnv) single(name string, run func(v *ros.VirtualOS, p string) error, p string, r refRes, raws *[]vraw, ev map[string]int64) {
	e.log.calls = e.log.calls[:0]
	err, pan := safeCall(func() error { return run(e.vos, p) })
	calls := e.log.calls
	ev["vos-ops"]++
	ev["vos-fs-calls-recorded"] += int64(len(calls))
	l := e.cfg.L
	if r.ok {
		ev["vos-expected-served"]++
	} else {
		ev["vos-expected-refusals"]++
	}
	kind := "vos-panic"
	if pan == "" {
		kind = judgeSingle(l, err, calls, r)
	}
	if kind != "" {
		*raws = append(*raws, vraw{op: name, group: "path1", kind: kind, shape: shapeOf(l, r, calls), rel: relation(l, r, p),
			text: fmt.Sprintf("%s(%q): expected %s; observed err=%v, %s", name, p, fmtRef(l, r), err, fmtCalls(l, calls))})
	}
}

// probe resolves one path on its own (Stat) and judges it: used to find out which argument of a
// misbehaving two-path operation is the one that is resolved wrongly.
func probe(l *layout, v *ros.VirtualOS, log *recLog, p string, r refRes) (kind, shape string) {
	log.calls = log.calls[:0]
	err, pan := safeCall(func() error { _, e := v.Stat(p); return e })
	calls := append([]call{}, log.calls...)
	if pan != "" {
		return "vos-panic", shapeOf(l, r, calls)
	}
	return judgeSingle(l, err, calls, r), shapeOf(l, r, calls)
}

func (e *vosEnv) two(name string, run func(v *ros.VirtualOS, a, b string) error, a, b string, ra, rb refRes, hostile int, raws *[]vraw, ev map[string]int64) {
	e.log.calls = e.log.calls[:0]
	err, pan := safeCall(func() error { return run(e.vos, a, b) })
	calls := append([]call{}, e.log.calls...)
	ev["vos-ops"]++
	ev["vos-fs-calls-recorded"] += int64(len(calls))
	l := e.cfg.L
	argName := []string{".old", ".new"}
	// add: when one of the arguments is resolved wrongly already on its own, the anomaly is that
	// defect (same signature as the one-path operations); only when both resolve correctly alone
	// is it specific to this operation and argument
	add := func(kind string, arg int) {
		text := fmt.Sprintf("%s(%q, %q): expected %s for the first and %s for the second argument; observed err=%v, %s", name, a, b, fmtRef(l, ra), fmtRef(l, rb), err, fmtCalls(l, calls))
		if k, sh := probe(l, e.vos, e.log, a, ra); k != "" {
			*raws = append(*raws, vraw{group: "path1", kind: k, shape: sh, rel: relation(l, ra, a), text: text + fmt.Sprintf(" [the first argument alone: %s]", k)})
			return
		}
		if k, sh := probe(l, e.vos, e.log, b, rb); k != "" {
			*raws = append(*raws, vraw{group: "path1", kind: k, shape: sh, rel: relation(l, rb, b), text: text + fmt.Sprintf(" [the second argument alone: %s]", k)})
			return
		}
		r, p := ra, a
		if arg == 1 {
			r, p = rb, b
		}
		*raws = append(*raws, vraw{group: name + argName[arg], kind: kind, shape: shapeOf(l, r, calls), rel: relation(l, r, p), text: text})
	}
	if pan != "" {
		add("vos-panic", hostile)
		return
	}
	if !ra.ok || !rb.ok {
		ev["vos-expected-refusals"]++
		if len(calls) > 0 || err == nil {
			if !ra.ok {
				add("vos-not-refused", 0)
			} else {
				add("vos-not-refused", 1)
			}
		}
		return
	}
	if ra.mount != rb.mount {
		// the statement leaves cross-mount operations open; refusing without a call is accepted, a
		// single filesystem call cannot serve both arguments from their own mounts
		ev["vos-cross-mount-pairs"]++
		if len(calls) > 0 {
			add("vos-cross-mount-call", hostile)
		}
		return
	}
	ev["vos-expected-served"]++
	if len(calls) == 0 {
		add("vos-refused-under-mount", hostile)
		return
	}
	for _, c := range calls {
		if k := judgeArg(l, c, 0, ra); k != "" {
			add(k, 0)
			return
		}
		if k := judgeArg(l, c, 1, rb); k != "" {
			add(k, 1)
			return
		}
	}
}

// mkdirTemp: pattern p, temporary directory tmp (absolute, so the cwd plays no role). The oracle:
// a refusal without any call is always accepted; otherwise the directory must be created through the
// mount that serves the temporary directory, the path handed to that mount must not climb above
// its root, and the path MkdirTemp returns must, resolved by the reference, name exactly the
// directory that was created.
func mkdirTemp(l *layout, tmp, p string, raws *[]vraw, ev map[string]int64) {
	log := &recLog{}
	v, mcomps := buildVOS(l, log, ros.WithTmp(tmp))
	var ret string
	err, pan := safeCall(func() error { var e error; ret, e = v.MkdirTemp("", p); return e })
	calls := append([]call{}, log.calls...)
	ev["vos-ops"]++
	ev["vos-mkdirtemp-ops"]++
	ev["vos-fs-calls-recorded"] += int64(len(calls))
	rt := refResolve(mcomps, "/", tmp)
	add := func(kind, group, more string) {
		*raws = append(*raws, vraw{group: group, kind: kind, shape: "", rel: "",
			text: fmt.Sprintf("MkdirTemp(\"\", %q) with temporary directory %q (reference: %s): returned %q, err=%v, %s%s", p, tmp, fmtRef(l, rt), ret, err, fmtCalls(l, calls), more)})
	}
	if pan != "" {
		add("vos-panic", "MkdirTemp", "")
		return
	}
	if !rt.ok {
		if len(calls) > 0 || err == nil {
			if k, sh := probe(l, v, log, tmp, rt); k != "" {
				*raws = append(*raws, vraw{group: "path1", kind: k, shape: sh, rel: relation(l, rt, tmp),
					text: fmt.Sprintf("MkdirTemp(\"\", %q) with temporary directory %q (reference: %s): %s [the temporary directory alone: %s]", p, tmp, fmtRef(l, rt), fmtCalls(l, calls), k)})
				return
			}
			add("vos-not-refused", "MkdirTemp.tmp-under-no-mount", "")
		}
		return
	}
	if len(calls) == 0 {
		return // refusing is always safe
	}
	for _, c := range calls {
		if c.Mount != rt.mount {
			// is the temporary directory itself resolved wrongly (then it is that defect)?
			if k, sh := probe(l, v, log, tmp, rt); k != "" {
				*raws = append(*raws, vraw{group: "path1", kind: k, shape: sh, rel: relation(l, rt, tmp),
					text: fmt.Sprintf("MkdirTemp(\"\", %q) with temporary directory %q (reference: %s): %s [the temporary directory alone: %s]", p, tmp, fmtRef(l, rt), fmtCalls(l, calls), k)})
				return
			}
			add("vos-wrong-mount", "MkdirTemp", "")
			return
		}
		got := c.Paths[0]
		if lexEscapes(got) {
			add("vos-escapes-source", "MkdirTemp.pattern", "; the path handed to the mount climbs above the mount's root")
			return
		}
		if err != nil {
			continue
		}
		gc, _, _ := components(got)
		rr := refResolve(mcomps, "/", ret)
		if rr.ok && rr.mount == c.Mount && equalStrings(rr.rel, gc) {
			continue
		}
		patternPlain := !strings.Contains(p, "/") && p != "." && p != ".."
		switch {
		case len(rt.rel) > 0 && (len(gc) < len(rt.rel) || !equalStrings(gc[:len(rt.rel)], rt.rel)) && (patternPlain || !rr.ok || rr.mount == c.Mount):
			add("vos-wrong-relpath", "MkdirTemp.tmp-below-mountpoint", fmt.Sprintf("; the temporary directory is %q inside its mount, the directory was created as %q: the returned path does not name it", strings.Join(rt.rel, "/"), strings.Join(gc, "/")))
		case !rr.ok || rr.mount != c.Mount:
			add("vos-wrong-mount", "MkdirTemp.pattern", fmt.Sprintf("; the returned path belongs to %s", fmtRef(l, rr)))
		default:
			add("vos-wrong-relpath", "MkdirTemp.pattern", "; the returned path does not name the directory that was created")
		}
		return
	}
}

// hostile partners for the two-path operations with both arguments hostile
var vosPartners = []string{"../zz", "/../a/zz", "a/../../zz", "/a../zz", "./b/../a/zz", "/a/b/../zz", "..", "/"}

func runVos(c vosCase) *halfOut {
	out := &halfOut{Events: map[string]int64{}}
	var paths []string
	explicit := len(c.Paths) > 0
	if explicit {
		paths = c.Paths
	} else {
		ps := newPathSpace(c.N)
		for i := c.Lo; i < c.Hi && i < ps.Count(); i++ {
			if s, ok := ps.At(i); ok {
				paths = append(paths, s)
			}
		}
	}
	var envs []*vosEnv
	for _, cfg := range allConfigs() {
		if c.Layout != "" && cfg.L.Name != c.Layout {
			continue
		}
		log := &recLog{}
		var v *ros.VirtualOS
		var mc [][]string
		if cfg.Chdir {
			v, mc = buildVOS(cfg.L, log)
			_ = v.Chdir(cfg.Cwd)
		} else {
			v, mc = buildVOS(cfg.L, log, ros.WithCwd(cfg.Cwd))
		}
		envs = append(envs, &vosEnv{cfg: cfg, vos: v, log: log, mcomps: mc})
	}
	// roaming environments: ONE VirtualOS per layout that changes its working directory between uses of
	// the same path strings (a resolution that remembers anything keyed by the raw path shows up here)
	type roamEnv struct {
		l    *layout
		vos  *ros.VirtualOS
		log  *recLog
		mc   [][]string
		cwds []string
	}
	var roams []*roamEnv
	for i := range layouts {
		l := &layouts[i]
		if c.Layout != "" && l.Name != c.Layout {
			continue
		}
		var abs []string
		for _, cwd := range l.Cwds {
			if strings.HasPrefix(cwd, "/") {
				abs = append(abs, cwd)
			}
		}
		if len(abs) < 2 {
			continue
		}
		log := &recLog{}
		v, mc := buildVOS(l, log)
		roams = append(roams, &roamEnv{l: l, vos: v, log: log, mc: mc, cwds: abs})
	}
	for pi, p0 := range paths {
		out.Paths++
		if nonTrivial(p0) {
			out.NonTrivial += vosSlotsPerPath
			if explicit {
				out.Keys = append(out.Keys, "V:*|"+p0)
			}
		}
		for ei, e := range envs {
			l := e.cfg.L
			p := substitute(p0, l.Sub)
			var raws []vraw
			r := refResolve(e.mcomps, e.cfg.Cwd, p)
			for _, op := range singleOps {
				e.single(op.name, op.run, p, r, &raws, out.Events)
			}
			// benign partner in the mount that serves p (else in the first mount)
			pm := 0
			if r.ok {
				pm = r.mount
			}
			benign := strings.TrimSuffix(l.Mounts[pm], "/") + "/zz"
			rbenign := refResolve(e.mcomps, e.cfg.Cwd, benign)
			q := c.Partner
			if q == "" {
				q = substitute(vosPartners[(pi+len(p0))%len(vosPartners)], l.Sub)
			}
			rq := refResolve(e.mcomps, e.cfg.Cwd, q)
			for _, op := range twoOps {
				e.two(op.name, op.run, p, benign, r, rbenign, 0, &raws, out.Events)
				e.two(op.name, op.run, benign, p, rbenign, r, 1, &raws, out.Events)
				if (pi+len(op.name))%2 == 0 {
					e.two(op.name, op.run, p, q, r, rq, 0, &raws, out.Events)
				} else {
					e.two(op.name, op.run, q, p, rq, r, 1, &raws, out.Events)
				}
			}
			for _, v := range foldVos(e.cfg, p, raws) {
				v.Partner = q
				out.Viols = append(out.Viols, v)
			}
			if len(out.Samples) < 3 && nonTrivial(p0) && pi%5 == 2 && ei == (3+11*len(out.Samples)+pi)%len(envs) {
				out.Samples = append(out.Samples, fmt.Sprintf("VirtualOS{%s}.Stat(%q): reference says %s", e.cfg, p, fmtRef(l, r)))
			}
		}
		for _, re := range roams {
			p := substitute(p0, re.l.Sub)
			// two passes over the working directories: the second pass repeats every (cwd, path) pair
			// after the others have been used in between
			for pass := 0; pass < 2; pass++ {
				for _, cwd := range re.cwds {
					_ = re.vos.Chdir(cwd)
					e := &vosEnv{cfg: config{L: re.l, Cwd: cwd, Chdir: true}, vos: re.vos, log: re.log, mcomps: re.mc}
					var raws []vraw
					r := refResolve(re.mc, cwd, p)
					for _, op := range singleOps[:3] {
						e.single(op.name, op.run, p, r, &raws, out.Events)
					}
					out.Events["vos-roaming-chdir-uses"]++
					out.Viols = append(out.Viols, foldVos(e.cfg, p, raws)...)
				}
			}
		}
		// MkdirTemp: once per layout and temporary directory
		for li := range layouts {
			l := &layouts[li]
			if c.Layout != "" && l.Name != c.Layout {
				continue
			}
			p := substitute(p0, l.Sub)
			var raws []vraw
			for _, tmp := range l.Tmps {
				mkdirTemp(l, tmp, p, &raws, out.Events)
				if p != "" {
					// the same with a "*" (os.MkdirTemp's placeholder) before or inside the pattern: what
					// follows the star must be validated like the rest
					mkdirTemp(l, tmp, "j*"+p, &raws, out.Events)
					mkdirTemp(l, tmp, "*/"+strings.TrimPrefix(p, "/"), &raws, out.Events)
				}
			}
			out.Viols = append(out.Viols, foldVos(config{L: l, Cwd: "/"}, p, raws)...)
		}
		if len(out.Viols) > 300 {
			out.Viols = out.Viols[:300]
		}
	}
	out.Ops = out.Events["vos-ops"]
	return out
}

// foldVos: one violation per (kind, shape, relation); the operation group is part of the signature
// only when the single-path operations resolved the same path correctly.
func foldVos(cfg config, p string, raws []vraw) []viol {
	if len(raws) == 0 {
		return nil
	}
	p1kinds := map[string]bool{}
	p1ops := map[string]bool{}
	lastOp := ""
	for _, r := range raws {
		if r.group == "path1" {
			p1kinds[r.kind] = true
			if r.op != "" {
				p1ops[r.op] = true
				lastOp = r.op
			}
		}
	}
	// a defect in the shared resolution shows in all one-path operations (and, through the probe, in
	// the two-path ones); when exactly one operation misbehaves it is named in the signature
	onlyOp := ""
	if len(p1ops) == 1 {
		onlyOp = lastOp
	}
	type agg struct {
		sig   string
		texts []string
	}
	var order []string
	m := map[string]*agg{}
	for _, r := range raws {
		sig := r.kind
		if r.shape != "" || r.rel != "" {
			sig += ":" + r.shape + ":" + r.rel
		}
		if r.group != "path1" && !p1kinds[r.kind] {
			sig += ":" + r.group
		} else if r.group == "path1" && onlyOp != "" {
			sig += ":" + onlyOp
		}
		a := m[sig]
		if a == nil {
			a = &agg{sig: sig}
			m[sig] = a
			order = append(order, sig)
		}
		if len(a.texts) < 4 {
			a.texts = append(a.texts, r.text)
		}
	}
	var res []viol
	for _, s := range order {
		a := m[s]
		res = append(res, viol{Sig: a.sig, Path: p, Config: cfg.L.Name,
			Detail: fmt.Sprintf("virtual OS with %s\n%s", cfg, strings.Join(a.texts, "\n"))})
	}
	return res
}

func decodeVos(data json.RawMessage) vosCase {
	var c vosCase
	if err := json.Unmarshal(data, &c); err != nil {
		panic(err)
	}
	return c
}
