package c13

// External monitor: `strace -f -y -e trace=%file` around a localfs worker. The worker brackets every
// filesystem operation with two marker syscalls (access("/VMARK/B/<n>"), access("/VMARK/E/<n>"));
// every path-taking syscall between the two markers must name a path in the base directory. The
// worker is sequential, so everything between the markers belongs to the operation.

import (
	"bufio"
	"os"
	"strconv"
	"strings"
)

type straceHit struct {
	Mark      int
	Syscall   string
	Path      string // resolved, cleaned
	Line      string
	Noise     bool // system path read by the process runtime (libc/Go runtime on thread start), not a path the world contains
	ParentDir bool // read-only open of base's parent (what os.RemoveAll(base) does before unlinkat(parent, "base"))
}

type straceStats struct {
	Lines    int64
	InWindow int64 // syscalls seen between markers
	Paths    int64 // path arguments checked
	Marks    int64
}

// unescape decodes a C-style quoted string body as printed by strace.
func unescapeStrace(s string) string {
	if !strings.Contains(s, "\\") {
		return s
	}
	var b strings.Builder
	for i := 0; i < len(s); i++ {
		c := s[i]
		if c != '\\' || i+1 >= len(s) {
			b.WriteByte(c)
			continue
		}
		i++
		switch s[i] {
		case 'n':
			b.WriteByte('\n')
		case 't':
			b.WriteByte('\t')
		case 'r':
			b.WriteByte('\r')
		case 'v':
			b.WriteByte('\v')
		case 'f':
			b.WriteByte('\f')
		case 'a':
			b.WriteByte('\a')
		case 'b':
			b.WriteByte('\b')
		case 'e':
			b.WriteByte(0x1b)
		case 'x':
			j := i + 1
			for j < len(s) && j < i+3 && isHex(s[j]) {
				j++
			}
			v, _ := strconv.ParseUint(s[i+1:j], 16, 8)
			b.WriteByte(byte(v))
			i = j - 1
		case '0', '1', '2', '3', '4', '5', '6', '7':
			j := i
			for j < len(s) && j < i+3 && s[j] >= '0' && s[j] <= '7' {
				j++
			}
			v, _ := strconv.ParseUint(s[i:j], 8, 16)
			b.WriteByte(byte(v))
			i = j - 1
		default:
			b.WriteByte(s[i])
		}
	}
	return b.String()
}

func isHex(c byte) bool {
	return c >= '0' && c <= '9' || c >= 'a' && c <= 'f' || c >= 'A' && c <= 'F'
}

type sarg struct {
	quoted bool
	text   string // unescaped string, or raw token
	anno   string // <...> annotation of an fd token
}

// splitArgs tokenises the argument list of one strace line (up to the closing parenthesis).
func splitArgs(s string) []sarg {
	var args []sarg
	i := 0
	for i < len(s) {
		for i < len(s) && (s[i] == ' ' || s[i] == ',') {
			i++
		}
		if i >= len(s) {
			break
		}
		if s[i] == '"' {
			j := i + 1
			for j < len(s) && s[j] != '"' {
				if s[j] == '\\' {
					j++
				}
				j++
			}
			if j > len(s) {
				j = len(s)
			}
			args = append(args, sarg{quoted: true, text: unescapeStrace(s[i+1 : min(j, len(s))])})
			i = j + 1
			for i < len(s) && s[i] == '.' { // truncated string marker
				i++
			}
			continue
		}
		// raw token up to the next top-level comma; {...} and [...] groups and <...> annotations are kept together
		j := i
		depth := 0
		anno := ""
		tokEnd := -1
		for j < len(s) {
			c := s[j]
			if c == '<' && depth == 0 && tokEnd < 0 {
				// fd annotation: ends at ">" followed by "," or ")" or end
				k := j + 1
				for k < len(s) {
					if s[k] == '>' && (k+1 >= len(s) || s[k+1] == ',' || s[k+1] == ')') {
						break
					}
					k++
				}
				tokEnd = j
				anno = unescapeStrace(s[j+1 : min(k, len(s))])
				j = k + 1
				continue
			}
			if c == '{' || c == '[' || c == '(' {
				depth++
			} else if c == '}' || c == ']' {
				depth--
			} else if c == ')' {
				if depth == 0 {
					break
				}
				depth--
			} else if c == ',' && depth == 0 {
				break
			} else if c == '"' {
				// string inside a struct: skip it
				k := j + 1
				for k < len(s) && s[k] != '"' {
					if s[k] == '\\' {
						k++
					}
					k++
				}
				j = k
			}
			j++
		}
		end := j
		if tokEnd >= 0 {
			end = tokEnd
		}
		if end > len(s) {
			end = len(s)
		}
		args = append(args, sarg{text: strings.TrimSpace(s[i:end]), anno: anno})
		if j < len(s) && s[j] == ')' {
			break
		}
		i = j + 1
	}
	return args
}

// parseStrace reads the strace output of one worker. chrootHost is the host path of the directory
// the worker chrooted into ("" if it did not): fd annotations are printed by strace from outside
// the chroot and carry that prefix. cwd is the worker's cwd inside its world.
func parseStrace(file, chrootHost, base, cwd string) ([]straceHit, straceStats, error) {
	var st straceStats
	f, err := os.Open(file)
	if err != nil {
		return nil, st, err
	}
	defer f.Close()
	parent := base[:strings.LastIndex(base, "/")]
	if parent == "" {
		parent = "/"
	}
	stripHost := func(p string) string {
		p = strings.TrimSuffix(p, " (deleted)")
		if chrootHost != "" && (p == chrootHost || strings.HasPrefix(p, chrootHost+"/")) {
			p = p[len(chrootHost):]
			if p == "" {
				p = "/"
			}
		}
		return p
	}
	var hits []straceHit
	cur := 0
	sc := bufio.NewScanner(f)
	sc.Buffer(make([]byte, 1<<20), 1<<26)
	for sc.Scan() {
		line := sc.Text()
		st.Lines++
		// "<pid> name(args…" ; skip resumed lines, signals, exits
		sp := strings.IndexByte(line, ' ')
		if sp < 0 {
			continue
		}
		rest := strings.TrimLeft(line[sp+1:], " ")
		if strings.HasPrefix(rest, "<...") || strings.HasPrefix(rest, "+++") || strings.HasPrefix(rest, "---") {
			continue
		}
		po := strings.IndexByte(rest, '(')
		if po <= 0 {
			continue
		}
		name := rest[:po]
		argstr := rest[po+1:]
		if i := strings.Index(argstr, "\"/VMARK/"); i >= 0 {
			m := argstr[i+8:]
			if len(m) > 2 {
				kind := m[0]
				numEnd := strings.IndexByte(m[2:], '"')
				if numEnd > 0 {
					n, _ := strconv.Atoi(m[2 : 2+numEnd])
					if kind == 'B' {
						cur = n
						st.Marks++
					} else {
						cur = 0
					}
				}
			}
			continue
		}
		if cur == 0 {
			continue
		}
		st.InWindow++
		switch name {
		case "execve", "getcwd", "execveat":
			continue
		}
		args := splitArgs(argstr)
		dir := cwd
		isAt := strings.HasSuffix(name, "at") || strings.HasSuffix(name, "at2") || name == "statx" || name == "name_to_handle_at"
		nq := 0
		var linkDir string
		// symlink/symlinkat: the first string is the link's target (content); resolve it against the
		// directory of the link path, which comes last
		var pendingTarget *string
		for ai, a := range args {
			if !a.quoted {
				if isAt && (a.text == "AT_FDCWD" || isDigits(a.text)) {
					if a.text == "AT_FDCWD" {
						dir = cwd
						if a.anno != "" {
							dir = stripHost(a.anno)
						}
					} else if a.anno != "" {
						dir = stripHost(a.anno)
					}
				}
				continue
			}
			nq++
			if (name == "readlink" || name == "readlinkat") && nq > 1 {
				continue
			}
			if (name == "symlink" || name == "symlinkat") && nq == 1 {
				t := a.text
				pendingTarget = &t
				continue
			}
			p := a.text
			if p == "" && isAt {
				p = dir // AT_EMPTY_PATH
			} else if !strings.HasPrefix(p, "/") {
				p = dir + "/" + p
			}
			c := cleanString(stripHost(p))
			st.Paths++
			_ = ai
			linkDir = c[:strings.LastIndex(c, "/")]
			if linkDir == "" {
				linkDir = "/"
			}
			if c == base {
				// a link "at" the base directory itself cannot be created (the directory exists); its
				// target would be read relative to the base's parent, which says nothing about an escape
				linkDir = base
			}
			if !(c == base || strings.HasPrefix(c, base+"/")) {
				h := straceHit{Mark: cur, Syscall: name, Path: c, Line: line}
				for _, pre := range []string{"/sys/", "/proc/", "/dev/", "/etc/"} {
					// e.g. glibc's get_nprocs (/sys/devices/system/cpu/online, /proc/stat) when a new thread
					// starts while an operation runs; the enumerated paths never begin with these names and
					// the world contains none of them
					if strings.HasPrefix(c, pre) {
						h.Noise = true
					}
				}
				if (name == "open" || name == "openat") && c == parent && strings.Contains(argstr, "O_RDONLY") &&
					!strings.Contains(argstr, "O_CREAT") && !strings.Contains(argstr, "O_TRUNC") && !strings.Contains(argstr, "O_TMPFILE") {
					h.ParentDir = true
				}
				hits = append(hits, h)
			}
		}
		if pendingTarget != nil {
			t := *pendingTarget
			if !strings.HasPrefix(t, "/") {
				t = linkDir + "/" + t
			}
			c := cleanString(stripHost(t))
			st.Paths++
			if !(c == base || strings.HasPrefix(c, base+"/")) {
				hits = append(hits, straceHit{Mark: cur, Syscall: name + " (link target)", Path: c, Line: line})
			}
		}
	}
	return hits, st, sc.Err()
}

func isDigits(s string) bool {
	if s == "" {
		return false
	}
	for i := 0; i < len(s); i++ {
		if s[i] < '0' || s[i] > '9' {
			return false
		}
	}
	return true
}
