package props

import "verif/internal/props/c07"

func init() { registrars = append(registrars, c07.Register) }
