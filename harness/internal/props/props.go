// Package props wires every per-property check into the registry.
package props

import (
	"verif/internal/mon"
)

var registrars []func()

func RegisterAll() {
	for _, f := range registrars {
		f()
	}
}

func Lookup(id string) *mon.Prop { return mon.Lookup(id) }
