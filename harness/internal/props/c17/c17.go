// Package c17: serialised bytecode behaves exactly like the code it was made from
// (translation-validation style differential over generated programs).
package c17

import (
	"bytes"
	"encoding/json"
	"fmt"
	"runtime/debug"
	"strings"
	"time"

	"github.com/risor-io/risor/compiler"

	"verif/internal/eng"
	"verif/internal/gen"
	"verif/internal/mon"
	"verif/internal/rz"
)

const ID = "C17"

func Register() {
	mon.Register(&mon.Prop{ID: ID, Drive: drive})
	mon.RegisterWorker(ID, worker)
}

type failure struct {
	Index  int    `json:"index"`
	Sig    string `json:"sig"`
	Detail string `json:"detail"`
	Source string `json:"source"`
}

type out struct {
	Programs   int            `json:"programs"`
	Compiled   int            `json:"compiled"`
	Executed   int            `json:"executed"`
	Bytes      int64          `json:"bytes"`
	Funcs      int            `json:"funcs"`
	Closures   int            `json:"closures"`
	Defaults   int            `json:"defaults"`
	ErrRuns    int            `json:"err_runs"`
	ModelAgree int            `json:"model_agree"`
	Sigs       []string       `json:"sigs"`
	Fail       []failure      `json:"fail"`
	Samples    []string       `json:"samples"`
	Harness    []string       `json:"harness"`
	Kinds      map[string]int `json:"kinds"`
}

type caseData struct {
	eng.Batch
}

func safely(f func()) (panicText string) {
	defer func() {
		if r := recover(); r != nil {
			panicText = fmt.Sprintf("%v\n%s", r, debug.Stack())
		}
	}()
	f()
	return
}

// checkOne runs all C17 clauses on one source text; want is the model outcome (nil if undecided).
func checkOne(src string, want *gen.Outcome, names []string) (sig, detail string, st struct {
	compiled, executed, errRun, modelAgree, timeout bool
	nbytes                                          int
}) {
	c1 := rz.Compile(src, rz.Opts{})
	if c1.Code == nil {
		// generated programs compile (C01 checks that); nothing to serialise
		return "", "", st
	}
	st.compiled = true
	var b1, b1b, b2, b3 []byte
	var err error
	if p := safely(func() { b1, err = compiler.MarshalCode(c1.Code) }); p != "" {
		return "marshal-panic", p, st
	}
	if err != nil {
		return "marshal-error", err.Error(), st
	}
	st.nbytes = len(b1)
	// the bytes handed out belong to the caller: marshalling other code afterwards must not change them
	keep := append([]byte(nil), b1...)
	if other := otherCode(); other != nil {
		for i := 0; i < 2; i++ {
			if p := safely(func() { _, err = compiler.MarshalCode(other[i%len(other)]) }); p != "" || err != nil {
				return "marshal-panic", fmt.Sprint(p, err), st
			}
		}
	}
	if !bytes.Equal(b1, keep) {
		return "marshalled-bytes-change-under-later-marshal", firstDiff(keep, b1), st
	}
	if p := safely(func() { b1b, err = compiler.MarshalCode(c1.Code) }); p != "" || err != nil {
		return "marshal-panic", fmt.Sprint(p, err), st
	}
	if !bytes.Equal(b1, b1b) {
		return "marshal-nondeterministic:same-code-object", firstDiff(b1, b1b), st
	}
	// a second, independent compilation of the same source marshals to the same bytes
	c3 := rz.Compile(src, rz.Opts{})
	if c3.Code != nil {
		if p := safely(func() { b3, err = compiler.MarshalCode(c3.Code) }); p == "" && err == nil && !bytes.Equal(b1, b3) {
			return "marshal-nondeterministic:recompiled", firstDiff(b1, b3), st
		}
	}
	var code2 *compiler.Code
	if p := safely(func() { code2, err = compiler.UnmarshalCode(b1) }); p != "" {
		return "unmarshal-panic", p, st
	}
	if err != nil {
		return "unmarshal-error", err.Error(), st
	}
	// the same bytes (and other programs' bytes) may be loaded again before this copy is run: each load is
	// a tree of its own
	var code2b *compiler.Code
	if p := safely(func() { code2b, err = compiler.UnmarshalCode(b1) }); p != "" || err != nil {
		return "unmarshal-error:second-load", fmt.Sprint(p, err), st
	}
	if ob := otherBytes(); ob != nil {
		for _, x := range ob {
			if p := safely(func() { _, err = compiler.UnmarshalCode(x) }); p != "" || err != nil {
				return "unmarshal-error:other-program", fmt.Sprint(p, err), st
			}
		}
	}
	if p := safely(func() { b2, err = compiler.MarshalCode(code2) }); p != "" || err != nil {
		return "remarshal-failed", fmt.Sprint(p, err), st
	}
	if !bytes.Equal(b1, b2) {
		return "remarshal-differs", firstDiff(b1, b2), st
	}
	// side by side execution with identical fresh globals
	r1 := rz.Exec(c1.Code, rz.Opts{GlobalNames: names})
	r2 := rz.Exec(code2, rz.Opts{GlobalNames: names})
	if r2b := rz.Exec(code2b, rz.Opts{GlobalNames: names}); r2b.Result != r2.Result || r2b.ErrText != r2.ErrText || r2b.Out != r2.Out || (r2b.GoPanic != "") != (r2.GoPanic != "") {
		return "reloaded-copies-behave-differently", fmt.Sprintf("two loads of the same bytes: first %s / %q / %q, second %s / %q / %q %s", r2.Result, r2.ErrText, r2.Out, r2b.Result, r2b.ErrText, r2b.Out, mon.Truncate(r2b.GoPanic, 300)), st
	}
	st.executed = true
	if r1.Err != "" {
		st.errRun = true
	}
	if r1.Err == "timeout" || r2.Err == "timeout" {
		st.timeout = true
	}
	if r2.GoPanic != "" && r1.GoPanic == "" {
		return "reloaded-behaves-differently:go-panic", r2.GoPanic, st
	}
	var d []string
	if r1.Result != r2.Result {
		d = append(d, fmt.Sprintf("result: original %s, reloaded %s", r1.Result, r2.Result))
	}
	if r1.ErrText != r2.ErrText {
		d = append(d, fmt.Sprintf("error: original %q, reloaded %q", r1.ErrText, r2.ErrText))
	}
	if r1.Out != r2.Out {
		d = append(d, fmt.Sprintf("output: original %q, reloaded %q", r1.Out, r2.Out))
	}
	for k, v := range r1.Globals {
		if r2.Globals[k] != v {
			d = append(d, fmt.Sprintf("global %s: original %s, reloaded %s", k, v, r2.Globals[k]))
		}
	}
	if len(d) > 0 {
		kind := "result"
		switch {
		case r1.ErrText != r2.ErrText:
			kind = "error"
		case r1.Result != r2.Result:
			kind = "result"
		case r1.Out != r2.Out:
			kind = "output"
		default:
			kind = "global"
		}
		return "reloaded-behaves-differently:" + kind, strings.Join(d, "\n"), st
	}
	if want != nil {
		if diff := rz.Diff(*want, r2); diff == "" {
			st.modelAgree = true
		}
	}
	return "", "", st
}

func firstDiff(a, b []byte) string {
	n := len(a)
	if len(b) < n {
		n = len(b)
	}
	i := 0
	for i < n && a[i] == b[i] {
		i++
	}
	lo := i - 60
	if lo < 0 {
		lo = 0
	}
	ha, hb := i+80, i+80
	if ha > len(a) {
		ha = len(a)
	}
	if hb > len(b) {
		hb = len(b)
	}
	return fmt.Sprintf("first difference at byte %d (lengths %d / %d)\n  a: …%s\n  b: …%s", i, len(a), len(b), a[lo:ha], b[lo:hb])
}

// boundarySources: programs whose instruction words, constant / name / local indexes and jump distances
// sit at and around 255, 256 and 65535-free sizes, where a packed encoding would change width.
func boundarySources() []string {
	var out []string
	for _, n := range []int{254, 255, 256, 257, 300} {
		var items, consts, names, locals []string
		for i := 0; i < n; i++ {
			items = append(items, fmt.Sprint(i%7))
			consts = append(consts, fmt.Sprintf("%d", 1000+i))
			names = append(names, fmt.Sprintf("\"k%d\": %d", i, i))
			locals = append(locals, fmt.Sprintf("v%d := %d", i, i))
		}
		out = append(out,
			"x := ["+strings.Join(items, ", ")+"]\n[len(x), x[0], x["+fmt.Sprint(n-1)+"]]\n",
			"x := ["+strings.Join(consts, ", ")+"]\n[len(x), x[0], x["+fmt.Sprint(n-1)+"], \"tail\", 2.5]\n",
			"m := {"+strings.Join(names, ", ")+"}\n[len(m), m[\"k0\"], m[\"k"+fmt.Sprint(n-1)+"\"]]\n",
			"func f() {\n"+strings.Join(locals, "\n")+"\nreturn v0 + v"+fmt.Sprint(n-1)+"\n}\nf()\n",
			"x := 0\nif x == 0 {\n"+strings.Repeat("x = x + 1\n", n/4)+"}\nx\n",
			"x := 0\nfor i := 0; i < 2; i++ {\n"+strings.Repeat("x += i\n", n/5)+"}\nx\n",
		)
	}
	return out
}

// otherCode: two small unrelated programs (one shorter, one longer than most), compiled once per process.
var otherCodes []*compiler.Code

// otherBytes: the marshalled forms of the other programs (functions with the same ids and signatures as
// many generated ones).
var otherBlobs [][]byte

func otherBytes() [][]byte {
	if otherBlobs == nil {
		for _, c := range otherCode() {
			if b, err := compiler.MarshalCode(c); err == nil {
				otherBlobs = append(otherBlobs, append([]byte(nil), b...))
			}
		}
		for _, src := range []string{"func f3() { return 1 }\nfunc f6(p7, p8, p9) { return 2 }\nf3()\n", "cl5 := func() { return 3 }\nfunc f2(p3=1) { return p3 }\n[cl5(), f2()]\n"} {
			if c := rz.Compile(src, rz.Opts{}); c.Code != nil {
				if b, err := compiler.MarshalCode(c.Code); err == nil {
					otherBlobs = append(otherBlobs, append([]byte(nil), b...))
				}
			}
		}
	}
	return otherBlobs
}

func otherCode() []*compiler.Code {
	if otherCodes == nil {
		for _, src := range []string{"1 + 6\n", "func zz(a, b=2) { return [a, b, \"" + strings.Repeat("pad", 400) + "\"] }\nzz(1)\n"} {
			if c := rz.Compile(src, rz.Opts{}); c.Code != nil {
				otherCodes = append(otherCodes, c.Code)
			}
		}
	}
	return otherCodes
}

func worker(kind string, data json.RawMessage) any {
	var c caseData
	if err := json.Unmarshal(data, &c); err != nil {
		panic(err)
	}
	o := &out{Kinds: map[string]int{}}
	if c.From == 0 {
		// fixed sources for shapes the generator does not produce
		for _, src := range append(boundarySources(), []string{
			"func __main__(n) { if n <= 0 { return 0 }; return 1 + __main__(n - 1) }\n__main__(3)\n",
			"func f(a, b=2, c=\"s\", d=1.5, e=true) { return [a, b, c, d, e] }\n[f(1), f(1, 9), 9223372036854775807, -9223372036854775807, 9007199254740993, \"\\u00e9\", 1.0e10]\n",
			// defaults of every kind, used where int and float differ; constants at the edges of their types
			"func half(x, by=2.0) { return [x / by, type(by), by / 4, 7 / by] }\n[half(1), half(3, 2.0), half(5, 2)]\n",
			"func g(a=0.0, b=-1.0, c=1e3, d=100.0, e=-0.0) { return [type(a), type(b), type(c), type(d), 1 / (b + 3), 5 / c, 3 / d, a, e] }\n[g(), g(1), g(1, 2)]\n",
			"f := func(s=\"\", t=\"2.0\", n=0, m=-1, ok=false, z=3.0) { return [s, t, n, m, ok, 10 / z, type(z), type(n)] }\n[f(), f(\"x\")]\n",
			"x := [2.0, 1.0, 0.0, -3.0, 1e0, 4.0e0]\ny := x.map(func(v) { return [type(v), 7 / (v + 10)] })\n[y, {\"k\": 6.0}, 9 / 3.0, type(6.0)]\n",
			"func outer(p=5.0) { inner := func(q=2.0, r=8) { return [p / q, r / q, type(q), type(r)] }; return inner() }\nouter()\n",
			// closures nested three and four levels that use variables of their grandparents while every
			// ancestor is still active (the region that works), with more and fewer locals in between
			"func a() { x := 41; func b() { func c() { return x + 1 }; return c() }; return b() }\na()\n",
			"func a(p, q) { x := 1; y := 2; z := 3; w := 4; func b() { m := 0; func c() { return [p, q, x, y, z, w] }; return c() }; return b() }\na(7, 8)\n",
			"func a() { x := 5; return [1, 2].map(func(i) { return [3].map(func(j) { return func() { return x + i + j }() }) }) }\na()\n",
			"func a() { v1 := 1; v2 := 2; v3 := 3; func b() { func c() { func d() { return v1 + v2 + v3 }; return d() }; return c() }; return b() }\na()\n",
			// nil defaults at every position relative to other defaults (a nil default still counts as "no
			// default" for the required-argument count — recorded finding D12 — so every call passes enough)
			"func join(items, sep=\", \", conv=nil) { return [items, sep, conv] }\n[join([1, 2], \"; \"), join([1], \"-\", 3)]\n",
			"func f(a=1, b=nil) { return [a, b] }\nfunc g(a=nil, b=2, c=nil, d=\"x\") { return [a, b, c, d] }\n[f(7), f(7, 8), g(1, 5), g(1, 5, 6), g(1, 5, 6, \"y\")]\n",
			"h := func(x, y=nil, z=3.5) { return [x, y, z] }\n[h(1, 2), h(1, 2, 3), try(func() { return h(1) }, \"args\")]\n",
			"func k(a, b=\"s\", c=nil, d=nil) { return [a, b, c, d] }\n[k(1, 2, 3), k(1, \"t\", nil), k(1, 2, 3, 4)]\n",
		}...) {
			o.Programs++
			sig, detail, st := checkOne(src, nil, nil)
			if st.executed {
				o.Executed++
				o.Compiled++
			}
			if sig != "" {
				o.Fail = append(o.Fail, failure{Index: -1, Sig: sig, Detail: detail, Source: src})
			}
		}
	}
	timeouts := 0
	for i := c.From; i < c.From+c.N; i++ {
		p, g := c.Batch.Program(i)
		o.Programs++
		src := gen.RenderProgram(p)
		var want *gen.Outcome
		var names []string
		w, _, ok, err := eng.Model(p)
		if err != nil {
			if len(o.Harness) < 3 {
				o.Harness = append(o.Harness, err.Error()+"\n"+src)
			}
			continue
		}
		if ok {
			want = &w
			names = eng.GlobalNames(w)
		} else {
			// undecided by the model (e.g. step budget): the side-by-side comparison needs no model, but an
			// over-budget program may run very long: skip
			continue
		}
		sig, detail, st := checkOne(src, want, names)
		if st.timeout {
			timeouts++
			if timeouts >= 2 {
				break // something makes programs hang (that is C01's/C06's finding); do not burn the run on it
			}
		}
		if st.compiled {
			o.Compiled++
			o.Bytes += int64(st.nbytes)
		}
		if st.executed {
			o.Executed++
		}
		if st.errRun {
			o.ErrRuns++
		}
		if st.modelAgree {
			o.ModelAgree++
		}
		o.Funcs += g.Feats["funcdecl"] + g.Feats["closure"]
		o.Closures += g.Feats["closure"] + g.Feats["list.map"] + g.Feats["list.filter"]
		o.Defaults += g.Feats["default-param"]
		if st.executed {
			o.Sigs = append(o.Sigs, eng.FeatureSig(p))
		}
		if len(o.Samples) < 1 && i%11 == 0 && st.executed {
			o.Samples = append(o.Samples, src)
		}
		if sig != "" {
			// shrink while the same signature persists
			deadline := time.Now().Add(45 * time.Second)
			gen.Shrink(p, func(q *gen.Program) bool {
				if time.Now().After(deadline) {
					return false
				}
				w2, _, ok2, e2 := eng.Model(q)
				if e2 != nil || !ok2 {
					return false
				}
				s2, _, _ := checkOne(gen.RenderProgram(q), &w2, eng.GlobalNames(w2))
				return s2 == sig
			}, 300)
			small := gen.RenderProgram(p)
			if w2, _, ok2, e2 := eng.Model(p); e2 == nil && ok2 {
				if s2, d2, _ := checkOne(small, &w2, eng.GlobalNames(w2)); s2 == sig {
					detail = d2
				}
			}
			if len(o.Fail) < 10 {
				o.Fail = append(o.Fail, failure{Index: i, Sig: sig, Detail: detail, Source: small})
			}
		}
	}
	return o
}

func drive(d *mon.Driver, replay string) int {
	d.Level = "translation_validation"
	d.Rule = "every generated program (C01's generator, all four mixes incl. nested functions, closures, default parameters of every literal type, unicode strings, large ints) is compiled, marshalled twice and again from an independent compilation (bytes equal), unmarshalled (must succeed), re-marshalled (bytes equal) and the original and reloaded code are executed side by side on fresh VMs with identical globals (result, error text, output, final globals equal); a program counts as distinct+non-trivial by its feature signature when it compiled and ran"
	d.Assume = []string{"both executions use fresh default globals and a virtual OS; programs use no randomness, time or goroutines", "the comparison original-vs-reloaded needs no model; agreement of the reloaded run with the reference interpreter is additionally counted"}
	var cases []mon.Case
	if replay != "" {
		var c caseData
		if err := mon.LoadReplay(replay, &c); err != nil {
			fmt.Println("cannot load replay:", err)
			return 3
		}
		cases = append(cases, mon.NewCase("replay", "replay", c))
	} else {
		r := d.Rand("programs")
		total := d.N(12000, 500000)
		per := 400
		seed := r.Uint64()
		for from := 0; from < total; from += per {
			cases = append(cases, mon.NewCase(fmt.Sprintf("gen-%d", from), "gen", caseData{Batch: eng.Batch{Seed: seed, From: from, N: per, Mix: -1}}))
		}
	}
	var programs, compiled, executed, disagreements int
	var nbytes int64
	d.RunPool(cases, mon.PoolOpts{BatchSize: 1, BatchTimeout: 900e9}, func(c mon.Case, res mon.Result) {
		var cd caseData
		_ = json.Unmarshal(c.Data, &cd)
		if res.Status != "done" {
			detail := ""
			if res.Crash != nil {
				detail = res.Crash.Exit + " " + res.Crash.FatalLine + "\n" + res.Crash.StderrTail
			}
			if res.Status == "crash" && res.Crash != nil && res.Crash.Confirmed {
				d.Violation("worker-died", mon.Truncate(detail, 3000), cd)
			} else {
				d.Inconclusive("worker " + c.ID + ": " + res.Status + " " + mon.Truncate(detail, 300))
			}
			return
		}
		if res.Panic != "" {
			d.Fatal("harness panic in worker: " + res.Panic)
			return
		}
		var o out
		if err := json.Unmarshal(res.Data, &o); err != nil {
			d.Fatal("bad worker output: " + err.Error())
			return
		}
		for _, h := range o.Harness {
			d.Fatal("reference interpreter failed (harness bug): " + h)
		}
		programs += o.Programs
		compiled += o.Compiled
		executed += o.Executed
		nbytes += o.Bytes
		d.Eval(o.Executed)
		d.Event("marshalled-bytes", int(o.Bytes))
		d.Event("functions", o.Funcs)
		d.Event("closures-and-callbacks", o.Closures)
		d.Event("default-params", o.Defaults)
		d.Event("runs-ending-in-error", o.ErrRuns)
		d.Event("reloaded-agrees-with-model", o.ModelAgree)
		for _, s := range o.Sigs {
			d.Distinct(s)
		}
		for _, s := range o.Samples {
			d.Sample(s)
		}
		for _, f := range o.Fail {
			disagreements++
			rc := cd
			rc.From = f.Index
			rc.N = 1
			d.Violation(f.Sig, mon.Truncate(f.Detail, 2500)+"\n--- minimised program:\n"+mon.Truncate(f.Source, 3000), rc)
		}
	})
	d.Extra("programs", executed)
	d.Extra("disagreements_checked", executed)
	d.Extra("programs_generated", programs)
	d.Extra("programs_compiled", compiled)
	if replay != "" {
		return d.Finish(0, 0)
	}
	return d.Finish(d.N(8000, 300000), d.N(1500, 15000))
}
