package c11

// Combined configurations: deny sets x overrides (top-level and dotted; risor objects, Go values that
// convert, Go values that do NOT convert: funcs, structs, slices, channels, ...) x the way the globals
// are supplied (defaults, WithoutDefaultGlobals + WithGlobals(G), defaults + host globals) x the order
// of the options.
//
// Oracle: whatever else the configuration contains, and whether or not another option is rejected or
// ignored, every denied name is absent from Globals()/CombinedGlobals()/GlobalNames(), its object is
// not in the identity closure and every access path fails; overrides whose value is valid where it is
// used still take effect, provided the configuration has no override that the configuration itself
// rejects (Config.init stops at the first rejected dotted override and the remaining ones are applied
// or not depending on map order: either outcome is accepted then). A name that is both denied and
// overridden behaves as on the unchanged tree: a top-level name ends up replaced, a dotted name ends
// up removed; in no case is the original object visible.

import (
	"errors"
	"fmt"
	"sort"
	"strings"

	"github.com/risor-io/risor"
	"github.com/risor-io/risor/object"

	"verif/internal/mon"
)

type comboOver struct {
	Name string `json:"name"`
	Val  string `json:"val"` // value kind, see comboValue
}

type comboSpec struct {
	Deny  []string
	Overs []comboOver
	Base  string // default | hostG | default+host
	Split bool   // one WithoutGlobal per name instead of one WithoutGlobals
	Order uint64 // seed of the option shuffle (0 = as written: base, denies, overrides)
	Seed  uint64 // path choice
}

type comboStruct struct {
	A int
	B string
}

// value kinds that risor accepts everywhere
var comboValidKinds = []string{"str", "builtin", "gostr", "goint", "gofloat", "gobool", "strslice", "mapany", "nil"}

// value kinds that some or all positions reject (FromGoType for dotted names, AsObjects for top-level)
var comboOddKinds = []string{"gofunc", "struct", "ptrstruct", "intslice", "mapsi", "chan", "complex", "errorval", "objerr", "uintptr"}

func comboValue(kind, tag string) any {
	switch kind {
	case "str", "builtin", "gostr", "goint", "module":
		v, _ := makeSentinel(kind, tag)
		return v
	case "gofloat":
		return 1234.5
	case "gobool":
		return true
	case "strslice":
		return []string{"SENTINEL", tag}
	case "mapany":
		return map[string]any{"sentinel": tag}
	case "nil":
		return nil
	case "gofunc":
		return func(name string) string { return "SENTINEL-" + tag }
	case "struct":
		return comboStruct{A: 7, B: tag}
	case "ptrstruct":
		return &comboStruct{A: 8, B: tag}
	case "intslice":
		return []int{4, 2, 4, 2}
	case "mapsi":
		return map[string]int{"sentinel": 1}
	case "chan":
		return make(chan int)
	case "complex":
		return complex(1, 2)
	case "errorval":
		return errors.New("SENTINEL-ERROR-" + tag)
	case "objerr":
		return object.NewError(errors.New("SENTINEL-OBJERR-" + tag))
	case "uintptr":
		return uintptr(42)
	}
	panic("harness: unknown value kind " + kind)
}

// convertAt says what object a value becomes where it is used (dotted: object.FromGoType as
// Config.applyOverrides does; top-level: object.AsObjects as the VM does) and whether it is accepted.
func convertAt(v any, dotted bool) (obj object.Object, ok bool) {
	defer func() {
		if r := recover(); r != nil {
			obj, ok = nil, false
		}
	}()
	if dotted {
		o := object.FromGoType(v)
		if o == nil || o.Type() == object.ERROR {
			return nil, false
		}
		return o, true
	}
	m, err := object.AsObjects(map[string]any{"x": v})
	if err != nil || m["x"] == nil {
		return nil, false
	}
	return m["x"], true
}

func seenValue(res object.Object, v any, dotted bool) bool {
	if res == nil {
		return false
	}
	if o, isObj := v.(object.Object); isObj {
		return res == o
	}
	want, ok := convertAt(v, dotted)
	if !ok {
		return false
	}
	return res.Type() == want.Type() && safeInspect(res) == safeInspect(want)
}

// hostExtras are host globals given besides the defaults.
func hostExtras() map[string]any {
	return map[string]any{
		"c11_host": object.NewString("host-value"),
		"c11_hostmod": object.NewBuiltinsModule("c11_hostmod", map[string]object.Object{
			"v": object.NewString("host-module-value"),
		}),
	}
}

// comboOpts builds the option list of a spec from fresh objects. It returns the base options (the
// same configuration without any deny / override), the full list, the default globals map G that was
// handed in for base "hostG" (nil otherwise) and the override values by name.
func comboOpts(sp comboSpec) (base, full []risor.Option, G map[string]any, vals map[string]any) {
	vals = map[string]any{}
	switch sp.Base {
	case "hostG":
		G = risor.DefaultGlobals()
		base = []risor.Option{risor.WithoutDefaultGlobals(), risor.WithGlobals(G)}
	case "default+host":
		base = []risor.Option{risor.WithGlobals(hostExtras()), risor.WithGlobal("c11_single", 17)}
	default:
		base = nil
	}
	var rest []risor.Option
	if sp.Split {
		for _, n := range sp.Deny {
			rest = append(rest, risor.WithoutGlobal(n))
		}
	} else if len(sp.Deny) > 0 {
		rest = append(rest, risor.WithoutGlobals(sp.Deny...))
	}
	for i, ov := range sp.Overs {
		v := comboValue(ov.Val, comboTag(i))
		vals[ov.Name] = v
		rest = append(rest, risor.WithGlobalOverride(ov.Name, v))
	}
	full = append(append([]risor.Option{}, base...), rest...)
	if sp.Order != 0 {
		r := mon.NewRand(sp.Order)
		perm := r.Perm(len(full))
		sh := make([]risor.Option, len(full))
		for i, j := range perm {
			sh[i] = full[j]
		}
		full = sh
	}
	return base, full, G, vals
}

func comboTag(i int) string { return fmt.Sprintf("combo%d", i) }

// wantAt is the object a script should see for override number i of the spec.
func (sp comboSpec) wantAt(i int) (object.Object, bool) {
	return convertAt(comboValue(sp.Overs[i].Val, comboTag(i)), strings.Contains(sp.Overs[i].Name, "."))
}

func sameDesc(res, want object.Object) bool {
	return res != nil && want != nil && res.Type() == want.Type() && safeInspect(res) == safeInspect(want)
}

func (sp comboSpec) String() string {
	var ovs []string
	for _, o := range sp.Overs {
		ovs = append(ovs, o.Name+"="+o.Val)
	}
	return fmt.Sprintf("base=%s deny=%v override=[%s] split=%v order=%d", sp.Base, sp.Deny, strings.Join(ovs, " "), sp.Split, sp.Order)
}

func (sp comboSpec) replay() caseData {
	return caseData{Kind: "combo1", Deny: sp.Deny, Overs: sp.Overs, Base: sp.Base, Split: sp.Split, Order: sp.Order, Seed: sp.Seed}
}

// fixedCombos are run at every seed: the shapes that matter, written out.
func fixedCombos(all []nameInfo) []comboSpec {
	var out []comboSpec
	// every odd value kind beside a deny set, in every base, as written and shuffled
	for i, k := range comboOddKinds {
		for bi, base := range []string{"default", "hostG", "default+host"} {
			out = append(out,
				comboSpec{Deny: []string{"json", "exec", "cat", "os.exit"}, Overs: []comboOver{{"os.getenv", k}}, Base: base, Seed: uint64(100 + i)},
				comboSpec{Deny: []string{"strings.split", "getenv"}, Overs: []comboOver{{"math.sqrt", k}, {"print", "str"}}, Base: base, Split: true, Order: uint64(7 + i + bi), Seed: uint64(200 + i)},
				comboSpec{Deny: []string{"os", "time.now"}, Overs: []comboOver{{"fetch", k}}, Base: base, Order: uint64(31 + i), Seed: uint64(300 + i)},
			)
		}
	}
	// valid values beside a deny set
	for i, k := range comboValidKinds {
		out = append(out, comboSpec{Deny: []string{"exec", "os.exit", "open"}, Overs: []comboOver{{"os.getenv", k}, {"cat", k}}, Base: []string{"default", "hostG", "default+host"}[i%3], Order: uint64(i), Seed: uint64(400 + i)})
	}
	// a name that is both denied and overridden
	for i, n := range []string{"getenv", "os.getenv", "os", "math.PI", "print", "strings.split", "json"} {
		k := "str"
		if n == "os" || n == "json" {
			k = "module"
		}
		for _, base := range []string{"default", "hostG"} {
			out = append(out,
				comboSpec{Deny: []string{n}, Overs: []comboOver{{n, k}}, Base: base, Seed: uint64(500 + i)},
				comboSpec{Deny: []string{n, "exec"}, Overs: []comboOver{{n, "builtin"}, {"math.abs", "gofunc"}}, Base: base, Order: uint64(3 + i), Seed: uint64(600 + i)},
			)
		}
	}
	return out
}

func genCombo(r *mon.Rand, all []nameInfo) comboSpec {
	var sp comboSpec
	sp.Seed = r.Uint64()
	sp.Base = mon.Pick(r, []string{"default", "default", "hostG", "default+host"})
	sp.Split = r.Bool()
	if r.Chance(3, 4) {
		sp.Order = r.Uint64() | 1
	}
	nDeny := r.Range(1, 5)
	var mods []nameInfo
	for _, ni := range all {
		if ni.Kind == "module" {
			mods = append(mods, ni)
		}
	}
	focus := mon.Pick(r, mods).Name
	for tries := 0; len(sp.Deny) < nDeny && tries < 200; tries++ {
		ni := mon.Pick(r, all)
		if r.Chance(1, 3) && !(ni.Mod == focus || ni.Name == focus) {
			continue
		}
		if contains(sp.Deny, ni.Name) {
			continue
		}
		sp.Deny = append(sp.Deny, ni.Name)
	}
	nOver := 0
	if r.Chance(4, 5) {
		nOver = r.Range(1, 3)
	}
	byName := map[string]nameInfo{}
	for _, ni := range all {
		byName[ni.Name] = ni
	}
	for tries := 0; len(sp.Overs) < nOver && tries < 200; tries++ {
		var ni nameInfo
		same := r.Chance(1, 5)
		if same {
			ni = byName[mon.Pick(r, sp.Deny)]
		} else {
			ni = mon.Pick(r, all)
			if r.Chance(1, 2) && ni.Kind != "module-member" {
				continue // dotted names are where values are converted by the configuration
			}
		}
		clash := false
		for _, d := range sp.Deny {
			if d != ni.Name && related(d, ni.Name) {
				clash = true
			}
		}
		for _, ov := range sp.Overs {
			if related(ov.Name, ni.Name) {
				clash = true
			}
		}
		if clash || ni.Name == "spawn" || ni.Name == "try" || ni.Name == "getattr" {
			continue
		}
		var k string
		if r.Bool() {
			k = mon.Pick(r, comboOddKinds)
		} else {
			k = mon.Pick(r, comboValidKinds)
			if ni.Kind == "module" && r.Bool() {
				k = "module"
			}
		}
		sp.Overs = append(sp.Overs, comboOver{ni.Name, k})
	}
	sort.Strings(sp.Deny)
	return sp
}

func runCombo(o *out, sp comboSpec, all []nameInfo) {
	rep := sp.replay()
	byName := map[string]nameInfo{}
	for _, ni := range all {
		byName[ni.Name] = ni
	}
	for _, n := range sp.Deny {
		if _, ok := byName[n]; !ok {
			o.ev("harness:name-not-in-defaults-any-more")
			return
		}
	}
	for _, ov := range sp.Overs {
		if _, ok := byName[ov.Name]; !ok {
			o.ev("harness:name-not-in-defaults-any-more")
			return
		}
	}
	r := mon.NewRand(sp.Seed)
	overOf := map[string]comboOver{}
	overIdx := map[string]int{}
	for i, ov := range sp.Overs {
		overOf[ov.Name] = ov
		overIdx[ov.Name] = i
	}
	// classification of the overrides by what risor's own converters say
	rejectedDotted := false // Config.init gives up at such an override
	vmUnusable := false     // the VM refuses such a global: every evaluation fails
	validOver := map[string]bool{}
	{
		_, _, _, vals := comboOpts(sp)
		for _, ov := range sp.Overs {
			dotted := strings.Contains(ov.Name, ".")
			_, ok := convertAt(vals[ov.Name], dotted)
			validOver[ov.Name] = ok
			if !ok && dotted {
				rejectedDotted = true
			}
			if !ok && !dotted {
				vmUnusable = true
			}
		}
	}
	if rejectedDotted {
		o.ev("combo:with-override-rejected-by-config")
	}
	if vmUnusable {
		o.ev("combo:with-global-rejected-by-vm")
	}
	o.ev("combo:configurations")
	desc := sp.String()

	// ---------------- the configuration as the host sees it
	_, full, G, vals := comboOpts(sp)
	targets := map[string]object.Object{}
	if G != nil {
		for _, n := range sp.Deny {
			if t, ok := lookup(G, n); ok {
				targets[n] = t
			}
		}
	}
	freshRef := risor.DefaultGlobals()
	var cfg *risor.Config
	var roots map[string]map[string]any
	var names map[string][]string
	func() {
		defer func() {
			if rec := recover(); rec != nil {
				o.ev("combo:config-panicked")
				roots, names = nil, nil
			}
		}()
		cfg = risor.NewConfig(full...)
		var err error
		roots, names, err = exposed(cfg)
		if err != nil {
			o.ev("combo:vm-not-usable(config-level maps checked only)")
		}
	}()
	o.Evals++
	if roots != nil {
		cl := reach(roots)
		o.Events["identity:objects-in-closures"] += int64(len(cl.seen))
		for _, n := range sp.Deny {
			ni := byName[n]
			ov, both := overOf[n]
			dotted := strings.Contains(n, ".")
			for label, g := range roots {
				got, found := lookup(g, n)
				switch {
				case !both:
					if found {
						o.fail("identity-reachable:name-still-resolves:"+nameKindSig(ni)+":combo",
							fmt.Sprintf("%s: %s still resolves denied %q to %s", desc, label, n, safeInspect(got)), rep)
					}
				case dotted:
					// denied and overridden, dotted: removed (the override finds no attribute to replace)
					if found {
						o.fail("identity-reachable:name-still-resolves:"+nameKindSig(ni)+":denied-and-overridden",
							fmt.Sprintf("%s: %q is denied and overridden (%s); the unchanged tree removes a dotted name in this case, but %s resolves it to %s", desc, n, ov.Val, label, safeInspect(got)), rep)
					}
				default:
					// denied and overridden, top-level: replaced - never the original
					if found && !(label != "vm.globals" && seenRaw(g[n], vals[n])) && !(label == "vm.globals" && seenValue(got, vals[n], false)) {
						o.fail("identity-reachable:name-still-resolves:"+nameKindSig(ni)+":denied-and-overridden",
							fmt.Sprintf("%s: %q is denied and overridden (%s) but %s holds %s, not the replacement", desc, n, ov.Val, label, safeInspect(got)), rep)
					}
					if !found && !rejectedDotted && label != "vm.globals" {
						o.fail("override-not-seen:config:"+nameKindSig(ni)+":denied-and-overridden",
							fmt.Sprintf("%s: top-level %q is denied and overridden (%s); the unchanged tree ends up with the replacement, but %s does not have the name", desc, n, ov.Val, label), rep)
					}
				}
			}
			if !both && !dotted {
				for label, ns := range names {
					if contains(ns, n) {
						o.fail("identity-reachable:name-listed:"+nameKindSig(ni)+":combo",
							fmt.Sprintf("%s: %s still lists denied %q", desc, label, n), rep)
					}
				}
			}
			if t, ok := targets[n]; ok {
				t2, _ := lookup(freshRef, n)
				if isPtr(t) && t != t2 {
					if ri, found := cl.seen[t]; found {
						o.fail("identity-reachable:"+ri.via+":"+nameKindSig(ni)+":combo",
							fmt.Sprintf("%s: the object registered under denied %q (%s) is still reachable at %s", desc, n, safeInspect(t), ri.path), rep)
					}
				}
			}
		}
		// overrides, configuration level
		for _, ov := range sp.Overs {
			if contains(sp.Deny, ov.Name) {
				continue
			}
			ni := byName[ov.Name]
			dotted := strings.Contains(ov.Name, ".")
			got, found := lookup(roots["Globals"], ov.Name)
			switch {
			case !validOver[ov.Name] && dotted:
				o.ev("info:dotted-override-with-unconvertible-value-silently-ignored")
			case rejectedDotted:
				o.ev("combo:override-beside-rejected-one(either accepted)")
			case !dotted:
				if !found || !seenRaw(roots["Globals"][ov.Name], vals[ov.Name]) {
					o.fail("override-not-seen:config:"+nameKindSig(ni)+":combo",
						fmt.Sprintf("%s: Globals() does not hold the replacement of %q", desc, ov.Name), rep)
				}
			default:
				if !found || !seenValue(got, vals[ov.Name], true) {
					d := "<absent>"
					if found {
						d = safeInspect(got)
					}
					o.fail("override-not-seen:config:"+nameKindSig(ni)+":combo",
						fmt.Sprintf("%s: Globals() resolves overridden %q to %s", desc, ov.Name, d), rep)
				}
			}
		}
	}

	// ---------------- access attempts
	evalWith := func(route int, p pathSpec, withAll bool) outcome {
		base, fullOpts, _, _ := comboOpts(sp) // fresh objects for every evaluation
		opts := base
		if withAll {
			opts = fullOpts
		}
		if route == 0 {
			return eval(p.Src, p, opts...)
		}
		return evalPrecompiledWith(p.Src, p, base, opts...)
	}
	touched := append([]string{}, sp.Deny...)
	for _, ov := range sp.Overs {
		touched = append(touched, ov.Name)
	}
	for _, n := range sp.Deny {
		ni := byName[n]
		ov, both := overOf[n]
		dotted := strings.Contains(n, ".")
		ps := pathsFor(ni)
		sel := pickPaths(r, ps, 2)
		for _, p := range sel {
			for route := 0; route < 2; route++ {
				kind := p.Kind
				if route == 1 {
					kind += "@precompiled"
				}
				base := evalWith(route, p, false)
				o.Evals++
				if base.failed() || base.Res == nil || isFallback(base.Res) {
					o.ev("dynamic:trivial(baseline-did-not-obtain-the-object)")
					continue
				}
				att := evalWith(route, p, true)
				o.Evals++
				if both && !dotted {
					// pinned: replaced; never the original
					o.Distinct = append(o.Distinct, n+"|"+kind+"|denied-and-overridden")
					want, _ := sp.wantAt(overIdx[n])
					switch {
					case att.failed() || att.Res == nil || isFallback(att.Res):
						unclean := false // the script needs a helper that this configuration denies or replaces
						for _, u := range p.Uses {
							if u != n && contains(touched, u) {
								unclean = true
							}
						}
						// an error value that crosses a call (spawn, try, function return) may be raised instead of returned
						errVal := want != nil && want.Type() == object.ERROR
						if rejectedDotted || vmUnusable || unclean || errVal || (p.IsImp && ni.Kind == "module" && ov.Val != "module") || strings.HasPrefix(p.Kind, "from-import-any") {
							o.ev("combo:denied-and-overridden:unavailable(accepted)")
						} else {
							o.fail("override-not-seen:"+kind+":"+nameKindSig(ni)+":denied-and-overridden",
								fmt.Sprintf("%s: top-level %q is denied and overridden (%s); the unchanged tree gives the replacement, here the script gives %s\nscript:\n%s", desc, n, ov.Val, att, p.Src), rep)
						}
					case sameDesc(att.Res, want):
						o.ev("combo:denied-and-overridden:replacement-seen")
					case sameObjectDesc(att.Res, base.Res):
						o.fail("denied-reachable:"+kind+":"+nameKindSig(ni)+":denied-and-overridden",
							fmt.Sprintf("%s: %q is denied and overridden but the script still obtains the original %s\nscript:\n%s", desc, n, att, p.Src), rep)
					case strings.HasPrefix(p.Kind, "from-import-any"):
						o.ev("combo:denied-and-overridden:member-of-replacement(accepted)")
					default:
						o.fail("override-not-seen:"+kind+":"+nameKindSig(ni)+":denied-and-overridden",
							fmt.Sprintf("%s: top-level %q is denied and overridden (%s) but the script gives %s\nscript:\n%s", desc, n, ov.Val, att, p.Src), rep)
					}
					continue
				}
				o.Distinct = append(o.Distinct, n+"|"+kind+"|deny-in-combination")
				if att.failed() || att.Res == nil || isFallback(att.Res) {
					o.ev("dynamic:combo:denied-failed")
					continue
				}
				sigTail := ":combo"
				if both {
					sigTail = ":denied-and-overridden"
				}
				o.fail("denied-reachable:"+kind+":"+nameKindSig(ni)+sigTail,
					fmt.Sprintf("%s: script obtained %s for denied %q\nscript:\n%s", desc, att, n, p.Src), rep)
			}
		}
	}
	for _, ov := range sp.Overs {
		n := ov.Name
		if contains(sp.Deny, n) {
			continue
		}
		ni := byName[n]
		if !validOver[n] || vmUnusable {
			continue
		}
		var cands []pathSpec
		for _, p := range pathsFor(ni) {
			clean := true
			for _, u := range p.Uses {
				if contains(touched, u) {
					clean = false
				}
			}
			if p.Sib && contains(touched, ni.Mod+"."+ni.Sibling) {
				clean = false
			}
			if ni.Kind == "module-member" && contains(touched, ni.Mod) {
				clean = false
			}
			if strings.HasPrefix(p.Kind, "from-import-any") || (p.IsImp && ni.Kind == "module" && ov.Val != "module") {
				clean = false
			}
			if clean {
				cands = append(cands, p)
			}
		}
		if len(cands) == 0 {
			continue
		}
		p := cands[r.Intn(len(cands))]
		route := r.Intn(2)
		kind := p.Kind
		if route == 1 {
			kind += "@precompiled"
		}
		base := evalWith(route, p, false)
		o.Evals++
		if base.failed() || base.Res == nil || isFallback(base.Res) {
			o.ev("dynamic:trivial(baseline-did-not-obtain-the-object)")
			continue
		}
		att := evalWith(route, p, true)
		o.Evals++
		if rejectedDotted {
			o.ev("combo:override-beside-rejected-one(either accepted)")
			continue
		}
		o.Distinct = append(o.Distinct, n+"|"+kind+"|override-in-combination")
		// values are rebuilt per evaluation: compare by description for objects too
		want, _ := sp.wantAt(overIdx[n])
		if !att.failed() && sameDesc(att.Res, want) {
			o.ev("dynamic:combo:replacement-seen")
			continue
		}
		if want != nil && want.Type() == object.ERROR && att.Err != nil && strings.Contains(att.Err.Error(), "SENTINEL-OBJERR") {
			// an error value that crosses a call (spawn, try, function return) is raised instead of returned
			o.ev("dynamic:combo:replacement-seen(error value raised)")
			continue
		}
		o.fail("override-not-seen:"+kind+":"+nameKindSig(ni)+":combo",
			fmt.Sprintf("%s: script gave %s instead of the replacement (%s) of %q\nscript:\n%s", desc, att, ov.Val, n, p.Src), rep)
	}
	if len(o.Samples) < 1 {
		o.Samples = append(o.Samples, "combination "+desc)
	}
}

// seenRaw compares what a globals map holds (possibly still a Go value) with the value handed in.
func seenRaw(held any, v any) bool {
	if ho, ok := held.(object.Object); ok {
		if vo, ok2 := v.(object.Object); ok2 {
			return ho == vo
		}
		return seenValue(ho, v, false)
	}
	if _, isObj := v.(object.Object); isObj {
		return false
	}
	// both raw Go values: the configuration stores what it was given
	return fmt.Sprintf("%T", held) == fmt.Sprintf("%T", v)
}
