// Package c11 checks property C11: "Scripts can reach only the globals the host configuration
// allows".
//
// Two monitors run against the real risor.Config / compiler / VM:
//
//  1. Reachability monitor by object identity. G = risor.DefaultGlobals() gives fresh objects; the
//     object T registered under the denied (or overridden) name is remembered, the configuration
//     NewConfig(WithoutDefaultGlobals(), WithGlobals(G), WithoutGlobal(name)) is built, and the closure
//     of everything reachable from what the configuration exposes (Globals(), CombinedGlobals(), the
//     globals a VM built from CompilerOpts()/VMOpts() really holds) under module attributes
//     ((*object.Module).VerifAttrNames + GetAttr), builtin back-references (__module__) and container
//     contents is computed. T must not be in it, the name must be gone from every name list. The same
//     monitor checks independence of configurations: default configurations built before / after a
//     denying one still have the name and share no module or builtin object with it.
//
//  2. Generated access attempts on the plain default path risor.Eval(ctx, src, WithoutGlobal(name)):
//     every access path (identifier, import, from-import, attribute, getattr, sibling.__module__,
//     inside a function / closure / spawned goroutine / try) must fail while the *same* script succeeds
//     on the default configuration before and after (otherwise the attempt is trivial and not counted).
//     With WithGlobalOverride(name, sentinel) every path must produce the sentinel.
//
// Scripts only obtain a reference to the denied object, they never call it; every evaluation runs on a
// VirtualOS anyway.
package c11

import (
	"context"
	"encoding/json"
	"fmt"
	"os"
	"path/filepath"
	"reflect"
	"regexp"
	"runtime"
	"sort"
	"strings"

	"github.com/risor-io/risor"
	"github.com/risor-io/risor/compiler"
	"github.com/risor-io/risor/object"
	ros "github.com/risor-io/risor/os"
	"github.com/risor-io/risor/parser"
	"github.com/risor-io/risor/vm"

	"verif/internal/mon"
)

func Register() {
	mon.Register(&mon.Prop{ID: "C11", Drive: drive})
	mon.RegisterWorker("C11", worker)
}

const fallbackMarker = "C11-FALLBACK"

var closureName = regexp.MustCompile(`\.func\d+(\.\d+)*$`)

// ---------------------------------------------------------------------------------------
// names

type nameInfo struct {
	Name    string `json:"name"`    // "getenv" | "os" | "os.getenv"
	Kind    string `json:"kind"`    // toplevel-builtin | toplevel-other | module | module-member
	Mod     string `json:"mod"`     // module name for module-member
	Attr    string `json:"attr"`    // attribute name for module-member
	Sibling string `json:"sibling"` // another *builtin* member of the same module ("" if none)
	First   string `json:"first"`   // for modules: first member name
	Type    string `json:"type"`    // risor type of the registered object
}

// enumerate lists every default top-level name and every module.member, live.
func enumerate() []nameInfo {
	g := risor.DefaultGlobals()
	var out []nameInfo
	top := make([]string, 0, len(g))
	for k := range g {
		top = append(top, k)
	}
	sort.Strings(top)
	for _, n := range top {
		switch v := g[n].(type) {
		case *object.Module:
			attrs := v.VerifAttrNames()
			first := ""
			if len(attrs) > 0 {
				first = attrs[0]
			}
			out = append(out, nameInfo{Name: n, Kind: "module", Type: "module", First: first})
			var builtinAttrs []string
			for _, a := range attrs {
				if o, ok := v.GetAttr(a); ok {
					if _, isB := o.(*object.Builtin); isB {
						builtinAttrs = append(builtinAttrs, a)
					}
				}
			}
			for _, a := range attrs {
				o, ok := v.GetAttr(a)
				if !ok {
					continue
				}
				sib := ""
				for _, b := range builtinAttrs {
					// "as" is a keyword of the from-import statement and cannot be imported by name
					if b != a && (b != "as" || sib == "") {
						sib = b
						if b != "as" {
							break
						}
					}
				}
				out = append(out, nameInfo{Name: n + "." + a, Kind: "module-member", Mod: n, Attr: a, Sibling: sib, Type: string(o.Type())})
			}
		case *object.Builtin:
			out = append(out, nameInfo{Name: n, Kind: "toplevel-builtin", Type: "builtin"})
		case object.Object:
			out = append(out, nameInfo{Name: n, Kind: "toplevel-other", Type: string(v.Type())})
		default:
			out = append(out, nameInfo{Name: n, Kind: "toplevel-other", Type: fmt.Sprintf("%T", v)})
		}
	}
	return out
}

// lookup resolves a possibly dotted name in a globals map (through any depth of modules).
func lookup(globals map[string]any, name string) (object.Object, bool) {
	parts := strings.Split(name, ".")
	v, ok := globals[parts[0]]
	if !ok {
		return nil, false
	}
	cur, isObj := v.(object.Object)
	if !isObj {
		if len(parts) == 1 {
			return object.FromGoType(v), true
		}
		return nil, false
	}
	for _, p := range parts[1:] {
		m, isMod := cur.(*object.Module)
		if !isMod {
			return nil, false
		}
		nxt, found := m.GetAttr(p)
		if !found {
			return nil, false
		}
		cur = nxt
	}
	return cur, true
}

// ---------------------------------------------------------------------------------------
// reachability closure

type reachInfo struct {
	via  string // edge kind that reached the object first: global | module-attr | builtin-__module__ | container
	path string // human readable access path
}

type closure struct {
	seen map[object.Object]reachInfo
}

func isPtr(o object.Object) bool {
	if o == nil {
		return false
	}
	return reflect.ValueOf(o).Kind() == reflect.Ptr
}

func (c *closure) add(o object.Object, via, path string) {
	if o == nil || !isPtr(o) {
		return
	}
	if _, dup := c.seen[o]; dup {
		return
	}
	c.seen[o] = reachInfo{via: via, path: path}
	switch v := o.(type) {
	case *object.Module:
		for _, a := range v.VerifAttrNames() {
			if x, ok := v.GetAttr(a); ok {
				c.add(x, "module-attr", path+"."+a)
			}
		}
	case *object.Builtin:
		if m, ok := v.GetAttr("__module__"); ok && m != nil && m != object.Nil {
			c.add(m, "builtin-__module__", path+".__module__")
		}
	case *object.List:
		for i, x := range v.Value() {
			c.add(x, "container", fmt.Sprintf("%s[%d]", path, i))
		}
	case *object.Map:
		for k, x := range v.Value() {
			c.add(x, "container", fmt.Sprintf("%s[%q]", path, k))
		}
	case *object.Set:
		for _, x := range v.List().Value() {
			c.add(x, "container", path+"{…}")
		}
	}
}

// reach computes the closure from several root maps (label -> globals).
func reach(roots map[string]map[string]any) *closure {
	c := &closure{seen: map[object.Object]reachInfo{}}
	labels := make([]string, 0, len(roots))
	for l := range roots {
		labels = append(labels, l)
	}
	sort.Strings(labels)
	for _, l := range labels {
		g := roots[l]
		names := make([]string, 0, len(g))
		for n := range g {
			names = append(names, n)
		}
		sort.Strings(names)
		for _, n := range names {
			if o, ok := g[n].(object.Object); ok {
				c.add(o, "global", l+":"+n)
			}
		}
	}
	return c
}

// mutableRef reports whether sharing this object between two configurations matters: modules are
// edited in place by Override, builtins carry a module pointer.
func mutableRef(o object.Object) bool {
	switch o.(type) {
	case *object.Module, *object.Builtin:
		return true
	}
	return false
}

// ---------------------------------------------------------------------------------------
// sentinels

// sentinel kinds: "str" (object.String), "builtin" (object.Builtin), "gostr" (Go string, converted by
// the configuration), "goint" (Go int), "module" (object.Module; for module names).
func makeSentinel(kind string, tag string) (value any, isObj bool) {
	switch kind {
	case "builtin":
		return object.NewBuiltin("c11_sentinel_"+tag, func(ctx context.Context, args ...object.Object) object.Object {
			return object.NewString("SENTINEL-CALLED-" + tag)
		}), true
	case "gostr":
		return "SENTINEL-GO-" + tag, false
	case "goint":
		return 424242, false
	case "module":
		return object.NewBuiltinsModule("c11sentinel", map[string]object.Object{
			"marker": object.NewString("SENTINEL-MODULE-" + tag),
		}), true
	default:
		return object.NewString("SENTINEL-" + tag), true
	}
}

func isSentinel(res object.Object, value any, isObj bool) bool {
	if res == nil {
		return false
	}
	if isObj {
		return res == value.(object.Object)
	}
	switch v := value.(type) {
	case string:
		s, ok := res.(*object.String)
		return ok && s.Value() == v
	case int:
		i, ok := res.(*object.Int)
		return ok && i.Value() == int64(v)
	}
	return false
}

func sentinelKindsFor(ni nameInfo) []string {
	if ni.Kind == "module" {
		return []string{"module", "str"}
	}
	return []string{"str", "builtin", "gostr", "goint"}
}

// ---------------------------------------------------------------------------------------
// access paths

type pathSpec struct {
	Kind  string   // path kind, part of signatures
	Src   string   // script; its value is the obtained reference (or the fallback marker)
	Uses  []string // top-level helper names the script needs besides the target's own route
	Local bool     // evaluate with a local importer over an empty directory
	IsImp bool     // the route goes through an import statement
	Sib   bool     // the route goes through the sibling member
}

// pathsFor generates every access path for a name. expr is how a script names the object directly.
func pathsFor(ni nameInfo) []pathSpec {
	var ps []pathSpec
	wrap := func(prefix, stmt, expr string, imp bool) {
		// stmt: statements needed before expr is usable ("" or "import os")
		pre := ""
		if stmt != "" {
			pre = stmt + "\n"
		}
		ps = append(ps,
			pathSpec{Kind: prefix, Src: pre + expr, IsImp: imp},
			pathSpec{Kind: prefix + "+func", Src: "func f() {\n" + indent(pre) + "  return " + expr + "\n}\nf()", IsImp: imp},
			pathSpec{Kind: prefix + "+closure", Src: "func f() {\n  return func() {\n" + indent(indent(pre)) + "    return " + expr + "\n  }\n}\nf()()", IsImp: imp},
			pathSpec{Kind: prefix + "+spawn", Src: "t := spawn(func() {\n" + indent(pre) + "  return " + expr + "\n})\nt.wait()", Uses: []string{"spawn"}, IsImp: imp},
			pathSpec{Kind: prefix + "+try", Src: "try(func() {\n" + indent(pre) + "  return " + expr + "\n}, \"" + fallbackMarker + "\")", Uses: []string{"try"}, IsImp: imp},
		)
	}
	switch ni.Kind {
	case "toplevel-builtin", "toplevel-other":
		wrap("ident", "", ni.Name, false)
		ps = append(ps,
			pathSpec{Kind: "ident+assign", Src: "x := " + ni.Name + "\nx"},
			pathSpec{Kind: "ident+list", Src: "l := [" + ni.Name + "]\nl[0]"},
		)
	case "module":
		m := ni.Name
		wrap("ident", "", m, false)
		wrap("import", "import "+m, m, true)
		ps = append(ps,
			pathSpec{Kind: "import-as", Src: "import " + m + " as zz\nzz", IsImp: true},
			pathSpec{Kind: "import-localimporter", Src: "import " + m + "\n" + m, Local: true, IsImp: true},
		)
		if ni.First != "" {
			// the module is gone, so nothing can be imported from it either; the value is the module
			// reached back through the member where it is a builtin, else the member itself
			ps = append(ps, pathSpec{Kind: "from-import-any", Src: "from " + m + " import " + ni.First + " as zz\nzz", IsImp: true})
		}
	case "module-member":
		m, a := ni.Mod, ni.Attr
		wrap("attr", "", m+"."+a, false)
		wrap("from-import", "from "+m+" import "+a, a, true)
		ps = append(ps,
			pathSpec{Kind: "import+attr", Src: "import " + m + "\n" + m + "." + a, IsImp: true},
			pathSpec{Kind: "import-as+attr", Src: "import " + m + " as zz\nzz." + a, IsImp: true},
			pathSpec{Kind: "from-import-as", Src: "from " + m + " import " + a + " as zz\nzz", IsImp: true},
			pathSpec{Kind: "import-localimporter+attr", Src: "import " + m + "\n" + m + "." + a, Local: true, IsImp: true},
			pathSpec{Kind: "getattr", Src: "getattr(" + m + ", \"" + a + "\")", Uses: []string{"getattr"}},
			pathSpec{Kind: "getattr-default", Src: "getattr(" + m + ", \"" + a + "\", \"" + fallbackMarker + "\")", Uses: []string{"getattr"}},
			pathSpec{Kind: "getattr+func", Src: "func f(m, n) { return getattr(m, n) }\nf(" + m + ", \"" + a + "\")", Uses: []string{"getattr"}},
			pathSpec{Kind: "module-alias", Src: "m := " + m + "\nm." + a},
			pathSpec{Kind: "module-in-list", Src: "l := [" + m + "]\nl[0]." + a},
		)
		if ni.Sibling != "" {
			s := ni.Sibling
			ps = append(ps,
				pathSpec{Sib: true, Kind: "sibling-__module__", Src: m + "." + s + ".__module__." + a},
				pathSpec{Sib: true, Kind: "sibling-__module__+getattr", Src: "getattr(getattr(" + m + "." + s + ", \"__module__\"), \"" + a + "\")", Uses: []string{"getattr"}},
				pathSpec{Sib: true, Kind: "sibling-__module__+spawn", Src: "t := spawn(func(b) { return b.__module__." + a + " }, " + m + "." + s + ")\nt.wait()", Uses: []string{"spawn"}},
				pathSpec{Sib: true, Kind: "from-import-sibling-__module__", Src: "from " + m + " import " + s + " as zz\nzz.__module__." + a, IsImp: true},
				pathSpec{Sib: true, Kind: "from-import-multi", Src: "from " + m + " import " + s + " as yy, " + a + " as zz\nzz", IsImp: true},
			)
		}
	}
	return ps
}

func indent(s string) string {
	if s == "" {
		return ""
	}
	lines := strings.Split(strings.TrimRight(s, "\n"), "\n")
	for i := range lines {
		lines[i] = "  " + lines[i]
	}
	return strings.Join(lines, "\n") + "\n"
}

func uses(p pathSpec, name string) bool {
	for _, u := range p.Uses {
		if u == name {
			return true
		}
	}
	return false
}

// ---------------------------------------------------------------------------------------
// evaluation

type outcome struct {
	Res   object.Object
	Err   error
	Panic string
}

func (o outcome) failed() bool { return o.Err != nil || o.Panic != "" }

func (o outcome) String() string {
	switch {
	case o.Panic != "":
		return "panic: " + mon.Truncate(o.Panic, 300)
	case o.Err != nil:
		return "error: " + mon.Truncate(firstLine(o.Err.Error()), 300)
	case o.Res == nil:
		return "value: <nil>"
	default:
		return fmt.Sprintf("value: %s %s", o.Res.Type(), mon.Truncate(safeInspect(o.Res), 200))
	}
}

func firstLine(s string) string {
	if i := strings.IndexByte(s, '\n'); i >= 0 {
		return s[:i]
	}
	return s
}

func safeInspect(o object.Object) (s string) {
	defer func() {
		if r := recover(); r != nil {
			s = fmt.Sprintf("<Inspect panicked: %v>", r)
		}
	}()
	return o.Inspect()
}

var emptyImportDir string

func importDir() string {
	if emptyImportDir != "" {
		return emptyImportDir
	}
	base := os.Getenv("VERIF_BATCH_DIR")
	if base == "" {
		base = os.TempDir()
	}
	dir, err := os.MkdirTemp(base, "c11-empty-import-")
	if err != nil {
		dir = filepath.Join(base, "c11-empty-import")
		_ = os.MkdirAll(dir, 0o755)
	}
	emptyImportDir = dir
	return dir
}

// eval runs a script through risor.Eval on a fresh VirtualOS with concurrency allowed.
func eval(src string, p pathSpec, opts ...risor.Option) (out outcome) {
	defer func() {
		if r := recover(); r != nil {
			out = outcome{Panic: fmt.Sprint(r)}
		}
	}()
	ctx := context.Background()
	all := append([]risor.Option{}, opts...)
	all = append(all, risor.WithOS(ros.NewVirtualOS(ctx)), risor.WithConcurrency())
	if p.Local {
		all = append(all, risor.WithLocalImporter(importDir()))
	}
	res, err := risor.Eval(ctx, src, all...)
	return outcome{Res: res, Err: err}
}

// evalPrecompiled compiles the script with the names of the *default* configuration (a host that
// compiles once and runs the code under several configurations) and runs it with risor.EvalCode.
func evalPrecompiled(src string, p pathSpec, opts ...risor.Option) (out outcome) {
	defer func() {
		if r := recover(); r != nil {
			out = outcome{Panic: fmt.Sprint(r)}
		}
	}()
	ctx := context.Background()
	ast, err := parser.Parse(ctx, src)
	if err != nil {
		return outcome{Err: err}
	}
	code, err := compiler.Compile(ast, risor.NewConfig().CompilerOpts()...)
	if err != nil {
		return outcome{Err: err}
	}
	all := append([]risor.Option{}, opts...)
	all = append(all, risor.WithOS(ros.NewVirtualOS(ctx)), risor.WithConcurrency())
	if p.Local {
		all = append(all, risor.WithLocalImporter(importDir()))
	}
	res, err := risor.EvalCode(ctx, code, all...)
	return outcome{Res: res, Err: err}
}

// evalPrecompiledWith is evalPrecompiled with the names of a given base configuration.
func evalPrecompiledWith(src string, p pathSpec, base []risor.Option, opts ...risor.Option) (out outcome) {
	defer func() {
		if r := recover(); r != nil {
			out = outcome{Panic: fmt.Sprint(r)}
		}
	}()
	ctx := context.Background()
	ast, err := parser.Parse(ctx, src)
	if err != nil {
		return outcome{Err: err}
	}
	code, err := compiler.Compile(ast, risor.NewConfig(base...).CompilerOpts()...)
	if err != nil {
		return outcome{Err: err}
	}
	all := append([]risor.Option{}, opts...)
	all = append(all, risor.WithOS(ros.NewVirtualOS(ctx)), risor.WithConcurrency())
	if p.Local {
		all = append(all, risor.WithLocalImporter(importDir()))
	}
	res, err := risor.EvalCode(ctx, code, all...)
	return outcome{Res: res, Err: err}
}

func isFallback(o object.Object) bool {
	s, ok := o.(*object.String)
	return ok && s.Value() == fallbackMarker
}

// ---------------------------------------------------------------------------------------
// worker output

type viol struct {
	Sig    string   `json:"sig"`
	Detail string   `json:"detail"`
	Replay caseData `json:"replay"`
}

type out struct {
	Evals    int64            `json:"evals"`
	Events   map[string]int64 `json:"events"`
	Distinct []string         `json:"distinct"`
	Samples  []string         `json:"samples,omitempty"`
	Viols    []viol           `json:"viols,omitempty"`
	Aliases  []string         `json:"aliases,omitempty"`
	Trivial  []string         `json:"trivial,omitempty"`
}

func (o *out) ev(kind string) { o.Events[kind]++ }

func (o *out) fail(sig, detail string, replay caseData) {
	if len(o.Viols) < 40 {
		o.Viols = append(o.Viols, viol{Sig: sig, Detail: detail, Replay: replay})
	}
}

// caseData is both the worker input and the replay format.
type caseData struct {
	Kind string `json:"kind"` // names | subsets | subset1 | nodefaults | nested | dyn1 | ident1

	Names    []string `json:"names,omitempty"`         // names | nodefaults: the chunk
	PathPick int      `json:"path_pick,omitempty"`     // names: 0 = all paths, k = k seed-chosen paths per name and mode
	AllSent  bool     `json:"all_sentinels,omitempty"` // names: every sentinel kind on every path (else one seed-chosen kind per path)
	Seed     uint64   `json:"seed,omitempty"`
	N        int      `json:"n,omitempty"` // subsets: how many

	// single replayable items
	Name     string   `json:"name,omitempty"`
	Path     string   `json:"path,omitempty"`
	Mode     string   `json:"mode,omitempty"` // deny | override
	Sentinel string   `json:"sentinel,omitempty"`
	Deny     []string `json:"deny,omitempty"`
	Over     []string `json:"over,omitempty"`
	Depth    int      `json:"depth,omitempty"`

	// combined configurations (combo.go)
	Overs []comboOver `json:"overs,omitempty"`
	Base  string      `json:"base,omitempty"`
	Split bool        `json:"split,omitempty"`
	Order uint64      `json:"order,omitempty"`
	Lo    int         `json:"lo,omitempty"` // combos / hostmap: slice of the fixed list
	Hi    int         `json:"hi,omitempty"`

	// the host's own map (hostmap.go)
	Steps []hmStep `json:"steps,omitempty"`
}

func nameKindSig(ni nameInfo) string {
	if ni.Kind == "toplevel-other" {
		return "toplevel-builtin"
	}
	return ni.Kind
}

// ---------------------------------------------------------------------------------------
// monitor 1: identity

// exposed returns everything a configuration exposes, by label.
func exposed(cfg *risor.Config) (roots map[string]map[string]any, names map[string][]string, err error) {
	defer func() {
		if r := recover(); r != nil {
			err = fmt.Errorf("panic while reading the configuration: %v", r)
		}
	}()
	roots = map[string]map[string]any{}
	names = map[string][]string{}
	roots["Globals"] = cfg.Globals()
	roots["CombinedGlobals"] = cfg.CombinedGlobals()
	names["GlobalNames"] = cfg.GlobalNames()
	// what a compiler and a VM built from this configuration really hold
	ctx := context.Background()
	ast, perr := parser.Parse(ctx, "nil")
	if perr != nil {
		return roots, names, perr
	}
	code, cerr := compiler.Compile(ast, cfg.CompilerOpts()...)
	if cerr != nil {
		return roots, names, cerr
	}
	names["compiler.GlobalNames"] = code.GlobalNames()
	machine, verr := vm.NewEmpty()
	if verr != nil {
		return roots, names, verr
	}
	if rerr := machine.RunCode(ctx, code, cfg.VMOpts()...); rerr != nil {
		return roots, names, rerr
	}
	vmg := map[string]any{}
	for _, n := range machine.GlobalNames() {
		if o, gerr := machine.Get(n); gerr == nil && o != nil {
			vmg[n] = o
		}
	}
	roots["vm.globals"] = vmg
	names["vm.GlobalNames"] = machine.GlobalNames()
	return roots, names, nil
}

func contains(xs []string, x string) bool {
	for _, y := range xs {
		if y == x {
			return true
		}
	}
	return false
}

// identityCheck: the object registered under `name` must be unreachable from a configuration that
// denies (or overrides) it, by pointer identity.
func identityCheck(o *out, ni nameInfo, mode, sk string) {
	rep := caseData{Kind: "ident1", Name: ni.Name, Mode: mode, Sentinel: sk}
	G := risor.DefaultGlobals()
	T, ok := lookup(G, ni.Name)
	if !ok {
		o.ev("identity:name-not-in-defaults")
		return
	}
	// are default objects fresh per call? (interned immutables such as small ints are not)
	T2, _ := lookup(risor.DefaultGlobals(), ni.Name)
	fresh := isPtr(T) && T != T2
	if !fresh {
		if mutableRef(T) {
			o.fail("config-not-independent:shared-default-object:"+nameKindSig(ni),
				fmt.Sprintf("two calls of risor.DefaultGlobals() return the same %s object for %q (%s): an edit made for one configuration is seen by every other", T.Type(), ni.Name, safeInspect(T)), rep)
		} else {
			o.ev("identity:object-is-shared-immutable(name check only)")
		}
	}
	var sval any
	var sobj bool
	opts := []risor.Option{risor.WithoutDefaultGlobals(), risor.WithGlobals(G)}
	if mode == "deny" {
		opts = append(opts, risor.WithoutGlobal(ni.Name))
	} else {
		sval, sobj = makeSentinel(sk, "id")
		opts = append(opts, risor.WithGlobalOverride(ni.Name, sval))
	}
	cfg := risor.NewConfig(opts...)
	roots, names, err := exposed(cfg)
	o.Evals++
	if err != nil {
		// the configuration cannot even run "nil": nothing is reachable through it, but say so
		o.ev("identity:config-unusable")
		o.Trivial = append(o.Trivial, fmt.Sprintf("identity %s %s: %v", mode, ni.Name, err))
		return
	}
	o.ev("identity:" + mode + "-configs-inspected")
	cl := reach(roots)
	o.Events["identity:objects-in-closures"] += int64(len(cl.seen))
	if fresh {
		if ri, found := cl.seen[T]; found {
			what := "denied"
			if mode == "override" {
				what = "overridden"
			}
			o.fail("identity-reachable:"+ri.via+":"+nameKindSig(ni),
				fmt.Sprintf("the object registered under %s name %q (%s) is still reachable from the configuration at %s (mode %s)", what, ni.Name, safeInspect(T), ri.path, mode), rep)
		}
	}
	for label, g := range roots {
		got, found := lookup(g, ni.Name)
		if mode == "deny" {
			if found {
				o.fail("identity-reachable:name-still-resolves:"+nameKindSig(ni),
					fmt.Sprintf("denied name %q still resolves in %s to %s", ni.Name, label, safeInspect(got)), rep)
			}
		} else {
			if !found || !isSentinel(got, sval, sobj) {
				desc := "<absent>"
				if found {
					desc = safeInspect(got)
				}
				o.fail("override-not-seen:config:"+nameKindSig(ni),
					fmt.Sprintf("WithGlobalOverride(%q, sentinel %s): %s resolves the name to %s", ni.Name, sk, label, desc), rep)
			}
		}
	}
	if mode == "deny" && !strings.Contains(ni.Name, ".") {
		for label, ns := range names {
			if contains(ns, ni.Name) {
				o.fail("identity-reachable:name-listed:"+nameKindSig(ni),
					fmt.Sprintf("denied name %q is still listed by %s", ni.Name, label), rep)
			}
		}
	}
	if mode == "deny" && ni.Kind == "module-member" {
		if m, ok := roots["Globals"][ni.Mod].(*object.Module); ok {
			if contains(m.VerifAttrNames(), ni.Attr) {
				o.fail("identity-reachable:attr-listed:module-member",
					fmt.Sprintf("denied member %q is still in the attribute tables of module %s", ni.Name, ni.Mod), rep)
			}
		} else {
			o.ev("identity:collateral:module-of-denied-member-missing")
		}
	}
	// information: the caller's own map / module objects
	if _, still := G[strings.SplitN(ni.Name, ".", 2)[0]]; !still {
		o.ev("info:caller-map-edited")
	}
	if ni.Kind == "module-member" {
		if _, still := lookup(G, ni.Name); !still {
			o.ev("info:caller-module-object-edited-in-place")
		}
	}
	// information: aliases = other reachable builtins wrapping the same Go function under the same name
	if b, isB := T.(*object.Builtin); isB && mode == "deny" {
		fp := reflect.ValueOf(b.Value()).Pointer()
		fname := ""
		if f := runtime.FuncForPC(fp); f != nil {
			fname = f.Name()
		}
		// closures made by one function literal share a code pointer without being the same function
		if fname != "" && !closureName.MatchString(fname) {
			for other, ri := range cl.seen {
				ob, isOB := other.(*object.Builtin)
				if !isOB || ob == b {
					continue
				}
				if reflect.ValueOf(ob.Value()).Pointer() == fp {
					path := ri.path
					if i := strings.IndexByte(path, ':'); i >= 0 {
						path = path[i+1:]
					}
					o.Aliases = append(o.Aliases, ni.Name+" ~ "+path+" (both wrap "+fname+")")
				}
			}
		}
	}
}

// independenceCheck: default configurations built before and after one that denies/overrides `name`
// keep the name and share no module / builtin object with it.
func independenceCheck(o *out, ni nameInfo, mode, sk string) {
	rep := caseData{Kind: "ident1", Name: ni.Name, Mode: mode, Sentinel: sk}
	before := risor.NewConfig()
	gBefore := before.Globals() // initialised before
	lazy := risor.NewConfig()   // created before, initialised after
	var sval any
	var sobj bool
	var cfg *risor.Config
	if mode == "deny" {
		cfg = risor.NewConfig(risor.WithoutGlobal(ni.Name))
	} else {
		sval, sobj = makeSentinel(sk, "ind")
		cfg = risor.NewConfig(risor.WithGlobalOverride(ni.Name, sval))
	}
	g1 := cfg.Globals()
	gLazy := lazy.Globals()
	after := risor.NewConfig()
	gAfter := after.Globals()
	o.Evals++
	o.ev("independence:" + mode + "-checked")
	ref, _ := lookup(risor.DefaultGlobals(), ni.Name)
	c1 := reach(map[string]map[string]any{"denying": g1})
	for label, g := range map[string]map[string]any{"before": gBefore, "lazy": gLazy, "after": gAfter} {
		got, found := lookup(g, ni.Name)
		switch {
		case !found:
			o.fail("config-not-independent:name-lost:"+nameKindSig(ni),
				fmt.Sprintf("after another configuration used %s on %q, a default configuration (%s) no longer has the name", modeOpt(mode), ni.Name, label), rep)
		case mode == "override" && isSentinel(got, sval, sobj):
			o.fail("config-not-independent:override-leaked:"+nameKindSig(ni),
				fmt.Sprintf("the sentinel installed with WithGlobalOverride(%q) in one configuration is seen by a default configuration (%s)", ni.Name, label), rep)
		case ref != nil && (got.Type() != ref.Type() || safeInspect(got) != safeInspect(ref)):
			o.fail("config-not-independent:name-changed:"+nameKindSig(ni),
				fmt.Sprintf("default configuration (%s) resolves %q to %s, expected %s", label, ni.Name, safeInspect(got), safeInspect(ref)), rep)
		}
		cl := reach(map[string]map[string]any{label: g})
		var shared []string // "<type>\x00<path here>\x00<path there>\x00<inspect>", modules first
		for obj, ri := range cl.seen {
			if !mutableRef(obj) {
				continue
			}
			if ri1, both := c1.seen[obj]; both {
				rank := "1"
				if _, isMod := obj.(*object.Module); isMod {
					rank = "0"
				}
				shared = append(shared, strings.Join([]string{rank, string(obj.Type()), ri.path, ri1.path, safeInspect(obj)}, "\x00"))
			}
		}
		if len(shared) > 0 {
			sort.Strings(shared)
			f := strings.Split(shared[0], "\x00")
			o.fail("config-not-independent:shared-object:"+f[1],
				fmt.Sprintf("%s object %s is shared between the configuration with %s(%q) (at %s) and a default configuration (at %s); %d module/builtin objects are shared in all",
					f[1], f[4], modeOpt(mode), ni.Name, f[3], f[2], len(shared)), rep)
		}
	}
	// and the denying configuration itself
	got, found := lookup(g1, ni.Name)
	if mode == "deny" && found {
		o.fail("identity-reachable:name-still-resolves:"+nameKindSig(ni),
			fmt.Sprintf("NewConfig(WithoutGlobal(%q)).Globals() still resolves the name to %s", ni.Name, safeInspect(got)), rep)
	}
	if mode == "override" && (!found || !isSentinel(got, sval, sobj)) {
		o.fail("override-not-seen:config:"+nameKindSig(ni),
			fmt.Sprintf("NewConfig(WithGlobalOverride(%q, sentinel %s)).Globals() does not resolve the name to the sentinel", ni.Name, sk), rep)
	}
}

func modeOpt(mode string) string {
	if mode == "deny" {
		return "WithoutGlobal"
	}
	return "WithGlobalOverride"
}

// ---------------------------------------------------------------------------------------
// monitor 2: generated access attempts

// dynCheck runs one (name, path, mode) attempt: baseline on the default configuration, the attempt,
// baseline again.
func dynCheck(o *out, ni nameInfo, p pathSpec, mode, sk string) {
	dynCheckRoute(o, ni, p, mode, sk, eval, "risor.Eval")
	pc := p
	pc.Kind += "@precompiled"
	dynCheckRoute(o, ni, pc, mode, sk, evalPrecompiled, "risor.EvalCode")
}

func dynCheckRoute(o *out, ni nameInfo, p pathSpec, mode, sk string, eval func(string, pathSpec, ...risor.Option) outcome, api string) {
	rep := caseData{Kind: "dyn1", Name: ni.Name, Path: strings.TrimSuffix(p.Kind, "@precompiled"), Mode: mode, Sentinel: sk}
	key := ni.Name + "|" + p.Kind + "|" + mode
	base := eval(p.Src, p)
	o.Evals++
	if base.failed() || base.Res == nil || isFallback(base.Res) {
		o.ev("dynamic:trivial(baseline-did-not-obtain-the-object)")
		if len(o.Trivial) < 50 {
			o.Trivial = append(o.Trivial, key+": "+base.String())
		}
		return
	}
	var sval any
	var sobj bool
	var att outcome
	if mode == "deny" {
		att = eval(p.Src, p, risor.WithoutGlobal(ni.Name))
	} else {
		sval, sobj = makeSentinel(sk, "dyn")
		att = eval(p.Src, p, risor.WithGlobalOverride(ni.Name, sval))
	}
	o.Evals++
	after := eval(p.Src, p)
	o.Evals++
	o.Distinct = append(o.Distinct, key)
	if len(o.Samples) < 2 {
		o.Samples = append(o.Samples, fmt.Sprintf("%s %q via %s: %q -> default: %s; %s: %s", mode, ni.Name, p.Kind, p.Src, base, modeOpt(mode), att))
	}
	switch mode {
	case "deny":
		switch {
		case att.Panic != "":
			o.ev("dynamic:denied:go-panic-recovered")
		case att.Err != nil:
			if strings.Contains(att.Err.Error(), "compile error") {
				o.ev("dynamic:denied:compile-error")
			} else {
				o.ev("dynamic:denied:runtime-error")
			}
		case isFallback(att.Res):
			o.ev("dynamic:denied:fallback-taken")
		case att.Res == nil:
			// code compiled with the default names, run without the global: the slot is empty
			o.ev("dynamic:denied:empty-result")
		default:
			o.fail("denied-reachable:"+p.Kind+":"+nameKindSig(ni),
				fmt.Sprintf("%s(src, WithoutGlobal(%q)) obtained %s\nscript:\n%s\ndefault configuration gives: %s", api, ni.Name, att, p.Src, base), rep)
		}
	case "override":
		switch {
		case !att.failed() && isSentinel(att.Res, sval, sobj):
			o.ev("dynamic:override:sentinel-seen")
		case (att.failed() || isFallback(att.Res)) && p.IsImp && ni.Kind == "module" && sk != "module":
			// a replacement that is not a module cannot be produced by an import statement; the
			// original is not produced either
			o.ev("dynamic:override:import-of-non-module-replacement-fails(accepted)")
		case att.failed() && strings.HasPrefix(p.Kind, "from-import-any"):
			o.ev("dynamic:override:member-of-replaced-module-not-importable(accepted)")
		case !att.failed() && strings.HasPrefix(p.Kind, "from-import-any") && !sameObjectDesc(att.Res, base.Res):
			o.ev("dynamic:override:member-of-replaced-module-differs(accepted)")
		default:
			o.fail("override-not-seen:"+p.Kind+":"+nameKindSig(ni),
				fmt.Sprintf("%s(src, WithGlobalOverride(%q, sentinel %s)) gave %s, not the sentinel\nscript:\n%s\ndefault configuration gives: %s", api, ni.Name, sk, att, p.Src, base), rep)
		}
	}
	// independence, dynamically: the default configuration is unaffected afterwards
	if after.failed() || after.Res == nil || !sameObjectDesc(after.Res, base.Res) {
		o.fail("config-not-independent:later-default-eval-differs:"+nameKindSig(ni),
			fmt.Sprintf("after an evaluation with %s(%q) the same script on the default configuration gives %s (before: %s)\nscript:\n%s", modeOpt(mode), ni.Name, after, base, p.Src), rep)
	}
}

func sameObjectDesc(a, b object.Object) bool {
	if a == nil || b == nil {
		return a == b
	}
	return a.Type() == b.Type() && safeInspect(a) == safeInspect(b)
}

// pickPaths: all paths (k == 0) or k seed-chosen ones plus the direct path.
func pickPaths(r *mon.Rand, ps []pathSpec, k int) []pathSpec {
	if k <= 0 || k >= len(ps) {
		return ps
	}
	perm := r.Perm(len(ps))
	sel := map[int]bool{0: true}
	for _, i := range perm {
		if len(sel) >= k+1 {
			break
		}
		sel[i] = true
	}
	var outp []pathSpec
	for i, p := range ps {
		if sel[i] {
			outp = append(outp, p)
		}
	}
	return outp
}

func runName(o *out, ni nameInfo, pathPick int, allSent bool, r *mon.Rand) {
	sks := sentinelKindsFor(ni)
	identityCheck(o, ni, "deny", "")
	independenceCheck(o, ni, "deny", "")
	for _, sk := range sks {
		identityCheck(o, ni, "override", sk)
	}
	independenceCheck(o, ni, "override", sks[r.Intn(len(sks))])
	ps := pathsFor(ni)
	for _, p := range pickPaths(r, ps, pathPick) {
		dynCheck(o, ni, p, "deny", "")
	}
	for _, p := range pickPaths(r, ps, pathPick) {
		if uses(p, ni.Name) {
			continue // the helper the script needs is the overridden name itself
		}
		if allSent {
			for _, sk := range sks {
				dynCheck(o, ni, p, "override", sk)
			}
			continue
		}
		sk := sks[r.Intn(len(sks))]
		if ni.Kind == "module" && r.Chance(2, 3) {
			sk = "module"
		}
		dynCheck(o, ni, p, "override", sk)
	}
}

// ---------------------------------------------------------------------------------------
// WithoutDefaultGlobals alone

func runNoDefaults(o *out, ni nameInfo) {
	rep := caseData{Kind: "nodefaults", Names: []string{ni.Name}}
	for _, p := range pathsFor(ni) {
		base := eval(p.Src, p)
		o.Evals++
		if base.failed() || base.Res == nil || isFallback(base.Res) {
			o.ev("dynamic:trivial(baseline-did-not-obtain-the-object)")
			continue
		}
		for vi, extra := range [][]risor.Option{
			{risor.WithoutDefaultGlobals()},
			{risor.WithoutDefaultGlobals(), risor.WithGlobal("c11_keep", object.NewString("kept"))},
		} {
			att := eval(p.Src, p, extra...)
			o.Evals++
			if att.failed() {
				o.ev("dynamic:nodefaults:failed")
				if vi == 0 {
					o.Distinct = append(o.Distinct, ni.Name+"|"+p.Kind+"|nodefaults")
				}
				continue
			}
			if isFallback(att.Res) {
				// `try` itself is a default global, so the script cannot even reach the fallback
				o.fail("denied-reachable:"+p.Kind+":without-default-globals",
					fmt.Sprintf("WithoutDefaultGlobals(): script ran and took its fallback although it needs default globals\nscript:\n%s", p.Src), rep)
				continue
			}
			o.fail("denied-reachable:"+p.Kind+":without-default-globals",
				fmt.Sprintf("risor.Eval(src, WithoutDefaultGlobals()) obtained %s for default name %q\nscript:\n%s", att, ni.Name, p.Src), rep)
		}
	}
}

// noDefaultsIdentity: a configuration without default globals exposes nothing but what the host gave.
func noDefaultsIdentity(o *out) {
	rep := caseData{Kind: "nodefaults"}
	keep := object.NewString("kept")
	for vi, opts := range [][]risor.Option{
		{risor.WithoutDefaultGlobals()},
		{risor.WithoutDefaultGlobals(), risor.WithGlobal("c11_keep", keep)},
	} {
		cfg := risor.NewConfig(opts...)
		roots, names, err := exposed(cfg)
		o.Evals++
		if err != nil {
			o.fail("config-unusable:without-default-globals", fmt.Sprintf("a configuration without default globals cannot evaluate `nil`: %v", err), rep)
			continue
		}
		o.ev("identity:nodefaults-configs-inspected")
		want := 0
		if vi == 1 {
			want = 1
		}
		for label, g := range roots {
			if len(g) != want {
				o.fail("identity-reachable:global:without-default-globals",
					fmt.Sprintf("WithoutDefaultGlobals(): %s has %d entries, expected %d: %v", label, len(g), want, keysOf(g)), rep)
			}
		}
		for label, ns := range names {
			if len(ns) != want {
				o.fail("identity-reachable:name-listed:without-default-globals",
					fmt.Sprintf("WithoutDefaultGlobals(): %s lists %v", label, ns), rep)
			}
		}
		// nothing of a default set is in the closure (by type: no module, no builtin)
		for obj, ri := range reach(roots).seen {
			if mutableRef(obj) {
				o.fail("identity-reachable:"+ri.via+":without-default-globals",
					fmt.Sprintf("WithoutDefaultGlobals(): %s reachable at %s", safeInspect(obj), ri.path), rep)
			}
		}
	}
	// a trivial script still runs, so that "everything fails" is not a broken configuration
	if r := eval("1 + 1", pathSpec{}, risor.WithoutDefaultGlobals()); r.failed() {
		o.fail("config-unusable:without-default-globals", "WithoutDefaultGlobals(): `1 + 1` fails: "+r.String(), rep)
	}
	o.Evals++
}

func keysOf(m map[string]any) []string {
	ks := make([]string, 0, len(m))
	for k := range m {
		ks = append(ks, k)
	}
	sort.Strings(ks)
	return ks
}

// ---------------------------------------------------------------------------------------
// subsets of names denied / overridden together

type subsetSpec struct {
	Deny []string
	Over []string
	Seed uint64
}

func related(a, b string) bool {
	return a == b || strings.HasPrefix(a, b+".") || strings.HasPrefix(b, a+".")
}

func genSubset(r *mon.Rand, all []nameInfo) subsetSpec {
	var k int
	switch r.Intn(10) {
	case 0:
		k = r.Range(20, 60)
	case 1, 2:
		k = r.Range(8, 20)
	default:
		k = r.Range(2, 7)
	}
	var sp subsetSpec
	sp.Seed = r.Uint64()
	var mods []nameInfo
	for _, ni := range all {
		if ni.Kind == "module" {
			mods = append(mods, ni)
		}
	}
	focus := mon.Pick(r, mods).Name // pairs within one module are more interesting
	for len(sp.Deny) < k {
		ni := mon.Pick(r, all)
		if r.Chance(1, 3) && !(ni.Mod == focus || ni.Name == focus) {
			continue
		}
		if contains(sp.Deny, ni.Name) {
			continue
		}
		sp.Deny = append(sp.Deny, ni.Name)
	}
	nOver := 0
	if r.Chance(1, 2) {
		nOver = r.Range(1, 3)
	}
	for tries := 0; len(sp.Over) < nOver && tries < 100; tries++ {
		ni := mon.Pick(r, all)
		clash := false
		for _, d := range append(append([]string{}, sp.Deny...), sp.Over...) {
			if related(d, ni.Name) {
				clash = true
			}
		}
		// helpers used by the access scripts stay as they are
		if clash || ni.Name == "spawn" || ni.Name == "try" || ni.Name == "getattr" {
			continue
		}
		sp.Over = append(sp.Over, ni.Name)
	}
	sort.Strings(sp.Deny)
	sort.Strings(sp.Over)
	return sp
}

func runSubset(o *out, sp subsetSpec, all []nameInfo) {
	rep := caseData{Kind: "subset1", Deny: sp.Deny, Over: sp.Over, Seed: sp.Seed}
	byName := map[string]nameInfo{}
	for _, ni := range all {
		byName[ni.Name] = ni
	}
	r := mon.NewRand(sp.Seed)
	// --- identity
	G := risor.DefaultGlobals()
	targets := map[string]object.Object{}
	for _, n := range append(append([]string{}, sp.Deny...), sp.Over...) {
		if t, ok := lookup(G, n); ok {
			targets[n] = t
		}
	}
	fresh := risor.DefaultGlobals()
	opts := []risor.Option{risor.WithoutDefaultGlobals(), risor.WithGlobals(G)}
	dynOpts := []risor.Option{}
	if len(sp.Deny) > 0 {
		if r.Bool() {
			opts = append(opts, risor.WithoutGlobals(sp.Deny...))
			dynOpts = append(dynOpts, risor.WithoutGlobals(sp.Deny...))
		} else {
			for _, n := range sp.Deny {
				opts = append(opts, risor.WithoutGlobal(n))
				dynOpts = append(dynOpts, risor.WithoutGlobal(n))
			}
		}
	}
	type sent struct {
		val any
		obj bool
		sk  string
	}
	sents := map[string]sent{}
	for i, n := range sp.Over {
		ni := byName[n]
		sks := sentinelKindsFor(ni)
		sk := sks[r.Intn(len(sks))]
		v, isO := makeSentinel(sk, fmt.Sprintf("sub%d", i))
		sents[n] = sent{v, isO, sk}
		opts = append(opts, risor.WithGlobalOverride(n, v))
		dynOpts = append(dynOpts, risor.WithGlobalOverride(n, v))
	}
	cfg := risor.NewConfig(opts...)
	roots, names, err := exposed(cfg)
	o.Evals++
	if err != nil {
		o.ev("identity:config-unusable")
	} else {
		o.ev("identity:subset-configs-inspected")
		cl := reach(roots)
		o.Events["identity:objects-in-closures"] += int64(len(cl.seen))
		for n, t := range targets {
			ni := byName[n]
			t2, _ := lookup(fresh, n)
			if isPtr(t) && t != t2 {
				if ri, found := cl.seen[t]; found {
					o.fail("identity-reachable:"+ri.via+":"+nameKindSig(ni)+":subset",
						fmt.Sprintf("subset deny=%v override=%v: the object registered under %q (%s) is still reachable at %s", sp.Deny, sp.Over, n, safeInspect(t), ri.path), rep)
				}
			}
			for label, g := range roots {
				got, found := lookup(g, n)
				if s, isOver := sents[n]; isOver {
					if !found || !isSentinel(got, s.val, s.obj) {
						o.fail("override-not-seen:config:"+nameKindSig(ni)+":subset",
							fmt.Sprintf("subset deny=%v override=%v: %s does not resolve %q to its sentinel", sp.Deny, sp.Over, label, n), rep)
					}
				} else if found {
					o.fail("identity-reachable:name-still-resolves:"+nameKindSig(ni)+":subset",
						fmt.Sprintf("subset deny=%v override=%v: %s still resolves %q to %s", sp.Deny, sp.Over, label, n, safeInspect(got)), rep)
				}
			}
			if _, isOver := sents[n]; !isOver && !strings.Contains(n, ".") {
				for label, ns := range names {
					if contains(ns, n) {
						o.fail("identity-reachable:name-listed:"+nameKindSig(ni)+":subset",
							fmt.Sprintf("subset deny=%v: %s still lists %q", sp.Deny, label, n), rep)
					}
				}
			}
		}
	}
	// --- dynamic: one seed-chosen path per denied name, the direct path (or a clean one) per override
	touched := append(append([]string{}, sp.Deny...), sp.Over...)
	for _, n := range sp.Deny {
		ni := byName[n]
		ps := pathsFor(ni)
		p := ps[r.Intn(len(ps))]
		base := eval(p.Src, p)
		o.Evals++
		if base.failed() || base.Res == nil || isFallback(base.Res) {
			o.ev("dynamic:trivial(baseline-did-not-obtain-the-object)")
			continue
		}
		att := eval(p.Src, p, dynOpts...)
		o.Evals++
		o.Distinct = append(o.Distinct, n+"|"+p.Kind+"|deny")
		if att.failed() || isFallback(att.Res) {
			o.ev("dynamic:subset:denied-failed")
			continue
		}
		// a sentinel of an overridden route (e.g. the module was overridden) is not the denied object
		o.fail("denied-reachable:"+p.Kind+":"+nameKindSig(ni)+":subset",
			fmt.Sprintf("subset deny=%v override=%v: script obtained %s for denied %q\nscript:\n%s", sp.Deny, sp.Over, att, n, p.Src), rep)
	}
	for _, n := range sp.Over {
		ni := byName[n]
		ps := pathsFor(ni)
		var cands []pathSpec
		for _, p := range ps {
			clean := true
			for _, u := range p.Uses {
				if contains(touched, u) {
					clean = false
				}
			}
			// routes through a sibling whose own name was touched are not clean either
			if p.Sib && contains(touched, ni.Mod+"."+ni.Sibling) {
				clean = false
			}
			if p.Kind == "from-import-any" || (p.IsImp && ni.Kind == "module" && sents[n].sk != "module") {
				clean = false
			}
			if clean {
				cands = append(cands, p)
			}
		}
		if len(cands) == 0 {
			continue
		}
		p := cands[r.Intn(len(cands))]
		base := eval(p.Src, p)
		o.Evals++
		if base.failed() || base.Res == nil || isFallback(base.Res) {
			o.ev("dynamic:trivial(baseline-did-not-obtain-the-object)")
			continue
		}
		att := eval(p.Src, p, dynOpts...)
		o.Evals++
		o.Distinct = append(o.Distinct, n+"|"+p.Kind+"|override")
		s := sents[n]
		if !att.failed() && isSentinel(att.Res, s.val, s.obj) {
			o.ev("dynamic:subset:sentinel-seen")
			continue
		}
		o.fail("override-not-seen:"+p.Kind+":"+nameKindSig(ni)+":subset",
			fmt.Sprintf("subset deny=%v override=%v: script gave %s instead of the sentinel (%s) of %q\nscript:\n%s", sp.Deny, sp.Over, att, s.sk, n, p.Src), rep)
	}
	if len(o.Samples) < 1 {
		o.Samples = append(o.Samples, fmt.Sprintf("subset deny=%v override=%v", sp.Deny, sp.Over))
	}
}

// ---------------------------------------------------------------------------------------
// nested host modules (dotted names through more than one module)

// nestedGlobals builds h0 -> h1 -> … -> h<depth-1>; every level has builtins f, g, a string s, and
// level 0 also has decoy modules named like the deeper levels (a wrong resolution would edit those).
func nestedGlobals(depth int) (map[string]any, []*object.Module) {
	mods := make([]*object.Module, depth)
	for lvl := depth - 1; lvl >= 0; lvl-- {
		l := lvl
		contents := map[string]object.Object{
			"f": object.NewBuiltin("f", func(ctx context.Context, args ...object.Object) object.Object {
				return object.NewString(fmt.Sprintf("f%d", l))
			}),
			"g": object.NewBuiltin("g", func(ctx context.Context, args ...object.Object) object.Object {
				return object.NewString(fmt.Sprintf("g%d", l))
			}),
			"s": object.NewString(fmt.Sprintf("s%d", l)),
		}
		if lvl+1 < depth {
			contents[fmt.Sprintf("h%d", lvl+1)] = mods[lvl+1]
		}
		if lvl == 0 {
			for d := 2; d < depth; d++ {
				contents[fmt.Sprintf("h%d", d)] = object.NewBuiltinsModule(fmt.Sprintf("decoy%d", d), map[string]object.Object{
					"f": object.NewString("decoy-f"), "g": object.NewString("decoy-g"), "s": object.NewString("decoy-s"),
				})
			}
		}
		mods[lvl] = object.NewBuiltinsModule(fmt.Sprintf("h%d", lvl), contents)
	}
	return map[string]any{"h0": mods[0]}, mods
}

func runNested(o *out, depth int, member string, mode, sk string) {
	rep := caseData{Kind: "nested", Depth: depth, Name: member, Mode: mode, Sentinel: sk}
	parts := make([]string, depth)
	for i := range parts {
		parts[i] = fmt.Sprintf("h%d", i)
	}
	modPath := strings.Join(parts, ".")
	name := modPath + "." + member
	kindSig := fmt.Sprintf("nested-member-depth%d", depth)
	build := depth
	if strings.HasPrefix(member, "h") {
		build = depth + 1 // the target is the module one level further down
	}
	G, _ := nestedGlobals(build)
	T, ok := lookup(G, name)
	if !ok {
		panic("harness: nested name does not resolve: " + name)
	}
	scripts := []pathSpec{
		{Kind: "attr", Src: name},
		{Kind: "getattr", Src: "getattr(" + modPath + ", \"" + member + "\")"},
		{Kind: "attr+func", Src: "func f() { return " + name + " }\nf()"},
		{Kind: "attr+spawn", Src: "t := spawn(func() { return " + name + " })\nt.wait()"},
		{Kind: "attr+try", Src: "try(func() { return " + name + " }, \"" + fallbackMarker + "\")"},
	}
	sib := "f"
	if member == "f" {
		sib = "g"
	}
	scripts = append(scripts, pathSpec{Sib: true, Kind: "sibling-__module__", Src: modPath + "." + sib + ".__module__." + member})
	if depth == 1 {
		scripts = append(scripts, pathSpec{Kind: "from-import", Src: "from h0 import " + member + " as zz\nzz"})
	}
	baseOpts := func() []risor.Option {
		g, _ := nestedGlobals(build)
		return []risor.Option{risor.WithGlobals(g)}
	}
	for _, p := range scripts {
		base := eval(p.Src, p, baseOpts()...)
		o.Evals++
		if base.failed() || base.Res == nil || isFallback(base.Res) {
			o.ev("dynamic:trivial(baseline-did-not-obtain-the-object)")
			o.Trivial = append(o.Trivial, "nested "+name+" "+p.Kind+": "+base.String())
			continue
		}
		var att outcome
		var sval any
		var sobj bool
		if mode == "deny" {
			att = eval(p.Src, p, append(baseOpts(), risor.WithoutGlobal(name))...)
		} else {
			sval, sobj = makeSentinel(sk, "nest")
			att = eval(p.Src, p, append(baseOpts(), risor.WithGlobalOverride(name, sval))...)
		}
		o.Evals++
		o.Distinct = append(o.Distinct, fmt.Sprintf("nested-depth%d.%s|%s|%s", depth, member, p.Kind, mode))
		switch {
		case mode == "deny" && (att.failed() || isFallback(att.Res)):
			o.ev("dynamic:nested:denied-failed")
		case mode == "deny":
			o.fail("denied-reachable:"+p.Kind+":"+kindSig,
				fmt.Sprintf("host modules nested %d deep, WithoutGlobal(%q): script obtained %s\nscript:\n%s", depth, name, att, p.Src), rep)
		case !att.failed() && isSentinel(att.Res, sval, sobj):
			o.ev("dynamic:nested:sentinel-seen")
		default:
			o.fail("override-not-seen:"+p.Kind+":"+kindSig,
				fmt.Sprintf("host modules nested %d deep, WithGlobalOverride(%q, sentinel %s): script gave %s\nscript:\n%s", depth, name, sk, att, p.Src), rep)
		}
	}
	// identity
	opts := []risor.Option{risor.WithoutDefaultGlobals(), risor.WithGlobals(G)}
	var sval any
	var sobj bool
	if mode == "deny" {
		opts = append(opts, risor.WithoutGlobal(name))
	} else {
		sval, sobj = makeSentinel(sk, "nestid")
		opts = append(opts, risor.WithGlobalOverride(name, sval))
	}
	cfg := risor.NewConfig(opts...)
	roots, _, err := exposed(cfg)
	o.Evals++
	if err != nil {
		o.ev("identity:config-unusable")
		return
	}
	o.ev("identity:nested-configs-inspected")
	cl := reach(roots)
	if ri, found := cl.seen[T]; found && isPtr(T) {
		o.fail("identity-reachable:"+ri.via+":"+kindSig,
			fmt.Sprintf("host modules nested %d deep, %s(%q): the registered object %s is still reachable at %s", depth, modeOpt(mode), name, safeInspect(T), ri.path), rep)
	}
	if mode == "override" {
		if got, found := lookup(roots["Globals"], name); !found || !isSentinel(got, sval, sobj) {
			o.fail("override-not-seen:config:"+kindSig,
				fmt.Sprintf("host modules nested %d deep, WithGlobalOverride(%q): Globals() does not resolve the name to the sentinel", depth, name), rep)
		}
	}
}

// ---------------------------------------------------------------------------------------
// worker

func worker(kind string, data json.RawMessage) any {
	var c caseData
	if err := json.Unmarshal(data, &c); err != nil {
		panic(err)
	}
	o := &out{Events: map[string]int64{}}
	all := enumerate()
	byName := map[string]nameInfo{}
	for _, ni := range all {
		byName[ni.Name] = ni
	}
	find := func(n string) (nameInfo, bool) {
		ni, ok := byName[n]
		if !ok {
			o.ev("harness:name-not-in-defaults-any-more")
		}
		return ni, ok
	}
	switch kind {
	case "names":
		for _, n := range c.Names {
			if ni, ok := find(n); ok {
				runName(o, ni, c.PathPick, c.AllSent, mon.NewRand(c.Seed).Split(n))
			}
		}
	case "nodefaults":
		if len(c.Names) == 0 {
			noDefaultsIdentity(o)
		}
		for _, n := range c.Names {
			if ni, ok := find(n); ok {
				runNoDefaults(o, ni)
			}
		}
	case "subsets":
		r := mon.NewRand(c.Seed)
		for i := 0; i < c.N; i++ {
			runSubset(o, genSubset(r, all), all)
		}
	case "subset1":
		runSubset(o, subsetSpec{Deny: c.Deny, Over: c.Over, Seed: c.Seed}, all)
	case "combos":
		fixed := fixedCombos(all)
		for i := c.Lo; i < c.Hi && i < len(fixed); i++ {
			runCombo(o, fixed[i], all)
		}
		r := mon.NewRand(c.Seed)
		for i := 0; i < c.N; i++ {
			runCombo(o, genCombo(r, all), all)
		}
	case "hostmap":
		shapes := fixedHostShapes()
		seqs := fixedHostSeqs()
		for i := c.Lo; i < c.Hi; i++ {
			if i < len(shapes) {
				hostMapInvariant(o, shapes[i])
			}
			if i < len(seqs) {
				runHostSeq(o, seqs[i])
			}
		}
		r := mon.NewRand(c.Seed)
		for i := 0; i < c.N; i++ {
			hostMapInvariant(o, genHostStep(r, all))
			runHostSeq(o, genHostSeq(r, all))
		}
	case "hostmap1":
		if len(c.Steps) == 1 {
			hostMapInvariant(o, c.Steps[0])
		}
		runHostSeq(o, c.Steps)
	case "combo1":
		runCombo(o, comboSpec{Deny: c.Deny, Overs: c.Overs, Base: c.Base, Split: c.Split, Order: c.Order, Seed: c.Seed}, all)
	case "nested":
		if c.Name != "" {
			runNested(o, c.Depth, c.Name, c.Mode, c.Sentinel)
			break
		}
		for depth := 1; depth <= 4; depth++ {
			members := []string{"f", "s", fmt.Sprintf("h%d", depth)}
			for _, mem := range members {
				runNested(o, depth, mem, "deny", "")
				for _, sk := range []string{"str", "builtin", "gostr"} {
					runNested(o, depth, mem, "override", sk)
				}
			}
		}
	case "ident1":
		if ni, ok := find(c.Name); ok {
			identityCheck(o, ni, c.Mode, c.Sentinel)
			independenceCheck(o, ni, c.Mode, c.Sentinel)
		}
	case "dyn1":
		if ni, ok := find(c.Name); ok {
			for _, p := range pathsFor(ni) {
				if p.Kind == c.Path {
					dynCheck(o, ni, p, c.Mode, c.Sentinel)
				}
			}
		}
	}
	return o
}

// ---------------------------------------------------------------------------------------
// driver

func drive(d *mon.Driver, replay string) int {
	d.Rule = "a (denied or overridden name, access path, mode) triple whose script obtained the object on the default configuration (baseline succeeded), so that its failure under WithoutGlobal / its sentinel under WithGlobalOverride is meaningful; names are enumerated live from risor.DefaultGlobals() (every top-level name and every module.member), plus host modules nested 1..4 deep"
	d.Assume = []string{
		"identity is checked for objects that are fresh per DefaultGlobals() call; interned immutables (small ints, bools, nil) are checked by name only",
		"not demanded: that a different builtin object wrapping the same Go function (top-level getenv vs os.getenv) disappears with its sibling; such aliases are listed under aliases_info",
		"an import statement cannot produce a replacement that is not a module: with such an override an import error is accepted, the original module is not",
		"WithGlobals(G) + WithoutGlobal(\"mod.member\") edits the caller's module object in G in place; this is counted as information (info:caller-module-object-edited-in-place), the statement speaks about default globals of independent configurations",
		"scripts only obtain references, they never call the denied functions; all evaluations run on a VirtualOS",
		"combined configurations (deny sets x overrides with valid and unconvertible values x default / WithoutDefaultGlobals+WithGlobals(G) / defaults+host globals x shuffled option order): every denied name must be unreachable and unlisted whatever else the configuration contains or rejects; overrides with a value that is valid where it is used must take effect unless the configuration holds a dotted override that Config.init rejects (it stops at the first such override, the others are applied or not depending on map order: either accepted) or a top-level value the VM rejects (every evaluation fails: accepted)",
		"the caller's map given to WithGlobals must have exactly the keys and values (by identity) it had, after NewConfig and every Config accessor, risor.Eval, EvalCode and Call; and when one host map is reused for two or three configurations in a row each of them must expose the names and give the script outcomes that the same options give with a fresh equivalent map (dotted denials / overrides in these sequences only name members of default modules)",
		"a name that is both denied and overridden is pinned to what the unchanged tree does: a top-level name ends up replaced, a dotted name ends up removed; the original object is never visible",
		"a dotted override whose value object.FromGoType cannot convert (Go func, struct, []int, chan, an object.Error, ...) is silently ignored by the configuration and the original stays visible: counted as information (info:dotted-override-with-unconvertible-value-silently-ignored), the statement speaks about a replacement that was installed",
	}
	names := enumerate()
	var cases []mon.Case
	if replay != "" {
		var c caseData
		if err := mon.LoadReplay(replay, &c); err != nil {
			fmt.Println("cannot load replay:", err)
			return 3
		}
		cases = append(cases, mon.NewCase("replay", c.Kind, c))
	} else {
		r := d.Rand("cases")
		pathPick := 0 // every path in both tiers: the whole name x path space costs a few seconds
		const chunk = 4
		for i := 0; i < len(names); i += chunk {
			j := i + chunk
			if j > len(names) {
				j = len(names)
			}
			var ns []string
			for _, ni := range names[i:j] {
				ns = append(ns, ni.Name)
			}
			cases = append(cases, mon.NewCase(fmt.Sprintf("names-%d", i), "names", caseData{Kind: "names", Names: ns, PathPick: pathPick, AllSent: d.Thorough(), Seed: r.Uint64()}))
			cases = append(cases, mon.NewCase(fmt.Sprintf("nodefaults-%d", i), "nodefaults", caseData{Kind: "nodefaults", Names: ns}))
		}
		cases = append(cases, mon.NewCase("nodefaults-identity", "nodefaults", caseData{Kind: "nodefaults"}))
		cases = append(cases, mon.NewCase("nested", "nested", caseData{Kind: "nested"}))
		nFixed := len(fixedCombos(names))
		for lo := 0; lo < nFixed; lo += 10 {
			cases = append(cases, mon.NewCase(fmt.Sprintf("combos-fixed-%d", lo), "combos", caseData{Kind: "combos", Lo: lo, Hi: lo + 10}))
		}
		nCombo := d.N(300, 6000)
		perC := d.N(15, 100)
		for i := 0; i < nCombo; i += perC {
			cases = append(cases, mon.NewCase(fmt.Sprintf("combos-%d", i), "combos", caseData{Kind: "combos", Seed: r.Uint64(), N: perC}))
		}
		nHM := len(fixedHostShapes())
		if n := len(fixedHostSeqs()); n > nHM {
			nHM = n
		}
		for lo := 0; lo < nHM; lo += 8 {
			cases = append(cases, mon.NewCase(fmt.Sprintf("hostmap-fixed-%d", lo), "hostmap", caseData{Kind: "hostmap", Lo: lo, Hi: lo + 8}))
		}
		nHS := d.N(80, 2000)
		perH := d.N(8, 50)
		for i := 0; i < nHS; i += perH {
			cases = append(cases, mon.NewCase(fmt.Sprintf("hostmap-%d", i), "hostmap", caseData{Kind: "hostmap", Seed: r.Uint64(), N: perH}))
		}
		nSub := d.N(100, 5000)
		per := d.N(5, 50)
		for i := 0; i < nSub; i += per {
			cases = append(cases, mon.NewCase(fmt.Sprintf("subsets-%d", i), "subsets", caseData{Kind: "subsets", Seed: r.Uint64(), N: per}))
		}
	}
	aliases := map[string]bool{}
	trivial := map[string]bool{}
	d.RunPool(cases, mon.PoolOpts{BatchSize: 1, BatchTimeout: 300e9}, func(c mon.Case, res mon.Result) {
		var cd caseData
		_ = json.Unmarshal(c.Data, &cd)
		if res.Status == "timeout" {
			d.Inconclusive("watchdog fired in case " + c.ID)
			return
		}
		if res.Status != "done" || res.Panic != "" {
			detail := res.Panic
			if res.Crash != nil {
				detail = res.Crash.Exit + " " + res.Crash.FatalLine + "\n" + res.Crash.StderrTail
			}
			if res.Status == "lost" {
				d.Fatal("worker produced no result for case " + c.ID)
				return
			}
			d.Violation("monitor-crashed:"+c.Kind, "the worker died or panicked while inspecting configurations:\n"+detail, cd)
			return
		}
		var o out
		if err := json.Unmarshal(res.Data, &o); err != nil {
			d.Fatal("bad worker output: " + err.Error())
			return
		}
		d.Eval(int(o.Evals))
		for k, v := range o.Events {
			d.Event(k, int(v))
		}
		for _, k := range o.Distinct {
			d.Distinct(k)
		}
		for _, s := range o.Samples {
			if c.Kind == "names" || c.Kind == "subsets" || c.Kind == "combos" || c.Kind == "hostmap" {
				d.Sample(s)
			}
		}
		for _, a := range o.Aliases {
			aliases[a] = true
		}
		for _, t := range o.Trivial {
			trivial[t] = true
		}
		for _, v := range o.Viols {
			d.Violation(v.Sig, v.Detail, v.Replay)
		}
	})
	if replay != "" {
		return d.Finish(1, 0)
	}
	kinds := map[string]int{}
	for _, ni := range names {
		kinds[ni.Kind]++
	}
	d.Extra("names_enumerated", len(names))
	d.Extra("names_by_kind", kinds)
	d.Extra("exhaustive", true)
	d.Extra("exhaustive_over", "every default top-level name and module.member (identity + independence monitors and every generated access path, deny and override; quick uses one seed-chosen sentinel kind per path, thorough every kind); subsets of names and combined configurations (beyond a fixed list run at every seed) are sampled")
	d.Extra("aliases_info", sortedKeys(aliases))
	tl := sortedKeys(trivial)
	if len(tl) > 30 {
		tl = tl[:30]
	}
	d.Extra("trivial_attempts_sample", tl)
	if d.EventCount("harness:name-not-in-defaults-any-more") > 0 {
		d.Fatal("the worker's live enumeration of default globals differs from the driver's")
	}
	minDistinct := 15 * len(names)
	if len(names) < 100 {
		d.Fatal(fmt.Sprintf("only %d default names were enumerated", len(names)))
	}
	return d.Finish(20*len(names), minDistinct)
}

func sortedKeys(m map[string]bool) []string {
	ks := make([]string, 0, len(m))
	for k := range m {
		ks = append(ks, k)
	}
	sort.Strings(ks)
	return ks
}
