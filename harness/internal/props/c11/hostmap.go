package c11

// The host's own globals map.
//
// (a) Invariant: building / initialising / using a configuration made with WithGlobals(g) (the only
//     option that takes a map) never changes g: after NewConfig and after each of Globals(),
//     CombinedGlobals(), GlobalNames(), CompilerOpts(), VMOpts(), risor.Eval, risor.EvalCode and
//     risor.Call the map has exactly the keys and the values (by identity) it had before.
// (b) Map reuse: one host map is used for two or three configurations in a row (defaults -> sandbox
//     without default globals, with denials / overrides in the first one, sandbox first, ...). Every
//     configuration of the sequence must expose exactly the names, and give exactly the script
//     outcomes, that the same options give with a fresh, equivalent map.
//
// Dotted denials / overrides in these sequences only name members of *default* modules, which are
// fresh per configuration. (WithoutGlobal("hostmod.member") edits the host's module object in place
// and therefore does show in a later configuration built from the same objects; that is counted by
// the identity monitor as info:caller-module-object-edited-in-place and reported separately.)

import (
	"context"
	"fmt"
	"sort"
	"strings"

	"github.com/risor-io/risor"
	"github.com/risor-io/risor/compiler"
	"github.com/risor-io/risor/object"
	ros "github.com/risor-io/risor/os"
	"github.com/risor-io/risor/parser"

	"verif/internal/mon"
)

type hmStep struct {
	NoDefaults bool        `json:"no_defaults,omitempty"`
	NDFirst    bool        `json:"nd_first,omitempty"`    // WithoutDefaultGlobals() before WithGlobals(g)
	Extra      bool        `json:"extra,omitempty"`       // also WithGlobal("c11_single", 17)
	ExtraFirst bool        `json:"extra_first,omitempty"` // ... before WithGlobals(g)
	TwoMaps    bool        `json:"two_maps,omitempty"`    // also WithGlobals(g2)
	G2First    bool        `json:"g2_first,omitempty"`    // ... before WithGlobals(g)
	Deny       []string    `json:"deny,omitempty"`
	Overs      []comboOver `json:"overs,omitempty"`
	API        string      `json:"api,omitempty"` // config | eval (how the configuration is exercised first)
}

func (st hmStep) shape() string {
	s := "defaults"
	if st.NoDefaults {
		s = "sandbox"
	}
	if len(st.Deny) > 0 {
		s += "+deny"
	}
	if len(st.Overs) > 0 {
		s += "+override"
	}
	return s
}

func (st hmStep) String() string {
	var parts []string
	add := func(s string) { parts = append(parts, s) }
	if st.NoDefaults && st.NDFirst {
		add("WithoutDefaultGlobals()")
	}
	if st.Extra && st.ExtraFirst {
		add("WithGlobal(c11_single)")
	}
	if st.TwoMaps && st.G2First {
		add("WithGlobals(g2)")
	}
	add("WithGlobals(g)")
	if st.TwoMaps && !st.G2First {
		add("WithGlobals(g2)")
	}
	if st.Extra && !st.ExtraFirst {
		add("WithGlobal(c11_single)")
	}
	if st.NoDefaults && !st.NDFirst {
		add("WithoutDefaultGlobals()")
	}
	for _, d := range st.Deny {
		add("WithoutGlobal(" + d + ")")
	}
	for _, ov := range st.Overs {
		add("WithGlobalOverride(" + ov.Name + ", " + ov.Val + ")")
	}
	return "[" + strings.Join(parts, ", ") + "]"
}

func (st hmStep) opts(g, g2 map[string]any) []risor.Option {
	var o []risor.Option
	if st.NoDefaults && st.NDFirst {
		o = append(o, risor.WithoutDefaultGlobals())
	}
	if st.Extra && st.ExtraFirst {
		o = append(o, risor.WithGlobal("c11_single", 17))
	}
	if st.TwoMaps && st.G2First {
		o = append(o, risor.WithGlobals(g2))
	}
	o = append(o, risor.WithGlobals(g))
	if st.TwoMaps && !st.G2First {
		o = append(o, risor.WithGlobals(g2))
	}
	if st.Extra && !st.ExtraFirst {
		o = append(o, risor.WithGlobal("c11_single", 17))
	}
	if st.NoDefaults && !st.NDFirst {
		o = append(o, risor.WithoutDefaultGlobals())
	}
	for _, d := range st.Deny {
		o = append(o, risor.WithoutGlobal(d))
	}
	for i, ov := range st.Overs {
		o = append(o, risor.WithGlobalOverride(ov.Name, comboValue(ov.Val, comboTag(i))))
	}
	return o
}

// mkHost builds the host's API map from fresh, equivalent objects (comparable values only).
func mkHost() (g, g2 map[string]any) {
	g = map[string]any{
		"c11_api": object.NewBuiltin("c11_api", func(ctx context.Context, args ...object.Object) object.Object {
			return object.NewString("api-called")
		}),
		"c11_version": object.NewString("1.0"),
		"c11_num":     42,
		"c11_hostmod": object.NewBuiltinsModule("c11_hostmod", map[string]object.Object{
			"v": object.NewString("host-module-value"),
			"f": object.NewBuiltin("f", func(ctx context.Context, args ...object.Object) object.Object { return object.Nil }),
		}),
	}
	g2 = map[string]any{"c11_second": object.NewString("second")}
	return
}

func snapshot(m map[string]any) map[string]any {
	s := make(map[string]any, len(m))
	for k, v := range m {
		s[k] = v
	}
	return s
}

// mapDiff describes how a map differs from its snapshot ("" = unchanged).
func mapDiff(now, snap map[string]any) (change, detail string) {
	var added, removed, replaced []string
	for k, v := range now {
		old, had := snap[k]
		if !had {
			added = append(added, k)
		} else if !sameAny(old, v) {
			replaced = append(replaced, k)
		}
	}
	for k := range snap {
		if _, has := now[k]; !has {
			removed = append(removed, k)
		}
	}
	sort.Strings(added)
	sort.Strings(removed)
	sort.Strings(replaced)
	var kinds, det []string
	if len(added) > 0 {
		kinds = append(kinds, "keys-added")
		det = append(det, fmt.Sprintf("%d keys added (%s)", len(added), mon.Truncate(strings.Join(added, ", "), 160)))
	}
	if len(removed) > 0 {
		kinds = append(kinds, "keys-removed")
		det = append(det, fmt.Sprintf("%d keys removed (%s)", len(removed), strings.Join(removed, ", ")))
	}
	if len(replaced) > 0 {
		kinds = append(kinds, "values-replaced")
		det = append(det, fmt.Sprintf("%d values replaced (%s)", len(replaced), strings.Join(replaced, ", ")))
	}
	return strings.Join(kinds, "+"), strings.Join(det, "; ")
}

func sameAny(a, b any) (same bool) {
	defer func() {
		if recover() != nil {
			same = false
		}
	}()
	return a == b
}

// hostAPIs exercises a configuration made from opts in every way the embedding API offers; after is
// called after each step with the name of the API that just ran.
func hostAPIs(opts func() []risor.Option, after func(api string)) {
	ctx := context.Background()
	guard := func(api string, f func()) {
		defer func() {
			_ = recover()
			after(api)
		}()
		f()
	}
	var cfg *risor.Config
	guard("NewConfig", func() { cfg = risor.NewConfig(opts()...) })
	if cfg != nil {
		guard("Config.Globals", func() { _ = cfg.Globals() })
		guard("Config.CombinedGlobals", func() { _ = cfg.CombinedGlobals() })
		guard("Config.GlobalNames", func() { _ = cfg.GlobalNames() })
		guard("Config.CompilerOpts", func() { _ = cfg.CompilerOpts() })
		guard("Config.VMOpts", func() { _ = cfg.VMOpts() })
	}
	withOS := func() []risor.Option {
		return append(opts(), risor.WithOS(ros.NewVirtualOS(ctx)), risor.WithConcurrency())
	}
	guard("risor.Eval", func() { _, _ = risor.Eval(ctx, "c11_probe := 1\nc11_probe + 1", withOS()...) })
	var code *compiler.Code
	if ast, err := parser.Parse(ctx, "func c11_f() { return 7 }\nc11_g := 3\nc11_g"); err == nil {
		func() {
			defer func() { _ = recover() }()
			code, _ = compiler.Compile(ast, risor.NewConfig(opts()...).CompilerOpts()...)
		}()
		after("compiler.Compile(Config.CompilerOpts)")
	}
	if code != nil {
		guard("risor.EvalCode", func() { _, _ = risor.EvalCode(ctx, code, withOS()...) })
		guard("risor.Call", func() { _, _ = risor.Call(ctx, code, "c11_f", nil, withOS()...) })
	}
}

// hostMapInvariant: (a) for one option shape, fresh map.
func hostMapInvariant(o *out, st hmStep) {
	rep := caseData{Kind: "hostmap1", Steps: []hmStep{st}}
	g, g2 := mkHost()
	snap, snap2 := snapshot(g), snapshot(g2)
	reported := false
	hostAPIs(func() []risor.Option { return st.opts(g, g2) }, func(api string) {
		o.Evals++
		o.ev("hostmap:invariant-checks")
		if reported {
			return
		}
		for which, pair := range map[string][2]map[string]any{"g": {g, snap}, "g2": {g2, snap2}} {
			if change, det := mapDiff(pair[0], pair[1]); change != "" {
				reported = true
				o.fail("host-map-mutated:"+change+":"+api,
					fmt.Sprintf("the caller's map %s passed to WithGlobals was changed by %s with options %s: %s", which, api, st, det), rep)
				return
			}
		}
	})
	o.Distinct = append(o.Distinct, "hostmap|"+st.String())
}

// ---------------------------------------------------------------------------------------
// (b) sequences

type hmProbe struct {
	Kind string
	Src  string
}

func hmProbes(steps []hmStep) []hmProbe {
	ps := []hmProbe{
		{"ident-default-builtin", "len"},
		{"ident-default-module", "os"},
		{"import", "import os\nos"},
		{"import-other", "import strings\nstrings"},
		{"from-import", "from os import getenv\ngetenv"},
		{"attr", "os.getenv"},
		{"getattr", "getattr(math, \"sqrt\")"},
		{"try", "try(func() { return exec }, \"" + fallbackMarker + "\")"},
		{"spawn", "t := spawn(func() { return json })\nt.wait()"},
		{"host-ident", "c11_api"},
		{"host-value", "c11_version"},
		{"host-go-value", "c11_num"},
		{"host-module-attr", "c11_hostmod.v"},
		{"host-single", "c11_single"},
		{"host-second-map", "c11_second"},
		{"no-globals", "1 + 1"},
	}
	seen := map[string]bool{}
	for _, st := range steps {
		for _, n := range st.Deny {
			if !seen[n] {
				seen[n] = true
				ps = append(ps, hmProbe{"touched-name", n})
			}
		}
		for _, ov := range st.Overs {
			if !seen[ov.Name] {
				seen[ov.Name] = true
				ps = append(ps, hmProbe{"touched-name", ov.Name})
			}
		}
	}
	return ps
}

func describe(oc outcome) string {
	switch {
	case oc.failed():
		return "fails"
	case oc.Res == nil:
		return "empty"
	case isFallback(oc.Res):
		return "fallback"
	}
	return string(oc.Res.Type()) + " " + safeInspect(oc.Res)
}

// observeConfig lists what a configuration exposes, label -> sorted names.
func observeConfig(opts []risor.Option) (res map[string][]string) {
	res = map[string][]string{}
	defer func() {
		if r := recover(); r != nil {
			res["panic"] = []string{fmt.Sprint(r)}
		}
	}()
	cfg := risor.NewConfig(opts...)
	roots, names, err := exposed(cfg)
	if err != nil {
		res["error"] = []string{firstLine(err.Error())}
	}
	for l, g := range roots {
		res[l+"(keys)"] = keysOf(g)
	}
	for l, ns := range names {
		s := append([]string{}, ns...)
		sort.Strings(s)
		res[l] = s
	}
	return res
}

func listDiff(a, b []string) string {
	in := func(xs []string) map[string]bool {
		m := map[string]bool{}
		for _, x := range xs {
			m[x] = true
		}
		return m
	}
	ma, mb := in(a), in(b)
	var extra, missing []string
	for _, x := range a {
		if !mb[x] {
			extra = append(extra, x)
		}
	}
	for _, x := range b {
		if !ma[x] {
			missing = append(missing, x)
		}
	}
	if len(extra) == 0 && len(missing) == 0 {
		return ""
	}
	return fmt.Sprintf("%d extra (%s), %d missing (%s)", len(extra), mon.Truncate(strings.Join(extra, ", "), 200), len(missing), mon.Truncate(strings.Join(missing, ", "), 200))
}

func runHostSeq(o *out, steps []hmStep) {
	rep := caseData{Kind: "hostmap1", Steps: steps}
	g, g2 := mkHost() // the one map the host keeps
	snap, snap2 := snapshot(g), snapshot(g2)
	probes := hmProbes(steps)
	var descs []string
	for _, st := range steps {
		descs = append(descs, st.String())
	}
	seqDesc := strings.Join(descs, " ; then ")
	mutated := false
	checkMaps := func(api string, k int) {
		if mutated {
			return
		}
		for which, pair := range map[string][2]map[string]any{"g": {g, snap}, "g2": {g2, snap2}} {
			if change, det := mapDiff(pair[0], pair[1]); change != "" {
				mutated = true
				o.fail("host-map-mutated:"+change+":"+api,
					fmt.Sprintf("the caller's map %s was changed by %s of configuration %d in the sequence %s: %s", which, api, k+1, seqDesc, det), rep)
				return
			}
		}
	}
	prev := "first"
	for k, st := range steps {
		st := st
		shape := prev + ">" + st.shape()
		// how the host uses the configuration first
		if st.API == "eval" {
			oc := eval("1 + 1", pathSpec{}, st.opts(g, g2)...)
			_ = oc
			o.Evals++
			checkMaps("risor.Eval", k)
		}
		got := observeConfig(st.opts(g, g2))
		checkMaps("NewConfig/Globals/VMOpts", k)
		fg, fg2 := mkHost()
		want := observeConfig(st.opts(fg, fg2))
		o.Evals += 2
		o.ev("hostmap:sequence-configurations")
		labels := make([]string, 0, len(want))
		for l := range want {
			labels = append(labels, l)
		}
		for l := range got {
			if _, ok := want[l]; !ok {
				labels = append(labels, l)
			}
		}
		sort.Strings(labels)
		for _, l := range labels {
			if d := listDiff(got[l], want[l]); d != "" {
				o.fail("config-not-independent:reused-host-map:"+l+"-differ:"+shape,
					fmt.Sprintf("configuration %d of the sequence %s (one host map reused): %s differs from the same options with a fresh map: %s", k+1, seqDesc, l, d), rep)
				break
			}
		}
		for _, p := range probes {
			a := eval(p.Src, pathSpec{}, st.opts(g, g2)...)
			checkMaps("risor.Eval", k)
			hg, hg2 := mkHost()
			b := eval(p.Src, pathSpec{}, st.opts(hg, hg2)...)
			o.Evals += 2
			da, db := describe(a), describe(b)
			if da != db {
				o.fail("config-not-independent:reused-host-map:script:"+p.Kind+":"+shape,
					fmt.Sprintf("configuration %d of the sequence %s (one host map reused): script %q gives %q, with a fresh map %q", k+1, seqDesc, p.Src, da, db), rep)
				continue
			}
			if da != "fails" {
				o.Distinct = append(o.Distinct, "hostseq|"+shape+"|"+p.Kind)
			}
			o.ev("hostmap:sequence-probes-agree")
		}
		prev = st.shape()
	}
	if len(o.Samples) < 1 {
		o.Samples = append(o.Samples, "host map reused: "+seqDesc)
	}
}

// ---------------------------------------------------------------------------------------
// workloads

func fixedHostShapes() []hmStep {
	var out []hmStep
	denies := [][]string{nil, {"cat", "os.exit"}, {"c11_api"}, {"os", "c11_version", "strings.split"}}
	overs := [][]comboOver{nil, {{"getenv", "str"}, {"os.getenv", "builtin"}}, {{"c11_version", "gostr"}}, {{"math", "str"}, {"c11_num", "goint"}}}
	for nd := 0; nd < 2; nd++ {
		for ndf := 0; ndf < 2; ndf++ {
			if nd == 0 && ndf == 1 {
				continue
			}
			for ex := 0; ex < 3; ex++ {
				for tm := 0; tm < 3; tm++ {
					for di, d := range denies {
						ov := overs[(di+ex+tm)%len(overs)]
						out = append(out, hmStep{NoDefaults: nd == 1, NDFirst: ndf == 1, Extra: ex > 0, ExtraFirst: ex == 2, TwoMaps: tm > 0, G2First: tm == 2, Deny: d, Overs: ov})
					}
				}
			}
		}
	}
	return out
}

func fixedHostSeqs() [][]hmStep {
	def := hmStep{}
	sb := hmStep{NoDefaults: true}
	sbFirst := hmStep{NoDefaults: true, NDFirst: true}
	defDeny := hmStep{Deny: []string{"cat", "os.exit", "exec"}}
	defOver := hmStep{Overs: []comboOver{{"getenv", "str"}, {"os.getenv", "builtin"}}}
	defDenyHost := hmStep{Deny: []string{"c11_api", "json"}}
	defOverHost := hmStep{Overs: []comboOver{{"c11_version", "gostr"}, {"len", "goint"}}}
	sbDenyHost := hmStep{NoDefaults: true, Deny: []string{"c11_api"}}
	sbOverHost := hmStep{NoDefaults: true, NDFirst: true, Overs: []comboOver{{"c11_version", "str"}}}
	withAPI := func(st hmStep, api string) hmStep { st.API = api; return st }
	seqs := [][]hmStep{
		{def, sb}, {def, sbFirst}, {withAPI(def, "eval"), withAPI(sb, "eval")}, {withAPI(def, "eval"), sbFirst},
		{sb, def}, {sbFirst, def}, {withAPI(sb, "eval"), def},
		{defDeny, sb}, {defDeny, sbFirst}, {defOver, sb}, {defOver, sbFirst},
		{defDeny, def}, {defOver, def}, {def, defDeny}, {def, defOver},
		{defDenyHost, sb}, {defOverHost, sb}, {defDenyHost, def}, {defOverHost, def},
		{sbDenyHost, sb}, {sbOverHost, sb}, {sbDenyHost, def}, {sbOverHost, def},
		{def, sb, def}, {sb, def, sb}, {defDeny, sb, def}, {defOver, sbFirst, defDeny}, {sb, defDeny, sbFirst},
		{hmStep{Extra: true}, sb}, {hmStep{Extra: true, ExtraFirst: true}, sb}, {def, hmStep{NoDefaults: true, Extra: true, ExtraFirst: true}},
		{hmStep{TwoMaps: true}, hmStep{NoDefaults: true, TwoMaps: true}}, {hmStep{TwoMaps: true, G2First: true}, hmStep{NoDefaults: true, TwoMaps: true, G2First: true}},
		{hmStep{TwoMaps: true, G2First: true}, sb}, {def, hmStep{NoDefaults: true, TwoMaps: true, G2First: true}},
	}
	return seqs
}

func genHostStep(r *mon.Rand, all []nameInfo) hmStep {
	st := hmStep{
		NoDefaults: r.Bool(), NDFirst: r.Bool(), Extra: r.Chance(1, 3), ExtraFirst: r.Bool(),
		TwoMaps: r.Chance(1, 3), G2First: r.Bool(),
	}
	if r.Chance(1, 3) {
		st.API = "eval"
	}
	hostKeys := []string{"c11_api", "c11_version", "c11_num", "c11_hostmod"}
	pick := func() string {
		if r.Chance(1, 4) {
			return mon.Pick(r, hostKeys)
		}
		return mon.Pick(r, all).Name
	}
	if r.Chance(1, 2) {
		for n := r.Range(1, 3); len(st.Deny) < n; {
			name := pick()
			if !contains(st.Deny, name) {
				st.Deny = append(st.Deny, name)
			}
		}
	}
	if r.Chance(1, 2) {
		for tries := 0; len(st.Overs) < r.Range(1, 2) && tries < 50; tries++ {
			name := pick()
			clash := name == "spawn" || name == "try" || name == "getattr"
			for _, d := range st.Deny {
				if related(d, name) {
					clash = true
				}
			}
			for _, ov := range st.Overs {
				if related(ov.Name, name) {
					clash = true
				}
			}
			if !clash {
				st.Overs = append(st.Overs, comboOver{name, mon.Pick(r, []string{"str", "builtin", "gostr", "goint"})})
			}
		}
	}
	return st
}

func genHostSeq(r *mon.Rand, all []nameInfo) []hmStep {
	n := r.Range(2, 3)
	steps := make([]hmStep, n)
	for i := range steps {
		steps[i] = genHostStep(r, all)
	}
	// make sure both kinds of configuration occur often
	if r.Chance(1, 2) {
		steps[0].NoDefaults = false
		steps[1].NoDefaults = true
	}
	return steps
}
