package c12

// Workload: what is called, with which arguments, in which execution context.
//
// The set of operations is ENUMERATED FROM THE LIVE OBJECTS: the attribute names of the os, filepath and
// fmt module objects that scripts get from risor.DefaultGlobals() (via the verif hook
// (*object.Module).VerifAttrNames), the keys of modules/os.Builtins() and modules/fmt.Builtins() (the
// shell-style and print builtins), and the attribute names of file objects (taken from the "case"
// labels of (*object.File).GetAttr in the source tree the binary was built from, cross-checked at run
// time; a fixed list is the fallback). For every live name there is either an argument recipe below
// or it is called anyway with generic argument shapes.

import (
	"fmt"
	"os"
	"reflect"
	"regexp"
	"runtime"
	"sort"
	"strings"

	"github.com/risor-io/risor"
	modFmt "github.com/risor-io/risor/modules/fmt"
	modOs "github.com/risor-io/risor/modules/os"
	"github.com/risor-io/risor/object"

	"verif/internal/mon"
)

const (
	tok        = "VERIFSENT"
	realTok    = "VERIFSENT_REAL"  // appears in every real file's content and in the real env value
	realOnlyTk = "VERIFSENT_ronly" // the name of a file that exists only in the real tree
	envCanary  = "VERIFSENT_ENV"
	realEnvVal = "real-VERIFSENT_REAL_env"

	relDir    = "VERIFSENT_tree"
	relA      = "VERIFSENT_tree/VERIFSENT_a.txt"
	relB      = "VERIFSENT_tree/VERIFSENT_b.txt"
	relSub    = "VERIFSENT_tree/VERIFSENT_sub"
	relC      = "VERIFSENT_tree/VERIFSENT_sub/VERIFSENT_c.txt"
	relNew    = "VERIFSENT_tree/VERIFSENT_new.txt"
	relNewDir = "VERIFSENT_tree/VERIFSENT_newdir"
	relVOnly  = "VERIFSENT_tree/VERIFSENT_virtonly.txt"
	relROnly  = "VERIFSENT_tree/VERIFSENT_ronly.txt"

	virtA = "VERIFSENT_VIRT a1\na2\n"
	virtB = "VERIFSENT_VIRT b\n"
	virtC = "VERIFSENT_VIRT c\n"
	realA = "VERIFSENT_REAL a1 (the real file; longer than the virtual one)\na2\n"
	realB = "VERIFSENT_REAL b (real)\n"
	realC = "VERIFSENT_REAL c (real)\n"

	// {{B}} in a script is replaced by the worker's real working directory (its batch directory); the
	// same absolute path exists in the virtual filesystem with virtual contents.
	bMark = "{{B}}"
)

// virtual tree, relative to a root (populated under vCwd and under the real batch dir's path)
var virtTree = map[string]string{relA: virtA, relB: virtB, relC: virtC, relVOnly: "VERIFSENT_VIRT only\n"}

// real tree, relative to the worker's real cwd
var realTree = map[string]string{relA: realA, relB: realB, relC: realC, relROnly: "VERIFSENT_REAL only\n"}

// "late-clone" and "late-call": the VM is built without an OS, first run with a plain context (the
// script only defines verif_op then), and only the later Call — on a clone or on the VM itself — carries
// the OS in its context. Only meaningful for the "ctx" route.
var contexts = []string{"top", "spawn", "go", "clone", "module", "late-clone", "late-call"}
var routes = []string{"withos", "ctx"}

// Recipe is one way of calling one live operation.
type Recipe struct {
	Variant string
	Setup   string            // statements before the mark
	Op      string            // statements that assign r
	Events  bool              // the operation must produce ≥1 recording-OS event
	Want    string            // exact rendered result ("" = not checked)
	WantRe  string            // regexp on the rendered result
	Has     []string          // substrings of the rendered result
	Post    map[string]string // entries the virtual-state diff must contain ("*" = any value)
	Stdout  string            // substring the virtual stdout must contain
	Stderr  string            // substring the virtual stderr must contain
}

// CaseData is the unit shipped to a worker (and stored in replay files).
type CaseData struct {
	Op      string            `json:"op"`      // e.g. os.read_file, builtin.cat, file.read
	Variant string            `json:"variant"` // recipe variant / generic shape / random index
	Kind    string            `json:"kind"`    // recipe | generic | random
	Ctx     string            `json:"ctx"`
	Route   string            `json:"route"`
	Setup   string            `json:"setup"`
	OpSrc   string            `json:"op_src"`
	Events  bool              `json:"events"`
	Want    string            `json:"want,omitempty"`
	WantRe  string            `json:"want_re,omitempty"`
	Has     []string          `json:"has,omitempty"`
	Post    map[string]string `json:"post,omitempty"`
	Stdout  string            `json:"stdout,omitempty"`
	Stderr  string            `json:"stderr,omitempty"`
	Strace  bool              `json:"strace"`
}

func q(s string) string { return fmt.Sprintf("%q", s) }

func abs(rel string) string { return bMark + "/" + rel }

func vpath(rel string) string { return vCwd + "/" + rel }

// ---------------------------------------------------------------------------------------
// live enumeration

type target struct {
	Op       string // "os.read_file", "builtin.cat", "file.read"
	Expr     string // script expression naming it: os.read_file / cat / (file methods: method name)
	Callable bool
	File     bool // a file-object attribute
	Stream   bool // a dynamic attribute yielding a file object (os.stdin …)
}

var scopeModules = []string{"os", "filepath", "fmt"}

func enumerate() ([]target, []string, error) {
	var out []target
	var notes []string
	globals := risor.DefaultGlobals()
	for _, mn := range scopeModules {
		m, ok := globals[mn].(*object.Module)
		if !ok {
			return nil, nil, fmt.Errorf("default globals have no module %q", mn)
		}
		for _, name := range m.VerifAttrNames() {
			attr, ok := m.GetAttr(name)
			if !ok {
				continue
			}
			t := target{Op: mn + "." + name, Expr: mn + "." + name}
			switch attr.(type) {
			case *object.Builtin:
				t.Callable = true
			case *object.DynamicAttr:
				t.Stream = true
			}
			out = append(out, t)
		}
	}
	names := map[string]bool{}
	for k := range modOs.Builtins() {
		names[k] = true
	}
	for k := range modFmt.Builtins() {
		names[k] = true
	}
	var bn []string
	for k := range names {
		bn = append(bn, k)
	}
	sort.Strings(bn)
	for _, k := range bn {
		if _, ok := globals[k]; !ok {
			notes = append(notes, "builtin "+k+" is not among the default globals")
			continue
		}
		_, callable := globals[k].(*object.Builtin)
		out = append(out, target{Op: "builtin." + k, Expr: k, Callable: callable})
	}
	fm, src := fileAttrNames()
	notes = append(notes, "file attribute names from "+src)
	for _, k := range fm {
		out = append(out, target{Op: "file." + k, Expr: k, File: true, Callable: k != "position"})
	}
	out = append(out, target{Op: "file.iter", Expr: "iter", File: true})
	return out, notes, nil
}

var fallbackFileAttrs = []string{"close", "name", "position", "read", "read_lines", "seek", "stat", "write"}

// fileAttrNames reads the attribute names of file objects from the source of (*File).GetAttr in the
// tree this binary was built from (the path is taken from the binary's own debug information).
func fileAttrNames() ([]string, string) {
	pc := reflect.ValueOf(object.NewFile).Pointer()
	fn := runtime.FuncForPC(pc)
	if fn == nil {
		return fallbackFileAttrs, "fallback list (no function info)"
	}
	file, _ := fn.FileLine(pc)
	b, err := os.ReadFile(file)
	if err != nil {
		return fallbackFileAttrs, "fallback list (" + err.Error() + ")"
	}
	src := string(b)
	i := strings.Index(src, "func (f *File) GetAttr(")
	if i < 0 {
		return fallbackFileAttrs, "fallback list (GetAttr not found in " + file + ")"
	}
	rest := src[i:]
	if j := strings.Index(rest[1:], "\nfunc "); j >= 0 {
		rest = rest[:j+1]
	}
	// only the labels of the outer switch: they are indented by exactly one tab
	re := regexp.MustCompile(`(?m)^\tcase ((?:"[a-z_0-9]+"(?:, )?)+):`)
	set := map[string]bool{}
	for _, m := range re.FindAllStringSubmatch(rest, -1) {
		for _, s := range strings.Split(m[1], ", ") {
			set[strings.Trim(s, `"`)] = true
		}
	}
	if len(set) == 0 {
		return fallbackFileAttrs, "fallback list (no case labels found in " + file + ")"
	}
	var names []string
	for k := range set {
		names = append(names, k)
	}
	sort.Strings(names)
	return names, file
}

// ---------------------------------------------------------------------------------------
// recipes

var printLine = "VERIFSENT_OUT p"

func recipes() map[string][]Recipe {
	R := map[string][]Recipe{}
	add := func(op string, r Recipe) {
		if r.Variant == "" {
			r.Variant = fmt.Sprintf("v%d", len(R[op]))
		}
		R[op] = append(R[op], r)
	}
	ev := func(op, variant, setup, src string) Recipe {
		return Recipe{Variant: variant, Setup: setup, Op: src, Events: true}
	}
	want := func(r Recipe, w string) Recipe { r.Want = w; return r }
	has := func(r Recipe, h ...string) Recipe { r.Has = h; return r }
	post := func(r Recipe, kv ...string) Recipe {
		r.Post = map[string]string{}
		for i := 0; i+1 < len(kv); i += 2 {
			r.Post[kv[i]] = kv[i+1]
		}
		return r
	}
	pure := func(variant, src string) Recipe { return Recipe{Variant: variant, Op: src} }

	// ---- os module
	add("os.args", want(ev("", "", "", `r := os.args()`), `["VERIFSENT_arg0", "VERIFSENT_arg1"]`))
	add("os.chdir", post(ev("", "rel", "", `r := os.chdir(`+q(relDir)+`)`), "cwd", relDir))
	add("os.chdir", post(ev("", "abs", "", `r := os.chdir(`+q(abs(relDir))+`)`), "cwd", abs(relDir)))
	add("os.create", post(ev("", "rel", "", `f := os.create(`+q(relNew)+`); f.write("VERIFSENT_VIRT data"); f.close(); r := f.name()`),
		"+"+vpath(relNew), "VERIFSENT_VIRT data"))
	add("os.create", post(ev("", "abs", "", `f := os.create(`+q(abs(relNew))+`); f.write("VERIFSENT_VIRT data"); f.close(); r := f.name()`),
		"+"+abs(relNew), "VERIFSENT_VIRT data"))
	add("os.current_user", has(ev("", "", "", `r := os.current_user()`), `"username": "`+vUser+`"`, `"home_dir": "`+vHome+`"`))
	add("os.environ", has(ev("", "", "", `r := os.environ()`), envCanary+"="+vEnvVal))
	add("os.exit", post(ev("", "zero", "", `r := os.exit(0)`), "exit", "[0]"))
	add("os.exit", post(ev("", "none", "", `r := os.exit()`), "exit", "[0]"))
	add("os.exit", post(ev("", "code42", "", `r := os.exit(42)`), "exit", "[42]"))
	add("os.exit", post(ev("", "error-value", "", `r := os.exit(errors.new("VERIFSENT_OUT exit message"))`), "exit", "[1]"))
	add("os.exit", post(ev("", "errorf-value", "", `r := os.exit(errorf("VERIFSENT_OUT exit %d", 7))`), "exit", "[1]"))
	add("os.exit", ev("", "in-try", "", `r := try(func() { return os.exit(errors.new("VERIFSENT_OUT exit in try")) }, func(e) { return "caught: " + string(e) })`))
	add("os.getenv", want(ev("", "canary", "", `r := os.getenv(`+q(envCanary)+`)`), vEnvVal))
	add("os.getenv", want(ev("", "virtual-only", "", `r := os.getenv("VERIFSENT_VONLY")`), "VERIFSENT_VIRT_only"))
	add("os.getpid", want(ev("", "", "", `r := os.getpid()`), fmt.Sprint(vPid)))
	add("os.getuid", want(ev("", "", "", `r := os.getuid()`), fmt.Sprint(vUid)))
	add("os.getwd", want(ev("", "", "", `r := os.getwd()`), vCwd))
	add("os.hostname", want(ev("", "", "", `r := os.hostname()`), vHost))
	add("os.lookup_gid", has(ev("", "virtual", "", `r := os.lookup_gid(`+q(vGid)+`)`), `"name": "`+vGroup+`"`))
	add("os.lookup_gid", has(ev("", "real-only", "", `r := try(func() { return os.lookup_gid("0") }, func(e) { return "caught: " + string(e) })`), "VERIFSENT_VIRT"))
	add("os.lookup_group", has(ev("", "virtual", "", `r := os.lookup_group(`+q(vGroup)+`)`), `"gid": "`+vGid+`"`))
	add("os.lookup_group", has(ev("", "real-only", "", `r := try(func() { return os.lookup_group("root") }, func(e) { return "caught: " + string(e) })`), "VERIFSENT_VIRT"))
	add("os.lookup_uid", has(ev("", "virtual", "", `r := os.lookup_uid(`+q(fmt.Sprint(vUid))+`)`), `"username": "`+vUser+`"`))
	add("os.lookup_uid", has(ev("", "real-only", "", `r := try(func() { return os.lookup_uid("0") }, func(e) { return "caught: " + string(e) })`), "VERIFSENT_VIRT"))
	// names and ids that only the real machine knows, in the spellings the other lookup would accept: the
	// supplied OS's "not found" must be what the script sees
	for i, n := range []string{"0", "1", "root", "daemon", "nobody", "65534", "00", " 0", "0 ", "+0", "-1", ""} {
		for _, fn := range []string{"lookup_user", "lookup_group", "lookup_uid", "lookup_gid"} {
			add("os."+fn, has(ev("", fmt.Sprintf("real-only-%d", i), "", `r := try(func() { return os.`+fn+`(`+q(n)+`) }, func(e) { return "caught: " + string(e) })`), "VERIFSENT_VIRT"))
		}
	}
	add("os.lookup_user", has(ev("", "virtual", "", `r := os.lookup_user(`+q(vUser)+`)`), `"uid": "`+fmt.Sprint(vUid)+`"`))
	add("os.lookup_user", has(ev("", "real-only", "", `r := try(func() { return os.lookup_user("root") }, func(e) { return "caught: " + string(e) })`), "VERIFSENT_VIRT"))
	add("os.mkdir", post(ev("", "rel", "", `r := os.mkdir(`+q(relNewDir)+`)`), "+"+vpath(relNewDir), "<dir>"))
	add("os.mkdir", post(ev("", "abs-perm", "", `r := os.mkdir(`+q(abs(relNewDir))+`, 448)`), "+"+abs(relNewDir), "<dir>"))
	add("os.mkdir_all", post(ev("", "rel", "", `r := os.mkdir_all(`+q(relNewDir+"/VERIFSENT_n2")+`)`),
		"+"+vpath(relNewDir), "<dir>", "+"+vpath(relNewDir+"/VERIFSENT_n2"), "<dir>"))
	add("os.mkdir_all", post(ev("", "abs", "", `r := os.mkdir_all(`+q(abs(relNewDir+"/VERIFSENT_n2"))+`, 493)`),
		"+"+abs(relNewDir+"/VERIFSENT_n2"), "<dir>"))
	{
		r := ev("", "", "", `r := os.mkdir_temp("", "VERIFSENT_tmp")`)
		r.WantRe = `^` + regexp.QuoteMeta(vTmp) + `/[0-9]+-VERIFSENT_tmp$`
		add("os.mkdir_temp", r)
	}
	add("os.open", want(ev("", "rel", "", `f := os.open(`+q(relA)+`); r := string(f.read()); f.close()`), virtA))
	add("os.open", want(ev("", "abs", "", `f := os.open(`+q(abs(relC))+`); r := string(f.read()); f.close()`), virtC))
	add("os.read_dir", has(ev("", "rel", "", `r := os.read_dir(`+q(relDir)+`).map(func(e) { return e.name })`), "VERIFSENT_virtonly.txt", "VERIFSENT_a.txt"))
	add("os.read_dir", has(ev("", "abs", "", `r := os.read_dir(`+q(abs(relDir))+`)`), "VERIFSENT_virtonly.txt"))
	add("os.read_dir", has(ev("", "cwd", "", `r := os.read_dir()`), relDir))
	add("os.read_dir", has(ev("", "entry-info", "", `r := os.read_dir(`+q(relDir)+`).map(func(e) { return [e.name, e.info().size, e.info().name] })`), fmt.Sprintf(`["VERIFSENT_a.txt", %d, "VERIFSENT_a.txt"]`, len(virtA)), "VERIFSENT_virtonly.txt"))
	add("os.read_dir", has(ev("", "entry-json", "", `r := json.marshal(os.read_dir(`+q(relDir)+`))`), "VERIFSENT_virtonly.txt"))
	add("os.read_dir", has(ev("", "entry-info-abs", "", `r := os.read_dir(`+q(abs(relDir))+`).map(func(e) { return [e.name, e.info().size, e.is_dir, e.type] })`), fmt.Sprintf(`["VERIFSENT_a.txt", %d, false`, len(virtA))))
	add("os.read_file", want(ev("", "rel", "", `r := string(os.read_file(`+q(relA)+`))`), virtA))
	add("os.read_file", want(ev("", "abs", "", `r := os.read_file(`+q(abs(relB))+`)`), virtB))
	add("os.remove", post(ev("", "rel", "", `r := os.remove(`+q(relB)+`)`), "-"+vpath(relB), "*"))
	add("os.remove", post(ev("", "abs", "", `r := os.remove(`+q(abs(relB))+`)`), "-"+abs(relB), "*"))
	add("os.remove_all", post(ev("", "rel", "", `r := os.remove_all(`+q(relSub)+`)`), "-"+vpath(relSub), "*", "-"+vpath(relC), "*"))
	add("os.remove_all", post(ev("", "abs", "", `r := os.remove_all(`+q(abs(relSub))+`)`), "-"+abs(relSub), "*", "-"+abs(relC), "*"))
	add("os.rename", post(ev("", "rel", "", `r := os.rename(`+q(relB)+`, `+q(relDir+"/VERIFSENT_renamed.txt")+`)`),
		"-"+vpath(relB), "*", "+"+vpath(relDir+"/VERIFSENT_renamed.txt"), virtB))
	add("os.rename", post(ev("", "abs", "", `r := os.rename(`+q(abs(relB))+`, `+q(abs(relDir+"/VERIFSENT_renamed.txt"))+`)`),
		"-"+abs(relB), "*", "+"+abs(relDir+"/VERIFSENT_renamed.txt"), virtB))
	add("os.setenv", post(ev("", "new", "", `r := os.setenv("VERIFSENT_NEWENV", "VERIFSENT_VIRT_set")`), "env+VERIFSENT_NEWENV", "VERIFSENT_VIRT_set"))
	add("os.setenv", post(ev("", "canary", "", `r := os.setenv(`+q(envCanary)+`, "VERIFSENT_VIRT_changed")`), "env+"+envCanary, "VERIFSENT_VIRT_changed"))
	add("os.stat", want(ev("", "rel-size", "", `r := os.stat(`+q(relA)+`).size`), fmt.Sprint(len(virtA))))
	add("os.stat", has(ev("", "abs", "", `r := os.stat(`+q(abs(relVOnly))+`)`), "VERIFSENT_virtonly.txt"))
	add("os.stat", has(ev("", "real-only", "", `r := try(func() { return os.stat(`+q(relROnly)+`) }, func(e) { return "caught: " + string(e) })`), "caught: "))
	add("os.symlink", post(ev("", "rel", "", `r := os.symlink(`+q(relA)+`, `+q(relDir+"/VERIFSENT_link")+`)`), "+"+vpath(relDir+"/VERIFSENT_link"), "*"))
	add("os.symlink", post(ev("", "abs", "", `r := os.symlink(`+q(abs(relA))+`, `+q(abs(relDir+"/VERIFSENT_link"))+`)`), "+"+abs(relDir+"/VERIFSENT_link"), "*"))
	add("os.temp_dir", want(ev("", "", "", `r := os.temp_dir()`), vTmp))
	add("os.unsetenv", post(ev("", "canary", "", `r := os.unsetenv(`+q(envCanary)+`)`), "env-"+envCanary, "*"))
	add("os.user_cache_dir", want(ev("", "", "", `r := os.user_cache_dir()`), vCache))
	add("os.user_config_dir", want(ev("", "", "", `r := os.user_config_dir()`), vConfig))
	add("os.user_home_dir", want(ev("", "", "", `r := os.user_home_dir()`), vHome))
	add("os.write_file", post(ev("", "rel", "", `r := os.write_file(`+q(relNew)+`, "VERIFSENT_VIRT written")`), "+"+vpath(relNew), "VERIFSENT_VIRT written"))
	add("os.write_file", post(ev("", "abs-bytes-perm", "", `r := os.write_file(`+q(abs(relNew))+`, byte_slice("VERIFSENT_VIRT written"), 384)`), "+"+abs(relNew), "VERIFSENT_VIRT written"))
	add("os.write_file", post(ev("", "overwrite", "", `r := os.write_file(`+q(relA)+`, "VERIFSENT_VIRT over")`), "~"+vpath(relA), "VERIFSENT_VIRT over"))
	add("os.stdin", want(ev("", "read", "", `r := string(os.stdin.read())`), vStdin))
	add("os.stdin", ev("", "attr", "", `r := type(os.stdin)`))
	{
		r := ev("", "write", "", `r := os.stdout.write("VERIFSENT_OUT so\n")`)
		r.Stdout = "VERIFSENT_OUT so\n"
		add("os.stdout", r)
		r = ev("", "write", "", `r := os.stderr.write("VERIFSENT_OUT se\n")`)
		r.Stderr = "VERIFSENT_OUT se\n"
		add("os.stderr", r)
	}
	for _, e := range []string{"err_not_exist", "err_exist", "err_permission", "err_closed", "err_invalid", "err_no_deadline", "err_deadline_exceeded"} {
		add("os."+e, pure("", `r := string(os.`+e+`)`))
	}

	// ---- filepath module
	add("filepath.abs", want(ev("", "rel", "", `r := filepath.abs(`+q(relA)+`)`), vpath(relA)))
	add("filepath.abs", want(pure("abs", `r := filepath.abs(`+q(abs(relA))+`)`), abs(relA)))
	add("filepath.base", want(pure("", `r := filepath.base(`+q(relA)+`)`), "VERIFSENT_a.txt"))
	add("filepath.clean", want(pure("", `r := filepath.clean(`+q(relDir+"/./x/../VERIFSENT_a.txt")+`)`), relA))
	add("filepath.dir", want(pure("", `r := filepath.dir(`+q(relA)+`)`), relDir))
	add("filepath.ext", want(pure("", `r := filepath.ext(`+q(relA)+`)`), ".txt"))
	add("filepath.is_abs", want(pure("", `r := filepath.is_abs(`+q(relA)+`)`), "false"))
	add("filepath.join", want(pure("", `r := filepath.join(`+q(relDir)+`, "VERIFSENT_a.txt")`), relA))
	add("filepath.match", want(pure("", `r := filepath.match("VERIFSENT_*", "VERIFSENT_a.txt")`), "true"))
	add("filepath.rel", want(pure("", `r := filepath.rel(`+q(relDir)+`, `+q(relA)+`)`), "VERIFSENT_a.txt"))
	for i, ab := range [][2]string{{`"/"`, `"."`}, {`"/"`, q(relA)}, {q(relDir), `"/"`}, {`"."`, `"/"`}, {`"/"`, `""`}} {
		add("filepath.rel", pure(fmt.Sprintf("mixed%d", i), `r := try(func() { return filepath.rel(`+ab[0]+`, `+ab[1]+`) }, func(e) { return "E: " + string(e) })`))
	}
	// after a chdir to a RELATIVE directory the supplied OS may report a relative working directory: the
	// answer may be whatever the supplied OS makes of it, but never the real process's directory
	for i, op := range []string{`r := filepath.abs("VERIFSENT_n.txt")`, `r := filepath.abs(".")`, `r := filepath.abs("")`, `r := [os.getwd(), filepath.abs(` + q(relA) + `)]`,
		`r := try(func() { return filepath.rel(os.getwd(), filepath.abs("VERIFSENT_n.txt")) }, func(e) { return "E: " + string(e) })`} {
		add("filepath.abs", Recipe{Variant: fmt.Sprintf("after-rel-chdir%d", i), Setup: `os.chdir(` + q(relDir) + `)`, Op: op})
		add("filepath.abs", Recipe{Variant: fmt.Sprintf("after-rel-cd%d", i), Setup: `cd(` + q(relDir) + `)`, Op: op})
	}
	add("filepath.abs", want(ev("", "dot", "", `r := filepath.abs(".")`), vCwd))
	add("filepath.abs", want(ev("", "empty", "", `r := filepath.abs("")`), vCwd))
	add("filepath.split", pure("", `r := filepath.split(`+q(relA)+`)`))
	add("filepath.split_list", pure("", `r := filepath.split_list("/VERIFSENT_x:/VERIFSENT_y")`))
	add("filepath.walk_dir", has(ev("", "rel-func", "", `acc := []; filepath.walk_dir(`+q(relDir)+`, func(p, d, err) { acc.append(p) }); r := acc`), "VERIFSENT_virtonly.txt", "VERIFSENT_c.txt"))
	add("filepath.walk_dir", has(ev("", "abs-func", "", `acc := []; filepath.walk_dir(`+q(abs(relDir))+`, func(p, d, err) { acc.append(d.name) }); r := acc`), "VERIFSENT_virtonly.txt"))

	// ---- fmt module and print builtins
	outR := func(variant, src, out string) Recipe {
		r := ev("", variant, "", src)
		r.Stdout = out
		return r
	}
	add("fmt.printf", outR("", `r := fmt.printf("VERIFSENT_OUT %s %d\n", "f", 1)`, "VERIFSENT_OUT f 1\n"))
	add("fmt.println", outR("", `r := fmt.println("VERIFSENT_OUT", "l", 2)`, "VERIFSENT_OUT l 2\n"))
	add("fmt.errorf", want(pure("", `r := string(fmt.errorf("VERIFSENT_e %d", 3))`), "VERIFSENT_e 3"))
	add("fmt.sprintf", want(pure("", `r := fmt.sprintf("VERIFSENT_s %d", 4)`), "VERIFSENT_s 4"))
	add("builtin.print", outR("", `r := print("VERIFSENT_OUT", "p", 5)`, "VERIFSENT_OUT p 5\n"))
	add("builtin.printf", outR("", `r := printf("VERIFSENT_OUT %s %d\n", "pf", 6)`, "VERIFSENT_OUT pf 6\n"))
	add("builtin.errorf", want(pure("", `r := string(errorf("VERIFSENT_e %d", 7))`), "VERIFSENT_e 7"))
	add("builtin.sprintf", want(pure("", `r := sprintf("VERIFSENT_s %d", 8)`), "VERIFSENT_s 8"))

	// ---- shell-style builtins
	add("builtin.cat", want(ev("", "rel", "", `r := cat(`+q(relA)+`)`), virtA))
	add("builtin.cat", want(ev("", "two-abs", "", `r := cat(`+q(abs(relA))+`, `+q(abs(relB))+`)`), virtA+virtB))
	// wildcard characters in a name are not expanded by anything: the name is looked up literally in the
	// script's OS (a real glob would list the real tree and name its real-only file)
	for i, pat := range []string{relDir + "/VERIFSENT_*.txt", relDir + "/VERIFSENT_?.txt", "VERIFSENT_t*/*", relDir + "/[V]ERIFSENT_ronly.txt", "*/*only*"} {
		c := `func(e) { return "caught: " + string(e) }`
		add("builtin.cat", has(ev("", fmt.Sprintf("wild-%d", i), "", `r := try(func() { return cat(`+q(pat)+`) }, `+c+`)`), "caught: "))
		add("builtin.ls", has(ev("", fmt.Sprintf("wild-%d", i), "", `r := try(func() { return ls(`+q(pat)+`) }, `+c+`)`), "caught: "))
		add("os.read_file", has(ev("", fmt.Sprintf("wild-%d", i), "", `r := try(func() { return string(os.read_file(`+q(pat)+`)) }, `+c+`)`), "caught: "))
		add("os.read_dir", has(ev("", fmt.Sprintf("wild-%d", i), "", `r := try(func() { return os.read_dir(`+q(pat)+`) }, `+c+`)`), "caught: "))
		add("os.stat", has(ev("", fmt.Sprintf("wild-%d", i), "", `r := try(func() { return os.stat(`+q(pat)+`) }, `+c+`)`), "caught: "))
	}
	add("builtin.cd", post(ev("", "rel", "", `r := cd(`+q(relDir)+`)`), "cwd", relDir))
	add("builtin.cd", post(ev("", "abs", "", `r := cd(`+q(abs(relSub))+`)`), "cwd", abs(relSub)))
	add("builtin.cp", post(ev("", "rel", "", `r := cp(`+q(relA)+`, `+q(relNew)+`)`), "+"+vpath(relNew), virtA))
	add("builtin.cp", post(ev("", "abs", "", `r := cp(`+q(abs(relA))+`, `+q(abs(relNew))+`)`), "+"+abs(relNew), virtA))
	add("builtin.getenv", want(ev("", "canary", "", `r := getenv(`+q(envCanary)+`)`), vEnvVal))
	add("builtin.getenv", want(ev("", "virtual-only", "", `r := getenv("VERIFSENT_VONLY")`), "VERIFSENT_VIRT_only"))
	add("builtin.ls", has(ev("", "rel", "", `r := ls(`+q(relDir)+`)`), "VERIFSENT_virtonly.txt"))
	add("builtin.ls", has(ev("", "cwd", "", `r := ls()`), relDir))
	add("builtin.ls", has(ev("", "abs", "", `r := ls(`+q(abs(relSub))+`)`), "VERIFSENT_c.txt"))
	add("builtin.setenv", post(ev("", "new", "", `r := setenv("VERIFSENT_NEWENV", "VERIFSENT_VIRT_set")`), "env+VERIFSENT_NEWENV", "VERIFSENT_VIRT_set"))
	add("builtin.setenv", post(ev("", "canary", "", `r := setenv(`+q(envCanary)+`, "VERIFSENT_VIRT_changed")`), "env+"+envCanary, "VERIFSENT_VIRT_changed"))
	add("builtin.unsetenv", post(ev("", "canary", "", `r := unsetenv(`+q(envCanary)+`)`), "env-"+envCanary, "*"))
	add("builtin.open", want(ev("", "rel", "", `f := open(`+q(relA)+`); r := string(f.read()); f.close()`), virtA))
	add("builtin.open", want(ev("", "abs", "", `f := open(`+q(abs(relB))+`); r := string(f.read()); f.close()`), virtB))
	return R
}

// file-object sources and method recipes
type fileSource struct {
	Name    string
	Setup   string
	Content string // what a full read returns
	Stream  string // stdout / stderr when writes land in a virtual stream
	Path    string // virtual path when writes land in a file
}

func fileSources() []fileSource {
	return []fileSource{
		{Name: "os.open", Setup: `f := os.open(` + q(relA) + `)`, Content: virtA, Path: vpath(relA)},
		{Name: "open-abs", Setup: `f := open(` + q(abs(relA)) + `)`, Content: virtA, Path: abs(relA)},
		{Name: "os.create", Setup: `f := os.create(` + q(relNew) + `)`, Content: "", Path: vpath(relNew)},
		{Name: "stdin", Setup: `f := os.stdin`, Content: vStdin},
		{Name: "stdout", Setup: `f := os.stdout`, Stream: "stdout"},
		{Name: "stderr", Setup: `f := os.stderr`, Stream: "stderr"},
	}
}

func fileRecipes(method string, s fileSource) []Recipe {
	mk := func(variant, src string, events bool) Recipe {
		return Recipe{Variant: s.Name + "/" + variant, Setup: s.Setup, Op: src, Events: events}
	}
	switch method {
	case "name":
		return []Recipe{mk("call", `r := f.name()`, false)}
	case "stat":
		return []Recipe{mk("call", `r := f.stat().size`, true)}
	case "position":
		return []Recipe{mk("attr", `r := f.position`, true)}
	case "read":
		all := mk("all", `r := string(f.read())`, true)
		all.Want = s.Content
		if s.Stream != "" {
			all.Want = ""
		}
		return []Recipe{all, mk("byte_slice", `r := string(f.read(byte_slice(9)))`, true), mk("buffer", `r := string(f.read(buffer()))`, true)}
	case "write":
		w := mk("string", `r := f.write("VERIFSENT_VIRT w\n")`, true)
		switch {
		case s.Stream == "stdout":
			w.Stdout = "VERIFSENT_VIRT w\n"
		case s.Stream == "stderr":
			w.Stderr = "VERIFSENT_VIRT w\n"
		}
		return []Recipe{w}
	case "close":
		return []Recipe{mk("call", `r := f.close()`, true)}
	case "seek":
		return []Recipe{mk("start", `r := f.seek(2, 0)`, true)}
	case "read_lines":
		return []Recipe{mk("call", `r := f.read_lines()`, true)}
	case "iter":
		return []Recipe{mk("range", `acc := []; for _, l := range f { acc.append(l) }; r := acc`, true)}
	}
	return nil
}

// ---------------------------------------------------------------------------------------
// generic shapes (for live names without a recipe, and as extra shapes for all names)

var genericArgLists = [][]string{
	{},
	{q(relA)},
	{q(relA), q(relNew)},
	{q(relA), "420"},
	{q(relA), q(relNew), "420"},
	{"7"},
}

func genericRecipes(t target) []Recipe {
	var out []Recipe
	name := t.Expr
	if t.File {
		name = "f." + t.Expr
	}
	if t.Op == "file.iter" {
		return nil
	}
	out = append(out, Recipe{Variant: "g:attr", Op: `r := ` + name})
	for _, args := range genericArgLists {
		out = append(out, Recipe{Variant: fmt.Sprintf("g:%d:%s", len(args), shapeOf(args)), Op: `r := ` + name + `(` + strings.Join(args, ", ") + `)`})
	}
	return out
}

func shapeOf(args []string) string {
	var b strings.Builder
	for _, a := range args {
		switch {
		case strings.HasPrefix(a, `"`):
			b.WriteByte('s')
		case a == "nil":
			b.WriteByte('n')
		case strings.HasPrefix(a, "func"):
			b.WriteByte('f')
		case strings.HasPrefix(a, "["):
			b.WriteByte('l')
		case strings.HasPrefix(a, "byte_slice") || strings.HasPrefix(a, "buffer"):
			b.WriteByte('b')
		case a == "true" || a == "false":
			b.WriteByte('t')
		case strings.HasPrefix(a, "os."):
			b.WriteByte('o')
		default:
			b.WriteByte('i')
		}
	}
	return b.String()
}

// argument pool of the random tier: every path-like string carries the token and lies under the
// canary tree or under virtual-only roots, so that even a call that did reach the real OS could only
// touch the canaries.
var randArgPool = []string{
	q(relA), q(relB), q(relDir), q(relSub), q(relC), q(relNew), q(relNewDir), q(relVOnly), q(relROnly),
	q(abs(relA)), q(abs(relDir)), q(abs(relNew)), q(abs(relSub)), q(vTmp), q(vpath(relA)),
	q(envCanary), q("VERIFSENT_NEWENV"), q("VERIFSENT_VONLY"), q("VERIFSENT_OUT %v %v\n"), q("VERIFSENT_pat*"),
	q(vUser), q(vGroup), q(vGid), q("4242"), q("root"), q("0"), q(""), q("VERIFSENT_OUT text"),
	"0", "1", "2", "9", "420", "493", "-1",
	"nil", "true", `["VERIFSENT_l"]`, `byte_slice("VERIFSENT_VIRT bs")`, `buffer()`, `byte_slice(5)`,
	`func(a, b, c) { return nil }`, `os.stdout`,
}

func randomRecipe(r *mon.Rand, t target, i int) Recipe {
	n := r.Intn(4)
	args := make([]string, n)
	for k := range args {
		// mostly strings (what nearly every operation expects first), sometimes anything
		args[k] = mon.Pick(r, randArgPool)
		for tries := 0; tries < 2 && !strings.HasPrefix(args[k], `"`) && r.Chance(2, 3); tries++ {
			args[k] = mon.Pick(r, randArgPool)
		}
	}
	name := t.Expr
	if t.File {
		name = "f." + t.Expr
	}
	src := `r := ` + name + `(` + strings.Join(args, ", ") + `)`
	if !t.Callable {
		src = `r := ` + name
	}
	if t.Op == "file.iter" {
		src = `acc := []; for i, l := range f { acc.append(l) }; r := acc`
	}
	return Recipe{Variant: fmt.Sprintf("r%d:%s", i, shapeOf(args)), Op: src}
}

// ---------------------------------------------------------------------------------------
// script construction per execution context

const modName = "verifmod"

// buildScript returns the main script and (for the module context) the module source.
func buildScript(ctx, setup, op string) (main string, module string) {
	body := ""
	if setup != "" {
		body += setup + "\n"
	}
	body += "verif_mark()\n" + op + "\n"
	switch ctx {
	case "top", "bare-vos", "shared-globals":
		return body + "r\n", ""
	case "spawn":
		return "verif_t := spawn(func() {\n" + body + "return r\n})\nverif_t.wait()\n", ""
	case "go":
		return "verif_c := chan(1)\ngo func() {\ndefer close(verif_c)\nverif_v := try(func() {\n" + body +
			"return r\n}, func(e) { return \"caught: \" + string(e) })\nverif_c <- verif_v\n}()\n<-verif_c\n", ""
	case "clone", "late-clone", "late-call":
		return "func verif_op() {\n" + body + "return r\n}\n", ""
	case "cancel-defer":
		pre := ""
		if setup != "" {
			pre = setup + "\n"
		}
		return "func verif_f() {\n" + pre + "defer " + strings.TrimPrefix(op, "r := ") + "\nverif_mark()\nfor {\n}\n}\nverif_f()\n", ""
	case "module":
		return "import " + modName + "\n" + modName + ".verif_result\n", body + "verif_result := r\n"
	}
	panic("unknown context " + ctx)
}
