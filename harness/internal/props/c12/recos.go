package c12

// The recording OS: a complete ros.OS implementation that logs every call (method + arguments) and
// answers it from a ros.VirtualOS whose only mount ("/") is the in-memory filesystem below. Users and
// groups are served by the recorder itself (ros.VirtualUser cannot be constructed outside its package).
// Files handed out (including stdin/stdout/stderr) are in-memory handles that log their own calls into
// the same log, so that file-object methods are attributable too.

import (
	"context"
	"errors"
	"fmt"
	"io"
	"io/fs"
	"path/filepath"
	"sort"
	"strings"
	"sync"
	"time"

	ros "github.com/risor-io/risor/os"
)

// Ev is one logged call on the recording OS (or on a file handed out by it).
type Ev struct {
	M string `json:"m"`           // method, e.g. "ReadFile", "file:Read"
	A string `json:"a,omitempty"` // arguments, rendered
}

type evLog struct {
	mu  sync.Mutex
	evs []Ev
}

func (l *evLog) add(m string, args ...any) {
	parts := make([]string, len(args))
	for i, a := range args {
		s := fmt.Sprint(a)
		if len(s) > 120 {
			s = s[:120] + "…"
		}
		parts[i] = s
	}
	l.mu.Lock()
	l.evs = append(l.evs, Ev{M: m, A: strings.Join(parts, ", ")})
	l.mu.Unlock()
}

func (l *evLog) len() int {
	l.mu.Lock()
	defer l.mu.Unlock()
	return len(l.evs)
}

func (l *evLog) since(n int) []Ev {
	l.mu.Lock()
	defer l.mu.Unlock()
	if n > len(l.evs) {
		n = len(l.evs)
	}
	return append([]Ev(nil), l.evs[n:]...)
}

// ---------------------------------------------------------------------------------------
// in-memory filesystem

type node struct {
	dir     bool
	data    []byte
	mode    fs.FileMode
	mod     time.Time
	symlink string
}

type memFS struct {
	mu    sync.Mutex
	nodes map[string]*node // cleaned absolute path -> node
	log   *evLog
}

func newMemFS(log *evLog) *memFS {
	m := &memFS{nodes: map[string]*node{}, log: log}
	m.nodes["/"] = &node{dir: true, mode: fs.ModeDir | 0o755, mod: fixedTime}
	return m
}

var fixedTime = time.Date(2020, 2, 2, 2, 2, 2, 0, time.UTC)

// norm maps what VirtualOS.findMount hands over for the "/" mount (the path without its leading slash)
// to a cleaned absolute path.
func norm(p string) string {
	return filepath.Clean("/" + p)
}

func (m *memFS) mkdirAllLocked(p string) {
	p = norm(p)
	if p == "/" {
		return
	}
	m.mkdirAllLocked(filepath.Dir(p))
	if _, ok := m.nodes[p]; !ok {
		m.nodes[p] = &node{dir: true, mode: fs.ModeDir | 0o755, mod: fixedTime}
	}
}

// put is used by the harness to populate the tree (not logged).
func (m *memFS) put(p string, data string) {
	m.mu.Lock()
	defer m.mu.Unlock()
	p = norm(p)
	m.mkdirAllLocked(filepath.Dir(p))
	m.nodes[p] = &node{data: []byte(data), mode: 0o644, mod: fixedTime}
}

func (m *memFS) putDir(p string) {
	m.mu.Lock()
	defer m.mu.Unlock()
	m.mkdirAllLocked(p)
}

// snapshot renders the whole tree (harness use, not logged).
func (m *memFS) snapshot() map[string]string {
	m.mu.Lock()
	defer m.mu.Unlock()
	out := map[string]string{}
	for p, n := range m.nodes {
		switch {
		case n.dir:
			out[p] = "<dir>"
		case n.symlink != "":
			out[p] = "<symlink " + n.symlink + ">"
		default:
			out[p] = string(n.data)
		}
	}
	return out
}

func notExist(op, p string) error { return &fs.PathError{Op: op, Path: p, Err: fs.ErrNotExist} }

func (m *memFS) resolveLocked(p string) (*node, bool) {
	for i := 0; i < 8; i++ {
		n, ok := m.nodes[p]
		if !ok {
			return nil, false
		}
		if n.symlink == "" {
			return n, true
		}
		p = n.symlink
	}
	return nil, false
}

func (m *memFS) Create(name string) (ros.File, error) {
	return m.OpenFile(name, ros.O_RDWR|ros.O_CREATE|ros.O_TRUNC, 0o666)
}

func (m *memFS) Open(name string) (ros.File, error) {
	return m.OpenFile(name, ros.O_RDONLY, 0)
}

func (m *memFS) OpenFile(name string, flag int, perm ros.FileMode) (ros.File, error) {
	m.mu.Lock()
	defer m.mu.Unlock()
	p := norm(name)
	n, ok := m.resolveLocked(p)
	if !ok {
		if flag&ros.O_CREATE == 0 {
			return nil, notExist("open", p)
		}
		if _, ok := m.nodes[filepath.Dir(p)]; !ok {
			return nil, notExist("open", p)
		}
		n = &node{mode: perm &^ fs.ModeDir, mod: fixedTime}
		m.nodes[p] = n
	} else if flag&ros.O_CREATE != 0 && flag&ros.O_EXCL != 0 {
		return nil, &fs.PathError{Op: "open", Path: p, Err: fs.ErrExist}
	}
	if flag&ros.O_TRUNC != 0 && !n.dir {
		n.data = nil
	}
	h := &memFile{fs: m, n: n, name: p, log: m.log, appendMode: flag&ros.O_APPEND != 0}
	return h, nil
}

func (m *memFS) Mkdir(name string, perm ros.FileMode) error {
	m.mu.Lock()
	defer m.mu.Unlock()
	p := norm(name)
	if _, ok := m.nodes[p]; ok {
		return &fs.PathError{Op: "mkdir", Path: p, Err: fs.ErrExist}
	}
	if d, ok := m.nodes[filepath.Dir(p)]; !ok || !d.dir {
		return notExist("mkdir", p)
	}
	m.nodes[p] = &node{dir: true, mode: fs.ModeDir | perm, mod: fixedTime}
	return nil
}

func (m *memFS) MkdirAll(path string, perm ros.FileMode) error {
	m.mu.Lock()
	defer m.mu.Unlock()
	m.mkdirAllLocked(path)
	return nil
}

func (m *memFS) ReadFile(name string) ([]byte, error) {
	m.mu.Lock()
	defer m.mu.Unlock()
	p := norm(name)
	n, ok := m.resolveLocked(p)
	if !ok {
		return nil, notExist("open", p)
	}
	if n.dir {
		return nil, &fs.PathError{Op: "read", Path: p, Err: errors.New("is a directory")}
	}
	return append([]byte(nil), n.data...), nil
}

func (m *memFS) Remove(name string) error {
	m.mu.Lock()
	defer m.mu.Unlock()
	p := norm(name)
	n, ok := m.nodes[p]
	if !ok {
		return notExist("remove", p)
	}
	if n.dir {
		for q := range m.nodes {
			if q != p && strings.HasPrefix(q, strings.TrimSuffix(p, "/")+"/") {
				return &fs.PathError{Op: "remove", Path: p, Err: errors.New("directory not empty")}
			}
		}
	}
	if p == "/" {
		return &fs.PathError{Op: "remove", Path: p, Err: fs.ErrInvalid}
	}
	delete(m.nodes, p)
	return nil
}

func (m *memFS) RemoveAll(path string) error {
	m.mu.Lock()
	defer m.mu.Unlock()
	p := norm(path)
	for q := range m.nodes {
		if q == "/" {
			continue
		}
		if q == p || strings.HasPrefix(q, strings.TrimSuffix(p, "/")+"/") {
			delete(m.nodes, q)
		}
	}
	return nil
}

func (m *memFS) Rename(oldpath, newpath string) error {
	m.mu.Lock()
	defer m.mu.Unlock()
	o, nw := norm(oldpath), norm(newpath)
	if _, ok := m.nodes[o]; !ok {
		return notExist("rename", o)
	}
	if o == "/" || o == nw {
		return nil
	}
	moved := map[string]*node{}
	for q, n := range m.nodes {
		if q == o || strings.HasPrefix(q, o+"/") {
			moved[nw+strings.TrimPrefix(q, o)] = n
			delete(m.nodes, q)
		}
	}
	for q, n := range moved {
		m.nodes[q] = n
	}
	return nil
}

func (m *memFS) infoLocked(p string, n *node) ros.FileInfo {
	return ros.NewFileInfo(ros.GenericFileInfoOpts{
		Name: filepath.Base(p), Size: int64(len(n.data)), Mode: n.mode, ModTime: n.mod, IsDir: n.dir,
	})
}

func (m *memFS) Stat(name string) (ros.FileInfo, error) {
	m.mu.Lock()
	defer m.mu.Unlock()
	p := norm(name)
	n, ok := m.resolveLocked(p)
	if !ok {
		return nil, notExist("stat", p)
	}
	return m.infoLocked(p, n), nil
}

func (m *memFS) Symlink(oldname, newname string) error {
	m.mu.Lock()
	defer m.mu.Unlock()
	nw := norm(newname)
	if _, ok := m.nodes[nw]; ok {
		return &fs.PathError{Op: "symlink", Path: nw, Err: fs.ErrExist}
	}
	m.nodes[nw] = &node{symlink: norm(oldname), mode: fs.ModeSymlink | 0o777, mod: fixedTime}
	return nil
}

func (m *memFS) WriteFile(name string, data []byte, perm ros.FileMode) error {
	m.mu.Lock()
	defer m.mu.Unlock()
	p := norm(name)
	if n, ok := m.resolveLocked(p); ok {
		if n.dir {
			return &fs.PathError{Op: "write", Path: p, Err: errors.New("is a directory")}
		}
		n.data = append([]byte(nil), data...)
		return nil
	}
	if d, ok := m.nodes[filepath.Dir(p)]; !ok || !d.dir {
		return notExist("open", p)
	}
	m.nodes[p] = &node{data: append([]byte(nil), data...), mode: perm &^ fs.ModeDir, mod: fixedTime}
	return nil
}

func (m *memFS) childrenLocked(p string) []string {
	var names []string
	for q := range m.nodes {
		if q != "/" && filepath.Dir(q) == p {
			names = append(names, q)
		}
	}
	sort.Strings(names)
	return names
}

func (m *memFS) entryLocked(q string) ros.DirEntry {
	n := m.nodes[q]
	info := ros.NewFileInfo(ros.GenericFileInfoOpts{
		Name: filepath.Base(q), Size: int64(len(n.data)), Mode: n.mode, ModTime: n.mod, IsDir: n.dir,
	})
	return ros.NewDirEntry(ros.GenericDirEntryOpts{Name: filepath.Base(q), Mode: n.mode, Info: info})
}

func (m *memFS) ReadDir(name string) ([]ros.DirEntry, error) {
	m.mu.Lock()
	defer m.mu.Unlock()
	p := norm(name)
	n, ok := m.resolveLocked(p)
	if !ok {
		return nil, notExist("readdir", p)
	}
	if !n.dir {
		return nil, &fs.PathError{Op: "readdir", Path: p, Err: errors.New("not a directory")}
	}
	var out []ros.DirEntry
	for _, q := range m.childrenLocked(p) {
		// listed without the info, as the stock localfs does (DirEntryWrapper): whoever wants the info
		// has to ask the entry, i.e. this file system, for it
		out = append(out, lazyEntry{m.entryLocked(q)})
	}
	return out, nil
}

// lazyEntry is a directory entry that reports HasInfo() == false although Info() answers.
type lazyEntry struct{ ros.DirEntry }

func (lazyEntry) HasInfo() bool { return false }

func (m *memFS) WalkDir(root string, fn ros.WalkDirFunc) error {
	p := norm(root)
	m.mu.Lock()
	_, ok := m.nodes[p]
	var all []string
	if ok {
		for q := range m.nodes {
			if q == p || strings.HasPrefix(q, strings.TrimSuffix(p, "/")+"/") {
				all = append(all, q)
			}
		}
	}
	sort.Strings(all)
	entries := make([]ros.DirEntry, len(all))
	for i, q := range all {
		entries[i] = m.entryLocked(q)
	}
	m.mu.Unlock()
	if !ok {
		return fn(p, nil, notExist("lstat", p))
	}
	// the callback may call back into this filesystem, so the lock is not held here
	var skip string
	for i, q := range all {
		if skip != "" && (q == skip || strings.HasPrefix(q, skip+"/")) {
			continue
		}
		err := fn(q, entries[i], nil)
		if err == fs.SkipDir {
			if entries[i].IsDir() {
				skip = q
				continue
			}
			return nil
		}
		if err == fs.SkipAll {
			return nil
		}
		if err != nil {
			return err
		}
	}
	return nil
}

// memFile is an open handle on a node (or a standalone stream for stdin/stdout/stderr).
type memFile struct {
	fs         *memFS
	n          *node
	name       string
	log        *evLog
	mu         sync.Mutex
	pos        int
	closed     bool
	appendMode bool
}

func newStream(name string, data string, log *evLog) *memFile {
	return &memFile{n: &node{data: []byte(data), mode: 0o666, mod: fixedTime}, name: name, log: log}
}

func (f *memFile) lock() func() {
	if f.fs != nil {
		f.fs.mu.Lock()
		f.mu.Lock()
		return func() { f.mu.Unlock(); f.fs.mu.Unlock() }
	}
	f.mu.Lock()
	return f.mu.Unlock
}

func (f *memFile) Read(p []byte) (int, error) {
	f.log.add("file:Read", f.name, len(p))
	defer f.lock()()
	if f.closed {
		return 0, fs.ErrClosed
	}
	if f.pos >= len(f.n.data) {
		return 0, io.EOF
	}
	n := copy(p, f.n.data[f.pos:])
	f.pos += n
	return n, nil
}

func (f *memFile) ReadAt(p []byte, off int64) (int, error) {
	f.log.add("file:ReadAt", f.name, len(p), off)
	defer f.lock()()
	if off < 0 || off >= int64(len(f.n.data)) {
		return 0, io.EOF
	}
	n := copy(p, f.n.data[off:])
	if n < len(p) {
		return n, io.EOF
	}
	return n, nil
}

func (f *memFile) Write(p []byte) (int, error) {
	f.log.add("file:Write", f.name, string(p))
	defer f.lock()()
	if f.closed {
		return 0, fs.ErrClosed
	}
	if f.appendMode || f.pos > len(f.n.data) {
		f.pos = len(f.n.data)
	}
	n := copy(f.n.data[f.pos:], p)
	if n < len(p) {
		f.n.data = append(f.n.data, p[n:]...)
	}
	f.pos += len(p)
	return len(p), nil
}

func (f *memFile) Seek(offset int64, whence int) (int64, error) {
	f.log.add("file:Seek", f.name, offset, whence)
	defer f.lock()()
	var base int64
	switch whence {
	case io.SeekStart:
	case io.SeekCurrent:
		base = int64(f.pos)
	case io.SeekEnd:
		base = int64(len(f.n.data))
	default:
		return 0, errors.New("seek: invalid whence")
	}
	np := base + offset
	if np < 0 {
		return 0, errors.New("seek: negative position")
	}
	f.pos = int(np)
	return np, nil
}

func (f *memFile) Stat() (ros.FileInfo, error) {
	f.log.add("file:Stat", f.name)
	defer f.lock()()
	return ros.NewFileInfo(ros.GenericFileInfoOpts{
		Name: filepath.Base(f.name), Size: int64(len(f.n.data)), Mode: f.n.mode, ModTime: f.n.mod, IsDir: f.n.dir,
	}), nil
}

func (f *memFile) Close() error {
	f.log.add("file:Close", f.name)
	defer f.lock()()
	f.closed = true
	return nil
}

func (f *memFile) contents() string {
	defer f.lock()()
	return string(f.n.data)
}

// ---------------------------------------------------------------------------------------
// users and groups

type recUser struct{ uid, gid, username, name, home string }

func (u *recUser) Uid() string      { return u.uid }
func (u *recUser) Gid() string      { return u.gid }
func (u *recUser) Username() string { return u.username }
func (u *recUser) Name() string     { return u.name }
func (u *recUser) HomeDir() string  { return u.home }

type recGroup struct{ gid, name string }

func (g *recGroup) Gid() string  { return g.gid }
func (g *recGroup) Name() string { return g.name }

// ---------------------------------------------------------------------------------------
// the recording OS

type recOS struct {
	log    *evLog
	inner  *ros.VirtualOS
	fs     *memFS
	stdin  *memFile
	stdout *memFile
	stderr *memFile
	user   *recUser
	group  *recGroup

	mu    sync.Mutex
	exits []int
}

var _ ros.OS = (*recOS)(nil)

// Distinctive virtual identity values (the real ones can never equal them).
const (
	vPid      = 424242
	vUid      = 4242
	vHost     = "verifsent-host"
	vCwd      = "/VERIFSENT_vcwd"
	vTmp      = "/VERIFSENT_vtmp"
	vHome     = "/VERIFSENT_vhome"
	vCache    = "/VERIFSENT_vcache"
	vConfig   = "/VERIFSENT_vconfig"
	vUser     = "verifsent-user"
	vUserName = "Verif Sent"
	vGroup    = "verifsent-group"
	vGid      = "4343"
	vEnvVal   = "VERIFSENT_VIRT_env"
	vStdin    = "VERIFSENT_VIRT stdin line1\nstdin line2\n"
)

func newRecOS(ctx context.Context, populate func(*memFS)) *recOS {
	log := &evLog{}
	r := &recOS{log: log}
	r.fs = newMemFS(log)
	r.fs.putDir(vCwd)
	r.fs.putDir(vTmp)
	r.fs.putDir(vHome)
	r.fs.putDir(vCache)
	r.fs.putDir(vConfig)
	if populate != nil {
		populate(r.fs)
	}
	r.stdin = newStream("stdin", vStdin, log)
	r.stdout = newStream("stdout", "", log)
	r.stderr = newStream("stderr", "", log)
	r.user = &recUser{uid: fmt.Sprint(vUid), gid: vGid, username: vUser, name: vUserName, home: vHome}
	r.group = &recGroup{gid: vGid, name: vGroup}
	r.inner = ros.NewVirtualOS(ctx,
		ros.WithMounts(map[string]*ros.Mount{"/": {Source: r.fs, Target: "/", Type: "mem"}}),
		ros.WithCwd(vCwd), ros.WithTmp(vTmp), ros.WithUserHomeDir(vHome), ros.WithUserCacheDir(vCache),
		ros.WithUserConfigDir(vConfig), ros.WithPid(vPid), ros.WithUid(vUid), ros.WithHostname(vHost),
		ros.WithArgs([]string{"VERIFSENT_arg0", "VERIFSENT_arg1"}),
		ros.WithEnvironment(map[string]string{envCanary: vEnvVal, "VERIFSENT_VONLY": "VERIFSENT_VIRT_only"}),
		ros.WithStdin(r.stdin), ros.WithStdout(r.stdout), ros.WithStderr(r.stderr),
		ros.WithExitHandler(func(code int) {
			r.mu.Lock()
			r.exits = append(r.exits, code)
			r.mu.Unlock()
		}),
	)
	return r
}

func (r *recOS) exitCodes() []int {
	r.mu.Lock()
	defer r.mu.Unlock()
	return append([]int(nil), r.exits...)
}

func (r *recOS) Create(name string) (ros.File, error) {
	r.log.add("Create", name)
	return r.inner.Create(name)
}
func (r *recOS) Mkdir(name string, perm ros.FileMode) error {
	r.log.add("Mkdir", name, perm)
	return r.inner.Mkdir(name, perm)
}
func (r *recOS) MkdirAll(path string, perm ros.FileMode) error {
	r.log.add("MkdirAll", path, perm)
	return r.inner.MkdirAll(path, perm)
}
func (r *recOS) Open(name string) (ros.File, error) {
	r.log.add("Open", name)
	return r.inner.Open(name)
}
func (r *recOS) OpenFile(name string, flag int, perm ros.FileMode) (ros.File, error) {
	r.log.add("OpenFile", name, flag, perm)
	return r.inner.OpenFile(name, flag, perm)
}
func (r *recOS) ReadFile(name string) ([]byte, error) {
	r.log.add("ReadFile", name)
	return r.inner.ReadFile(name)
}
func (r *recOS) Remove(name string) error {
	r.log.add("Remove", name)
	return r.inner.Remove(name)
}
func (r *recOS) RemoveAll(path string) error {
	r.log.add("RemoveAll", path)
	return r.inner.RemoveAll(path)
}
func (r *recOS) Rename(oldpath, newpath string) error {
	r.log.add("Rename", oldpath, newpath)
	return r.inner.Rename(oldpath, newpath)
}
func (r *recOS) Stat(name string) (ros.FileInfo, error) {
	r.log.add("Stat", name)
	return r.inner.Stat(name)
}
func (r *recOS) Symlink(oldname, newname string) error {
	r.log.add("Symlink", oldname, newname)
	return r.inner.Symlink(oldname, newname)
}
func (r *recOS) WriteFile(name string, data []byte, perm ros.FileMode) error {
	r.log.add("WriteFile", name, string(data), perm)
	return r.inner.WriteFile(name, data, perm)
}
func (r *recOS) ReadDir(name string) ([]ros.DirEntry, error) {
	r.log.add("ReadDir", name)
	return r.inner.ReadDir(name)
}
func (r *recOS) WalkDir(root string, fn ros.WalkDirFunc) error {
	r.log.add("WalkDir", root)
	return r.inner.WalkDir(root, fn)
}
func (r *recOS) Args() []string {
	r.log.add("Args")
	return r.inner.Args()
}
func (r *recOS) Chdir(dir string) error {
	r.log.add("Chdir", dir)
	return r.inner.Chdir(dir)
}
func (r *recOS) Environ() []string {
	r.log.add("Environ")
	e := r.inner.Environ()
	sort.Strings(e)
	return e
}
func (r *recOS) Exit(code int) {
	r.log.add("Exit", code)
	r.inner.Exit(code)
}
func (r *recOS) Getenv(key string) string {
	r.log.add("Getenv", key)
	return r.inner.Getenv(key)
}
func (r *recOS) Getpid() int {
	r.log.add("Getpid")
	return r.inner.Getpid()
}
func (r *recOS) Getuid() int {
	r.log.add("Getuid")
	return r.inner.Getuid()
}
func (r *recOS) Getwd() (string, error) {
	r.log.add("Getwd")
	return r.inner.Getwd()
}
func (r *recOS) Hostname() (string, error) {
	r.log.add("Hostname")
	return r.inner.Hostname()
}
func (r *recOS) LookupEnv(key string) (string, bool) {
	r.log.add("LookupEnv", key)
	return r.inner.LookupEnv(key)
}
func (r *recOS) MkdirTemp(dir, pattern string) (string, error) {
	r.log.add("MkdirTemp", dir, pattern)
	return r.inner.MkdirTemp(dir, pattern)
}
func (r *recOS) Setenv(key, value string) error {
	r.log.add("Setenv", key, value)
	return r.inner.Setenv(key, value)
}
func (r *recOS) TempDir() string {
	r.log.add("TempDir")
	return r.inner.TempDir()
}
func (r *recOS) Unsetenv(key string) error {
	r.log.add("Unsetenv", key)
	return r.inner.Unsetenv(key)
}
func (r *recOS) UserCacheDir() (string, error) {
	r.log.add("UserCacheDir")
	return r.inner.UserCacheDir()
}
func (r *recOS) UserConfigDir() (string, error) {
	r.log.add("UserConfigDir")
	return r.inner.UserConfigDir()
}
func (r *recOS) UserHomeDir() (string, error) {
	r.log.add("UserHomeDir")
	return r.inner.UserHomeDir()
}
func (r *recOS) Stdin() ros.File {
	r.log.add("Stdin")
	return r.inner.Stdin()
}
func (r *recOS) Stdout() ros.File {
	r.log.add("Stdout")
	return r.inner.Stdout()
}
func (r *recOS) Stderr() ros.File {
	r.log.add("Stderr")
	return r.inner.Stderr()
}
func (r *recOS) PathSeparator() rune {
	r.log.add("PathSeparator")
	return r.inner.PathSeparator()
}
func (r *recOS) PathListSeparator() rune {
	r.log.add("PathListSeparator")
	return r.inner.PathListSeparator()
}
func (r *recOS) CurrentUser() (ros.User, error) {
	r.log.add("CurrentUser")
	return r.user, nil
}
func (r *recOS) LookupUser(name string) (ros.User, error) {
	r.log.add("LookupUser", name)
	if name == r.user.username {
		return r.user, nil
	}
	return nil, fmt.Errorf("VERIFSENT_VIRT: user %s not found", name)
}
func (r *recOS) LookupUid(uid string) (ros.User, error) {
	r.log.add("LookupUid", uid)
	if uid == r.user.uid {
		return r.user, nil
	}
	return nil, fmt.Errorf("VERIFSENT_VIRT: uid %s not found", uid)
}
func (r *recOS) LookupGroup(name string) (ros.Group, error) {
	r.log.add("LookupGroup", name)
	if name == r.group.name {
		return r.group, nil
	}
	return nil, fmt.Errorf("VERIFSENT_VIRT: group %s not found", name)
}
func (r *recOS) LookupGid(gid string) (ros.Group, error) {
	r.log.add("LookupGid", gid)
	if gid == r.group.gid {
		return r.group, nil
	}
	return nil, fmt.Errorf("VERIFSENT_VIRT: gid %s not found", gid)
}
