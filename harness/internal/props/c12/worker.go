package c12

// Worker side: runs one case against the real risor code with a fresh recording OS, and checks the
// real-OS canaries (environment, working directory, the real token tree) after it.
//
// Everything the harness itself does to the real OS with token-bearing paths happens between a pair of
// marker syscalls (stat of /VMARK/H0/<id> … /VMARK/H1/<id>), so that the strace analysis can tell
// harness accesses from accesses made by the code under test; the case itself runs after
// stat("/VMARK/BEGIN/<id>"). The same markers are written to the worker's real stdout and stderr.

import (
	"context"
	"encoding/json"
	"fmt"
	goos "os"
	"os/user"
	"path/filepath"
	"runtime/debug"
	"sort"
	"strings"
	"testing/fstest"
	"time"

	"github.com/risor-io/risor"
	"github.com/risor-io/risor/compiler"
	"github.com/risor-io/risor/importer"
	"github.com/risor-io/risor/object"
	ros "github.com/risor-io/risor/os"
	"github.com/risor-io/risor/parser"
	"github.com/risor-io/risor/vm"
)

// Out is what a worker reports for one case.
type Out struct {
	B        string            `json:"b"`      // the worker's real working directory
	Result   string            `json:"result"` // rendered result
	Err      string            `json:"err,omitempty"`
	GoPanic  string            `json:"go_panic,omitempty"`
	TimedOut bool              `json:"timed_out,omitempty"`
	NEv      int               `json:"n_ev"` // recording-OS events after the mark
	NSetupEv int               `json:"n_setup_ev"`
	Marked   bool              `json:"marked"`
	Evs      []Ev              `json:"evs,omitempty"` // first events after the mark
	Diff     map[string]string `json:"diff,omitempty"`
	Stdout   string            `json:"stdout,omitempty"` // virtual
	Stderr   string            `json:"stderr,omitempty"` // virtual
	Real     []string          `json:"real,omitempty"`   // real-OS canary findings
	RealPid  int               `json:"real_pid"`
	RealHost string            `json:"real_host"`
	RealUser string            `json:"real_user"`
	RealHome string            `json:"real_home"`
	Harness  string            `json:"harness,omitempty"`  // harness-side problem (inconclusive)
	FirstOS  string            `json:"first_os,omitempty"` // shared-globals: output that reached the OS of the first evaluation
}

type workerState struct {
	b       string
	env     []string
	inited  bool
	initErr string
}

var ws workerState

func vmark(kind, id string) {
	_, _ = goos.Stat("/VMARK/" + kind + "/" + id)
}

func stdMark(id string) {
	fmt.Fprintf(goos.Stdout, "\n#VBEGIN %s\n", id)
	fmt.Fprintf(goos.Stderr, "\n#VBEGIN %s\n", id)
}

// expectedReal is the real tree as the harness created it: relative path -> content ("<dir>" for dirs).
func expectedReal() map[string]string {
	out := map[string]string{}
	for rel, c := range realTree {
		out[rel] = c
		for d := filepath.Dir(rel); d != "."; d = filepath.Dir(d) {
			out[d] = "<dir>"
		}
	}
	return out
}

// harnessFiles are the files RunPool and the strace wrapper keep in the batch directory.
var harnessFiles = map[string]bool{"in.jsonl": true, "out.jsonl": true, "log.txt": true, "stdout.txt": true, "stderr.txt": true, "strace.txt": true, "rtmp": true}

// scanReal lists everything below dir except the harness files.
func scanReal(dir string) map[string]string {
	out := map[string]string{}
	_ = filepath.WalkDir(dir, func(p string, d goos.DirEntry, err error) error {
		if err != nil || p == dir {
			return nil
		}
		rel, _ := filepath.Rel(dir, p)
		if harnessFiles[rel] && filepath.Dir(rel) == "." && rel != "rtmp" {
			return nil
		}
		if rel == "rtmp" {
			out[rel] = "<dir>"
			return nil
		}
		if d.IsDir() {
			out[rel] = "<dir>"
			return nil
		}
		if d.Type()&goos.ModeSymlink != 0 {
			t, _ := goos.Readlink(p)
			out[rel] = "<symlink " + t + ">"
			return nil
		}
		b, _ := goos.ReadFile(p)
		out[rel] = string(b)
		return nil
	})
	return out
}

// diffReal compares the real directory with the expected canary tree.
func diffReal(dir string) []string {
	exp := expectedReal()
	exp["rtmp"] = "<dir>"
	got := scanReal(dir)
	var out []string
	for k, v := range exp {
		g, ok := got[k]
		switch {
		case !ok:
			out = append(out, "real-tree: "+k+" was removed")
		case g != v:
			out = append(out, fmt.Sprintf("real-tree: %s changed to %q", k, trunc(g, 80)))
		}
	}
	for k, g := range got {
		if _, ok := exp[k]; !ok {
			out = append(out, fmt.Sprintf("real-tree: %s was created (%q)", k, trunc(g, 80)))
		}
	}
	sort.Strings(out)
	return out
}

func trunc(s string, n int) string {
	if len(s) > n {
		return s[:n] + "…"
	}
	return s
}

// restoreReal puts the canary tree back after a finding so that later cases are judged on their own.
func restoreReal(dir string) {
	exp := expectedReal()
	got := scanReal(dir)
	for k := range got {
		if _, ok := exp[k]; !ok && k != "rtmp" {
			_ = goos.RemoveAll(filepath.Join(dir, k))
		}
	}
	var keys []string
	for k := range exp {
		keys = append(keys, k)
	}
	sort.Strings(keys)
	for _, k := range keys {
		p := filepath.Join(dir, k)
		if exp[k] == "<dir>" {
			if fi, err := goos.Lstat(p); err == nil && !fi.IsDir() {
				_ = goos.Remove(p)
			}
			_ = goos.MkdirAll(p, 0o755)
			continue
		}
		if b, err := goos.ReadFile(p); err != nil || string(b) != exp[k] {
			_ = goos.RemoveAll(p)
			_ = goos.WriteFile(p, []byte(exp[k]), 0o644)
		}
	}
	_ = goos.MkdirAll(filepath.Join(dir, "rtmp"), 0o755)
}

func initWorker(id string) {
	if ws.inited {
		return
	}
	ws.inited = true
	vmark("H0", id)
	defer vmark("H1", id)
	b, err := goos.Getwd()
	if err != nil {
		ws.initErr = "getwd: " + err.Error()
		return
	}
	if bd := goos.Getenv("VERIF_BATCH_DIR"); bd != "" && bd != b {
		// the canary tree must be reachable through relative paths: run in the batch directory
		if err := goos.Chdir(bd); err != nil {
			ws.initErr = "chdir: " + err.Error()
			return
		}
		b = bd
	}
	ws.b = b
	if goos.Getenv(envCanary) != realEnvVal {
		ws.initErr = "the real environment canary " + envCanary + " is not set in the worker"
		return
	}
	restoreReal(b)
	if d := diffReal(b); len(d) > 0 {
		ws.initErr = "cannot create the real canary tree: " + strings.Join(d, "; ")
		return
	}
	ws.env = goos.Environ()
	sort.Strings(ws.env)
}

// checkCanaries compares the real environment, cwd and tree with their initial state, repairs them
// and returns the differences.
func checkCanaries(id string) []string {
	vmark("H0", id)
	defer vmark("H1", id)
	var out []string
	env := goos.Environ()
	sort.Strings(env)
	if strings.Join(env, "\x00") != strings.Join(ws.env, "\x00") {
		was := map[string]string{}
		for _, kv := range ws.env {
			k, v, _ := strings.Cut(kv, "=")
			was[k] = v
		}
		now := map[string]string{}
		for _, kv := range env {
			k, v, _ := strings.Cut(kv, "=")
			now[k] = v
			if w, ok := was[k]; !ok {
				out = append(out, fmt.Sprintf("real-env: %s was set to %q", k, trunc(v, 60)))
				_ = goos.Unsetenv(k)
			} else if w != v {
				out = append(out, fmt.Sprintf("real-env: %s changed from %q to %q", k, trunc(w, 60), trunc(v, 60)))
				_ = goos.Setenv(k, w)
			}
		}
		for k, w := range was {
			if _, ok := now[k]; !ok {
				out = append(out, fmt.Sprintf("real-env: %s was unset", k))
				_ = goos.Setenv(k, w)
			}
		}
	}
	if wd, err := goos.Getwd(); err != nil || wd != ws.b {
		out = append(out, fmt.Sprintf("real-cwd: changed to %q", wd))
		_ = goos.Chdir(ws.b)
	}
	if d := diffReal(ws.b); len(d) > 0 {
		out = append(out, d...)
		restoreReal(ws.b)
	}
	sort.Strings(out)
	return out
}

func render(o object.Object) string {
	switch v := o.(type) {
	case nil:
		return "<no value>"
	case *object.String:
		return v.Value()
	case *object.ByteSlice:
		return string(v.Value())
	case *object.Error:
		return "error(" + v.Value().Error() + ")"
	}
	return o.Inspect()
}

func populate(b string) func(*memFS) {
	return func(m *memFS) {
		for rel, c := range virtTree {
			m.put(vCwd+"/"+rel, c)
			m.put(b+"/"+rel, c)
		}
	}
}

func stateOf(r *recOS) (map[string]string, map[string]string, string) {
	files := r.fs.snapshot()
	env := map[string]string{}
	for _, kv := range r.inner.Environ() {
		k, v, _ := strings.Cut(kv, "=")
		env[k] = v
	}
	cwd, _ := r.inner.Getwd()
	return files, env, cwd
}

func worker(kind string, data json.RawMessage) any {
	var c CaseData
	if err := json.Unmarshal(data, &c); err != nil {
		panic(err)
	}
	id := kind // the case id is passed as the kind (see drive)
	initWorker(id)
	out := &Out{B: ws.b, RealPid: goos.Getpid()}
	out.RealHost, _ = goos.Hostname()
	if u, err := user.Current(); err == nil {
		out.RealUser, out.RealHome = u.Username, u.HomeDir
	}
	if ws.initErr != "" {
		out.Harness = ws.initErr
		return out
	}
	stdMark(id)
	vmark("BEGIN", id)
	runCase(&c, out)
	out.Real = checkCanaries(id)
	return out
}

func runCase(c *CaseData, out *Out) {
	base, cancel := context.WithTimeout(context.Background(), 20*time.Second)
	defer cancel()
	rec := newRecOS(base, populate(ws.b))
	files0, env0, cwd0 := stateOf(rec)

	sub := func(s string) string { return strings.ReplaceAll(s, bMark, ws.b) }
	mainSrc, modSrc := buildScript(c.Ctx, sub(c.Setup), sub(c.OpSrc))

	markAt := -1
	mark := object.NewBuiltin("verif_mark", func(ctx context.Context, args ...object.Object) object.Object {
		if markAt < 0 {
			markAt = rec.log.len()
		}
		return object.Nil
	})
	opts := []risor.Option{risor.WithConcurrency(), risor.WithGlobal("verif_mark", mark)}
	ctx := base
	if c.Ctx == "cancel-defer" {
		// the deadline passes while verif_f spins; its deferred builtin call runs during the unwind
		dctx, dcancel := context.WithTimeout(base, 60*time.Millisecond)
		defer dcancel()
		ctx = dctx
	}
	var supplied ros.OS = rec
	if c.Ctx == "bare-vos" {
		supplied = ros.NewVirtualOS(base)
	}
	switch c.Route {
	case "withos":
		opts = append(opts, risor.WithOS(supplied))
	case "ctx":
		ctx = ros.WithOS(ctx, supplied)
	default:
		out.Harness = "unknown route " + c.Route
		return
	}
	if c.Ctx == "shared-globals" {
		// the first evaluation: same globals map, an OS of its own, touching stdio, environment and cwd
		shared := risor.NewConfig(risor.WithConcurrency(), risor.WithGlobal("verif_mark", mark)).Globals()
		first := newRecOS(base, populate(ws.b))
		fopts := []risor.Option{risor.WithoutDefaultGlobals(), risor.WithGlobals(shared)}
		fctx := base
		if c.Route == "withos" {
			fopts = append(fopts, risor.WithOS(first))
		} else {
			fctx = ros.WithOS(fctx, first)
		}
		prime := `os.stdout.write("VERIFSENT_first o\n"); os.stderr.write("VERIFSENT_first e\n"); [type(os.stdin), os.getenv("` + envCanary + `"), os.getwd(), len(os.environ()) > 0]`
		if _, perr := risor.Eval(fctx, prime, fopts...); perr != nil {
			out.Harness = "shared-globals: first evaluation failed: " + perr.Error()
			return
		}
		opts = []risor.Option{risor.WithoutDefaultGlobals(), risor.WithGlobals(shared)}
		if c.Route == "withos" {
			opts = append(opts, risor.WithOS(supplied))
		}
		defer func() {
			// nothing of the second evaluation may have reached the first evaluation's OS
			if o := first.stdout.contents(); o != "VERIFSENT_first o\n" {
				out.FirstOS = "stdout of the first evaluation's OS: " + trunc(o, 300)
			} else if e := first.stderr.contents(); e != "VERIFSENT_first e\n" {
				out.FirstOS = "stderr of the first evaluation's OS: " + trunc(e, 300)
			}
		}()
	}
	if c.Ctx == "module" {
		names := risor.NewConfig(opts...).GlobalNames()
		imp := importer.NewFSImporter(importer.FSImporterOptions{
			GlobalNames: names,
			SourceFS:    fstest.MapFS{modName + ".risor": {Data: []byte(modSrc)}},
		})
		opts = append(opts, risor.WithImporter(imp))
	}

	var res object.Object
	var err error
	func() {
		defer func() {
			if r := recover(); r != nil {
				out.GoPanic = fmt.Sprintf("%v\n%s", r, debug.Stack())
			}
		}()
		switch c.Ctx {
		case "clone":
			res, err = runClone(ctx, ctx, mainSrc, opts, true)
			return
		case "late-clone":
			res, err = runClone(base, ctx, mainSrc, opts, true)
			return
		case "late-call":
			res, err = runClone(base, ctx, mainSrc, opts, false)
			return
		}
		res, err = risor.Eval(ctx, mainSrc, opts...)
	}()
	if base.Err() != nil {
		out.TimedOut = true
	}
	if err != nil {
		out.Err = err.Error()
	}
	if res != nil {
		func() {
			defer func() {
				if r := recover(); r != nil {
					out.Result = fmt.Sprintf("<render panicked: %v>", r)
				}
			}()
			out.Result = trunc(render(res), 4000)
		}()
	}
	out.Marked = markAt >= 0
	if markAt < 0 {
		markAt = rec.log.len()
	}
	out.NSetupEv = markAt
	evs := rec.log.since(markAt)
	out.NEv = len(evs)
	if len(evs) > 12 {
		evs = evs[:12]
	}
	out.Evs = evs
	out.Stdout = trunc(rec.stdout.contents(), 2000)
	out.Stderr = trunc(rec.stderr.contents(), 2000)

	files1, env1, cwd1 := stateOf(rec)
	diff := map[string]string{}
	for p, v := range files1 {
		if w, ok := files0[p]; !ok {
			diff["+"+p] = trunc(v, 400)
		} else if w != v {
			diff["~"+p] = trunc(v, 400)
		}
	}
	for p := range files0 {
		if _, ok := files1[p]; !ok {
			diff["-"+p] = ""
		}
	}
	for k, v := range env1 {
		if w, ok := env0[k]; !ok || w != v {
			diff["env+"+k] = v
		}
	}
	for k := range env0 {
		if _, ok := env1[k]; !ok {
			diff["env-"+k] = ""
		}
	}
	if cwd1 != cwd0 {
		diff["cwd"] = cwd1
	}
	if ex := rec.exitCodes(); len(ex) > 0 {
		diff["exit"] = fmt.Sprint(ex)
	}
	if len(diff) > 0 {
		out.Diff = diff
	}
}

// runClone defines verif_op on a VM, clones the VM and calls the function on the clone from Go.
// defCtx is the context of the defining run, ctx that of the call; with clone=false the function is
// called on the defining VM itself.
func runClone(defCtx, ctx context.Context, src string, opts []risor.Option, useClone bool) (object.Object, error) {
	cfg := risor.NewConfig(opts...)
	ast, err := parser.Parse(ctx, src)
	if err != nil {
		return nil, err
	}
	code, err := compiler.Compile(ast, cfg.CompilerOpts()...)
	if err != nil {
		return nil, err
	}
	machine := vm.New(code, cfg.VMOpts()...)
	if err := machine.Run(defCtx); err != nil {
		return nil, err
	}
	clone := machine
	if useClone {
		if clone, err = machine.Clone(); err != nil {
			return nil, err
		}
	}
	fnObj, err := clone.Get("verif_op")
	if err != nil {
		return nil, err
	}
	fn, ok := fnObj.(*object.Function)
	if !ok {
		return nil, fmt.Errorf("verif_op is %s", fnObj.Type())
	}
	return clone.Call(ctx, fn, nil)
}
