// Package c12 checks property C12: a host-supplied OS mediates all file, environment, process and
// stdio access of scripts.
//
// Monitors: (i) a recording ros.OS (recos.go) whose call log must show that the operation was answered
// by it; (ii) real-OS canaries checked by the worker after every case: the process environment, the
// working directory and a real directory tree whose names and contents carry the token VERIFSENT (the
// virtual filesystem has the same paths with different contents, so a read that reaches the real OS
// returns recognisable real content); (iii) the worker's real stdout/stderr, which may contain nothing
// but the harness's own case markers; (iv) strace of the worker (%file, chdir, execve): outside the
// harness's marked windows no syscall argument may contain the token - every path a script uses does.
package c12

import (
	"encoding/json"
	"fmt"
	"os"
	"os/exec"
	"path/filepath"
	"regexp"
	"sort"
	"strings"

	"verif/internal/mon"
)

func Register() {
	mon.Register(&mon.Prop{ID: "C12", Drive: drive})
	mon.RegisterWorker("C12", worker)
}

// plan builds the seed-determined case list from the live enumeration.
func plan(d *mon.Driver) ([]CaseData, []target, map[string]bool, []string, error) {
	targets, notes, err := enumerate()
	if err != nil {
		return nil, nil, nil, nil, err
	}
	rec := recipes()
	srcs := fileSources()
	r := d.Rand("plan")
	var cases []CaseData
	genericOnly := map[string]bool{}
	live := map[string]bool{}
	combos := make([][2]string, 0, len(contexts)*len(routes))
	for _, cx := range contexts {
		for _, rt := range routes {
			if strings.HasPrefix(cx, "late-") && rt != "ctx" {
				continue
			}
			combos = append(combos, [2]string{cx, rt})
		}
	}
	emit := func(t target, kind string, rc Recipe, which [][2]string) {
		for _, cr := range which {
			cases = append(cases, CaseData{
				Op: t.Op, Variant: rc.Variant, Kind: kind, Ctx: cr[0], Route: cr[1], Setup: rc.Setup, OpSrc: rc.Op,
				Events: rc.Events, Want: rc.Want, WantRe: rc.WantRe, Has: rc.Has, Post: rc.Post, Stdout: rc.Stdout, Stderr: rc.Stderr,
				Strace: true,
			})
		}
	}
	someCombos := func(n int) [][2]string {
		if d.Thorough() {
			return combos
		}
		p := r.Perm(len(combos))
		out := make([][2]string, 0, n)
		for _, i := range p[:n] {
			out = append(out, combos[i])
		}
		return out
	}
	for _, t := range targets {
		live[t.Op] = true
		var rcs []Recipe
		if t.File {
			method := strings.TrimPrefix(t.Op, "file.")
			for _, s := range srcs {
				rcs = append(rcs, fileRecipes(method, s)...)
			}
		} else {
			rcs = rec[t.Op]
		}
		for _, rc := range rcs {
			emit(t, "recipe", rc, combos)
		}
		gens := genericRecipes(t)
		if len(rcs) == 0 {
			genericOnly[t.Op] = true
			for _, g := range gens {
				if t.File {
					for _, s := range srcs {
						g2 := g
						g2.Setup = s.Setup
						g2.Variant = s.Name + "/" + g.Variant
						emit(t, "generic", g2, combos)
					}
				} else {
					emit(t, "generic", g, combos)
				}
			}
		} else {
			for _, g := range gens {
				if t.File {
					s := mon.Pick(r, srcs)
					g.Setup = s.Setup
					g.Variant = s.Name + "/" + g.Variant
				}
				emit(t, "generic", g, combos)
			}
		}
		nr := d.N(3, 60)
		for i := 0; i < nr; i++ {
			rr := randomRecipe(r, t, i)
			if t.File {
				s := mon.Pick(r, srcs)
				rr.Setup = s.Setup
				rr.Variant = s.Name + "/" + rr.Variant
			}
			emit(t, "random", rr, someCombos(2))
		}
	}
	// "cancel-defer": the operation is a deferred builtin call of a function that is still running when the
	// context's deadline passes; it runs while the evaluation unwinds, and must still be served by the
	// supplied OS (or not run at all). Only recipes whose operation is one call expression qualify.
	perOp := map[string]int{}
	nBase := len(cases)
	for i := 0; i < nBase; i++ {
		c := cases[i]
		if c.Ctx != "top" || !singleCall.MatchString(c.OpSrc) || strings.ContainsAny(c.OpSrc, ";\n") {
			continue
		}
		if perOp[c.Op+c.Route] >= d.N(3, 1000) {
			continue
		}
		perOp[c.Op+c.Route]++
		c.Ctx = "cancel-defer"
		c.Events, c.Want, c.WantRe, c.Has, c.Post, c.Stdout, c.Stderr = false, "", "", nil, nil, "", ""
		c.Kind = "generic"
		cases = append(cases, c)
	}
	// "bare-vos": the supplied OS is a VirtualOS built with no options at all — no mounts, no user, no exit
	// handler. Whatever it cannot answer must surface as an error or an empty virtual answer: never the
	// real machine's data, never the end of the host process.
	perBare := map[string]int{}
	for i := 0; i < nBase; i++ {
		c := cases[i]
		if c.Ctx != "top" {
			continue
		}
		if perBare[c.Op+c.Route] >= d.N(3, 1000) {
			continue
		}
		perBare[c.Op+c.Route]++
		c.Ctx = "bare-vos"
		c.Events, c.Want, c.WantRe, c.Has, c.Post, c.Stdout, c.Stderr = false, "", "", nil, nil, "", ""
		c.Kind = "generic"
		cases = append(cases, c)
	}
	// "shared-globals": one globals map (built once, so one object per module) serves two evaluations that are
	// given different OS objects; the operation runs in the second one, after the first has used the stdio
	// attributes, the environment and the cwd of its own OS. Everything expected of "top" is expected here.
	perShared := map[string]int{}
	for i := 0; i < nBase; i++ {
		c := cases[i]
		if c.Ctx != "top" {
			continue
		}
		if perShared[c.Op+c.Route] >= d.N(3, 1000) {
			continue
		}
		perShared[c.Op+c.Route]++
		c.Ctx = "shared-globals"
		cases = append(cases, c)
	}
	for op := range rec {
		if !live[op] {
			notes = append(notes, "recipe for "+op+" has no live function (skipped)")
		}
	}
	return cases, targets, genericOnly, notes, nil
}

type batchFindings struct {
	byCase map[string][]string
	batch  []string
}

var singleCall = regexp.MustCompile(`^r := [A-Za-z_][A-Za-z_0-9.]*\(.*\)$`)
var markRe = regexp.MustCompile(`"/VMARK/(BEGIN|H0|H1)/([^"]+)"`)
var stdMarkRe = regexp.MustCompile(`\n#VBEGIN ([^\n]*)\n`)

// analyseStd splits the worker's real stdout/stderr at the harness markers; anything else is output
// that reached the real stream.
func analyseStd(path, name string, add func(id, s string)) int {
	b, err := os.ReadFile(path)
	if err != nil {
		return 0
	}
	s := string(b)
	// the pool's watchdog ends an overdue worker with SIGQUIT: the Go runtime's goroutine dump (to the end
	// of the stream) is the harness's doing, not output of a script
	if i := strings.Index(s, "SIGQUIT: quit\nPC="); i >= 0 {
		s = s[:i]
	}
	idx := stdMarkRe.FindAllStringSubmatchIndex(s, -1)
	prev := 0
	cur := ""
	extra := 0
	for _, m := range idx {
		seg := s[prev:m[0]]
		if seg != "" {
			add(cur, fmt.Sprintf("real-%s: %q", name, mon.Truncate(seg, 200)))
			extra += len(seg)
		}
		cur = s[m[2]:m[3]]
		prev = m[1]
	}
	if seg := s[prev:]; seg != "" {
		add(cur, fmt.Sprintf("real-%s: %q", name, mon.Truncate(seg, 200)))
		extra += len(seg)
	}
	return extra
}

// analyseStrace attributes token-bearing syscalls to cases. Returns (lines, markers, harness token lines).
func analyseStrace(path string, add func(id, s string)) (int, int, int) {
	b, err := os.ReadFile(path)
	if err != nil {
		return 0, 0, 0
	}
	lines, markers, harness := 0, 0, 0
	cur := ""
	inH := false
	for _, l := range strings.Split(string(b), "\n") {
		if l == "" {
			continue
		}
		lines++
		if m := markRe.FindStringSubmatch(l); m != nil {
			switch m[1] {
			case "BEGIN":
				cur = m[2]
				inH = false
				markers++
			case "H0":
				inH = true
			case "H1":
				inH = false
			}
			continue
		}
		if !strings.Contains(l, tok) {
			continue
		}
		if inH {
			harness++
			continue
		}
		add(cur, "strace: "+mon.Truncate(l, 300))
	}
	return lines, markers, harness
}

// straceWorks runs strace on a trivial traced command that stats a marker path, and checks that the
// marker shows up in the trace: without that the syscall-level monitor would be blind (or, where
// ptrace is not permitted, every worker would fail to start).
func straceWorks(scratch string) string {
	path, err := exec.LookPath("strace")
	if err != nil {
		return "strace is not installed"
	}
	self, err := os.Executable()
	if err != nil {
		return err.Error()
	}
	out := filepath.Join(scratch, "preflight-strace.txt")
	cmd := exec.Command(path, "-f", "-qq", "-e", "trace=%file,chdir,execve", "-s", "256", "-o", out, self, "worker", "C12", "/VMARK/preflight/in", "/nonexistent/out", "/nonexistent/log")
	_ = cmd.Run() // the worker fails to open its input: that open is what we look for
	b, _ := os.ReadFile(out)
	if !strings.Contains(string(b), `"/VMARK/preflight/in"`) {
		return "strace does not trace this binary here (ptrace not permitted?): " + mon.Truncate(string(b), 200)
	}
	return ""
}

func drive(d *mon.Driver, replay string) int {
	d.Rule = "(operation+argument variant, execution context, OS-supply route) triples that produced ≥1 event on the recording OS after the mark; operation = a live attribute of the os/filepath/fmt modules, an OS-touching builtin, or a file-object attribute × the file's source"
	d.Assume = []string{
		"exec (external commands) is outside the statement and never called",
		"the module file of the 'module' context is served by an in-memory fs.FS importer (loading modules is C14's business)",
		"harness accesses to the real canary tree happen between marker syscalls and are excluded from the strace oracle; script goroutines are waited for before the window opens",
		"an operation called with generic or random arguments may fail before reaching the OS (error without side effect); only recipes whose arguments are known to be valid must produce a recording-OS event",
	}
	if msg := straceWorks(d.Scratch); msg != "" {
		d.Fatal("the syscall-level monitor cannot run: " + msg)
		return d.Finish(1, 0)
	}

	var cases []CaseData
	var targets []target
	genericOnly := map[string]bool{}
	if replay != "" {
		var c CaseData
		if err := mon.LoadReplay(replay, &c); err != nil {
			fmt.Println("cannot load replay:", err)
			return 3
		}
		cases = []CaseData{c}
	} else {
		var notes []string
		var err error
		cases, targets, genericOnly, notes, err = plan(d)
		if err != nil {
			d.Fatal("enumeration failed: " + err.Error())
			return d.Finish(1, 0)
		}
		d.Extra("enumeration_notes", notes)
		// deterministic shuffle so that batches mix operations
		p := d.Rand("order").Perm(len(cases))
		sh := make([]CaseData, len(cases))
		for i, j := range p {
			sh[i] = cases[j]
		}
		cases = sh
	}

	byID := map[string]*CaseData{}
	mk := func(list []CaseData, prefix string) []mon.Case {
		out := make([]mon.Case, len(list))
		for i := range list {
			id := fmt.Sprintf("%s%05d", prefix, i)
			byID[id] = &list[i]
			out[i] = mon.NewCase(id, id, list[i]) // the id travels as the kind: the worker needs it for its markers
		}
		return out
	}

	findings := map[string][]string{}
	add := func(id, s string) { findings[id] = append(findings[id], s) }
	called := map[string]int{}
	var lost []CaseData

	afterBatch := func(dir string, bc []mon.Case) {
		n1 := analyseStd(filepath.Join(dir, "stdout.txt"), "stdout", add)
		n2 := analyseStd(filepath.Join(dir, "stderr.txt"), "stderr", add)
		d.Event("real_stdio_unexpected_bytes", n1+n2)
		lines, markers, harness := analyseStrace(filepath.Join(dir, "strace.txt"), add)
		d.Event("strace_lines", lines)
		d.Event("strace_case_markers", markers)
		d.Event("strace_harness_token_lines", harness)
		if lines == 0 {
			d.Fatal("strace produced no output for a batch: the syscall-level monitor did not run")
		}
		// safety net: the worker repairs the tree after every case, so it must be intact now
		if _, err := os.Stat(filepath.Join(dir, relDir)); err == nil {
			for _, f := range diffReal(dir) {
				add("", "after-batch "+f)
			}
		}
	}

	handle := func(retry bool) func(mon.Case, mon.Result) {
		return func(mc mon.Case, res mon.Result) {
			c := byID[mc.ID]
			tag := c.Op + ":" + c.Ctx + ":" + c.Route
			fs := findings[mc.ID]
			switch res.Status {
			case "lost":
				if !retry {
					lost = append(lost, *c)
					return
				}
				d.Eval(1)
				d.Violation("bypass:"+tag, fmt.Sprintf("the worker process ended silently (exit status 0) while running this case alone: the exit did not go to the supplied OS\n%s\n%s", describe(c), strings.Join(fs, "\n")), c)
				return
			case "timeout":
				d.Inconclusive("watchdog timeout in " + tag + " " + c.Variant)
				return
			case "crash":
				d.Eval(1)
				detail := ""
				if res.Crash != nil {
					detail = res.Crash.Exit + " " + res.Crash.FatalLine + "\n" + mon.Truncate(res.Crash.StderrTail, 1500)
				}
				if res.Crash != nil && strings.HasPrefix(res.Crash.Exit, "exit status") && res.Crash.FatalLine == "" {
					d.Violation("bypass:"+tag, "the worker process was terminated during this case ("+res.Crash.Exit+"): a process exit reached the real OS\n"+describe(c)+"\n"+detail+"\n"+strings.Join(fs, "\n"), c)
				} else {
					d.Violation("worker-died:"+tag, describe(c)+"\n"+detail, c)
				}
				return
			}
			if res.Panic != "" {
				d.Fatal("harness panic in worker: " + mon.Truncate(res.Panic, 600))
				return
			}
			var o Out
			if err := json.Unmarshal(res.Data, &o); err != nil {
				d.Fatal("bad worker output: " + err.Error())
				return
			}
			if o.Harness != "" {
				d.Fatal("worker: " + o.Harness)
				return
			}
			d.Eval(1)
			if o.TimedOut {
				d.Inconclusive("case timed out inside the worker: " + tag + " " + c.Variant)
				return
			}
			if o.GoPanic != "" {
				d.Event("go_panic_out_of_risor", 1)
			}
			judge(d, c, &o, fs, called)
		}
	}

	opts := mon.PoolOpts{
		BatchSize: 60,
		Env: []string{envCanary + "=" + realEnvVal, "TMPDIR=rtmp",
			// the real process's XDG locations carry the real token: no script OS may fall back to them
			"XDG_CONFIG_HOME=/" + realTok + "_xdgconfig", "XDG_CACHE_HOME=/" + realTok + "_xdgcache",
			"XDG_DATA_HOME=/" + realTok + "_xdgdata", "XDG_STATE_HOME=/" + realTok + "_xdgstate"},
		Wrap: func(dir string) []string {
			return []string{"strace", "-f", "-qq", "-e", "trace=%file,chdir,execve", "-s", "256", "-o", filepath.Join(dir, "strace.txt")}
		},
		AfterBatch: afterBatch,
	}
	d.RunPool(mk(cases, "c"), opts, handle(false))
	if len(lost) > 0 {
		// a worker that exits with status 0 in the middle of a batch loses the rest of the batch: run
		// each lost case alone; the one that loses itself again terminated the process
		d.Event("cases_rerun_alone_after_silent_worker_exit", len(lost))
		o2 := opts
		o2.BatchSize = 1
		d.RunPool(mk(lost, "l"), o2, handle(true))
	}
	for _, f := range findings[""] {
		d.Violation("real-os-access-outside-any-case", f, nil)
	}

	if replay != "" {
		return d.Finish(1, 0)
	}
	var never []string
	nGeneric := 0
	for _, t := range targets {
		if called[t.Op] == 0 {
			never = append(never, t.Op)
		}
		if genericOnly[t.Op] {
			nGeneric++
		}
	}
	sort.Strings(never)
	if len(never) > 0 {
		d.Fatal("live operations that were never reached by any case: " + strings.Join(never, ", "))
	}
	var gl []string
	for k := range genericOnly {
		gl = append(gl, k)
	}
	sort.Strings(gl)
	d.Extra("live_operations", len(targets))
	var opNames []string
	for _, t := range targets {
		opNames = append(opNames, t.Op)
	}
	d.Extra("live_operation_names", opNames)
	d.Extra("operations_without_recipe_called_generically", gl)
	d.Extra("contexts", append(append([]string{}, contexts...), "cancel-defer", "bare-vos", "shared-globals"))
	d.Extra("routes", routes)
	d.Extra("exhaustive", false)
	return d.Finish(d.N(6000, 40000), d.N(2000, 8000))
}

// listingOp: operations that enumerate the supplied file system (the recording file system also holds
// the token tree under the worker's directory, so a listing from "/" legitimately names it).
func listingOp(op string) bool {
	for _, w := range []string{"read_dir", "walk", "glob", "list"} {
		if strings.Contains(op, w) {
			return true
		}
	}
	return false
}

func describe(c *CaseData) string {
	main, mod := buildScript(c.Ctx, c.Setup, c.OpSrc)
	s := fmt.Sprintf("operation %s (%s, %s) context=%s route=%s\nscript:\n%s", c.Op, c.Kind, c.Variant, c.Ctx, c.Route, indent(main))
	if mod != "" {
		s += "module " + modName + ":\n" + indent(mod)
	}
	return s
}

func indent(s string) string {
	return "    " + strings.ReplaceAll(strings.TrimRight(s, "\n"), "\n", "\n    ") + "\n"
}

func judge(d *mon.Driver, c *CaseData, o *Out, ext []string, called map[string]int) {
	tag := c.Op + ":" + c.Ctx + ":" + c.Route
	sub := func(s string) string { return strings.ReplaceAll(s, bMark, o.B) }
	var real, soft []string

	// (i) answered by the recording OS
	if o.Marked {
		called[c.Op]++
	}
	if c.Events && o.Marked && o.NEv == 0 {
		real = append(real, "no-recording-event: the operation completed without a single call on the supplied OS")
	}
	if o.FirstOS != "" {
		real = append(real, "served-by-another-evaluations-os: "+o.FirstOS)
	}
	// (ii) real content / real identity in anything the script could see or in the virtual state
	visible := []string{o.Result, o.Err, o.Stdout, o.Stderr}
	for k, v := range o.Diff {
		visible = append(visible, k, v)
	}
	for _, rt := range []string{realTok, realOnlyTk} {
		if strings.Contains(c.Setup+c.OpSrc, rt) {
			continue // the script itself mentions it (it is echoed in error messages)
		}
		for _, v := range visible {
			if strings.Contains(v, rt) {
				real = append(real, fmt.Sprintf("real-content: %q", mon.Truncate(v, 200)))
				break
			}
		}
	}
	// the worker's real working directory is known to the script only if the script was given it
	// (abs(...) arguments) or lists the supplied file system from an ancestor of it
	if needle := strings.TrimPrefix(o.B, "/"); len(needle) > 8 && !strings.Contains(c.Setup+c.OpSrc, bMark) && !listingOp(c.Op) {
		for _, v := range visible {
			if strings.Contains(v, needle) {
				real = append(real, fmt.Sprintf("real-cwd-visible: %q", mon.Truncate(v, 200)))
				break
			}
		}
	}
	// the real machine's identity (home directory, host name, user record)
	script := c.Setup + c.OpSrc
	for _, id := range []struct{ what, val string }{{"home directory", o.RealHome}, {"host name", o.RealHost}, {"user record", `"username": "` + o.RealUser + `"`}} {
		if len(id.val) < 4 || strings.Contains(script, id.val) || strings.Contains(id.val, "VERIFSENT") {
			continue
		}
		// as a value of its own: not as the tail of a longer path or name
		re := regexp.MustCompile(`(^|[^A-Za-z0-9_./-])` + regexp.QuoteMeta(id.val) + `($|[^A-Za-z0-9_/.-])`)
		if base := filepath.Base(id.val); id.what == "home directory" && len(base) > 0 && strings.Contains(script, base) {
			continue
		}
		for _, v := range visible {
			if re.MatchString(v) {
				real = append(real, fmt.Sprintf("real-identity: the real %s %q is visible: %q", id.what, id.val, mon.Truncate(v, 200)))
				break
			}
		}
	}
	// real canaries
	real = append(real, o.Real...)
	// (iii)+(iv) real stdout/stderr and strace
	real = append(real, ext...)

	// results and effects expected from the virtual OS
	if o.Marked && c.Kind == "recipe" {
		got := o.Result
		if o.Err != "" && got == "" {
			got = "error: " + o.Err
		}
		if c.Want != "" && got != sub(c.Want) {
			soft = append(soft, fmt.Sprintf("unexpected-result: got %q, the supplied OS holds %q", mon.Truncate(got, 200), sub(c.Want)))
		}
		if c.WantRe != "" {
			if ok, _ := regexp.MatchString(sub(c.WantRe), got); !ok {
				soft = append(soft, fmt.Sprintf("unexpected-result: got %q, want match of %s", mon.Truncate(got, 200), sub(c.WantRe)))
			}
		}
		for _, h := range c.Has {
			if !strings.Contains(got, sub(h)) {
				soft = append(soft, fmt.Sprintf("unexpected-result: got %q, which lacks %q held by the supplied OS", mon.Truncate(got, 300), sub(h)))
			}
		}
		for k, v := range c.Post {
			g, ok := o.Diff[sub(k)]
			if !ok || (v != "*" && g != sub(v)) {
				soft = append(soft, fmt.Sprintf("effect-missing: the supplied OS's state lacks %s=%q after the operation (state changes: %v)", sub(k), sub(v), o.Diff))
			}
		}
		if c.Stdout != "" && !strings.Contains(o.Stdout, c.Stdout) {
			soft = append(soft, fmt.Sprintf("effect-missing: the supplied OS's stdout is %q, want it to contain %q", o.Stdout, c.Stdout))
		}
		if c.Stderr != "" && !strings.Contains(o.Stderr, c.Stderr) {
			soft = append(soft, fmt.Sprintf("effect-missing: the supplied OS's stderr is %q, want it to contain %q", o.Stderr, c.Stderr))
		}
	}
	if !o.Marked && c.Kind == "recipe" && len(real) == 0 {
		// the script failed before the operation: a recipe problem, not a verdict
		d.Inconclusive(fmt.Sprintf("recipe %s %s did not reach the operation: result=%q err=%q", tag, c.Variant, mon.Truncate(o.Result, 100), mon.Truncate(o.Err, 200)))
	}

	d.Event("recording_os_events", o.NEv+o.NSetupEv)
	d.Event("cases_"+c.Kind, 1)
	if o.NEv > 0 {
		d.Event("cases_with_recording_event", 1)
		d.Distinct(c.Op + "#" + c.Variant + ":" + c.Ctx + ":" + c.Route)
	} else if o.Err != "" {
		d.Event("cases_error_without_os_call", 1)
	} else {
		d.Event("cases_pure_no_os_call", 1)
	}
	if c.Kind == "recipe" && o.NEv > 0 && (c.Ctx == "clone" || c.Ctx == "go" || c.Ctx == "module" || c.Ctx == "cancel-defer" || c.Ctx == "bare-vos" || c.Ctx == "shared-globals" || strings.HasPrefix(c.Ctx, "late-")) {
		d.Sample(map[string]any{"op": c.Op, "variant": c.Variant, "ctx": c.Ctx, "route": c.Route, "op_src": c.OpSrc,
			"result": mon.Truncate(o.Result, 120), "err": o.Err, "events": o.Evs, "virtual_state_changes": o.Diff})
	}

	if len(real) == 0 && len(soft) == 0 {
		return
	}
	prefix := "bypass:"
	if len(real) == 0 {
		prefix = "unserved:"
	}
	detail := describe(c) + fmt.Sprintf("result: %q\nerror: %q\nrecording-OS events after the mark (%d): %v\nvirtual stdout: %q\nreal pid %d host %q\n",
		mon.Truncate(o.Result, 300), o.Err, o.NEv, o.Evs, mon.Truncate(o.Stdout, 200), o.RealPid, o.RealHost)
	for _, s := range real {
		detail += "  * " + s + "\n"
	}
	for _, s := range soft {
		detail += "  * " + s + "\n"
	}
	d.Violation(prefix+tag, detail, c)
}
