// Package c02: closures capture variables lexically, at any depth and from any call path
// (reference-model monitor over generated closure scenarios).
//
// A scenario is a tree of nested function literals (depth 1..5). Every function declares locals, reads
// and writes bindings of ANY enclosing function, and hands its child functions on through an escape
// route (called at once, passed to list.map / filter / each / try, returned, stored in a global list or
// map, spawned, or left for the host to fetch with vm.Get and invoke with vm.Call). Escaped functions
// are called later, in a seed-determined order, from main, from a recursive helper (a different call
// chain) and from Go. The oracle is the reference interpreter's environment semantics: one cell per
// binding, shared by everything that can see it.
package c02

import (
	"context"
	"encoding/json"
	"fmt"
	"runtime/debug"
	"strings"
	"time"

	"github.com/risor-io/risor"
	"github.com/risor-io/risor/compiler"
	"github.com/risor-io/risor/object"
	ros "github.com/risor-io/risor/os"
	"github.com/risor-io/risor/parser"
	"github.com/risor-io/risor/vm"

	"verif/internal/gen"
	"verif/internal/mon"
	"verif/internal/rz"
)

const ID = "C02"

func Register() {
	mon.Register(&mon.Prop{ID: ID, Drive: drive})
	mon.RegisterWorker(ID, worker)
}

// ---------------------------------------------------------------------------------------
// scenario generator

type vref struct {
	name  string
	level int
}

type sgen struct {
	r           *mon.Rand
	n           int
	maxDepth    int
	routes      map[string]int
	maxCap      int // deepest capture distance generated (function levels)
	loopCap     bool
	writes      int
	spawn       bool
	budget      int
	pureMid     int  // functions that use no ancestor binding themselves (their descendants do)
	failNext    bool // the next function generated raises an error at the end of its body (after its closures escaped)
	failing     int
	omitted     int // calls that leave a defaulted parameter out
	wrappers    int // `name := func ... name ...` in a nested block
	lateShadows int // captured name read, then re-declared by the function and used from a nested block
}

func id(n string) *gen.Ident { return &gen.Ident{Name: n} }
func num(v int) *gen.IntLit  { return &gen.IntLit{V: int64(v)} }
func es(e gen.Expr) gen.Stmt { return &gen.ExprStmt{X: e} }
func call(f gen.Expr, a ...gen.Expr) *gen.Call {
	return &gen.Call{F: f, Args: a}
}
func decl(n string, e gen.Expr) gen.Stmt  { return &gen.VarDecl{Kind: ":=", Name: n, X: e} }
func list(items ...gen.Expr) *gen.ListLit { return &gen.ListLit{Items: items} }
func method(x gen.Expr, name string, a ...gen.Expr) *gen.MethodCall {
	return &gen.MethodCall{X: x, Name: name, Args: a}
}
func logStmt(tag int, vals ...gen.Expr) gen.Stmt {
	items := append([]gen.Expr{num(tag)}, vals...)
	return es(method(id("log"), "append", list(items...)))
}

func (g *sgen) fresh(p string) string {
	g.n++
	return fmt.Sprintf("%s%d", p, g.n)
}

var routes = []string{"now", "now", "ret", "ret", "global", "map-now", "filter-now", "each-now", "try-now", "mapstore", "spawn", "fspawn", "host", "sorted-now"}

// fn generates a function literal at the given level; env lists the bindings visible from enclosing
// functions (with their levels).
func (g *sgen) fn(level int, env []vref) *gen.FuncLit {
	g.budget--
	fails := g.failNext
	g.failNext = false
	fl := &gen.FuncLit{}
	if g.r.Chance(1, 4) {
		fl.Name = g.fresh("nf") // named function literal: its own name is a binding of its frame
	}
	d := g.fresh("d")
	fl.Params = []gen.Param{{Name: d}}
	if g.r.Chance(1, 4) {
		fl.Params[0].Default = num(1 + g.r.Intn(3))
	}
	mine := []vref{{d, level}}
	var body []gen.Stmt
	// a "pure middle" function uses no binding of its ancestors itself: its descendants are the first to
	// capture them, from frames further down the call stack
	pure := level >= 2 && level < g.maxDepth && g.r.Chance(1, 3)
	if pure {
		g.pureMid++
	}
	ownEnv := env
	if pure {
		ownEnv = nil
	}
	// own locals, some initialised from enclosing bindings
	nl := 1 + g.r.Intn(2)
	if g.r.Chance(1, 8) {
		nl = 9 // more than the 8 in-frame slots
	}
	for i := 0; i < nl; i++ {
		v := g.fresh("v")
		var init gen.Expr = num(g.r.Intn(5))
		if len(ownEnv) > 0 && g.r.Chance(1, 2) {
			e := mon.Pick(g.r, ownEnv)
			init = &gen.Binary{Op: "+", L: id(e.name), R: num(g.r.Intn(3))}
			g.noteCap(level, e.level)
		}
		body = append(body, decl(v, init))
		mine = append(mine, vref{v, level})
	}
	all := append(append([]vref{}, env...), mine...)
	own := append(append([]vref{}, ownEnv...), mine...) // what this function itself reads and writes
	mutate := func(scope []vref) gen.Stmt {
		e := mon.Pick(g.r, scope)
		g.noteCap(level, e.level)
		g.writes++
		if len(scope) >= 2 && g.r.Chance(1, 4) {
			// destructuring assignment to two bindings at once (possibly captured ones)
			e2 := mon.Pick(g.r, scope)
			if e2.name != e.name {
				g.noteCap(level, e2.level)
				return &gen.MultiDecl{Names: []string{e.name, e2.name}, X: list(&gen.Binary{Op: "+", L: id(e2.name), R: num(1 + g.r.Intn(3))}, &gen.Binary{Op: "+", L: id(e.name), R: id(d)})}
			}
		}
		switch g.r.Intn(3) {
		case 0:
			return &gen.Assign{Target: id(e.name), Op: "+=", X: id(d)}
		case 1:
			return &gen.Assign{Target: id(e.name), Op: "=", X: &gen.Binary{Op: "+", L: &gen.Binary{Op: "*", L: id(e.name), R: num(2)}, R: num(1 + g.r.Intn(3))}}
		default:
			return &gen.IncDec{Name: e.name, Op: "++"}
		}
	}
	nops := 1 + g.r.Intn(3)
	for i := 0; i < nops; i++ {
		body = append(body, mutate(own))
	}
	if len(ownEnv) > 0 && g.r.Chance(1, 5) {
		// a captured binding is read first, then the function declares a binding of its own with the same
		// name and uses that one from a nested block: from the declaration on, the name is the local
		e := mon.Pick(g.r, ownEnv)
		g.noteCap(level, e.level)
		g.lateShadows++
		t := g.fresh("t")
		body = append(body, decl(t, &gen.Binary{Op: "+", L: id(e.name), R: num(1)}))
		body = append(body, decl(e.name, &gen.Binary{Op: "+", L: id(t), R: num(100 + g.r.Intn(50))}))
		then := []gen.Stmt{&gen.Assign{Target: id(e.name), Op: "+=", X: id(d)}, logStmt(g.n, id(e.name), id(t))}
		if g.r.Bool() {
			then = append(then, &gen.For{Kind: "three", Init: &gen.VarDecl{Kind: ":=", Name: g.fresh("q"), X: num(0)},
				Cond: &gen.Binary{Op: "<", L: id(fmt.Sprintf("q%d", g.n)), R: num(2)}, Post: &gen.IncDec{Name: fmt.Sprintf("q%d", g.n), Op: "++"},
				Body: []gen.Stmt{&gen.IncDec{Name: e.name, Op: "++"}}})
		}
		body = append(body, es(&gen.IfExpr{Cond: &gen.Binary{Op: ">=", L: id(d), R: num(-1000)}, Then: then}))
		mine = append(mine, vref{t, level})
	}
	if g.r.Chance(1, 4) {
		// wrapper idiom in a nested block: `e := func(x) { ... e ... }` declares a new e for the rest of the
		// block, while the literal's own e is the binding visible where the literal is written (a local or
		// parameter of this function, or a binding of an enclosing function)
		e := mon.Pick(g.r, own)
		g.noteCap(level, e.level)
		g.wrappers++
		x := g.fresh("x")
		lit := &gen.FuncLit{Params: []gen.Param{{Name: x}}, Body: []gen.Stmt{&gen.Return{X: &gen.Binary{Op: "+", L: id(e.name), R: id(x)}}}}
		then := []gen.Stmt{decl(e.name, lit), logStmt(g.n, call(id(e.name), num(1+g.r.Intn(4))))}
		if g.r.Chance(1, 2) {
			// ... and the outer binding keeps changing underneath the wrapper
			then = append(then, &gen.Assign{Target: id("g0"), Op: "+=", X: call(id(e.name), num(1))})
		}
		body = append(body, es(&gen.IfExpr{Cond: &gen.Binary{Op: ">=", L: id(d), R: num(-1000)}, Then: then}))
	}
	// children
	var rets []gen.Expr
	place := func(child *gen.FuncLit, scope *[]gen.Stmt, inLoop bool, forceTry bool) {
		route := mon.Pick(g.r, routes)
		if forceTry {
			route = "try-now"
		}
		if inLoop && route == "ret" {
			route = "global" // a name declared in the loop body is not visible at the function's return
		}
		if (route == "spawn" || route == "fspawn") && !g.spawn {
			route = "now"
		}
		g.routes[route]++
		c := g.fresh("c")
		*scope = append(*scope, decl(c, child))
		tag := g.n
		switch route {
		case "now":
			if len(child.Params) == 1 && child.Params[0].Default != nil && g.r.Chance(1, 2) {
				// the defaulted parameter is left out: the closure's own default fills it
				g.omitted++
				*scope = append(*scope, logStmt(tag, call(id(c))))
			}
			*scope = append(*scope, logStmt(tag, call(id(c), num(1+g.r.Intn(3)))))
			if g.r.Chance(1, 2) {
				*scope = append(*scope, logStmt(tag, call(id(c), num(2)))) // called twice: state persists
			}
		case "map-now":
			*scope = append(*scope, logStmt(tag, method(list(num(1), num(2)), "map", id(c))))
		case "filter-now":
			*scope = append(*scope, logStmt(tag, method(list(num(1), num(2), num(3)), "filter", id(c))))
		case "each-now":
			*scope = append(*scope, es(method(list(num(4), num(5)), "each", id(c))))
		case "sorted-now":
			// comparator with two parameters wrapping the child
			a, b := g.fresh("a"), g.fresh("b")
			cmp := &gen.FuncLit{Params: []gen.Param{{Name: a}, {Name: b}}, Body: []gen.Stmt{
				es(call(id(c), id(a))),
				&gen.Return{X: &gen.Binary{Op: "<", L: id(a), R: id(b)}}}}
			*scope = append(*scope, logStmt(tag, call(id("sorted"), list(num(3), num(1), num(2)), cmp)))
		case "try-now":
			wrap := &gen.FuncLit{Body: []gen.Stmt{&gen.Return{X: call(id(c), num(2))}}}
			*scope = append(*scope, logStmt(tag, call(id("try"), wrap, num(-1))))
		case "ret":
			rets = append(rets, id(c))
		case "global":
			*scope = append(*scope, es(method(id("fns"), "append", id(c))))
		case "mapstore":
			*scope = append(*scope, &gen.Assign{Target: &gen.Index{X: id("fmap"), I: &gen.StrLit{V: c}}, Op: "=", X: id(c)})
		case "spawn":
			*scope = append(*scope, logStmt(tag, method(call(id("spawn"), id(c), num(3)), "wait")))
		case "fspawn":
			*scope = append(*scope, logStmt(tag, method(method(id(c), "spawn", num(3)), "wait")))
		case "host":
			*scope = append(*scope, es(method(id("hostfns"), "append", id(c))))
		}
	}
	if level < g.maxDepth && g.budget > 0 {
		nch := 1 + g.r.Intn(2)
		for i := 0; i < nch; i++ {
			if g.r.Chance(1, 3) {
				// children created in a loop capture the loop variable (one binding per activation)
				lv := g.fresh("i")
				g.loopCap = true
				var lbody []gen.Stmt
				inner := append(append([]vref{}, all...), vref{lv, level})
				if g.r.Chance(1, 2) {
					j := g.fresh("j")
					lbody = append(lbody, decl(j, &gen.Binary{Op: "*", L: id(lv), R: num(10)}))
					inner = append(inner, vref{j, level})
				}
				place(g.fn(level+1, inner), &lbody, true, false)
				f := &gen.For{Kind: "three", Init: &gen.VarDecl{Kind: ":=", Name: lv, X: num(0)}, Cond: &gen.Binary{Op: "<", L: id(lv), R: num(2)}, Post: &gen.IncDec{Name: lv, Op: "++"}, Body: lbody}
				if g.r.Chance(1, 3) {
					f = &gen.For{Kind: "range2", K: lv, V: g.fresh("e"), Iter: list(num(7), num(8)), Body: lbody}
				}
				body = append(body, f)
			} else {
				if level+1 < g.maxDepth && g.r.Chance(1, 5) {
					g.failNext = true
					place(g.fn(level+1, all), &body, false, true)
				} else {
					place(g.fn(level+1, all), &body, false, false)
				}
			}
			if g.r.Chance(1, 2) {
				body = append(body, mutate(own)) // the creator keeps changing the bindings after creation
			}
		}
	}
	// result: own view of some bindings + returned children
	var view []gen.Expr
	for i := 0; i < 2 && i < len(own); i++ {
		e := mon.Pick(g.r, own)
		g.noteCap(level, e.level)
		view = append(view, id(e.name))
	}
	body = append(body, logStmt(1000+level, view...))
	if fails {
		// this activation ends in an error after the closures it made have escaped (the caller survives it
		// with try): the bindings those closures captured stay what they were
		g.failing++
		body = append(body, es(call(id("error"), &gen.StrLit{V: fmt.Sprintf("fail%d", g.n)})))
	}
	switch {
	case len(rets) == 0:
		body = append(body, &gen.Return{X: &gen.Binary{Op: "+", L: id(d), R: view[0]}})
	default:
		body = append(body, &gen.Return{X: list(append(view, rets...)...)})
	}
	fl.Body = body
	return fl
}

func (g *sgen) noteCap(from, to int) {
	if from-to > g.maxCap {
		g.maxCap = from - to
	}
}

// scenario builds the whole program.
func scenario(r *mon.Rand, spawn bool) (*gen.Program, *sgen) {
	g := &sgen{r: r, maxDepth: 1 + r.Intn(5), routes: map[string]int{}, spawn: spawn, budget: 14}
	p := &gen.Program{}
	p.Stmts = append(p.Stmts,
		decl("log", list()), decl("fns", list()), decl("hostfns", list()),
		decl("fmap", &gen.MapLit{}), decl("out", list()), decl("g0", num(1)))
	// drain(x): call every function found in x (recursively), append everything else to out
	x, e := "dx", "de"
	drain := &gen.FuncLit{Name: "drain", Params: []gen.Param{{Name: x}}, Body: []gen.Stmt{
		es(&gen.IfExpr{Cond: &gen.Binary{Op: "==", L: call(id("type"), id(x)), R: &gen.StrLit{V: "function"}},
			Then: []gen.Stmt{es(call(id("drain"), call(id(x), num(7))))},
			ElseIf: &gen.IfExpr{Cond: &gen.Binary{Op: "==", L: call(id("type"), id(x)), R: &gen.StrLit{V: "list"}},
				Then:    []gen.Stmt{&gen.For{Kind: "range2", K: "dk", V: e, Iter: id(x), Body: []gen.Stmt{es(call(id("drain"), id(e)))}}},
				HasElse: true, Else: []gen.Stmt{es(method(id("out"), "append", id(x)))}}}),
		&gen.Return{X: &gen.NilLit{}},
	}}
	p.Stmts = append(p.Stmts, &gen.FuncDecl{F: drain})
	// one or two top-level scenario functions
	ntop := 1 + r.Intn(2)
	var tops []string
	for i := 0; i < ntop; i++ {
		f := g.fn(1, nil) // globals are reachable anyway (g0)
		name := g.fresh("top")
		f.Name = name
		p.Stmts = append(p.Stmts, &gen.FuncDecl{F: f})
		tops = append(tops, name)
	}
	// invoke: results drained in a seed-determined order, through different call chains
	var results []string
	for _, tname := range tops {
		for k := 0; k < 1+r.Intn(2); k++ {
			rn := g.fresh("r")
			p.Stmts = append(p.Stmts, decl(rn, call(id(tname), num(2+k))))
			results = append(results, rn)
		}
	}
	order := r.Perm(len(results))
	for _, oi := range order {
		p.Stmts = append(p.Stmts, es(call(id("drain"), id(results[oi]))))
		if r.Chance(1, 2) {
			p.Stmts = append(p.Stmts, es(call(id("drain"), id(results[oi])))) // again: closures keep their state
		}
	}
	// globally stored functions: called from main directly, in reverse, and through the map (sorted keys)
	p.Stmts = append(p.Stmts, &gen.For{Kind: "range2", K: "gi", V: "gf", Iter: call(id("reversed"), id("fns")), Body: []gen.Stmt{
		es(method(id("out"), "append", call(id("gf"), id("gi"))))}})
	p.Stmts = append(p.Stmts, &gen.For{Kind: "range2", K: "mk", V: "mf", Iter: id("fmap"), Body: []gen.Stmt{
		es(call(id("drain"), call(id("mf"), num(5))))}})
	p.Stmts = append(p.Stmts, es(call(id("drain"), id("fns"))))
	p.Stmts = append(p.Stmts, es(list(id("log"), id("out"), id("g0"))))
	return p, g
}

// ---------------------------------------------------------------------------------------
// execution

type realRun struct {
	Result  string
	Err     string
	ErrText string
	GoPanic string
	Host    []string // results of vm.Call on each function in hostfns, then the final log/out
}

func runReal(src string, spawn bool, hostArgs []int64) (rr realRun) {
	ctx, cancel := context.WithTimeout(context.Background(), realDeadline)
	defer cancel()
	defer func() {
		if r := recover(); r != nil {
			rr.GoPanic = fmt.Sprintf("%v\n%s", r, debug.Stack())
		}
	}()
	stdout := &rz.OutFile{}
	vos := ros.NewVirtualOS(ctx, ros.WithStdout(stdout))
	opts := []risor.Option{risor.WithOS(vos)}
	if spawn {
		opts = append(opts, risor.WithConcurrency())
	}
	cfg := risor.NewConfig(opts...)
	prog, err := parser.Parse(ctx, src)
	if err != nil {
		rr.Err, rr.ErrText = "front-end", err.Error()
		return
	}
	code, err := compiler.Compile(prog, cfg.CompilerOpts()...)
	if err != nil {
		rr.Err, rr.ErrText = "front-end", err.Error()
		return
	}
	machine := vm.New(code, cfg.VMOpts()...)
	if err := machine.Run(ctx); err != nil {
		rr.ErrText = err.Error()
		rr.Err = rz.ClassifyErr(rr.ErrText)
		if ctx.Err() != nil {
			rr.Err = "timeout"
		}
		return
	}
	if tos, ok := machine.TOS(); ok && tos != nil {
		rr.Result = string(tos.Type()) + ":" + renderShallow(tos)
	}
	// the host fetches the functions the script left for it and calls them
	hf, err := machine.Get("hostfns")
	if err != nil {
		return
	}
	l, ok := hf.(*object.List)
	if !ok {
		return
	}
	for i, item := range l.Value() {
		fn, ok := item.(*object.Function)
		if !ok {
			rr.Host = append(rr.Host, "not-a-function")
			continue
		}
		arg := hostArgs[i%len(hostArgs)]
		res, err := machine.Call(ctx, fn, []object.Object{object.NewInt(arg)})
		if err != nil {
			rr.Host = append(rr.Host, "error:"+rz.ClassifyErr(err.Error()))
			continue
		}
		rr.Host = append(rr.Host, renderShallow(res))
	}
	for _, name := range []string{"log", "out", "g0"} {
		if v, err := machine.Get(name); err == nil && v != nil {
			rr.Host = append(rr.Host, name+"="+renderShallow(v))
		}
	}
	return
}

// renderShallow renders a value; functions inside lists print as "function" (their Inspect is source text).
func renderShallow(o object.Object) string {
	if o == nil {
		return "<nil-object>"
	}
	switch x := o.(type) {
	case *object.Function:
		return "function"
	case *object.List:
		parts := make([]string, len(x.Value()))
		for i, e := range x.Value() {
			parts[i] = renderShallow(e)
		}
		return "[" + strings.Join(parts, ", ") + "]"
	}
	return o.Inspect()
}

func renderShallowModel(v gen.Value) string {
	switch x := v.(type) {
	case *gen.Closure:
		return "function"
	case *gen.List:
		parts := make([]string, len(x.Items))
		for i, e := range x.Items {
			parts[i] = renderShallowModel(e)
		}
		return "[" + strings.Join(parts, ", ") + "]"
	}
	return gen.Inspect(v)
}

type modelRun struct {
	Result string
	Err    string
	Host   []string
	Tags   map[string]bool
	Steps  int
}

func runModel(p *gen.Program, hostArgs []int64) (mr modelRun, ok bool, herr error) {
	in := gen.NewInterp()
	defer func() {
		if r := recover(); r != nil {
			herr = fmt.Errorf("model panic: %v\n%s", r, debug.Stack())
		}
	}()
	out, ok := in.Run(p)
	mr.Tags = in.Tags
	mr.Steps = in.Steps
	if !ok {
		return mr, false, nil
	}
	mr.Err = out.Err
	if out.Err != "" {
		return mr, true, nil
	}
	// final value: [log, out, g0] rendered shallowly
	if v, found := resultValue(in); found {
		mr.Result = "list:" + renderShallowModel(v)
	} else {
		mr.Result = out.Result
	}
	hf, found := in.GlobalValue("hostfns")
	if found {
		if l, isList := hf.(*gen.List); isList {
			for i, item := range l.Items {
				clo, isFn := item.(*gen.Closure)
				if !isFn {
					mr.Host = append(mr.Host, "not-a-function")
					continue
				}
				res, rerr, okc := in.CallValue(clo, []gen.Value{hostArgs[i%len(hostArgs)]})
				if !okc {
					return mr, false, nil
				}
				if rerr != nil {
					cat := rerr.Cat
					if cat == "user" {
						cat = "user:" + rerr.Msg
					}
					mr.Host = append(mr.Host, "error:"+cat)
					continue
				}
				mr.Host = append(mr.Host, renderShallowModel(res))
			}
		}
	}
	for _, name := range []string{"log", "out", "g0"} {
		if v, found := in.GlobalValue(name); found {
			mr.Host = append(mr.Host, name+"="+renderShallowModel(v))
		}
	}
	mr.Tags = in.Tags
	return mr, true, nil
}

func resultValue(in *gen.Interp) (gen.Value, bool) {
	log, ok1 := in.GlobalValue("log")
	out, ok2 := in.GlobalValue("out")
	g0, ok3 := in.GlobalValue("g0")
	if !ok1 || !ok2 || !ok3 {
		return nil, false
	}
	return &gen.List{Items: []gen.Value{log, out, g0}}, true
}

// ---------------------------------------------------------------------------------------

type caseData struct {
	Seed  uint64 `json:"seed"`
	From  int    `json:"from"`
	N     int    `json:"n"`
	Spawn bool   `json:"spawn"`
}

type failure struct {
	Index  int    `json:"index"`
	Sig    string `json:"sig"`
	Detail string `json:"detail"`
	Source string `json:"source"`
}

type out struct {
	Scenarios   int            `json:"scenarios"`
	Discarded   int            `json:"discarded"`
	Agree       int            `json:"agree"`
	Deep        int            `json:"deep"`          // scenarios with a capture >= 2 levels up
	DeepOnStack int            `json:"deep_on_stack"` // ... all of whose deep captures were created with the ancestor on the call stack
	DeepOff     int            `json:"deep_off"`      // ... at least one off-stack deep capture (recorded finding D1 applies)
	Routes      map[string]int `json:"routes"`
	HostCalls   int            `json:"host_calls"`
	Omitted     int            `json:"omitted"`  // calls of a closure that leave its defaulted parameter out
	Wrappers    int            `json:"wrappers"` // `name := func ... name ...` declarations in a nested block
	LateShadows int            `json:"late_shadows"`
	Sigs        []string       `json:"sigs"`
	Fail        []failure      `json:"fail"`
	Samples     []string       `json:"samples"`
	Harness     []string       `json:"harness"`
}

var hostArgs = []int64{9, 4, 6}

// realDeadline is the watchdog of one real evaluation (see the repeat rule in worker).
var realDeadline = 20 * time.Second

func worker(kind string, data json.RawMessage) any {
	var c caseData
	if err := json.Unmarshal(data, &c); err != nil {
		panic(err)
	}
	o := &out{Routes: map[string]int{}}
	for i := c.From; i < c.From+c.N; i++ {
		r := mon.NewRand(c.Seed).SplitN(i)
		p, g := scenario(r, c.Spawn)
		o.Scenarios++
		mr, ok, herr := runModel(p, hostArgs)
		if herr != nil {
			if len(o.Harness) < 3 {
				o.Harness = append(o.Harness, herr.Error()+"\n"+gen.RenderProgram(p))
			}
			continue
		}
		if !ok {
			o.Discarded++
			continue
		}
		src := gen.RenderProgram(p)
		rr := runReal(src, c.Spawn, hostArgs)
		if rr.Err == "timeout" {
			// the scenarios are small and the model has bounded them: on a loaded machine the watchdog can
			// fire without any fault, so only a repeat with a five times longer deadline counts
			realDeadline = 100 * time.Second
			rr = runReal(src, c.Spawn, hostArgs)
			realDeadline = 20 * time.Second
		}
		for k, v := range g.routes {
			o.Routes[k] += v
		}
		o.HostCalls += len(rr.Host)
		o.Omitted += g.omitted
		o.Wrappers += g.wrappers
		o.LateShadows += g.lateShadows
		if mr.Tags["deep-capture"] {
			o.Deep++
			if mr.Tags["deep-capture-off-stack"] {
				o.DeepOff++
			} else {
				o.DeepOnStack++
			}
		}
		var diff []string
		if rr.GoPanic != "" {
			diff = append(diff, "go panic escaped: "+mon.Truncate(rr.GoPanic, 600))
		}
		if rr.Err != mr.Err {
			diff = append(diff, fmt.Sprintf("error: model %q, real %q (%s)", mr.Err, rr.Err, rr.ErrText))
		} else if rr.Result != mr.Result {
			diff = append(diff, fmt.Sprintf("result [log, out, g0]:\n  model %s\n  real  %s", mr.Result, rr.Result))
		}
		if rr.Err == "" && mr.Err == "" && strings.Join(rr.Host, " | ") != strings.Join(mr.Host, " | ") {
			diff = append(diff, fmt.Sprintf("host calls (vm.Get + vm.Call) and final state:\n  model %v\n  real  %v", mr.Host, rr.Host))
		}
		routes := make([]string, 0)
		for k := range g.routes {
			routes = append(routes, k)
		}
		shape := fmt.Sprintf("depth%d|cap%d|loop=%v|%s", g.maxDepth, g.maxCap, g.loopCap, strings.Join(sortStrings(routes), ","))
		if len(diff) == 0 {
			o.Agree++
			if g.writes > 0 {
				o.Sigs = append(o.Sigs, shape)
			}
			if len(o.Samples) < 1 && i%29 == 0 && g.maxDepth >= 3 {
				o.Samples = append(o.Samples, src)
			}
			continue
		}
		sig := "closure-state-differs"
		switch {
		case mr.Tags["deep-capture-off-stack"]:
			// recorded finding D1: only when the model says an off-stack deep capture happened in this run
			sig = "deep-capture:ancestor-activation-not-on-call-stack"
		case mr.Tags["deep-capture"]:
			sig = "deep-capture:ancestor-on-call-stack:state-differs"
		case g.maxCap <= 1:
			sig = "depth-1-capture:state-differs"
		}
		if rr.GoPanic != "" && !mr.Tags["deep-capture-off-stack"] {
			sig += ":go-panic"
		}
		if len(o.Fail) < 12 {
			o.Fail = append(o.Fail, failure{Index: i, Sig: sig, Detail: strings.Join(diff, "\n"), Source: src})
		}
	}
	return o
}

func sortStrings(s []string) []string {
	for i := 1; i < len(s); i++ {
		for j := i; j > 0 && s[j] < s[j-1]; j-- {
			s[j], s[j-1] = s[j-1], s[j]
		}
	}
	return s
}

func drive(d *mon.Driver, replay string) int {
	d.Rule = "scenarios are trees of nested function literals (depth 1..5; named and anonymous; parameters with defaults; >8 locals; children created in loops capturing loop variables) in which every function reads and writes bindings of any enclosing function and passes its children on through an escape route (called at once, list.map/filter/each, sorted comparator, try, returned, global list, map, spawn(), f.spawn(), left for the host); escaped functions are called later in a seed-determined order from main, from a recursive helper and from Go (vm.Get + vm.Call). Compared with the reference interpreter: the log of every observation, every returned value, final state. distinct+non-trivial: (depth, deepest capture distance, loop capture, set of routes) with >= 1 binding written through a closure"
	d.Assume = []string{"spawned calls are waited for immediately, so no interleaving is observable", "the dynamic tag 'deep capture created while the lexical ancestor's activation is not at the matching position of the call stack' (computed by the model, which mirrors the VM's frame stack) attributes disagreements to recorded finding D1; disagreements without that tag are violations"}
	var cases []mon.Case
	if replay != "" {
		var c caseData
		if err := mon.LoadReplay(replay, &c); err != nil {
			fmt.Println("cannot load replay:", err)
			return 3
		}
		cases = append(cases, mon.NewCase("replay", "replay", c))
	} else {
		r := d.Rand("scenarios")
		seed := r.Uint64()
		total := d.N(8000, 400000)
		per := 250
		for from := 0; from < total; from += per {
			cases = append(cases, mon.NewCase(fmt.Sprintf("sc-%d", from), "sc", caseData{Seed: seed, From: from, N: per, Spawn: (from/per)%2 == 0}))
		}
	}
	routes := map[string]int{}
	var deep, deepOn, deepOff int
	d.RunPool(cases, mon.PoolOpts{BatchSize: 1, BatchTimeout: 600e9}, func(c mon.Case, res mon.Result) {
		var cd caseData
		_ = json.Unmarshal(c.Data, &cd)
		if res.Status != "done" {
			detail := ""
			if res.Crash != nil {
				detail = res.Crash.Exit + " " + res.Crash.FatalLine + "\n" + mon.Truncate(res.Crash.StderrTail, 2000)
			}
			if res.Status == "crash" && res.Crash != nil && res.Crash.Confirmed {
				d.Violation("worker-died", detail, cd)
			} else {
				d.Inconclusive("worker " + c.ID + ": " + res.Status + " " + mon.Truncate(detail, 300))
			}
			return
		}
		if res.Panic != "" {
			d.Fatal("harness panic in worker: " + res.Panic)
			return
		}
		var o out
		if err := json.Unmarshal(res.Data, &o); err != nil {
			d.Fatal("bad worker output: " + err.Error())
			return
		}
		for _, h := range o.Harness {
			d.Fatal("reference interpreter failed (harness bug): " + mon.Truncate(h, 2500))
		}
		d.Eval(o.Scenarios - o.Discarded)
		d.Event("scenarios-agree", o.Agree)
		d.Event("scenarios-with-capture-2+-levels-up", o.Deep)
		d.Event("deep-captures-all-on-stack", o.DeepOnStack)
		d.Event("deep-captures-off-stack(D1-shape)", o.DeepOff)
		d.Event("host-side-calls-and-reads", o.HostCalls)
		d.Event("closure-calls-with-defaulted-parameter-left-out", o.Omitted)
		d.Event("wrapper-declarations-shadowing-the-name-they-use", o.Wrappers)
		d.Event("captured-name-read-then-redeclared-and-used-in-nested-block", o.LateShadows)
		d.Event("discarded-undecided", o.Discarded)
		deep += o.Deep
		deepOn += o.DeepOnStack
		deepOff += o.DeepOff
		for k, v := range o.Routes {
			routes[k] += v
			d.Event("route:"+k, v)
		}
		for _, s := range o.Sigs {
			d.Distinct(s)
		}
		for _, s := range o.Samples {
			d.Sample(s)
		}
		for _, f := range o.Fail {
			rc := cd
			rc.From = f.Index
			rc.N = 1
			d.Violation(f.Sig, mon.Truncate(f.Detail, 3000)+"\n--- scenario:\n"+mon.Truncate(f.Source, 6000), rc)
		}
	})
	d.Extra("escape_routes_exercised", routes)
	if replay != "" {
		return d.Finish(0, 0)
	}
	for _, rt := range []string{"now", "ret", "global", "map-now", "filter-now", "each-now", "try-now", "mapstore", "spawn", "fspawn", "host", "sorted-now"} {
		if routes[rt] == 0 {
			d.Fatal("escape route never exercised: " + rt)
		}
	}
	return d.Finish(d.N(5000, 250000), d.N(150, 400))
}
