package props

import "verif/internal/props/c05"

func init() { registrars = append(registrars, c05.Register) }
