// Package c06: cancelling the context stops the evaluation and everything it started.
//
// Liveness is restated as bounded progress. Every workload is a program that never terminates by
// itself (a catalogue of looping / blocking shapes, at top level or inside goroutines nested to depth
// 3) and whose only observable progress is a host builtin tick() (an atomic counter). The cancellation
// instant is logical: the k-th tick() call cancels the context; shapes that block without ticking call
// the host builtin parked() immediately before blocking and a driver goroutine cancels a short delay
// later. For the deadline variant a context.WithTimeout is used: the workload never ends by itself, so
// whenever the deadline fires it fires mid-run.
//
// Oracle per case:
//
//	(1) risor.Eval returns (the only time-based element is a generous wall-clock watchdog; a hit is
//	    re-run alone and only a repeatable non-return is reported)            -> no-return:<shape>
//	(2) the returned error satisfies errors.Is(err, ctx.Err())               -> wrong-error:<shape>:<symptom>
//	(3) at most T*goroutines further tick() calls happen between the cancellation and the return
//	                                                                         -> too-many-ticks-after-cancel:<shape>
//	(4) after the return the tick counter stops advancing: it is sampled every settleStep; the case
//	    passes as soon as two consecutive samples are equal and fails only if the counter advanced in
//	    every one of settleMax consecutive intervals                          -> runs-after-return:<shape>:<nesting>
//
// Between the cancellation and the return tick() is cooperative (runtime.Gosched plus a short, growing
// sleep), so that the bound in (3) counts script steps and does not depend on how fast the operating
// system schedules the watcher goroutine on a loaded machine. Every candidate violation is re-run alone
// and only reported when it repeats.
package c06

import (
	"context"
	"encoding/json"
	"errors"
	"fmt"
	"os"
	"os/exec"
	"path/filepath"
	"regexp"
	"runtime"
	"sort"
	"strconv"
	"strings"
	"sync"
	"sync/atomic"
	"syscall"
	"time"

	"github.com/risor-io/risor"
	"github.com/risor-io/risor/compiler"
	"github.com/risor-io/risor/object"
	"github.com/risor-io/risor/parser"
	"github.com/risor-io/risor/vm"

	"verif/internal/mon"
	"verif/internal/props/racelog"
)

const ID = "C06"

func Register() {
	mon.Register(&mon.Prop{ID: ID, Drive: drive})
	mon.RegisterWorker(ID, worker)
}

const (
	tickBound  = 256                   // T: further ticks allowed per ticking goroutine between cancel and return
	settleStep = 40 * time.Millisecond // distance of the samples taken after the return
	settleMax  = 8                     // the counter must advance in all of these intervals to count as "keeps running"
	watchdog   = 10 * time.Second
)

// ---------------------------------------------------------------------------------------
// case description

type caseData struct {
	Shape string   `json:"shape"`
	Tail  string   `json:"tail"`  // loop | end | "" (shape cannot exit)
	Chain []string `json:"chain"` // spawn forms, outermost first; empty: the shape runs in the main program
	Mid   string   `json:"mid"`   // exit | loop : what intermediate goroutines do after spawning
	Mode  string   `json:"mode"`  // cancel | deadline
	K     int64    `json:"k"`     // cancel mode, tick shapes: the k-th tick cancels
	// cancel mode, park shapes: delay between parked() and cancel(); deadline mode: the timeout
	DelayUS int `json:"delay_us"`
	Procs   int `json:"procs,omitempty"` // GOMAXPROCS of the worker (0: default)
	// Reuse: "" = one risor.Eval on a new VM; else the name of a reuseForm: the workload is a later
	// invocation on a VM that was already run with the same context
	Reuse string `json:"reuse,omitempty"`
	// Ctx: "" = context.WithCancel / context.WithTimeout of Background; else the name of a ctxKind
	Ctx    string `json:"ctx,omitempty"`
	Src    string `json:"src"`
	Repeat int    `json:"repeat,omitempty"` // confirmation / replay: run this many times
}

func (c *caseData) nesting() string {
	if len(c.Chain) == 0 {
		return "none"
	}
	s := strings.Join(c.Chain, ">")
	if c.Mid == "loop" && len(c.Chain) > 1 {
		s += "(all-levels-loop)"
	}
	return s
}

func (c *caseData) shapeTag() string {
	t := c.Shape
	if c.Tail == "end" {
		t += ";end"
	}
	t += c.reuseTag()
	if c.Ctx != "" {
		t += "%" + c.Ctx
	}
	return t
}

func (c *caseData) reuseTag() string {
	if c.Reuse != "" {
		return "@" + c.Reuse
	}
	return ""
}

func (c *caseData) instant() string {
	sh := shapeByName(c.Shape)
	if c.Mode == "deadline" {
		return fmt.Sprintf("deadline-%dus", c.DelayUS)
	}
	if sh != nil && sh.Kind == "park" {
		return fmt.Sprintf("parked+%dus", c.DelayUS)
	}
	return fmt.Sprintf("tick-%d", c.K)
}

func (c *caseData) key() string {
	return fmt.Sprintf("%s|%s|%s|%s|p%d", c.shapeTag(), c.nesting(), c.instant(), c.Mode, c.Procs)
}

// ---------------------------------------------------------------------------------------
// worker: runs one case and reports what was observed

type obs struct {
	Returned    bool    `json:"returned"`
	ErrNil      bool    `json:"err_nil"`
	ErrIs       bool    `json:"err_is"`
	ErrText     string  `json:"err_text"`
	ErrIsCause  bool    `json:"err_is_cause,omitempty"` // the error is the cause the host recorded, not ctx.Err()
	CtxErr      string  `json:"ctx_err"`
	Value       string  `json:"value"`
	CancelTick  int64   `json:"cancel_tick"` // ticks made before the cancellation (-1: never cancelled)
	Parked      bool    `json:"parked"`      // parked() was called before the cancellation
	AtReturn    int64   `json:"at_return"`
	After       int64   `json:"after"` // ticks begun after the cancellation had been carried out and before the return
	Samples     []int64 `json:"samples"`
	Settled     bool    `json:"settled"`
	Running     bool    `json:"running"`
	Gor0        int     `json:"gor0"`
	Gor1        int     `json:"gor1"`
	WallMs      int64   `json:"wall_ms"`
	ReturnMs    int64   `json:"return_ms"` // cancel -> return
	HarnessNote string  `json:"note,omitempty"`
	Early       bool    `json:"early,omitempty"` // reuse forms: the deadline passed during an earlier invocation
}

type multi struct {
	Runs []obs `json:"runs"`
}

func worker(kind string, data json.RawMessage) any {
	if kind == "race" {
		return raceWorker(data)
	}
	var c caseData
	if err := json.Unmarshal(data, &c); err != nil {
		return multi{Runs: []obs{{HarnessNote: "bad case: " + err.Error()}}}
	}
	if c.Procs > 0 {
		runtime.GOMAXPROCS(c.Procs)
	}
	n := c.Repeat
	if n <= 0 {
		n = 1
	}
	var m multi
	for i := 0; i < n; i++ {
		o := runCase(&c)
		m.Runs = append(m.Runs, o)
		if o.Returned && i+1 < n && len(m.Runs) > 0 && !m.Runs[0].Returned {
			break // it hung once and returned now: not a repeatable hang, no need to go on
		}
	}
	return m
}

// hangsSeen counts evaluations that did not return in this worker process. Real hangs are
// deterministic, so after a few of them the remaining cases of the batch get a shorter watchdog (every
// candidate is re-run alone with the full watchdog before anything is reported).
var hangsSeen atomic.Int32

type evalResult struct {
	v    object.Object
	err  error
	pan  string
	note string // harness problem in an earlier invocation of a reuse form
}

func compileWith(ctx context.Context, cfg *risor.Config, src string) (*compiler.Code, error) {
	ast, err := parser.Parse(ctx, src)
	if err != nil {
		return nil, err
	}
	return compiler.Compile(ast, cfg.CompilerOpts()...)
}

type ctxKey struct{}

// Context kinds. The oracle is always about the context that is handed to the evaluation: the returned
// error must satisfy errors.Is(err, ctx.Err()) (Canceled or DeadlineExceeded, as that context says),
// whatever cause the host has recorded and however the context was derived.
type ctxKind struct {
	Name string
	Mode string // cancel | deadline
	What string
}

var ctxKinds = []ctxKind{
	{"cancel-cause", "cancel", "context.WithCancelCause(bg), cancelled with cause errHost"},
	{"parent-cause-child", "cancel", "WithCancel(WithValue(parent)) where parent = WithCancelCause(bg) is cancelled with cause errHost"},
	{"custom", "cancel", "a context.Context implemented by the host (own Done channel, Err = context.Canceled)"},
	{"custom-child", "cancel", "context.WithCancel(host-implemented context); the host context is cancelled"},
	{"afterfunc-cause", "cancel", "child = WithCancelCause(bg), cancelled by context.AfterFunc(parent, ...) with the parent's cause when the parent is cancelled with errHost"},
	// a deadline far beyond anything the script waits for, and an early explicit cancellation
	{"far-deadline-cancelled", "cancel", "context.WithTimeout(bg, 2400h), ended early by its cancel()"},
	{"far-deadline-child-of-cancelled-parent", "cancel", "context.WithTimeout(parent, 2400h) where parent = WithCancel(bg) is cancelled early"},
	{"cancelled-child-of-far-deadline", "cancel", "WithCancel(parent), cancelled early, where parent = context.WithDeadline(bg, now+2400h)"},
	{"deadline", "deadline", "context.WithDeadline(bg, now+d)"},
	{"timeout-cause", "deadline", "context.WithTimeoutCause(bg, d, errHost)"},
	{"deadline-cause", "deadline", "context.WithDeadlineCause(bg, now+d, errHost)"},
	{"parent-timeout-cause-child", "deadline", "WithCancel(WithValue(parent)) where parent = context.WithTimeoutCause(bg, d, errHost)"},
}

func ctxKindByName(n string) *ctxKind {
	for i := range ctxKinds {
		if ctxKinds[i].Name == n {
			return &ctxKinds[i]
		}
	}
	return nil
}

var errHost = errors.New("host is shutting down")

// farDeadline lies beyond the end of every sleep of the catalogue (the longest is 10^6 s)
const farDeadline = 2400 * time.Hour

// hostCtx is a context implemented outside the standard library
type hostCtx struct {
	done chan struct{}
	mu   sync.Mutex
	err  error
}

func (h *hostCtx) Deadline() (time.Time, bool) { return time.Time{}, false }
func (h *hostCtx) Done() <-chan struct{}       { return h.done }
func (h *hostCtx) Value(any) any               { return nil }
func (h *hostCtx) Err() error {
	h.mu.Lock()
	defer h.mu.Unlock()
	return h.err
}
func (h *hostCtx) cancel() {
	h.mu.Lock()
	if h.err == nil {
		h.err = context.Canceled
		close(h.done)
	}
	h.mu.Unlock()
}

// makeContext builds the context of a case: ctx is what the evaluation gets, cancel carries out the
// cancellation (cancel mode; it returns when ctx is done), release frees everything at the end.
func makeContext(c *caseData) (ctx context.Context, cancel func(), release func()) {
	bg := context.Background()
	d := time.Duration(c.DelayUS) * time.Microsecond
	var rel []func()
	release = func() {
		for _, f := range rel {
			f()
		}
	}
	switch c.Ctx {
	case "cancel-cause":
		x, cc := context.WithCancelCause(bg)
		return x, func() { cc(errHost) }, release
	case "parent-cause-child":
		p, pc := context.WithCancelCause(bg)
		x, xc := context.WithCancel(context.WithValue(p, ctxKey{}, 1))
		rel = append(rel, xc)
		return x, func() { pc(errHost) }, release
	case "custom":
		h := &hostCtx{done: make(chan struct{})}
		return h, h.cancel, release
	case "custom-child":
		h := &hostCtx{done: make(chan struct{})}
		x, xc := context.WithCancel(h)
		rel = append(rel, xc, h.cancel)
		return x, func() {
			h.cancel()
			select { // the standard library forwards the cancellation from another goroutine
			case <-x.Done():
			case <-time.After(5 * time.Second):
			}
		}, release
	case "afterfunc-cause":
		p, pc := context.WithCancelCause(bg)
		x, xc := context.WithCancelCause(bg)
		stop := context.AfterFunc(p, func() { xc(context.Cause(p)) })
		rel = append(rel, func() { stop(); xc(nil); pc(nil) })
		return x, func() {
			pc(errHost)
			select {
			case <-x.Done():
			case <-time.After(5 * time.Second):
			}
		}, release
	case "far-deadline-cancelled":
		x, xc := context.WithTimeout(bg, farDeadline)
		return x, xc, release
	case "far-deadline-child-of-cancelled-parent":
		p, pc := context.WithCancel(bg)
		x, xc := context.WithTimeout(p, farDeadline)
		rel = append(rel, xc)
		return x, pc, release
	case "cancelled-child-of-far-deadline":
		p, pc := context.WithDeadline(bg, time.Now().Add(farDeadline))
		x, xc := context.WithCancel(p)
		rel = append(rel, pc)
		return x, xc, release
	case "deadline":
		x, xc := context.WithDeadline(bg, time.Now().Add(d))
		return x, xc, release
	case "timeout-cause":
		x, xc := context.WithTimeoutCause(bg, d, errHost)
		return x, xc, release
	case "deadline-cause":
		x, xc := context.WithDeadlineCause(bg, time.Now().Add(d), errHost)
		return x, xc, release
	case "parent-timeout-cause-child":
		p, pc := context.WithTimeoutCause(bg, d, errHost)
		x, xc := context.WithCancel(context.WithValue(p, ctxKey{}, 1))
		rel = append(rel, pc)
		return x, xc, release
	}
	if c.Mode == "deadline" {
		x, xc := context.WithTimeout(bg, d)
		return x, xc, release
	}
	x, xc := context.WithCancel(bg)
	return x, xc, release
}

const endedEarly = "the context ended before the workload started"

// early: an earlier invocation of a reuse form failed; when the (deadline) context has ended by then,
// the case simply never reached its workload
func early(ctx context.Context, note string) string {
	if ctx.Err() != nil {
		return endedEarly
	}
	return note
}

// evaluate runs the workload: one risor.Eval on a new VM, or (reuse forms) as the last of several
// invocations on one VM that all get the same context.
func evaluate(ctx context.Context, c *caseData, opts []risor.Option) (object.Object, error, string) {
	if c.Reuse == "" {
		v, err := risor.Eval(ctx, c.Src, opts...)
		return v, err, ""
	}
	bg := context.Background()
	cfg := risor.NewConfig(opts...)
	withVM := func(m *vm.VirtualMachine) []risor.Option {
		return append(append([]risor.Option{}, opts...), risor.WithVM(m))
	}
	tos := func(m *vm.VirtualMachine, err error) (object.Object, error, string) {
		if err != nil {
			return nil, err, ""
		}
		if v, ok := m.TOS(); ok && v != nil {
			return v, nil, ""
		}
		return object.Nil, nil, ""
	}
	switch c.Reuse {
	case "risor.Call":
		code, err := compileWith(bg, cfg, c.Src)
		if err != nil {
			return nil, nil, "compile: " + err.Error()
		}
		v, err := risor.Call(ctx, code, "entry", nil, opts...)
		return v, err, ""
	case "runcode-call", "runcode-call-call":
		code, err := compileWith(bg, cfg, c.Src+"func quick() { return 1 }\n")
		if err != nil {
			return nil, nil, "compile: " + err.Error()
		}
		m, err := vm.NewEmpty()
		if err != nil {
			return nil, nil, err.Error()
		}
		if err := m.RunCode(ctx, code, cfg.VMOpts()...); err != nil {
			return nil, nil, early(ctx, "first invocation (RunCode) failed: "+err.Error())
		}
		get := func(name string) (*object.Function, string) {
			obj, err := m.Get(name)
			if err != nil {
				return nil, "vm.Get: " + err.Error()
			}
			fn, ok := obj.(*object.Function)
			if !ok {
				return nil, "not a function: " + name
			}
			return fn, ""
		}
		if c.Reuse == "runcode-call-call" {
			q, note := get("quick")
			if note != "" {
				return nil, nil, note
			}
			if _, err := m.Call(ctx, q, nil); err != nil {
				return nil, nil, early(ctx, "second invocation (Call quick) failed: "+err.Error())
			}
		}
		fn, note := get("entry")
		if note != "" {
			return nil, nil, note
		}
		v, err := m.Call(ctx, fn, nil)
		return v, err, ""
	case "eval-vm-2nd", "eval-vm-3rd", "eval-vm-2nd-after-error", "eval-vm-2nd-value-ctx":
		m, err := vm.NewEmpty()
		if err != nil {
			return nil, nil, err.Error()
		}
		first := "1 + 1"
		if c.Reuse == "eval-vm-2nd-after-error" {
			first = "[0][5]"
		}
		_, err = risor.Eval(ctx, first, withVM(m)...)
		if (err != nil) != (c.Reuse == "eval-vm-2nd-after-error") {
			return nil, nil, early(ctx, fmt.Sprintf("first invocation (Eval %s) gave error %v", first, err))
		}
		if c.Reuse == "eval-vm-3rd" {
			if _, err := risor.Eval(ctx, "w := [1, 2, 3]\nlen(w)", withVM(m)...); err != nil {
				return nil, nil, early(ctx, "second invocation failed: "+err.Error())
			}
		}
		lctx := ctx
		if c.Reuse == "eval-vm-2nd-value-ctx" {
			lctx = context.WithValue(ctx, ctxKey{}, 1)
		}
		v, err := risor.Eval(lctx, c.Src, withVM(m)...)
		return v, err, ""
	case "repl-run-2nd":
		comp, err := compiler.New(cfg.CompilerOpts()...)
		if err != nil {
			return nil, nil, err.Error()
		}
		run := func(m *vm.VirtualMachine, src string) (*vm.VirtualMachine, error, string) {
			ast, err := parser.Parse(bg, src)
			if err != nil {
				return m, nil, "parse: " + err.Error()
			}
			code, err := comp.Compile(ast)
			if err != nil {
				return m, nil, "compile: " + err.Error()
			}
			if m == nil {
				m = vm.New(code, cfg.VMOpts()...)
			}
			return m, m.Run(ctx), ""
		}
		m, err, note := run(nil, "warm := 1\nwarm")
		if note != "" || err != nil {
			return nil, nil, early(ctx, fmt.Sprintf("first invocation (Run) failed: %v %s", err, note))
		}
		m, err, note = run(m, c.Src)
		if note != "" {
			return nil, nil, note
		}
		return tos(m, err)
	}
	return nil, nil, "unknown reuse form " + c.Reuse
}

func runCase(c *caseData) (o obs) {
	sh := shapeByName(c.Shape)
	if sh == nil {
		o.HarnessNote = "unknown shape " + c.Shape
		return
	}
	var (
		ticks      atomic.Int64
		cancelTick atomic.Int64
		returned   atomic.Bool
		dead       atomic.Bool
		parkedFlag atomic.Bool
		cancelAt   atomic.Int64 // unix nanos
	)
	cancelTick.Store(-1)
	parkedCh := make(chan struct{})
	var parkOnce sync.Once

	var ctx context.Context
	var cancel func()
	markCancel := func(n int64) {
		if cancelTick.CompareAndSwap(-1, n) {
			cancelAt.Store(time.Now().UnixNano())
		}
	}
	// cancelled: the cancellation has been carried out (cancel() has returned, or a tick has seen the
	// deadline pass). after: ticks that BEGAN after that. Counting from a flag rather than from tick
	// numbers keeps the bound meaningful when a goroutine is descheduled in the middle of tick().
	var cancelled atomic.Bool
	var after atomic.Int64
	tick := object.NewBuiltin("tick", func(_ context.Context, args ...object.Object) object.Object {
		if dead.Load() {
			select {} // the case is over: freeze stragglers so that they do not disturb later cases
		}
		late := cancelled.Load()
		n := ticks.Add(1)
		if returned.Load() {
			// a straggler after the return: keep counting, but do not burn a processor while the
			// settle samples are taken
			time.Sleep(200 * time.Microsecond)
			return object.Nil
		}
		if late {
			m := after.Add(1)
			// cooperative between cancel and return: let the watcher goroutine run
			runtime.Gosched()
			d := time.Duration(m) * 20 * time.Microsecond
			if d > 2*time.Millisecond {
				d = 2 * time.Millisecond
			}
			time.Sleep(d)
			return object.Nil
		}
		if c.Mode == "cancel" && sh.Kind == "tick" && n == c.K {
			markCancel(ticks.Load())
			cancel()
			cancelled.Store(true)
			runtime.Gosched()
		} else if ctx.Err() != nil {
			markCancel(ticks.Load())
			cancelled.Store(true)
			runtime.Gosched()
		}
		return object.Nil
	})
	parked := object.NewBuiltin("parked", func(_ context.Context, args ...object.Object) object.Object {
		parkOnce.Do(func() {
			if cancelTick.Load() < 0 && ctx.Err() == nil {
				parkedFlag.Store(true)
			}
			close(parkedCh)
		})
		return object.Nil
	})

	release := make(chan struct{})
	defer close(release)
	if sh.Exec {
		defer killChildren(c.Src)
	}
	hostblock := object.NewBuiltin("hostblock", func(_ context.Context, args ...object.Object) object.Object {
		<-release // host code that ignores the context; released when the case is over
		return object.Nil
	})

	runtime.GC()
	o.Gor0 = runtime.NumGoroutine()
	t0 := time.Now()
	var releaseCtx func()
	ctx, cancel, releaseCtx = makeContext(c)
	defer func() {
		cancel()
		releaseCtx()
	}()

	done := make(chan evalResult, 1)
	go func() {
		var r evalResult
		defer func() {
			if p := recover(); p != nil {
				r.pan = fmt.Sprint(p)
			}
			done <- r
		}()
		r.v, r.err, r.note = evaluate(ctx, c, []risor.Option{risor.WithConcurrency(),
			risor.WithGlobals(map[string]any{"tick": tick, "parked": parked, "hostblock": hostblock})})
	}()
	if c.Mode == "cancel" && sh.Kind == "park" {
		go func() {
			select {
			case <-parkedCh:
			case <-time.After(watchdog):
				return
			}
			if c.DelayUS > 0 {
				time.Sleep(time.Duration(c.DelayUS) * time.Microsecond)
			}
			markCancel(ticks.Load())
			cancel()
			cancelled.Store(true)
		}()
	}

	var r evalResult
	wd := watchdog
	if hangsSeen.Load() >= 2 && c.Repeat <= 1 {
		wd = watchdog / 4
	}
	if c.Repeat > 1 {
		wd = 2 * watchdog // confirmation run, alone
	}
	select {
	case r = <-done:
		o.Returned = true
	case <-time.After(wd):
		hangsSeen.Add(1)
		o.AtReturn = ticks.Load()
		o.After = after.Load()
		o.CancelTick = cancelTick.Load()
		o.Parked = parkedFlag.Load()
		o.WallMs = time.Since(t0).Milliseconds()
		if ctx.Err() != nil {
			o.CtxErr = ctx.Err().Error()
		}
		dead.Store(true)
		return
	}
	o.AtReturn = ticks.Load()
	o.After = after.Load()
	returned.Store(true)
	tRet := time.Now()
	if ctx.Err() != nil {
		o.CtxErr = ctx.Err().Error()
		if cancelTick.Load() < 0 {
			// deadline passed without any tick noticing it (blocked shapes)
			markCancel(o.AtReturn)
		}
	}
	o.CancelTick = cancelTick.Load()
	o.Parked = parkedFlag.Load()
	if ca := cancelAt.Load(); ca > 0 {
		o.ReturnMs = (tRet.UnixNano() - ca) / 1e6
	}
	if r.note == endedEarly {
		o.Early = true
	} else if r.note != "" {
		o.HarnessNote = r.note
	}
	if r.pan != "" {
		o.ErrText = "GO PANIC: " + r.pan
	} else if r.err == nil {
		o.ErrNil = true
		if r.v != nil {
			o.Value = mon.Truncate(r.v.Inspect(), 200)
		} else {
			o.Value = "<nil object>"
		}
	} else {
		o.ErrText = mon.Truncate(r.err.Error(), 300)
		o.ErrIs = ctx.Err() != nil && errors.Is(r.err, ctx.Err())
		if cause := context.Cause(ctx); cause != nil && cause != ctx.Err() && errors.Is(r.err, cause) {
			o.ErrIsCause = true
		}
	}
	// after the return: the counter must stop. Settled: two consecutive intervals without an advance.
	// Running: the counter advanced in settleMax consecutive intervals.
	prev := o.AtReturn
	quiet, adv := 0, 0
	for i := 0; i < 3*settleMax; i++ {
		time.Sleep(settleStep)
		cur := ticks.Load()
		o.Samples = append(o.Samples, cur)
		if cur == prev {
			quiet++
			adv = 0
		} else {
			adv++
			quiet = 0
		}
		prev = cur
		if quiet >= 2 {
			o.Settled = true
			break
		}
		if adv >= settleMax {
			o.Running = true
			break
		}
	}
	o.Gor1 = runtime.NumGoroutine()
	dead.Store(true)
	o.WallMs = time.Since(t0).Milliseconds()
	return
}

// ---------------------------------------------------------------------------------------
// judging

type verdict struct {
	Sig    string
	Detail string
}

func (c *caseData) nontrivial(o *obs) bool {
	return o.CancelTick >= 1 || o.Parked
}

func judge(c *caseData, o *obs) []verdict {
	var vs []verdict
	sh := shapeByName(c.Shape)
	how := "one risor.Eval(ctx, program) on a new VM"
	if rf := reuseByName(c.Reuse); rf != nil {
		how = "VM reused with ONE context: " + rf.What
	}
	if ck := ctxKindByName(c.Ctx); ck != nil {
		how += "\ncontext given to the evaluation: " + ck.What
	}
	head := fmt.Sprintf("shape %s, spawn nesting %s, instant %s, mode %s, GOMAXPROCS %d\n%s\nprogram:\n%s\n", c.shapeTag(), c.nesting(), c.instant(), c.Mode, c.Procs, how, indent(c.Src))
	if o.Early {
		return nil
	}
	if o.HarnessNote != "" {
		return []verdict{{"harness:" + o.HarnessNote, head}}
	}
	if !o.Returned {
		tag := c.shapeTag()
		if len(c.Chain) > 0 {
			tag = "recv-op" + c.reuseTag() // the main program of a nested case has started the goroutines and blocks in a receive
			if c.Ctx != "" {
				tag += "%" + c.Ctx
			}
		}
		return []verdict{{"no-return:" + tag, head + fmt.Sprintf("risor.Eval had not returned %v after the start (context error by then: %q, %d ticks before the cancellation, %d ticks in total)", watchdog, o.CtxErr, o.CancelTick, o.AtReturn)}}
	}
	if strings.HasPrefix(o.ErrText, "GO PANIC: ") {
		vs = append(vs, verdict{"go-panic:" + c.shapeTag(), head + o.ErrText})
	}
	if o.CancelTick < 0 && o.CtxErr == "" {
		// returned although the context was never cancelled: the workload ended by itself
		what := "value " + o.Value
		if !o.ErrNil {
			what = "error " + o.ErrText
		}
		vs = append(vs, verdict{"ended-by-itself:" + c.shapeTag(), head + "the workload is built never to terminate, but risor.Eval returned " + what + " before any cancellation"})
		return vs
	}
	if sh != nil && sh.Exec && !o.ErrNil {
		// any error will do here: see shape.Exec
	} else if !o.ErrIs && !strings.HasPrefix(o.ErrText, "GO PANIC: ") {
		sym := "other-error"
		switch {
		case o.ErrNil:
			sym = "no-error"
		case o.ErrIsCause:
			sym = "context-cause-instead-of-context-error"
		case o.ErrText == o.CtxErr:
			sym = "unwrapped-same-text"
		case o.CtxErr != "" && strings.Contains(o.ErrText, o.CtxErr):
			sym = "unwrapped-contains-text"
		}
		got := fmt.Sprintf("error %q (errors.Is(err, ctx.Err()) is false)", o.ErrText)
		if o.ErrNil {
			got = "value " + o.Value + " and a nil error"
		}
		// the tail variant only matters when the program ended "normally": an error of the wrong kind
		// comes out of the shape itself whatever follows it
		tag := c.Shape
		if len(c.Chain) > 0 {
			tag = "recv-op" // what returns the error is the main program of a nested case: a blocked receive
		} else if o.ErrNil && c.Tail == "end" {
			tag += ";end"
		}
		tag += c.reuseTag()
		if c.Ctx != "" {
			tag += "%" + c.Ctx
		}
		vs = append(vs, verdict{"wrong-error:" + tag + ":" + sym, head + fmt.Sprintf("the context ended with %q after %d ticks (parked=%v) while the workload was still running; risor.Eval returned %s", o.CtxErr, o.CancelTick, o.Parked, got)})
	}
	bound := int64(tickBound * tickers(sh, c.Chain, c.Mid))
	if o.After > bound {
		vs = append(vs, verdict{"too-many-ticks-after-cancel:" + c.shapeTag(), head + fmt.Sprintf("%d tick() calls began after the cancellation had been carried out (%d ticks before it) and before risor.Eval returned (bound %d); each of them yielded the processor; %d ms passed between the two, %d ms since the start", o.After, o.CancelTick, bound, o.ReturnMs, o.WallMs)})
	}
	if o.Running {
		vs = append(vs, verdict{"runs-after-return:" + c.shapeTag() + ":" + c.nesting(), head + fmt.Sprintf("tick counter at the return of risor.Eval: %d; samples every %v afterwards: %v (it advanced in %d consecutive intervals)", o.AtReturn, settleStep, o.Samples, settleMax)})
	}
	return vs
}

// ---------------------------------------------------------------------------------------
// planning

var ticksK = []int64{1, 2, 17, 1000, 100000}
var ticksKSelfEnd = []int64{1, 2, 17, 500}
var parkDelays = []int{0, 2000, 20000}
var deadlinesTick = []int{1000, 20000}
var deadlinesPark = []int{30000}

type instant struct {
	Mode  string
	K     int64
	Delay int
}

func instantsFor(sh *shape) []instant {
	var out []instant
	if sh.Exec {
		// the child must be up (and have installed its signal dispositions) when the context ends
		return []instant{{Mode: "cancel", Delay: 200000}, {Mode: "deadline", Delay: 300000}}
	}
	if sh.Kind == "tick" {
		ks := ticksK
		if sh.SelfEnds {
			ks = ticksKSelfEnd
		}
		for _, k := range ks {
			out = append(out, instant{Mode: "cancel", K: k})
		}
		if !sh.SelfEnds {
			for _, d := range deadlinesTick {
				out = append(out, instant{Mode: "deadline", Delay: d})
			}
		}
		return out
	}
	for _, d := range parkDelays {
		out = append(out, instant{Mode: "cancel", Delay: d})
	}
	for _, d := range deadlinesPark {
		out = append(out, instant{Mode: "deadline", Delay: d})
	}
	return out
}

func mk(sh *shape, tail string, chain []string, mid string, in instant, procs int) caseData {
	if !sh.CanExit {
		tail = ""
	}
	c := caseData{Shape: sh.Name, Tail: tail, Chain: chain, Mid: mid, Mode: in.Mode, K: in.K, DelayUS: in.Delay, Procs: procs}
	c.Src = render(sh, tail, chain, mid, false)
	if sh.Exec {
		// a duration that is unique to the case, so that its children can be found and removed
		// afterwards without touching those of a case running in another worker
		execCounter++
		marker := fmt.Sprintf("25.%04d", execCounter)
		c.Src = strings.ReplaceAll(strings.ReplaceAll(c.Src, "sleep 25", "sleep "+marker), `["25"]`, `["`+marker+`"]`)
	}
	return c
}

var execCounter int

var execMarkerRe = regexp.MustCompile(`25\.\d{4}`)

// killChildren removes what is left of the processes a case started (found by the case's unique sleep
// duration in their command line): the orphaned grandchild of a killed shell, children that ignore the
// signal they were sent.
func killChildren(src string) int {
	marker := execMarkerRe.FindString(src)
	if marker == "" {
		return 0
	}
	n := 0
	ents, _ := os.ReadDir("/proc")
	for _, e := range ents {
		pid, err := strconv.Atoi(e.Name())
		if err != nil || pid == os.Getpid() {
			continue
		}
		b, err := os.ReadFile("/proc/" + e.Name() + "/cmdline")
		if err != nil || !strings.Contains(string(b), marker) {
			continue
		}
		if syscall.Kill(pid, syscall.SIGKILL) == nil {
			n++
		}
	}
	return n
}

// mkReuse: the same, as a later invocation on a reused VM
func mkReuse(rf *reuseForm, sh *shape, tail string, chain []string, mid string, in instant) caseData {
	c := mk(sh, tail, chain, mid, in, 0)
	c.Reuse = rf.Name
	c.Src = render(sh, c.Tail, chain, mid, rf.Entry)
	return c
}

func execAvailable() bool {
	if _, err := exec.LookPath("sh"); err != nil {
		return false
	}
	if _, err := exec.LookPath("sleep"); err != nil {
		return false
	}
	return exec.Command("sh", "-c", "trap '' TERM; sleep 0").Run() == nil
}

func chainsOfDepth(n int) [][]string {
	if n == 0 {
		return [][]string{nil}
	}
	var out [][]string
	for _, c := range chainsOfDepth(n - 1) {
		for _, f := range spawnForms {
			cc := append(append([]string{}, c...), f)
			out = append(out, cc)
		}
	}
	return out
}

func plan(d *mon.Driver) []caseData {
	var cs []caseData
	r := d.Rand("plan")
	// nesting 0: every shape, every tail variant, every instant
	for i := range shapes {
		sh := &shapes[i]
		tails := []string{""}
		if sh.CanExit {
			tails = []string{"loop", "end"}
		}
		for _, t := range tails {
			for _, in := range instantsFor(sh) {
				cs = append(cs, mk(sh, t, nil, "exit", in, 0))
			}
		}
	}
	// waiting in exec() for a child process (only where a shell and sleep can be run at all)
	if execAvailable() {
		for i := range execShapes {
			sh := &execShapes[i]
			tails := []string{"loop"}
			if d.Thorough() || sh.Name == "exec-child-ignores-sigterm" || sh.Name == "cb-try-exec-child-ignores-sigterm" {
				tails = []string{"loop", "end"}
			}
			for _, t := range tails {
				for _, in := range instantsFor(sh) {
					cs = append(cs, mk(sh, t, nil, "exit", in, 0))
				}
			}
		}
	} else {
		d.Inconclusive("sh / sleep cannot be executed here: the exec shapes were skipped")
	}
	if d.Thorough() {
		// every shape x every chain of depth 1..3 x every instant x what the intermediate levels do
		for depth := 1; depth <= 3; depth++ {
			for _, ch := range chainsOfDepth(depth) {
				for i := range shapes {
					sh := &shapes[i]
					for _, in := range instantsFor(sh) {
						cs = append(cs, mk(sh, "loop", ch, "exit", in, 0))
						if depth >= 2 {
							cs = append(cs, mk(sh, "loop", ch, "loop", in, 0))
						}
					}
				}
			}
		}
		d.Extra("exhaustive", true)
	} else {
		// depth 1: every shape x every spawn form x 2 seed-chosen instants
		for i := range shapes {
			sh := &shapes[i]
			ins := instantsFor(sh)
			for _, f := range spawnForms {
				p := r.Perm(len(ins))
				for j := 0; j < 2 && j < len(p); j++ {
					cs = append(cs, mk(sh, "loop", []string{f}, "exit", ins[p[j]], 0))
				}
			}
		}
		// depth 2 and 3: every chain, both behaviours of the intermediate levels, seed-chosen shapes and instants
		for depth := 2; depth <= 3; depth++ {
			for _, ch := range chainsOfDepth(depth) {
				for _, mid := range []string{"exit", "loop"} {
					for j := 0; j < 2; j++ {
						sh := &shapes[r.Intn(len(shapes))]
						ins := instantsFor(sh)
						cs = append(cs, mk(sh, "loop", ch, mid, ins[r.Intn(len(ins))], 0))
					}
				}
			}
		}
	}
	// a VM that is used again with the same context: the workload is the 2nd / 3rd invocation
	for fi := range reuseForms {
		rf := &reuseForms[fi]
		if d.Thorough() {
			for i := range shapes {
				sh := &shapes[i]
				tails := []string{""}
				if sh.CanExit {
					tails = []string{"loop", "end"}
				}
				ins := instantsFor(sh)
				for _, t := range tails {
					for _, in := range ins {
						cs = append(cs, mkReuse(rf, sh, t, nil, "exit", in))
					}
				}
				for _, f := range spawnForms {
					p := r.Perm(len(ins))
					for j := 0; j < 2 && j < len(p); j++ {
						cs = append(cs, mkReuse(rf, sh, "loop", []string{f}, "exit", ins[p[j]]))
					}
				}
			}
			continue
		}
		// quick: every shape once (seed-chosen instant and tail), plus nested ones
		for i := range shapes {
			sh := &shapes[i]
			ins := instantsFor(sh)
			tail := "loop"
			if r.Chance(1, 4) {
				tail = "end"
			}
			cs = append(cs, mkReuse(rf, sh, tail, nil, "exit", ins[r.Intn(len(ins))]))
		}
		for j := 0; j < 8; j++ {
			sh := &shapes[r.Intn(len(shapes))]
			ins := instantsFor(sh)
			chs := chainsOfDepth(r.Range(1, 2))
			cs = append(cs, mkReuse(rf, sh, "loop", chs[r.Intn(len(chs))], mon.Pick(r, []string{"exit", "loop"}), ins[r.Intn(len(ins))]))
		}
	}
	// context kinds: causes, deadlines with causes, derived and host-implemented contexts
	insOf := func(sh *shape, mode string) []instant {
		var out []instant
		for _, in := range instantsFor(sh) {
			if in.Mode == mode {
				out = append(out, in)
			}
		}
		return out
	}
	for ki := range ctxKinds {
		ck := &ctxKinds[ki]
		add := func(sh *shape, tail string, chain []string, in instant) {
			c := mk(sh, tail, chain, "exit", in, 0)
			c.Ctx = ck.Name
			cs = append(cs, c)
		}
		for i := range shapes {
			sh := &shapes[i]
			ins := insOf(sh, ck.Mode)
			if len(ins) == 0 {
				continue
			}
			if d.Thorough() {
				tails := []string{"loop", "end"}
				for _, t := range tails {
					for j, in := range ins {
						if j < 3 {
							add(sh, t, nil, in)
						}
					}
				}
				for _, f := range spawnForms {
					add(sh, "loop", []string{f}, ins[r.Intn(len(ins))])
				}
				continue
			}
			// quick: every blocking shape (where the context's error comes out of the blocking
			// primitive itself), a sample of the ticking ones
			far := strings.Contains(ck.Name, "far-deadline")
			if sh.Kind == "park" || (!far && r.Chance(1, 6)) {
				add(sh, mon.Pick(r, []string{"loop", "end"}), nil, ins[r.Intn(len(ins))])
			}
		}
		if !d.Thorough() {
			nn := 3
			if strings.Contains(ck.Name, "far-deadline") {
				nn = 1
			}
			for j := 0; j < nn; j++ {
				sh := &shapes[r.Intn(len(shapes))]
				if ins := insOf(sh, ck.Mode); len(ins) > 0 {
					add(sh, "loop", []string{mon.Pick(r, spawnForms)}, ins[r.Intn(len(ins))])
				}
			}
		}
	}
	// one processor: the watcher goroutine only runs when the evaluating goroutine is preempted or yields
	n1 := d.N(60, 1500)
	for j := 0; j < n1; j++ {
		sh := &shapes[r.Intn(len(shapes))]
		ins := instantsFor(sh)
		depth := r.Intn(4)
		chs := chainsOfDepth(depth)
		tail := "loop"
		if depth == 0 && r.Chance(1, 3) {
			tail = "end"
		}
		cs = append(cs, mk(sh, tail, chs[r.Intn(len(chs))], mon.Pick(r, []string{"exit", "loop"}), ins[r.Intn(len(ins))], 1))
	}
	return cs
}

// ---------------------------------------------------------------------------------------
// driver

func drive(d *mon.Driver, replay string) int {
	d.Rule = "a case is the triple (shape incl. tail variant and, where the VM is reused with one context, the reuse form; spawn nesting = chain of spawn forms and what intermediate goroutines do, cancellation instant incl. cancel/deadline and GOMAXPROCS); it is non-trivial when the workload had made >= 1 tick() call or had called parked() before the context ended"
	d.Assume = []string{
		"progress is observed through the host builtin tick(); script code that neither ticks nor returns is only visible through the return of risor.Eval",
		"between cancellation and return tick() yields the processor (runtime.Gosched + a sleep of at most 2 ms), so that the bound of " + fmt.Sprint(tickBound) + " further ticks per goroutine counts script steps and not scheduler latency",
		"a goroutine that stays blocked for ever after the return (never executing script code again) is not counted as running; runtime.NumGoroutine deltas are recorded as evidence only",
		"the wall-clock watchdog of " + watchdog.String() + " on the return is the only time-based verdict; like every other candidate violation it is re-run alone and reported only when it repeats",
	}
	if replay != "" {
		var c caseData
		if err := mon.LoadReplay(replay, &c); err != nil {
			fmt.Println("cannot load replay:", err)
			return 3
		}
		if c.Shape == "" {
			// the witness of a race report is the workload as a whole
			return drive(d, "")
		}
		if sh := shapeByName(c.Shape); sh != nil && c.Src == "" {
			rf := reuseByName(c.Reuse)
			c.Src = render(sh, c.Tail, c.Chain, c.Mid, rf != nil && rf.Entry)
		}
		c.Repeat = 3
		d.RunPool([]mon.Case{mon.NewCase("replay", "case", c)}, mon.PoolOpts{BatchSize: 1, BatchTimeout: 5 * time.Minute, NoRetry: true}, func(mc mon.Case, res mon.Result) {
			d.Eval(1)
			if res.Status != "done" || res.Panic != "" {
				d.Violation("crash:"+c.shapeTag(), crashText(res), c)
				return
			}
			var m multi
			_ = json.Unmarshal(res.Data, &m)
			count := map[string]int{}
			detail := map[string]string{}
			for i := range m.Runs {
				for _, v := range judge(&c, &m.Runs[i]) {
					count[v.Sig]++
					detail[v.Sig] = v.Detail
				}
			}
			for sig, n := range count {
				d.Violation(sig, fmt.Sprintf("%s\n(%d of %d runs)", detail[sig], n, len(m.Runs)), c)
			}
		})
		return d.Finish(1, 0)
	}

	cases := plan(d)
	byID := map[string]*caseData{}
	var pool0, pool1 []mon.Case
	for i := range cases {
		id := fmt.Sprintf("c%05d", i)
		byID[id] = &cases[i]
		if cases[i].Procs == 1 {
			pool1 = append(pool1, mon.NewCase(id, "case", cases[i]))
		} else {
			pool0 = append(pool0, mon.NewCase(id, "case", cases[i]))
		}
	}
	type cand struct {
		id   string
		sigs map[string]string
	}
	var cands []cand
	var maxAfter, maxReturnMs int64
	var sampleN int
	handle := func(mc mon.Case, res mon.Result) {
		c := byID[mc.ID]
		d.Eval(1)
		if res.Status != "done" || res.Panic != "" {
			if res.Status == "timeout" {
				d.Inconclusive("worker watchdog in case " + c.key())
				return
			}
			d.Event("worker-"+res.Status, 1)
			d.Violation("crash:"+c.shapeTag(), "the worker process died while running\n"+c.Src+"\n"+crashText(res), c)
			return
		}
		var m multi
		if err := json.Unmarshal(res.Data, &m); err != nil || len(m.Runs) == 0 {
			d.Fatal("bad worker output")
			return
		}
		o := &m.Runs[0]
		if o.Early {
			d.Event("deadline-passed-before-the-workload-started", 1)
			return
		}
		if c.Reuse != "" {
			d.Event("workload-is-a-later-invocation-on-a-reused-vm", 1)
		}
		if c.nontrivial(o) {
			d.Distinct(c.key())
			d.Event("nontrivial", 1)
		} else {
			d.Event("cancelled-before-first-tick", 1)
		}
		if o.Returned {
			d.Event("returned", 1)
		}
		if o.ErrIs {
			d.Event("returned-context-error", 1)
		}
		if o.Parked {
			d.Event("parked-then-cancelled", 1)
		}
		if o.Settled {
			d.Event("settled", 1)
			if len(o.Samples) > 0 && o.Samples[len(o.Samples)-1] > o.AtReturn {
				d.Event("goroutine-ticked-briefly-after-return", 1)
			}
		}
		if o.Returned && !o.Settled && !o.Running {
			d.Event("settle-undecided", 1)
			d.Inconclusive("tick counter neither quiet for two intervals nor advancing for " + fmt.Sprint(settleMax) + " in a row after the return: " + c.key())
		}
		if o.Gor1 > o.Gor0 {
			d.Event("goroutines-still-alive-after-settle", 1)
		}
		if len(c.Chain) > 0 {
			d.Event(fmt.Sprintf("spawn-depth-%d", len(c.Chain)), 1)
		}
		d.Event("mode-"+c.Mode, 1)
		if o.After > maxAfter {
			maxAfter = o.After
		}
		if o.ReturnMs > maxReturnMs {
			maxReturnMs = o.ReturnMs
		}
		if sampleN%97 == 0 {
			d.Sample(map[string]any{"case": c.key(), "program": c.Src, "ticks_before_cancel": o.CancelTick, "ticks_at_return": o.AtReturn,
				"samples_after_return": o.Samples, "error": o.ErrText, "errors_is_ctx_err": o.ErrIs})
		}
		sampleN++
		if !o.Returned && o.CancelTick < 0 && o.CtxErr == "" && !o.Parked {
			// nothing happened at all (no tick, no parked(), context still alive): the process was
			// starved, the cancellation instant was never reached
			d.Event("stalled-before-cancellation", 1)
			d.Inconclusive("the workload did not reach its cancellation instant within the watchdog: " + c.key())
			return
		}
		vs := judge(c, o)
		if len(vs) > 0 {
			cd := cand{id: mc.ID, sigs: map[string]string{}}
			for _, v := range vs {
				cd.sigs[v.Sig] = v.Detail
			}
			cands = append(cands, cd)
		}
	}
	par := runtime.NumCPU()
	if par < 4 {
		par = 4
	}
	bs := d.N(12, 40)
	d.RunPool(pool0, mon.PoolOpts{BatchSize: bs, Parallel: par, BatchTimeout: 15 * time.Minute}, handle)
	d.RunPool(pool1, mon.PoolOpts{BatchSize: bs, Parallel: par, BatchTimeout: 15 * time.Minute}, handle)

	// confirmation: every candidate is re-run alone (3 times, few processes at a time); a signature is
	// reported only when it shows again
	sort.Slice(cands, func(i, j int) bool { return cands[i].id < cands[j].id })
	// many candidates with one signature need only a few confirmations, and the confirmation budget is
	// shared fairly between the oracle clauses (round-robin over the kind = text before the first ':')
	perSig := map[string]int{}
	var confirm []mon.Case
	want := map[string]cand{}
	byKind := map[string][]cand{}
	var kinds []string
	for _, cd := range cands {
		k := ""
		for sig := range cd.sigs {
			kk := strings.SplitN(sig, ":", 2)[0]
			if k == "" || kk < k {
				k = kk
			}
		}
		if _, ok := byKind[k]; !ok {
			kinds = append(kinds, k)
		}
		byKind[k] = append(byKind[k], cd)
	}
	sort.Strings(kinds)
	hangConfirms := 0
	for more := true; more && len(confirm) < 60; {
		more = false
		for _, k := range kinds {
			if k == "no-return" && hangConfirms >= 12 {
				continue // each costs two doubled watchdogs; a dozen confirmed hangs say enough
			}
			for len(byKind[k]) > 0 {
				cd := byKind[k][0]
				byKind[k] = byKind[k][1:]
				need := false
				for sig := range cd.sigs {
					if perSig[sig] < 2 {
						need = true
					}
				}
				if !need {
					d.Event("candidates-not-rerun-same-signature", 1)
					continue
				}
				for sig := range cd.sigs {
					perSig[sig]++
				}
				c := *byID[cd.id]
				c.Repeat = 3
				for sig := range cd.sigs {
					if strings.HasPrefix(sig, "no-return:") {
						c.Repeat = 2
					}
				}
				if k == "no-return" {
					hangConfirms++
				}
				confirm = append(confirm, mon.NewCase(cd.id, "case", c))
				want[cd.id] = cd
				more = true
				break
			}
			if len(confirm) >= 60 {
				break
			}
		}
	}
	for _, k := range kinds {
		if n := len(byKind[k]); n > 0 {
			d.Event("candidates-not-rerun-budget", n)
		}
	}
	d.Event("candidates", len(cands))
	candSigs := map[string]int{}
	for _, cd := range cands {
		for sig := range cd.sigs {
			candSigs[sig]++
		}
	}
	d.Extra("candidate_signatures_first_pass", candSigs)
	if len(confirm) > 0 {
		d.RunPool(confirm, mon.PoolOpts{BatchSize: 1, Parallel: 6, BatchTimeout: 5 * time.Minute, NoRetry: true}, func(mc mon.Case, res mon.Result) {
			c := byID[mc.ID]
			cd := want[mc.ID]
			if res.Status == "timeout" {
				// not even the watchdog inside the worker fired: the process got no processor time
				d.Inconclusive("worker process stalled while re-running " + c.key())
				return
			}
			if res.Status != "done" || res.Panic != "" {
				d.Violation("crash:"+c.shapeTag(), "the worker process died while re-running\n"+c.Src+"\n"+crashText(res), c)
				return
			}
			var m multi
			_ = json.Unmarshal(res.Data, &m)
			seen := map[string]int{}
			for i := range m.Runs {
				for _, v := range judge(c, &m.Runs[i]) {
					seen[v.Sig]++
				}
			}
			sigs := make([]string, 0, len(cd.sigs))
			for s := range cd.sigs {
				sigs = append(sigs, s)
			}
			sort.Strings(sigs)
			for _, sig := range sigs {
				ok := seen[sig] > 0
				if strings.HasPrefix(sig, "no-return:") {
					ok = seen[sig] == len(m.Runs) && len(m.Runs) >= 2 // a real hang is deterministic
				}
				if ok {
					d.Event("confirmed", 1)
					d.Violation(sig, fmt.Sprintf("%s\n(seen in the batch run and again in %d of %d runs alone)", cd.sigs[sig], seen[sig], len(m.Runs)), c)
				} else {
					d.Event("not-repeatable", 1)
					lines := strings.Split(strings.TrimSpace(cd.sigs[sig]), "\n")
					d.Inconclusive("not repeatable when re-run alone: " + sig + " in " + c.key() + ": " + lines[len(lines)-1])
				}
			}
		})
	}
	// many short cancelled evaluations with senders racing for the slots of a small buffered channel
	driveRaces(d, par)
	// secondary monitor: the goroutine-spawning cases once more under the race detector (only its
	// reports are judged there; the timing of an instrumented binary says nothing about the bounds)
	if rb := os.Getenv("VERIF_RACE_BIN"); rb != "" {
		if _, err := os.Stat(rb); err == nil {
			var rc []mon.Case
			stride := d.N(6, 40)
			k := 0
			for i := range cases {
				if len(cases[i].Chain) == 0 && cases[i].Shape != "thread-wait-ticking" && cases[i].Shape != "for-range-chan-fed" {
					continue
				}
				if k%stride == 0 {
					rc = append(rc, mon.NewCase(fmt.Sprintf("r%05d", i), "case", cases[i]))
				}
				k++
			}
			raceSeen := map[string]int{}
			d.RunPool(rc, mon.PoolOpts{Binary: rb, BatchSize: 8, Parallel: par, BatchTimeout: 15 * time.Minute,
				Env: []string{"GORACE=halt_on_error=0 log_path=race"},
				AfterBatch: func(dir string, _ []mon.Case) {
					files, _ := filepath.Glob(filepath.Join(dir, "race.*"))
					for _, f := range files {
						b, err := os.ReadFile(f)
						if err != nil {
							continue
						}
						for _, rep := range racelog.Parse(string(b)) {
							d.Event("race-reports", 1)
							if rep.Sig == "" {
								d.Event("race-reports-without-risor-frame", 1)
								continue
							}
							raceSeen[rep.Sig]++
							if raceSeen[rep.Sig] == 1 {
								d.Violation(rep.Sig, "the race detector reported, while cancelled programs with spawned goroutines ran:\n"+mon.Truncate(rep.Text, 3500), map[string]any{"race": rep.Sig})
							}
						}
					}
				}}, func(mc mon.Case, res mon.Result) {
				d.Event("cases-under-race-detector", 1)
			})
		} else {
			d.Event("race-binary-missing", 1)
		}
	} else {
		d.Event("race-binary-missing", 1)
	}
	d.Extra("max_ticks_between_cancel_and_return", maxAfter)
	d.Extra("max_ms_between_cancel_and_return", maxReturnMs)
	d.Extra("shapes", len(shapes))
	d.Extra("tick_bound_per_goroutine", tickBound)
	_ = os.Stdout.Sync()
	return d.Finish(d.N(400, 15000), d.N(300, 10000))
}

func crashText(res mon.Result) string {
	if res.Crash != nil {
		return res.Status + ": " + res.Crash.Exit + " " + res.Crash.FatalLine + "\n" + res.Crash.StderrTail
	}
	return res.Status + ": " + res.Panic
}
