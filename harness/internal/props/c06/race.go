package c06

import (
	"context"
	"encoding/json"
	"errors"
	"fmt"
	"runtime"
	"strings"
	"sync/atomic"
	"time"

	"github.com/risor-io/risor"
	"github.com/risor-io/risor/object"

	"verif/internal/mon"
)

// Send races: many short cancelled evaluations in which several senders (goroutines, and optionally the
// main program) compete for the slots of a small buffered channel while the consumer stops early. The
// cancellation instant is logical (the k-th tick(), one tick after every completed send) and is spread
// over the send phase from trial to trial. A single trial is not repeatable (it depends on which
// sender wins), so the unit that is judged and, for a candidate, re-run alone is the whole series of
// trials of one configuration.
//
// Observed per trial: (1) risor.Eval returns with the context's error, (2) after the return no goroutine
// of the evaluation is still parked in a channel send: the number of goroutines with a frame of
// object.(*Chan).Send must fall back to what it was before the trial (polled for a grace period).

const mainReceives = 30

type raceSpec struct {
	Producers int    `json:"producers"` // sending goroutines
	Cap       int    `json:"cap"`       // channel capacity
	Consumer  string `json:"consumer"`  // main-n: the main program receives n values, then stops receiving; goroutine: a goroutine receives for ever
	MainSends bool   `json:"main_sends"`
	Trials    int    `json:"trials"`
	Offset    int    `json:"offset"` // shifts the cancellation instants
	Confirm   bool   `json:"confirm,omitempty"`
}

func (r *raceSpec) tag() string {
	m := "goroutines-only"
	if r.MainSends {
		m = "main-sends-too"
	}
	return fmt.Sprintf("chan(%d)-%d-producers-%s-consumer-%s", r.Cap, r.Producers, r.Consumer, m)
}

func (r *raceSpec) source() string {
	var b strings.Builder
	fmt.Fprintf(&b, "rc := chan(%d)\nfunc prod() { for { rc <- 1\ntick() } }\n", r.Cap)
	if r.Consumer == "goroutine" {
		b.WriteString("go func() { for { <-rc } }()\n")
	}
	for i := 0; i < r.Producers; i++ {
		b.WriteString(spawnStmt(spawnForms[i%len(spawnForms)], "prod") + "\n")
	}
	if r.Consumer == "main-n" {
		fmt.Fprintf(&b, "for i := 0; i < %d; i++ { <-rc }\n", mainReceives)
	}
	if r.MainSends {
		b.WriteString("for { rc <- 0\ntick() }\n")
	} else {
		b.WriteString("hold := chan()\n<-hold\n")
	}
	return b.String()
}

type raceObs struct {
	Trials     int    `json:"trials"`
	HungAt     int    `json:"hung_at"`  // trial in which Eval did not return (-1: none)
	StuckAt    int    `json:"stuck_at"` // trial after which a goroutine stayed parked in Chan.Send (-1: none)
	K          int64  `json:"k"`
	WrongErr   string `json:"wrong_err,omitempty"`
	WrongErrAt int    `json:"wrong_err_at"`
	Stack      string `json:"stack,omitempty"`
	MaxAfter   int64  `json:"max_after"`
	Note       string `json:"note,omitempty"`
}

func sendersParked() (int, string) {
	buf := make([]byte, 1<<20)
	for {
		n := runtime.Stack(buf, true)
		if n < len(buf) {
			buf = buf[:n]
			break
		}
		buf = make([]byte, 2*len(buf))
	}
	cnt := 0
	sample := ""
	for _, g := range strings.Split(string(buf), "\n\n") {
		if strings.Contains(g, "object.(*Chan).Send") {
			cnt++
			if sample == "" {
				sample = g
			}
		}
	}
	return cnt, sample
}

func runRace(r *raceSpec) (o raceObs) {
	o.HungAt, o.StuckAt, o.WrongErrAt = -1, -1, -1
	src := r.source()
	wd, grace := 5*time.Second, 2*time.Second
	if r.Confirm {
		wd, grace = 12*time.Second, 5*time.Second
	}
	for t := 0; t < r.Trials; t++ {
		o.Trials = t + 1
		// the instants cover the whole send phase; with a consumer that stops after mainReceives values
		// exactly mainReceives + capacity sends can complete, the last instants fall after it has stopped
		span := 61
		if r.Consumer == "main-n" {
			span = mainReceives + r.Cap
		}
		k := int64(1 + (t*7+r.Offset)%span)
		base, _ := sendersParked()
		var ticks, after atomic.Int64
		var cancelled, dead atomic.Bool
		ctx, cancel := context.WithCancel(context.Background())
		tick := object.NewBuiltin("tick", func(_ context.Context, args ...object.Object) object.Object {
			if dead.Load() {
				select {}
			}
			if cancelled.Load() {
				after.Add(1)
				runtime.Gosched()
				return object.Nil
			}
			if ticks.Add(1) == k {
				cancel()
				cancelled.Store(true)
			}
			return object.Nil
		})
		done := make(chan error, 1)
		go func() {
			defer func() {
				if p := recover(); p != nil {
					done <- fmt.Errorf("GO PANIC: %v", p)
				}
			}()
			_, err := risor.Eval(ctx, src, risor.WithConcurrency(), risor.WithGlobals(map[string]any{"tick": tick}))
			done <- err
		}()
		select {
		case err := <-done:
			if !errors.Is(err, context.Canceled) && o.WrongErr == "" {
				o.WrongErr, o.WrongErrAt = fmt.Sprint(err), t
			}
		case <-time.After(wd):
			o.HungAt, o.K = t, k
			_, o.Stack = sendersParked()
			dead.Store(true)
			cancel()
			return
		}
		if a := after.Load(); a > o.MaxAfter {
			o.MaxAfter = a
		}
		// every sender of this evaluation must leave Chan.Send
		deadline := time.Now().Add(grace)
		for {
			n, sample := sendersParked()
			if n <= base {
				break
			}
			if time.Now().After(deadline) {
				o.StuckAt, o.K, o.Stack = t, k, sample
				dead.Store(true)
				cancel()
				return
			}
			time.Sleep(2 * time.Millisecond)
		}
		dead.Store(true)
		cancel()
	}
	return
}

func raceWorker(data json.RawMessage) any {
	var r raceSpec
	if err := json.Unmarshal(data, &r); err != nil {
		return []raceObs{{Note: "bad case: " + err.Error(), HungAt: -1, StuckAt: -1}}
	}
	n := 1
	if r.Confirm {
		n = 2
	}
	var out []raceObs
	for i := 0; i < n; i++ {
		out = append(out, runRace(&r))
	}
	return out
}

func racePlan(d *mon.Driver) []raceSpec {
	var out []raceSpec
	reps := d.N(1, 6)
	for rep := 0; rep < reps; rep++ {
		for _, p := range []int{2, 3, 4} {
			for _, c := range []int{1, 2} {
				for _, cons := range []string{"main-n", "goroutine"} {
					for _, ms := range []bool{false, true} {
						out = append(out, raceSpec{Producers: p, Cap: c, Consumer: cons, MainSends: ms, Trials: d.N(250, 500), Offset: rep*13 + p + 3*c})
					}
				}
			}
		}
	}
	return out
}

func raceVerdicts(r *raceSpec, o *raceObs) []verdict {
	head := fmt.Sprintf("send race %s, %d short cancelled evaluations (the k-th completed send cancels, k spread over 1..61)\nprogram:\n%s\n", r.tag(), r.Trials, indent(r.source()))
	var vs []verdict
	if o.Note != "" {
		return []verdict{{"harness:" + o.Note, head}}
	}
	if o.HungAt >= 0 {
		vs = append(vs, verdict{"no-return:send-race:" + r.tag(), head + fmt.Sprintf("trial %d (cancelled at its tick %d): risor.Eval did not return; a goroutine parked in a channel send at that time:\n%s", o.HungAt, o.K, mon.Truncate(o.Stack, 1500))})
	}
	if o.StuckAt >= 0 {
		vs = append(vs, verdict{"blocked-after-return:send-race:" + r.tag(), head + fmt.Sprintf("trial %d (cancelled at its tick %d): risor.Eval returned, but a goroutine of the evaluation stayed parked in a channel send, ignoring the context:\n%s", o.StuckAt, o.K, mon.Truncate(o.Stack, 1500))})
	}
	if o.WrongErr != "" {
		vs = append(vs, verdict{"wrong-error:send-race:" + r.tag(), head + fmt.Sprintf("trial %d returned %s instead of the context's error", o.WrongErrAt, o.WrongErr)})
	}
	return vs
}

// driveRaces runs the series, re-runs every candidate alone (twice, longer limits) and reports what
// shows again in both runs.
func driveRaces(d *mon.Driver, par int) {
	specs := racePlan(d)
	byID := map[string]*raceSpec{}
	var cases []mon.Case
	for i := range specs {
		id := fmt.Sprintf("s%04d", i)
		byID[id] = &specs[i]
		cases = append(cases, mon.NewCase(id, "race", specs[i]))
	}
	type cand struct {
		id   string
		sigs map[string]string
	}
	var cands []cand
	d.RunPool(cases, mon.PoolOpts{BatchSize: 2, Parallel: par, BatchTimeout: 15 * time.Minute}, func(mc mon.Case, res mon.Result) {
		r := byID[mc.ID]
		d.Eval(1)
		if res.Status != "done" || res.Panic != "" {
			d.Inconclusive("send-race worker " + res.Status + " in " + r.tag())
			return
		}
		var obs []raceObs
		if err := json.Unmarshal(res.Data, &obs); err != nil || len(obs) == 0 {
			d.Fatal("bad send-race worker output")
			return
		}
		o := &obs[0]
		d.Event("send-race-trials", o.Trials)
		d.Distinct("send-race|" + r.tag() + fmt.Sprint("|", r.Offset))
		if vs := raceVerdicts(r, o); len(vs) > 0 {
			c := cand{id: mc.ID, sigs: map[string]string{}}
			for _, v := range vs {
				c.sigs[v.Sig] = v.Detail
			}
			cands = append(cands, c)
		}
	})
	d.Event("send-race-candidates", len(cands))
	if len(cands) > 12 {
		d.Event("send-race-candidates-not-rerun", len(cands)-12)
		cands = cands[:12]
	}
	var confirm []mon.Case
	want := map[string]cand{}
	for _, c := range cands {
		r := *byID[c.id]
		r.Confirm = true
		confirm = append(confirm, mon.NewCase(c.id, "race", r))
		want[c.id] = c
	}
	if len(confirm) == 0 {
		return
	}
	d.RunPool(confirm, mon.PoolOpts{BatchSize: 1, Parallel: 6, BatchTimeout: 10 * time.Minute, NoRetry: true}, func(mc mon.Case, res mon.Result) {
		r := byID[mc.ID]
		c := want[mc.ID]
		if res.Status != "done" || res.Panic != "" {
			d.Inconclusive("send-race worker " + res.Status + " while re-running " + r.tag())
			return
		}
		var obs []raceObs
		_ = json.Unmarshal(res.Data, &obs)
		// a cancellation that does not reach a parked sender shows as a hang or as a leaked sender,
		// depending on who lost the race: either of the two, in both runs alone, confirms the other
		lost := 0
		last := ""
		for i := range obs {
			if obs[i].HungAt >= 0 || obs[i].StuckAt >= 0 {
				lost++
				for _, v := range raceVerdicts(r, &obs[i]) {
					last = v.Detail
				}
			}
		}
		for sig, detail := range c.sigs {
			ok := false
			if strings.HasPrefix(sig, "no-return:") || strings.HasPrefix(sig, "blocked-after-return:") {
				ok = lost == len(obs) && len(obs) >= 2
			} else {
				n := 0
				for i := range obs {
					for _, v := range raceVerdicts(r, &obs[i]) {
						if v.Sig == sig {
							n++
						}
					}
				}
				ok = n == len(obs) && len(obs) >= 2
			}
			if ok {
				d.Violation(sig, detail+"\n(seen in the batch run and again in both series run alone; the last of them:\n"+mon.Truncate(last, 600)+")", map[string]any{"race": r})
			} else {
				d.Inconclusive("send race finding not repeatable when re-run alone: " + sig)
			}
		}
	})
}
