package c06

import (
	"fmt"
	"strings"
)

// A shape is a program fragment that never terminates by itself: it either keeps calling the host
// builtin tick() (kind "tick": the k-th tick is the logical cancellation instant) or blocks without
// ticking after having called parked() (kind "park": the driver cancels a short delay after parked()).
type shape struct {
	Name string
	Kind string // tick | park
	Body string // statements; valid at top level and inside a function body
	// CanExit: the blocking construct / callback-carrying builtin itself returns once the context is
	// done, so that the script goes on with whatever follows it. Such shapes exist in two variants:
	// tail "loop" (followed by an endless tick loop, so that the program cannot finish) and tail
	// "end" (nothing follows: the program was blocked / looping when the context was cancelled, so the
	// evaluation must still report the context's error).
	CanExit bool
	// SelfEnds: the shape ends with an error of its own after a bounded number of ticks (unbounded
	// recursion hits the frame limit), so only early instants are meaningful and no deadline variant.
	SelfEnds bool
	// Tickers: goroutines of the shape itself that tick concurrently (for the progress bound)
	Tickers int
	// Exec: the shape waits in exec(...) for a child process. The cancellation instant is a delay after
	// parked() long enough for the child to be running; what the run must do is return promptly WITH AN
	// ERROR (the killed child's own error does not wrap the context's, on the unchanged tree either).
	Exec bool
}

// Children that a cancelled evaluation has to get rid of: an ordinary one, ones that ignore SIGTERM
// (with and without the shell staying their parent), one that ignores SIGTERM, SIGINT and SIGHUP. They
// sleep 25 s: longer than the doubled watchdog of a confirmation run, short enough that a leftover ends
// by itself.
const (
	childPlain   = `exec("sleep", ["25"])`
	childNoTerm  = `exec("sh", ["-c", "trap '' TERM; exec sleep 25"])`
	childNoTerm2 = `exec("sh", ["-c", "trap '' TERM; sleep 25; true"])`
	childNoSigs  = `exec("sh", ["-c", "trap '' TERM INT HUP; exec sleep 25"])`
	childCommand = `exec.command("sh", "-c", "trap '' TERM; exec sleep 25").run()`
)

// execShapes are kept apart from the general catalogue: they run at top level only (default cancel and
// deadline contexts), because each of them starts a real process.
var execShapes = []shape{
	{Name: "exec-sleep", Kind: "park", Exec: true, CanExit: true, Body: "parked()\n" + childPlain},
	{Name: "exec-child-ignores-sigterm", Kind: "park", Exec: true, CanExit: true, Body: "parked()\n" + childNoTerm},
	{Name: "exec-sh-child-ignores-sigterm", Kind: "park", Exec: true, CanExit: true, Body: "parked()\n" + childNoTerm2},
	{Name: "exec-child-ignores-term-int-hup", Kind: "park", Exec: true, CanExit: true, Body: "parked()\n" + childNoSigs},
	{Name: "exec.command-run-child-ignores-sigterm", Kind: "park", Exec: true, CanExit: true, Body: "parked()\n" + childCommand},
	{Name: "cb-map-exec-child-ignores-sigterm", Kind: "park", Exec: true, CanExit: true, Body: "[1].map(func(x) { parked()\n" + childNoTerm + " })"},
	{Name: "cb-try-exec-child-ignores-sigterm", Kind: "park", Exec: true, CanExit: true, Body: "try(func() { parked()\n" + childNoTerm + " })"},
	{Name: "defer-exec-child-ignores-sigterm", Kind: "park", Exec: true, CanExit: true, Body: "func work() { defer func() { parked()\n" + childNoTerm + " }()\nreturn 1 }\nwork()"},
}

const dloopDecl = "func dloop() { for { tick() } }\n"

const huge = "4611686018427387904" // 1<<62

var shapes = []shape{
	// --- the five loop forms
	{Name: "for-bare", Kind: "tick", Body: "for { tick() }"},
	{Name: "for-cond", Kind: "tick", Body: "cx := 1\nfor cx > 0 { tick() }"},
	{Name: "for-three", Kind: "tick", Body: "for i := 0; i >= 0; i++ { tick() }"},
	{Name: "for-range-int", Kind: "tick", Body: "for i := range " + huge + " { tick() }", CanExit: false},
	{Name: "for-range-kv-int", Kind: "tick", Body: "for i, v := range " + huge + " { tick() }"},
	{Name: "for-in-int", Kind: "tick", Body: "for v in " + huge + " { tick() }"},
	{Name: "for-range-chan-fed", Kind: "tick", Body: "fc := chan(4)\ngo func() { for { fc <- 1 } }()\nfor v := range fc { tick() }", CanExit: true},
	{Name: "for-in-chan-fed", Kind: "tick", Body: "fc := chan(4)\ngo func() { for { fc <- 1 } }()\nfor v in fc { tick() }", CanExit: true},
	{Name: "for-nested", Kind: "tick", Body: "for { for j := 0; j < 3; j++ { tick() } }"},
	{Name: "for-continue", Kind: "tick", Body: "for { tick()\nif true { continue }\n}"},
	{Name: "for-switch", Kind: "tick", Body: "for i := 0; i >= 0; i++ { switch i % 2 { case 0: tick()\n default: tick() } }"},
	// --- recursion
	{Name: "recursion-unbounded", Kind: "tick", Body: "func rec(n) { tick()\nreturn rec(n+1) + 1 }\nrec(0)", SelfEnds: true},
	{Name: "recursion-loop", Kind: "tick", Body: "func rec(n) { tick()\nif n < 300 { return rec(n+1) + 1 }\nreturn 0 }\nfor { rec(0) }"},
	// --- endless loop inside the callback of a builtin
	{Name: "cb-list.map1", Kind: "tick", Body: "[1, 2, 3].map(func(x) { for { tick() } })", CanExit: true},
	{Name: "cb-list.map2", Kind: "tick", Body: "[1, 2, 3].map(func(i, x) { for { tick() } })", CanExit: true},
	{Name: "cb-list.filter", Kind: "tick", Body: "[1, 2, 3].filter(func(x) { for { tick() } })", CanExit: true},
	{Name: "cb-list.each", Kind: "tick", Body: "[1, 2, 3].each(func(x) { for { tick() } })", CanExit: true},
	{Name: "cb-sorted", Kind: "tick", Body: "sorted([3, 1, 2, 5, 4], func(a, b) { for { tick() } })", CanExit: true},
	{Name: "cb-try", Kind: "tick", Body: "try(func() { for { tick() } })", CanExit: true},
	{Name: "cb-try-handler", Kind: "tick", Body: "try(func() { error(\"boom\") }, func(e) { for { tick() } })", CanExit: true},
	{Name: "cb-call", Kind: "tick", Body: "call(func() { for { tick() } })", CanExit: true},
	{Name: "cb-defer", Kind: "tick", Body: "func df() { defer func() { for { tick() } }()\nreturn 1 }\ndf()", CanExit: true},
	{Name: "cb-nested", Kind: "tick", Body: "try(func() { [1].each(func(x) { sorted([2, 1], func(a, b) { for { tick() } }) }) })", CanExit: true},
	{Name: "thread-wait-ticking", Kind: "tick", Body: "wt := spawn(func() { for { tick() } })\nwt.wait()", CanExit: true},
	// --- script functions deferred by a function whose body is looping / blocked when the context ends:
	// the deferred call is made while the context's error unwinds the function, and must not run on
	{Name: "defer-fn-loop", Kind: "tick", Body: dloopDecl + "func work() { defer dloop()\nfor { tick() } }\nwork()"},
	{Name: "defer-closure-loop", Kind: "tick", Body: "func work() { defer func() { for { tick() } }()\nfor { tick() } }\nwork()"},
	{Name: "defer-nested-loop", Kind: "tick", Body: dloopDecl + "func cleanup() { defer dloop()\nreturn 1 }\nfunc work() { defer cleanup()\nfor { tick() } }\nwork()"},
	{Name: "defer-recursion-loops", Kind: "tick", Body: dloopDecl + "func drec(n) { defer dloop()\ntick()\nif n < 12 { return drec(n+1) + 1 }\nfor { tick() } }\ndrec(0)"},
	{Name: "defer-callback-loop", Kind: "tick", Body: dloopDecl + "func work() { defer dloop()\n[1, 2].each(func(v) { for { tick() } }) }\nwork()"},
	{Name: "defer-go-loop", Kind: "tick", Body: dloopDecl + "func cleanup() { go dloop() }\nfunc work() { defer cleanup()\nfor { tick() } }\nwork()"},
	{Name: "defer-spawn-loop", Kind: "tick", Body: dloopDecl + "func cleanup() { spawn(dloop) }\nfunc work() { defer cleanup()\nfor { tick() } }\nwork()"},
	{Name: "defer-fspawn-loop", Kind: "tick", Body: dloopDecl + "func cleanup() { dloop.spawn() }\nfunc work() { defer cleanup()\nfor { tick() } }\nwork()"},
	{Name: "defer-loop-body-blocked", Kind: "park", Body: dloopDecl + "func work() { defer dloop()\nbc := chan()\nparked()\n<-bc }\nwork()"},
	{Name: "defer-go-body-blocked", Kind: "park", Body: dloopDecl + "func cleanup() { go dloop() }\nfunc work() { defer cleanup()\nparked()\ntime.sleep(1000000)\nfor { tick() } }\nwork()"},
	// --- blocked without ticking
	{Name: "for-empty", Kind: "park", Body: "parked()\nfor { }"},
	{Name: "recv-op", Kind: "park", Body: "bc := chan()\nparked()\n<-bc", CanExit: true},
	{Name: "recv-method", Kind: "park", Body: "bc := chan()\nparked()\nbc.receive()", CanExit: true},
	{Name: "send-op", Kind: "park", Body: "bc := chan()\nparked()\nbc <- 1", CanExit: true},
	{Name: "send-method", Kind: "park", Body: "bc := chan()\nparked()\nbc.send(1)", CanExit: true},
	{Name: "send-buffer-full", Kind: "park", Body: "bc := chan(1)\nbc <- 1\nparked()\nbc <- 2", CanExit: true},
	{Name: "range-chan", Kind: "park", Body: "bc := chan()\nparked()\nfor v := range bc { tick() }", CanExit: true},
	{Name: "for-in-chan", Kind: "park", Body: "bc := chan()\nparked()\nfor v in bc { tick() }", CanExit: true},
	{Name: "any-chan", Kind: "park", Body: "bc := chan()\nparked()\nany(bc)", CanExit: true},
	{Name: "all-chan", Kind: "park", Body: "bc := chan()\nparked()\nall(bc)", CanExit: true},
	{Name: "keys-chan", Kind: "park", Body: "bc := chan()\nparked()\nkeys(bc)", CanExit: true},
	{Name: "sleep", Kind: "park", Body: "parked()\ntime.sleep(1000000)", CanExit: true},
	// sleeps of an ordinary length (a minute), directly, inside a callback, inside a deferred function
	{Name: "sleep-60s", Kind: "park", Body: "parked()\ntime.sleep(60)", CanExit: true},
	{Name: "cb-map-sleep-60s", Kind: "park", Body: "[1, 2].map(func(x) { parked()\ntime.sleep(60) })", CanExit: true},
	{Name: "defer-sleep-60s", Kind: "park", Body: "func work() { defer func() { parked()\ntime.sleep(60) }()\nreturn 1 }\nwork()", CanExit: true},
	{Name: "thread-wait-blocked", Kind: "park", Body: "wt := spawn(func() { wc := chan()\n<-wc })\nparked()\nwt.wait()", CanExit: true},
	// the thread runs host code that does not look at the context at all (hostblock() returns when the
	// case is over): only Thread.Wait itself can notice the cancellation
	{Name: "thread-wait-hostcode", Kind: "park", Body: "wt := spawn(hostblock)\nparked()\nwt.wait()", CanExit: true},
	{Name: "cb-map-recv", Kind: "park", Body: "bc := chan()\n[1, 2].map(func(x) { parked()\n<-bc })", CanExit: true},
	{Name: "cb-try-recv", Kind: "park", Body: "bc := chan()\ntry(func() { parked()\n<-bc })", CanExit: true},
	{Name: "cb-try-sleep", Kind: "park", Body: "try(func() { parked()\ntime.sleep(1000000) })", CanExit: true},
}

func shapeByName(n string) *shape {
	for i := range shapes {
		if shapes[i].Name == n {
			return &shapes[i]
		}
	}
	for i := range execShapes {
		if execShapes[i].Name == n {
			return &execShapes[i]
		}
	}
	return nil
}

var spawnForms = []string{"go", "spawn", "fspawn"}

func spawnStmt(form, fn string) string {
	switch form {
	case "go":
		return "go " + fn + "()"
	case "spawn":
		return "spawn(" + fn + ")"
	default:
		return fn + ".spawn()"
	}
}

func indent(s string) string {
	return "\t" + strings.ReplaceAll(s, "\n", "\n\t")
}

// render builds the program: the shape's body (plus its tail) at top level for an empty chain, else
// inside the innermost of len(chain) goroutines, each started by the given spawn form from the level
// above; the main program then blocks on a channel nobody serves. mid says what the intermediate
// goroutines do after having spawned the next level: "exit" or "loop" (tick forever as well).
func render(sh *shape, tail string, chain []string, mid string, entry bool) string {
	body := sh.Body
	if tail == "loop" {
		body += "\nfor { tick() }"
	}
	if len(chain) == 0 {
		if entry {
			// the workload is the body of a function that the host calls (risor.Call, vm.Call)
			return fmt.Sprintf("func entry() {\n%s\n}\n", indent(body))
		}
		return body + "\n"
	}
	var b strings.Builder
	b.WriteString("hold := chan()\n")
	fmt.Fprintf(&b, "func lvl%d() {\n%s\n}\n", len(chain), indent(body))
	for l := len(chain) - 1; l >= 1; l-- {
		inner := spawnStmt(chain[l], fmt.Sprintf("lvl%d", l+1))
		if mid == "loop" {
			inner += "\nfor { tick() }"
		}
		fmt.Fprintf(&b, "func lvl%d() {\n%s\n}\n", l, indent(inner))
	}
	if entry {
		fmt.Fprintf(&b, "func entry() {\n%s\n}\n", indent(spawnStmt(chain[0], "lvl1")+"\n<-hold"))
		return b.String()
	}
	b.WriteString(spawnStmt(chain[0], "lvl1") + "\n")
	b.WriteString("<-hold\n")
	return b.String()
}

// Reuse forms: the workload is the 2nd or 3rd invocation on ONE virtual machine, and every invocation
// gets one and the same cancellable / deadline context (the way risor.Call, a REPL session or an
// embedder that keeps a VM around use the API). The earlier invocations terminate by themselves and
// do not tick; the cancellation arrives while the last one runs.
type reuseForm struct {
	Name  string
	Entry bool // the workload is a function `entry` called by the host
	What  string
}

var reuseForms = []reuseForm{
	{"risor.Call", true, "risor.Call(ctx, code, \"entry\") = RunCode(ctx) then Call(ctx) on one VM"},
	{"runcode-call", true, "vm.RunCode(ctx, code) then vm.Call(ctx, entry) on one VM"},
	{"runcode-call-call", true, "vm.RunCode(ctx, code), vm.Call(ctx, quick), then vm.Call(ctx, entry) on one VM"},
	{"eval-vm-2nd", false, "risor.Eval(ctx, `1 + 1`, WithVM(m)) then risor.Eval(ctx, program, WithVM(m))"},
	{"eval-vm-3rd", false, "two terminating risor.Eval(ctx, .., WithVM(m)) then risor.Eval(ctx, program, WithVM(m))"},
	{"eval-vm-2nd-after-error", false, "risor.Eval(ctx, `[0][5]`, WithVM(m)) (fails) then risor.Eval(ctx, program, WithVM(m))"},
	{"eval-vm-2nd-value-ctx", false, "risor.Eval(ctx, `1 + 1`, WithVM(m)) then risor.Eval(context.WithValue(ctx, k, v), program, WithVM(m))"},
	{"repl-run-2nd", false, "REPL protocol: compile `warm := 1`, vm.New(code).Run(ctx); compile the program after it, Run(ctx) again"},
}

func reuseByName(n string) *reuseForm {
	for i := range reuseForms {
		if reuseForms[i].Name == n {
			return &reuseForms[i]
		}
	}
	return nil
}

// tickers is the number of goroutines that may be ticking concurrently when the context is cancelled.
func tickers(sh *shape, chain []string, mid string) int {
	n := 1 + sh.Tickers
	if mid == "loop" && len(chain) > 1 {
		n += len(chain) - 1
	}
	return n
}
