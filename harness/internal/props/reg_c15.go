package props

import "verif/internal/props/c15"

func init() { registrars = append(registrars, c15.Register) }
