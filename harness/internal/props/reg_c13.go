package props

import "verif/internal/props/c13"

func init() { registrars = append(registrars, c13.Register) }
