// Package c18: incremental (REPL-style) evaluation equals whole-program evaluation
// (differential history monitor against the reference interpreter run piece by piece).
package c18

import (
	"context"
	"encoding/json"
	"fmt"
	"runtime/debug"
	"sort"
	"strings"
	"testing/fstest"
	"time"

	"github.com/risor-io/risor"
	"github.com/risor-io/risor/compiler"
	"github.com/risor-io/risor/importer"
	"github.com/risor-io/risor/object"
	ros "github.com/risor-io/risor/os"
	"github.com/risor-io/risor/parser"
	"github.com/risor-io/risor/vm"

	"verif/internal/eng"
	"verif/internal/gen"
	"verif/internal/mon"
	"verif/internal/rz"
)

const ID = "C18"

func Register() {
	mon.Register(&mon.Prop{ID: ID, Drive: drive})
	mon.RegisterWorker(ID, worker)
}

// piece of a history: either generated statements (AST, evaluated by the model) or a text snippet that
// must be rejected by the parser/compiler.
type piece struct {
	// Host: a single leading declaration that is handed to the session as a host-provided global
	// (risor.WithGlobal) instead of being evaluated, when the model finds a plain value for it
	Host   bool
	Stmts  []gen.Stmt
	Text   string // for rejected pieces
	Reject string // "" | "syntax" | "undefined" | "const-assign" | "const-incdec" | "undefined-in-func" | "block-shadow-undefined" | "loop-var-shadow-undefined" | "dup-func" | "effect-then-reject"
}

type pieceObs struct {
	Status string `json:"status"` // accepted | rejected | failed
	Value  string `json:"value"`
	Err    string `json:"err"`
	Out    string `json:"out"`
}

// session drives the REPL protocol through public calls: one compiler, one VM, Parse+Compile per piece,
// Run, SetIP(end) after a run-time error.
type session struct {
	ctx    context.Context
	cancel context.CancelFunc
	cfg    *risor.Config
	c      *compiler.Compiler
	v      *vm.VirtualMachine
	stdout *rz.OutFile
	seen   int
	host   []hostGlobal
	// modules: when set, the session's configuration has an importer serving these files
	modules fstest.MapFS
}

func newSession(deadline time.Duration) (*session, error) {
	s := &session{stdout: &rz.OutFile{}}
	s.ctx, s.cancel = context.WithTimeout(context.Background(), deadline)
	return s, nil
}

// configure builds configuration and compiler on first use, with the host-provided globals known by then.
func (s *session) configure() error {
	if s.c != nil {
		return nil
	}
	vos := ros.NewVirtualOS(s.ctx, ros.WithStdout(s.stdout))
	opts := []risor.Option{risor.WithOS(vos)}
	for _, h := range s.host {
		opts = append(opts, risor.WithGlobal(h.name, h.val))
	}
	if s.modules != nil {
		names := risor.NewConfig(opts...).GlobalNames()
		opts = append(opts, risor.WithImporter(importer.NewFSImporter(importer.FSImporterOptions{GlobalNames: names, SourceFS: s.modules})))
	}
	s.cfg = risor.NewConfig(opts...)
	c, err := compiler.New(s.cfg.CompilerOpts()...)
	if err != nil {
		return err
	}
	s.c = c
	return nil
}

// plainExpr: literals, names, operators, indexing and list literals only — evaluating it cannot print,
// call anything or change other state, so leaving the statement out of the session loses nothing.
func plainExpr(e gen.Expr) bool {
	switch x := e.(type) {
	case *gen.IntLit, *gen.FloatLit, *gen.StrLit, *gen.BoolLit, *gen.Ident:
		return true
	case *gen.Prefix:
		return plainExpr(x.X)
	case *gen.Binary:
		return plainExpr(x.L) && plainExpr(x.R)
	case *gen.Ternary:
		return plainExpr(x.C) && plainExpr(x.A) && plainExpr(x.B)
	case *gen.Index:
		return plainExpr(x.X) && plainExpr(x.I)
	case *gen.ListLit:
		for _, it := range x.Items {
			if !plainExpr(it) {
				return false
			}
		}
		return true
	}
	return false
}

type hostGlobal struct {
	name string
	val  any
}

// hostValue converts a model value to the Go value an embedder would pass to WithGlobal.
func hostValue(v gen.Value) (any, bool) {
	switch x := v.(type) {
	case int64, float64, string, bool:
		return x, true
	case *gen.List:
		items := make([]object.Object, 0, len(x.Items))
		for _, it := range x.Items {
			switch y := it.(type) {
			case int64:
				items = append(items, object.NewInt(y))
			case string:
				items = append(items, object.NewString(y))
			case bool:
				items = append(items, object.NewBool(y))
			default:
				return nil, false
			}
		}
		return object.NewList(items), true
	}
	return nil, false
}

func (s *session) eval(src string) (o pieceObs, goPanic string) {
	defer func() {
		if r := recover(); r != nil {
			goPanic = fmt.Sprintf("%v\n%s", r, debug.Stack())
		}
		full := s.stdout.String()
		o.Out = full[s.seen:]
		s.seen = len(full)
	}()
	if err := s.configure(); err != nil {
		panic(err)
	}
	ast, err := parser.Parse(s.ctx, src)
	if err != nil {
		o.Status, o.Err = "rejected", err.Error()
		return
	}
	code, err := s.c.Compile(ast)
	if err != nil {
		o.Status, o.Err = "rejected", err.Error()
		return
	}
	if s.v == nil {
		s.v = vm.New(code, s.cfg.VMOpts()...)
	}
	if err := s.v.Run(s.ctx); err != nil {
		_ = s.v.SetIP(code.InstructionCount())
		o.Status = "failed"
		o.Err = rz.ClassifyErr(err.Error())
		if s.ctx.Err() != nil {
			o.Err = "timeout"
		}
		return
	}
	o.Status = "accepted"
	if tos, ok := s.v.TOS(); ok && tos != nil {
		o.Value = rz.RenderObj(tos)
	} else {
		o.Value = "nil:nil"
	}
	return
}

func (s *session) global(name string) (string, bool) {
	if s.v == nil {
		return "", false
	}
	v, err := s.v.Get(name)
	if err != nil || v == nil {
		return "", false
	}
	return rz.RenderObj(v), true
}

// ---------------------------------------------------------------------------------------

type caseData struct {
	eng.Batch
	Kind     string `json:"kind"` // "gen" | "long"
	PartSeed uint64 `json:"part_seed,omitempty"`
	Rejects  bool   `json:"rejects"`
	D20      bool   `json:"d20"` // include effect-then-reject pieces (recorded finding D20)
	Long     int    `json:"long,omitempty"`
}

type failure struct {
	Index  int    `json:"index"`
	Sig    string `json:"sig"`
	Detail string `json:"detail"`
	Script string `json:"script"`
}

type out struct {
	Programs       int       `json:"programs"`
	Histories      int       `json:"histories"`
	Pieces         int       `json:"pieces"`
	Rejected       int       `json:"rejected"`
	Failed         int       `json:"failed"`
	Globals        int       `json:"globals_compared"`
	Hosted         int       `json:"host_provided_globals"`
	Nested         int       `json:"stored_function_sessions"`
	ModuleSessions int       `json:"module_sessions"`
	Discarded      int       `json:"discarded"`
	Sigs           []string  `json:"sigs"`
	Fail           []failure `json:"fail"`
	Samples        []string  `json:"samples"`
	Harness        []string  `json:"harness"`
	WholeAgree     int       `json:"whole_agree"`
}

func rejectPiece(kind string, k int, consts, funcs []string, vars ...string) piece {
	switch kind {
	case "syntax":
		texts := []string{"x := := 3", "func (", ")", "if { }", "1 +", "[1, 2", "for i := 0; i <", "x = = 1", "switch {", "'{'"}
		return piece{Text: texts[k%len(texts)], Reject: "syntax"}
	case "undefined":
		return piece{Text: fmt.Sprintf("nosuchname_%d", k), Reject: "undefined"}
	case "const-assign":
		if len(consts) > 0 {
			return piece{Text: fmt.Sprintf("%s = 5", consts[k%len(consts)]), Reject: "const-assign"}
		}
	case "const-incdec":
		if len(consts) > 0 {
			return piece{Text: fmt.Sprintf("%s%s", consts[k%len(consts)], []string{"++", "--"}[k%2]), Reject: "const-incdec"}
		}
	case "block-shadow-undefined":
		// the rejected piece declares, inside a top-level block, a variable with the name of a live global
		// before it fails (the block's leftover instructions only touch the block's own variable)
		if len(vars) > 0 {
			return piece{Text: fmt.Sprintf("if true { %s := 1; nosuchname_%d }", vars[k%len(vars)], k), Reject: "block-shadow-undefined"}
		}
	case "loop-var-shadow-undefined":
		// rejected inside the body of a top-level range / in loop whose variables carry the names of live
		// globals: the loop's scope must be gone afterwards
		if len(vars) > 0 {
			v := vars[k%len(vars)]
			w := vars[(k/7)%len(vars)]
			forms := []string{"for %[1]s := range [1, 2] { nosuchname_%[3]d }", "for _, %[1]s := range [7] { rjq := 1; nosuchname_%[3]d }", "for %[1]s in [1, 2] { nosuchname_%[3]d }",
				"for rjk, %[1]s := range {\"a\": 1} { if true { nosuchname_%[3]d } }", "for %[1]s, %[2]s := range [1] { nosuchname_%[3]d }", "for %[1]s := range 3 { for %[2]s in [1] { nosuchname_%[3]d } }"}
			f := forms[k%len(forms)]
			if v == w && strings.Contains(f, "%[2]s") {
				f = forms[0]
			}
			return piece{Text: fmt.Sprintf(f, v, w, k), Reject: "loop-var-shadow-undefined"}
		}
	case "undefined-in-loop":
		// rejected while the compiler is inside a loop, before the loop has emitted anything
		forms := []string{"for nosuchname_%d { }", "for { nosuchname_%d }", "for rjl := range nosuchname_%d { }", "for nosuchname_%d { break }"}
		return piece{Text: fmt.Sprintf(forms[k%len(forms)], k), Reject: "undefined-in-loop"}
	case "control-outside-loop":
		return piece{Text: []string{"break", "continue"}[k%2], Reject: "control-outside-loop"}
	case "undefined-in-func-with-strings":
		// the failing function body holds string constants and map keys that later pieces use too
		forms := []string{`func rjs_%d() { x := "ab"; y := {"k": "z", "a": "b"}; return nosuchname_%d }`, `rjt_%d := func() { return ["hello", "x y", "0", "a", "c", nosuchname_%d] }`,
			`func rju_%d() { m := {"zz": 1, "b": 2, "c": 3}; return m["zz"] + nosuchname_%d }`}
		return piece{Text: fmt.Sprintf(forms[k%len(forms)], k, k), Reject: "undefined-in-func"}
	case "undefined-in-func":
		// the failure happens while the compiler is inside a function body
		forms := []string{"func rjf_%d() { return nosuchname_%d }", "rjv_%d := func(a) { return func() { return a + nosuchname_%d } }", "[1].map(func(x) { nosuchname_%[2]d })",
			"%[1]d | func(v) { return nosuchname_%[2]d }", "[%[1]d] | len | func(v) { return v + nosuchname_%[2]d }", "try(func() { return nosuchname_%[2]d }, func(e) { return %[1]d })"}
		return piece{Text: fmt.Sprintf(forms[k%len(forms)], k, k), Reject: "undefined-in-func"}
	case "dup-func":
		if len(funcs) > 0 {
			return piece{Text: fmt.Sprintf("func %s() { return 1 }", funcs[k%len(funcs)]), Reject: "dup-func"}
		}
	case "effect-then-reject":
		return piece{Text: fmt.Sprintf("print(\"RJ%d\"); nosuchname_%d", k, k), Reject: "effect-then-reject"}
	}
	return piece{Text: fmt.Sprintf("nosuchname_%d", k), Reject: "undefined"}
}

// runHistory evaluates one history on the real protocol and on the incremental model and compares.
// runHistory: a history whose session ran into its wall-clock deadline is repeated once with a five times
// longer one (the pieces are small: on a loaded machine the first deadline can pass without any fault);
// only a second expiry is reported, as a hang.
func runHistory(pieces []piece) (sig, detail, script string, st struct{ pieces, rejected, failed, globals, hosted int }, decided bool, herr error) {
	var timedOut bool
	sig, detail, script, st, decided, herr, timedOut = runHistoryT(pieces, 60*time.Second)
	if timedOut {
		sig, detail, script, st, decided, herr, timedOut = runHistoryT(pieces, 300*time.Second)
		if timedOut {
			return "incremental:hang", "the session did not finish within 60 s and, repeated, within 300 s\n" + detail, script, st, true, nil
		}
	}
	return
}

func runHistoryT(pieces []piece, deadline time.Duration) (sig, detail, script string, st struct{ pieces, rejected, failed, globals, hosted int }, decided bool, herr error, timedOut bool) {
	defer func() {
		if timedOut {
			sig, decided = "", false
		}
	}()
	sig, detail, script, st, decided, herr, timedOut = runHistory1(pieces, deadline)
	return
}

func runHistory1(pieces []piece, deadline time.Duration) (sig, detail, script string, st struct{ pieces, rejected, failed, globals, hosted int }, decided bool, herr error, timedOut bool) {
	in := gen.NewInterp()
	in.LenientNames = true
	in.Start()
	sess, err := newSession(deadline)
	if err != nil {
		return "", "", "", st, false, err, false
	}
	defer sess.cancel()
	defer func() {
		if sess.ctx.Err() != nil {
			timedOut = true
		}
	}()
	var sb strings.Builder
	var hostedLists map[*gen.List]bool
	unreached := map[string]string{}
	d20Seen := false
	for pi, pc := range pieces {
		st.pieces++
		src := pc.Text
		if pc.Reject == "" {
			src = gen.RenderProgram(&gen.Program{Stmts: pc.Stmts})
		}
		if pc.Host && sess.c == nil {
			// try to hand this declaration to the session as a host-provided global: the model evaluates it;
			// when that gives a plain value without printing or failing, the real session never sees the
			// statement and gets the value through WithGlobal instead
			vd := pc.Stmts[0].(*gen.VarDecl)
			var o gen.Outcome
			var ok bool
			func() {
				defer func() {
					if r := recover(); r != nil {
						herr = fmt.Errorf("model panic: %v", r)
					}
				}()
				o, ok = in.RunPiece(pc.Stmts)
			}()
			if herr != nil {
				return "", "", sb.String(), st, false, herr, false
			}
			if !ok {
				return "", "", sb.String(), st, false, nil, false
			}
			hosted := false
			if o.Err == "" && o.Out == "" {
				if mv, found := in.GlobalValue(vd.Name); found {
					// two names bound to one list in the model must not become two separate host objects
					aliased := false
					if l, isList := mv.(*gen.List); isList {
						if hostedLists == nil {
							hostedLists = map[*gen.List]bool{}
						}
						aliased = hostedLists[l]
						hostedLists[l] = true
					}
					if gv, conv := hostValue(mv); conv && !aliased {
						sess.host = append(sess.host, hostGlobal{vd.Name, gv})
						st.hosted++
						hosted = true
						fmt.Fprintf(&sb, "--- host-provided global %s = %s (instead of: %s)\n", vd.Name, gen.Render(mv), strings.TrimRight(src, "\n"))
					}
				}
			}
			if hosted {
				continue
			}
			// not a plain value: the statement is an ordinary piece, which the model has already run
			fmt.Fprintf(&sb, "--- piece %d (generated)\n%s\n", pi, strings.TrimRight(src, "\n"))
			want := pieceObs{Status: "accepted", Value: o.Result, Out: o.Out}
			if o.Err != "" {
				want = pieceObs{Status: "failed", Err: o.Err, Out: o.Out}
				st.failed++
			}
			got, goPanic := sess.eval(src)
			if goPanic != "" {
				return "go-panic-escaped", mon.Truncate(goPanic, 1500), sb.String(), st, true, nil, false
			}
			if got.Status != want.Status || got.Out != want.Out || (want.Status == "accepted" && got.Value != want.Value) || (want.Status == "failed" && got.Err != want.Err) {
				return "incremental:first-declaration", fmt.Sprintf("piece %d: model %+v, real %+v", pi, want, got), sb.String(), st, true, nil, false
			}
			continue
		}
		fmt.Fprintf(&sb, "--- piece %d (%s)\n%s\n", pi, map[bool]string{true: "expected to be rejected: " + pc.Reject, false: "generated"}[pc.Reject != ""], strings.TrimRight(src, "\n"))
		var want pieceObs
		if pc.Reject != "" {
			want = pieceObs{Status: "rejected"}
			st.rejected++
			if pc.Reject == "effect-then-reject" {
				d20Seen = true
			}
		} else {
			var o gen.Outcome
			var ok bool
			func() {
				defer func() {
					if r := recover(); r != nil {
						herr = fmt.Errorf("model panic: %v", r)
					}
				}()
				o, ok = in.RunPiece(pc.Stmts)
			}()
			if herr != nil {
				return "", "", sb.String(), st, false, herr, false
			}
			if !ok {
				return "", "", sb.String(), st, false, nil, false
			}
			if o.Err != "" {
				want = pieceObs{Status: "failed", Err: o.Err, Out: o.Out}
				st.failed++
				// declarations with literal initialisers that the failing piece never reached
				for _, stx := range pc.Stmts {
					vd, isDecl := stx.(*gen.VarDecl)
					if !isDecl {
						continue
					}
					if _, reached := in.GlobalValue(vd.Name); reached {
						continue
					}
					switch l := vd.X.(type) {
					case *gen.IntLit:
						unreached[vd.Name] = gen.Render(l.V)
					case *gen.StrLit:
						unreached[vd.Name] = gen.Render(l.V)
					case *gen.FloatLit:
						unreached[vd.Name] = gen.Render(l.V)
					case *gen.BoolLit:
						unreached[vd.Name] = gen.Render(l.V)
					}
				}
			} else {
				want = pieceObs{Status: "accepted", Value: o.Result, Out: o.Out}
			}
		}
		got, goPanic := sess.eval(src)
		if goPanic != "" {
			return "go-panic-escaped", mon.Truncate(goPanic, 1500), sb.String(), st, true, nil, false
		}
		mismatch := ""
		switch {
		case got.Status != want.Status:
			mismatch = fmt.Sprintf("piece %d: expected %s, real %s (%s)", pi, want.Status, got.Status, got.Err)
		case want.Status == "accepted" && got.Value != want.Value && !strings.Contains(want.Value, "<function>"):
			mismatch = fmt.Sprintf("piece %d: value: model %s, real %s", pi, want.Value, got.Value)
		case want.Status == "failed" && got.Err != want.Err:
			mismatch = fmt.Sprintf("piece %d: error: model %q, real %q", pi, want.Err, got.Err)
		case got.Out != want.Out:
			mismatch = fmt.Sprintf("piece %d: printed output: model %q, real %q", pi, want.Out, got.Out)
		}
		if mismatch != "" {
			kind := "piece-value"
			switch {
			case got.Status != want.Status && want.Status == "rejected":
				kind = "expected-rejection-accepted:" + pc.Reject
			case got.Status != want.Status:
				kind = "piece-status:" + want.Status + "->" + got.Status
			case got.Out != want.Out:
				kind = "piece-output"
			case want.Status == "failed":
				kind = "piece-error"
			}
			if d20Seen && strings.Contains(got.Out, "RJ") && !strings.Contains(want.Out, "RJ") {
				return "rejected-piece-effects-run-later", mismatch, sb.String(), st, true, nil, false
			}
			after := "after-accepted"
			for k := pi - 1; k >= 0; k-- {
				if pieces[k].Reject != "" {
					after = "after-rejected:" + pieces[k].Reject
					break
				}
				break
			}
			return "incremental:" + kind + ":" + after, mismatch, sb.String(), st, true, nil, false
		}
	}
	// final globals
	names := make([]string, 0)
	final := in.Globals()
	for n := range final {
		names = append(names, n)
	}
	sort.Strings(names)
	for _, n := range names {
		got, ok := sess.global(n)
		if !ok {
			continue
		}
		if strings.Contains(final[n], "<function>") {
			continue // functions inside containers render as source text on the real side
		}
		st.globals++
		if got != final[n] {
			if d20Seen {
				return "rejected-piece-effects-run-later", fmt.Sprintf("final global %s: model %s, real %s", n, final[n], got), sb.String(), st, true, nil, false
			}
			return "incremental:final-global", fmt.Sprintf("final global %s: model %s, real %s", n, final[n], got), sb.String(), st, true, nil, false
		}
	}
	// a declaration that a failing piece never reached has not happened: its name must not yield the value
	// of the initialiser that never ran (anything else — nil, an error — is left open)
	unames := make([]string, 0, len(unreached))
	for n := range unreached {
		unames = append(unames, n)
	}
	sort.Strings(unames)
	for _, n := range unames {
		if _, declaredLater := final[n]; declaredLater {
			continue
		}
		got, goPanic := sess.eval(n)
		if goPanic == "" && got.Status == "accepted" && got.Value == unreached[n] {
			return "incremental:unreached-declaration-visible", fmt.Sprintf("%s was declared after the point where its piece failed, yet a later piece reads %s from it", n, got.Value), sb.String(), st, true, nil, false
		}
	}
	return "", "", sb.String(), st, true, nil, false
}

// topVars: names of the plain (non-constant) top-level variable declarations.
func topVars(stmts []gen.Stmt) (vars []string) {
	for _, s := range stmts {
		if x, ok := s.(*gen.VarDecl); ok && x.Kind != "const" {
			vars = append(vars, x.Name)
		}
	}
	return
}

func topNames(p *gen.Program) (consts, funcs []string) {
	for _, s := range p.Stmts {
		switch x := s.(type) {
		case *gen.VarDecl:
			if x.Kind == "const" {
				consts = append(consts, x.Name)
			}
		case *gen.FuncDecl:
			funcs = append(funcs, x.F.Name)
		}
	}
	return
}

func worker(kind string, data json.RawMessage) any {
	var c caseData
	if err := json.Unmarshal(data, &c); err != nil {
		panic(err)
	}
	o := &out{}
	addFail := func(f failure) {
		if len(o.Fail) < 10 {
			o.Fail = append(o.Fail, f)
		}
	}
	if c.Kind == "modules" {
		r0 := mon.NewRand(c.PartSeed).Split("modules")
		for i := c.From; i < c.From+c.N; i++ {
			sig, detail, script, pieces := moduleSession(r0.SplitN(i), i)
			o.Programs++
			o.Histories++
			o.Pieces += pieces
			o.ModuleSessions++
			if sig != "" {
				addFail(failure{Index: i, Sig: "module-session:" + sig, Detail: detail, Script: script})
				continue
			}
			o.Sigs = append(o.Sigs, fmt.Sprintf("module-session:%d:pieces=%d", i%40, pieces))
		}
		return o
	}
	if c.Kind == "nested" {
		r0 := mon.NewRand(c.PartSeed).Split("nested")
		for i := c.From; i < c.From+c.N; i++ {
			pieces, shape := nestedHistory(r0.SplitN(i), i)
			o.Programs++
			sig, detail, script, st, decided, herr := runHistory(pieces)
			if herr != nil {
				if len(o.Harness) < 3 {
					o.Harness = append(o.Harness, herr.Error()+"\n"+script)
				}
				continue
			}
			if !decided {
				o.Discarded++
				continue
			}
			o.Histories++
			o.Pieces += st.pieces
			o.Failed += st.failed
			o.Globals += st.globals
			o.Hosted += st.hosted
			o.Nested++
			if sig != "" {
				addFail(failure{Index: i, Sig: "stored-function:" + sig, Detail: detail, Script: script})
				continue
			}
			o.Sigs = append(o.Sigs, fmt.Sprintf("%s|pieces=%d", shape, st.pieces))
		}
		return o
	}
	if c.Kind == "long" {
		// long histories: state that accumulates across inputs (a third of the pieces fail)
		var pieces []piece
		pieces = append(pieces, piece{Stmts: []gen.Stmt{&gen.VarDecl{Kind: ":=", Name: "x", X: &gen.IntLit{V: 0}}}})
		for k := 0; k < c.Long; k++ {
			switch k % 3 {
			case 0, 1:
				pieces = append(pieces, piece{Stmts: []gen.Stmt{
					&gen.Assign{Target: &gen.Ident{Name: "x"}, Op: "=", X: &gen.Binary{Op: "+", L: &gen.Ident{Name: "x"}, R: &gen.IntLit{V: 1}}},
					&gen.ExprStmt{X: &gen.Ident{Name: "x"}}}})
			default:
				pieces = append(pieces, piece{Stmts: []gen.Stmt{
					&gen.Assign{Target: &gen.Ident{Name: "x"}, Op: "+=", X: &gen.IntLit{V: 2}},
					&gen.ExprStmt{X: &gen.Index{X: &gen.ListLit{Items: []gen.Expr{&gen.IntLit{V: 1}}}, I: &gen.IntLit{V: 5}}},
					&gen.Assign{Target: &gen.Ident{Name: "x"}, Op: "=", X: &gen.IntLit{V: -1}}}})
			}
		}
		o.Programs++
		o.Histories++
		sig, detail, script, st, decided, herr := runHistory(pieces)
		o.Pieces += st.pieces
		o.Failed += st.failed
		if herr != nil {
			o.Harness = append(o.Harness, herr.Error())
		} else if decided && sig != "" {
			addFail(failure{Sig: "long-session:" + sig, Detail: detail, Script: mon.Truncate(script, 1500)})
		}
		o.Sigs = append(o.Sigs, fmt.Sprintf("long:%d", c.Long))
		return o
	}
	for i := c.From; i < c.From+c.N; i++ {
		p, _ := c.Batch.Program(i)
		o.Programs++
		n := len(p.Stmts)
		if n < 2 {
			continue
		}
		consts, funcs := topNames(p)
		r := mon.NewRand(c.PartSeed).SplitN(i)
		// partitions: all of them for short programs (capped), else sampled
		var cutSets [][]bool
		if n <= 5 {
			for m := 0; m < 1<<(n-1); m++ {
				cs := make([]bool, n-1)
				for b := 0; b < n-1; b++ {
					cs[b] = m&(1<<b) != 0
				}
				cutSets = append(cutSets, cs)
			}
		} else {
			for k := 0; k < 4; k++ {
				cs := make([]bool, n-1)
				dens := 1 + r.Intn(4)
				for b := range cs {
					cs[b] = r.Chance(dens, 5)
				}
				cutSets = append(cutSets, cs)
			}
			all := make([]bool, n-1)
			for b := range all {
				all[b] = true
			}
			cutSets = append(cutSets, all) // one statement per piece
		}
		for hi, cs := range cutSets {
			var pieces []piece
			// every third history: leading plain declarations become host-provided globals
			lead := 0
			if hi%3 == 2 {
				for lead < 3 && lead < n-1 {
					vd, ok := p.Stmts[lead].(*gen.VarDecl)
					if !ok || vd.Kind == "const" || !plainExpr(vd.X) {
						break
					}
					pieces = append(pieces, piece{Host: true, Stmts: []gen.Stmt{vd}})
					lead++
				}
			}
			cur := []gen.Stmt{p.Stmts[lead]}
			for b := lead; b < n-1; b++ {
				if cs[b] {
					pieces = append(pieces, piece{Stmts: cur})
					cur = nil
				}
				cur = append(cur, p.Stmts[b+1])
			}
			pieces = append(pieces, piece{Stmts: cur})
			if c.Rejects && hi%2 == 1 {
				// insert rejected pieces at random positions
				kinds := []string{"syntax", "undefined", "const-assign", "dup-func", "const-incdec", "undefined-in-func", "block-shadow-undefined", "undefined-in-func-with-strings", "undefined-in-loop", "control-outside-loop", "loop-var-shadow-undefined", "loop-var-shadow-undefined"}
				if c.D20 {
					kinds = []string{"effect-then-reject"}
				}
				var withRej []piece
				for pi, pc := range pieces {
					if r.Chance(1, 3) {
						// const / function names must already exist at this point of the history
						var cs2, fs2, vs2 []string
						for _, q := range pieces[:pi] {
							c3, f3 := topNames(&gen.Program{Stmts: q.Stmts})
							cs2 = append(cs2, c3...)
							fs2 = append(fs2, f3...)
							vs2 = append(vs2, topVars(q.Stmts)...)
						}
						withRej = append(withRej, rejectPiece(mon.Pick(r, kinds), r.Intn(1000), cs2, fs2, vs2...))
					}
					withRej = append(withRej, pc)
				}
				if r.Chance(1, 2) {
					withRej = append(withRej, rejectPiece(mon.Pick(r, kinds), r.Intn(1000), consts, funcs, topVars(p.Stmts)...))
				}
				pieces = withRej
			}
			sig, detail, script, st, decided, herr := runHistory(pieces)
			if herr != nil {
				if len(o.Harness) < 3 {
					o.Harness = append(o.Harness, herr.Error()+"\n"+script)
				}
				break
			}
			if !decided {
				o.Discarded++
				break // the program itself is undecided; other partitions will be too
			}
			o.Histories++
			o.Pieces += st.pieces
			o.Rejected += st.rejected
			o.Failed += st.failed
			o.Globals += st.globals
			o.Hosted += st.hosted
			if sig != "" {
				addFail(failure{Index: i, Sig: sig, Detail: detail, Script: script})
				break
			}
			o.Sigs = append(o.Sigs, fmt.Sprintf("%s|pieces=%d|rej=%d|fail=%d", eng.FeatureSig(p), st.pieces, st.rejected, st.failed))
			if len(o.Samples) < 1 && i%23 == 0 && st.rejected > 0 {
				o.Samples = append(o.Samples, mon.Truncate(script, 2500))
			}
		}
	}
	return o
}

func drive(d *mon.Driver, replay string) int {
	d.Rule = "a generated program's top-level statements are partitioned into consecutive pieces (all partitions for <=5 statements, sampled plus the one-statement-per-piece partition above), optionally with rejected pieces (syntax error, undefined name at top level or inside a function body, constant reassignment or ++/--, duplicate function) inserted at random positions; statements that fail at run time make failing pieces. The pieces are fed to one compiler and one VM with the REPL's protocol (Parse+Compile per piece, Run, SetIP(end) after a failure) and, as the reference, to the reference interpreter piece by piece: per piece status (accepted/rejected/failed), value, error class and printed output must agree, and at the end every global. Leading plain declarations of every third history are handed to the session as host-provided globals (WithGlobal) instead of being evaluated. Plus stored-function sessions (a function made inside another function, at depth 2-3, returned / kept in a list or map / made in a method callback, reads and writes globals; later pieces change the globals at top level and call it again), module sessions (an imported file module with state of its own whose functions are called before and after pieces that add script globals — names also equal to the module's — with the expected values computed by a direct simulation), and long sessions (thousands of pieces, a third failing). distinct: (program feature signature, #pieces, #rejected, #failing)"
	d.Assume = []string{"the protocol is driven through public calls in the same order as cmd/risor/repl getEvaluator (the evaluator closure itself lives in a separate Go module)", "pieces are cut at top-level statement boundaries; generated programs never reference functions declared in later pieces"}
	var cases []mon.Case
	if replay != "" {
		var c caseData
		if err := mon.LoadReplay(replay, &c); err != nil {
			fmt.Println("cannot load replay:", err)
			return 3
		}
		cases = append(cases, mon.NewCase("replay", "replay", c))
	} else {
		r := d.Rand("programs")
		seed, pseed := r.Uint64(), r.Uint64()
		total := d.N(3000, 200000)
		per := 150
		for from := 0; from < total; from += per {
			cd := caseData{Batch: eng.Batch{Seed: seed, From: from, N: per, Mix: -1, NoForwardRef: true}, Kind: "gen", PartSeed: pseed, Rejects: true}
			if (from/per)%5 == 4 {
				cd.D20 = true
			}
			cases = append(cases, mon.NewCase(fmt.Sprintf("gen-%d", from), "gen", cd))
		}
		nn := d.N(600, 20000)
		for from := 0; from < nn; from += 200 {
			cases = append(cases, mon.NewCase(fmt.Sprintf("nested-%d", from), "nested", caseData{Batch: eng.Batch{From: from, N: 200}, Kind: "nested", PartSeed: pseed}))
		}
		nm := d.N(400, 10000)
		for from := 0; from < nm; from += 200 {
			cases = append(cases, mon.NewCase(fmt.Sprintf("modules-%d", from), "modules", caseData{Batch: eng.Batch{From: from, N: 200}, Kind: "modules", PartSeed: pseed}))
		}
		for _, n := range []int{50, 1200, d.N(2500, 6000)} {
			cases = append(cases, mon.NewCase(fmt.Sprintf("long-%d", n), "long", caseData{Kind: "long", Long: n}))
		}
	}
	d.RunPool(cases, mon.PoolOpts{BatchSize: 1, BatchTimeout: 600e9}, func(c mon.Case, res mon.Result) {
		var cd caseData
		_ = json.Unmarshal(c.Data, &cd)
		if res.Status != "done" {
			detail := ""
			if res.Crash != nil {
				detail = res.Crash.Exit + " " + res.Crash.FatalLine + "\n" + mon.Truncate(res.Crash.StderrTail, 2000)
			}
			if res.Status == "crash" && res.Crash != nil && res.Crash.Confirmed {
				d.Violation("worker-died", detail, cd)
			} else {
				d.Inconclusive("worker " + c.ID + ": " + res.Status + " " + mon.Truncate(detail, 300))
			}
			return
		}
		if res.Panic != "" {
			d.Fatal("harness panic in worker: " + res.Panic)
			return
		}
		var o out
		if err := json.Unmarshal(res.Data, &o); err != nil {
			d.Fatal("bad worker output: " + err.Error())
			return
		}
		for _, h := range o.Harness {
			d.Fatal("reference interpreter failed (harness bug): " + mon.Truncate(h, 2000))
		}
		d.Eval(o.Histories)
		d.Event("pieces-evaluated", o.Pieces)
		d.Event("rejected-pieces", o.Rejected)
		d.Event("failing-pieces", o.Failed)
		d.Event("final-globals-compared", o.Globals)
		d.Event("host-provided-globals", o.Hosted)
		d.Event("stored-function-sessions", o.Nested)
		d.Event("module-sessions", o.ModuleSessions)
		d.Event("programs-discarded-undecided", o.Discarded)
		for _, s := range o.Sigs {
			d.Distinct(s)
		}
		for _, s := range o.Samples {
			d.Sample(s)
		}
		for _, f := range o.Fail {
			rc := cd
			rc.From = f.Index
			rc.N = 1
			d.Violation(f.Sig, mon.Truncate(f.Detail, 1500)+"\n"+mon.Truncate(f.Script, 3500), rc)
		}
	})
	if replay != "" {
		return d.Finish(0, 0)
	}
	return d.Finish(d.N(5000, 300000), d.N(1000, 20000))
}
