package c18

import (
	"fmt"

	"verif/internal/gen"
	"verif/internal/mon"
)

// Session templates about functions that outlive the piece that made them: a function created inside
// another function (at depth 2 or 3, returned, stored in a list, or made inside a method callback) reads
// and writes globals; later pieces change those globals at top level (directly, through another top-level
// function, or — for a host-provided global — for the first time) and call the stored function again.
// Every shape is built on the generator's AST, so the reference interpreter decides what each piece
// yields; the PRNG picks maker form, action, the top-level changes between calls and the cut points.

func id(n string) gen.Expr                  { return &gen.Ident{Name: n} }
func lit(v int64) gen.Expr                  { return &gen.IntLit{V: v} }
func bin(op string, l, r gen.Expr) gen.Expr { return &gen.Binary{Op: op, L: l, R: r} }
func call(f gen.Expr, a ...gen.Expr) gen.Expr {
	return &gen.Call{F: f, Args: a}
}
func ret(x gen.Expr) gen.Stmt { return &gen.Return{X: x} }
func fn(name string, params []string, body ...gen.Stmt) *gen.FuncLit {
	f := &gen.FuncLit{Name: name, Body: body}
	for _, p := range params {
		f.Params = append(f.Params, gen.Param{Name: p})
	}
	return f
}

func nestedHistory(r *mon.Rand, k int) ([]piece, string) {
	g := fmt.Sprintf("g%d", k%7)
	var stmts []gen.Stmt
	hostG := r.Chance(1, 4)
	stmts = append(stmts, &gen.VarDecl{Kind: ":=", Name: g, X: lit(int64(r.Range(1, 9)))})
	other := ""
	if r.Bool() {
		other = g + "b"
		stmts = append(stmts, &gen.VarDecl{Kind: ":=", Name: other, X: lit(int64(r.Range(10, 19)))})
	}
	// the inner function's action
	action := mon.Pick(r, []string{"read", "write", "compound", "readwrite-other"})
	if action == "readwrite-other" && other == "" {
		action = "write"
	}
	var innerBody []gen.Stmt
	switch action {
	case "read":
		innerBody = []gen.Stmt{ret(bin("+", id(g), id("d")))}
	case "write":
		innerBody = []gen.Stmt{&gen.Assign{Target: id(g), Op: "=", X: bin("+", id(g), id("d"))}, ret(id(g))}
	case "compound":
		innerBody = []gen.Stmt{&gen.Assign{Target: id(g), Op: "+=", X: id("d")}, ret(bin("*", id(g), lit(2)))}
	case "readwrite-other":
		innerBody = []gen.Stmt{&gen.Assign{Target: id(other), Op: "=", X: bin("+", id(g), id("d"))}, ret(bin("-", id(other), id(g)))}
	}
	inner := fn("", []string{"d"}, innerBody...)
	form := mon.Pick(r, []string{"returned", "returned-named", "depth3", "in-list", "in-callback", "in-map"})
	h := "h"
	callH := func(d int64) gen.Expr { return call(id(h), lit(d)) }
	switch form {
	case "returned":
		stmts = append(stmts, &gen.FuncDecl{F: fn("mk", nil, ret(inner))}, &gen.VarDecl{Kind: ":=", Name: h, X: call(id("mk"))})
	case "returned-named":
		inner.Name = "innerfn"
		stmts = append(stmts, &gen.FuncDecl{F: fn("mk", nil, &gen.FuncDecl{F: inner}, ret(id("innerfn")))}, &gen.VarDecl{Kind: ":=", Name: h, X: call(id("mk"))})
	case "depth3":
		mid := fn("", nil, ret(inner))
		stmts = append(stmts, &gen.FuncDecl{F: fn("mk", nil, ret(mid))}, &gen.VarDecl{Kind: ":=", Name: h, X: call(call(id("mk")))})
	case "in-list":
		stmts = append(stmts, &gen.FuncDecl{F: fn("mk", nil, ret(&gen.ListLit{Items: []gen.Expr{inner}}))}, &gen.VarDecl{Kind: ":=", Name: "hs", X: call(id("mk"))})
		callH = func(d int64) gen.Expr { return call(&gen.Index{X: id("hs"), I: lit(0)}, lit(d)) }
	case "in-callback":
		cb := fn("", []string{"x"}, ret(inner))
		stmts = append(stmts, &gen.VarDecl{Kind: ":=", Name: "hs", X: &gen.MethodCall{X: &gen.ListLit{Items: []gen.Expr{lit(1)}}, Name: "map", Args: []gen.Expr{cb}}})
		callH = func(d int64) gen.Expr { return call(&gen.Index{X: id("hs"), I: lit(0)}, lit(d)) }
	case "in-map":
		stmts = append(stmts, &gen.FuncDecl{F: fn("mk", nil, ret(&gen.MapLit{Keys: []string{"f"}, Vals: []gen.Expr{inner}}))}, &gen.VarDecl{Kind: ":=", Name: "hm", X: call(id("mk"))})
		callH = func(d int64) gen.Expr { return call(&gen.Index{X: id("hm"), I: &gen.StrLit{V: "f"}}, lit(d)) }
	}
	if r.Bool() {
		stmts = append(stmts, &gen.FuncDecl{F: fn("bump", nil, &gen.Assign{Target: id(g), Op: "+=", X: lit(3)}, ret(id(g)))})
	} else {
		stmts = append(stmts, &gen.ExprStmt{X: id(g)})
	}
	hasBump := false
	if _, ok := stmts[len(stmts)-1].(*gen.FuncDecl); ok {
		hasBump = true
	}
	rounds := r.Range(2, 4)
	for i := 0; i < rounds; i++ {
		stmts = append(stmts, &gen.ExprStmt{X: callH(int64(r.Range(1, 5)))})
		choices := []string{"assign", "compound", "incr"}
		if hasBump {
			choices = append(choices, "bump", "bump")
		}
		if other != "" {
			choices = append(choices, "other")
		}
		switch mon.Pick(r, choices) {
		case "assign":
			stmts = append(stmts, &gen.Assign{Target: id(g), Op: "=", X: bin("*", id(g), lit(10))})
		case "compound":
			stmts = append(stmts, &gen.Assign{Target: id(g), Op: "+=", X: lit(7)})
		case "incr":
			stmts = append(stmts, &gen.IncDec{Name: g, Op: "++"})
		case "bump":
			stmts = append(stmts, &gen.ExprStmt{X: call(id("bump"))})
		case "other":
			stmts = append(stmts, &gen.Assign{Target: id(other), Op: "=", X: bin("+", id(other), id(g))})
		}
		if r.Bool() {
			stmts = append(stmts, &gen.ExprStmt{X: id(g)})
		}
	}
	stmts = append(stmts, &gen.ExprStmt{X: callH(1)}, &gen.ExprStmt{X: id(g)})
	// cut into pieces
	var pieces []piece
	start := 0
	if hostG {
		pieces = append(pieces, piece{Host: true, Stmts: stmts[:1]})
		start = 1
	}
	dens := r.Range(2, 5)
	cur := []gen.Stmt{stmts[start]}
	for _, s := range stmts[start+1:] {
		if r.Chance(dens, 5) {
			pieces = append(pieces, piece{Stmts: cur})
			cur = nil
		}
		cur = append(cur, s)
	}
	pieces = append(pieces, piece{Stmts: cur})
	shape := fmt.Sprintf("nested:%s:%s:host=%v:other=%v:bump=%v:rounds=%d", form, action, hostG, other != "", hasBump, rounds)
	return pieces, shape
}
