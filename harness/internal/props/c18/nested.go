package c18

import (
	"fmt"

	"verif/internal/gen"
	"verif/internal/mon"
)

// Session templates about functions that outlive the piece that made them: a function created inside
// another function (at depth 2 or 3, returned, stored in a list, or made inside a method callback) reads
// and writes globals; later pieces change those globals at top level (directly, through another top-level
// function, or — for a host-provided global — for the first time) and call the stored function again.
// Every shape is built on the generator's AST, so the reference interpreter decides what each piece
// yields; the PRNG picks maker form, action, the top-level changes between calls and the cut points.

func id(n string) gen.Expr                  { return &gen.Ident{Name: n} }
func lit(v int64) gen.Expr                  { return &gen.IntLit{V: v} }
func bin(op string, l, r gen.Expr) gen.Expr { return &gen.Binary{Op: op, L: l, R: r} }
func call(f gen.Expr, a ...gen.Expr) gen.Expr {
	return &gen.Call{F: f, Args: a}
}
func ret(x gen.Expr) gen.Stmt { return &gen.Return{X: x} }
func fn(name string, params []string, body ...gen.Stmt) *gen.FuncLit {
	f := &gen.FuncLit{Name: name, Body: body}
	for _, p := range params {
		f.Params = append(f.Params, gen.Param{Name: p})
	}
	return f
}

func cutPieces(r *mon.Rand, stmts []gen.Stmt, hostFirst bool) []piece {
	var pieces []piece
	start := 0
	if hostFirst {
		pieces = append(pieces, piece{Host: true, Stmts: stmts[:1]})
		start = 1
	}
	dens := r.Range(2, 5)
	cur := []gen.Stmt{stmts[start]}
	for _, s := range stmts[start+1:] {
		if r.Chance(dens, 5) {
			pieces = append(pieces, piece{Stmts: cur})
			cur = nil
		}
		cur = append(cur, s)
	}
	return append(pieces, piece{Stmts: cur})
}

func assign(name, op string, x gen.Expr) gen.Stmt {
	return &gen.Assign{Target: id(name), Op: op, X: x}
}
func decl(name string, x gen.Expr) gen.Stmt { return &gen.VarDecl{Kind: ":=", Name: name, X: x} }
func es(x gen.Expr) gen.Stmt                { return &gen.ExprStmt{X: x} }

// blockShadowHistory: a top-level block (if / for / range / switch / nested if) declares a variable with
// the name of a live global — it gets a global slot of its own with the same name — and changes another
// global; pieces after the block read and change the outer variable again.
func blockShadowHistory(r *mon.Rand, k int) ([]piece, string) {
	g, h := fmt.Sprintf("s%d", k%5), fmt.Sprintf("t%d", k%5)
	a, b := int64(r.Range(1, 9)), int64(r.Range(10, 19))
	stmts := []gen.Stmt{decl(g, lit(a)), decl(h, lit(b))}
	if r.Bool() {
		stmts = append(stmts, &gen.FuncDecl{F: fn("rd", nil, ret(bin("+", id(g), id(h))))})
	}
	form := mon.Pick(r, []string{"if", "for-three", "for-range", "switch", "nested-if", "if-else"})
	body := []gen.Stmt{decl(g, bin("+", id(g), lit(100))), assign(h, "=", bin("+", id(g), lit(1)))}
	if r.Bool() {
		body = []gen.Stmt{decl(g, lit(int64(r.Range(200, 299)))), assign(h, "+=", id(g)), assign(g, "=", bin("*", id(g), lit(2)))}
	}
	switch form {
	case "if":
		stmts = append(stmts, es(&gen.IfExpr{Cond: &gen.BoolLit{V: true}, Then: body}))
	case "if-else":
		stmts = append(stmts, es(&gen.IfExpr{Cond: bin(">", id(g), lit(100)), Then: []gen.Stmt{assign(h, "=", lit(0))}, Else: body, HasElse: true}))
	case "nested-if":
		inner := es(&gen.IfExpr{Cond: &gen.BoolLit{V: true}, Then: []gen.Stmt{decl(g, lit(7000)), assign(h, "+=", id(g))}})
		stmts = append(stmts, es(&gen.IfExpr{Cond: &gen.BoolLit{V: true}, Then: append(append([]gen.Stmt{}, body...), inner)}))
	case "for-three":
		stmts = append(stmts, &gen.For{Kind: "three", Init: decl("i", lit(0)), Cond: bin("<", id("i"), lit(2)), Post: &gen.IncDec{Name: "i", Op: "++"}, Body: body})
	case "for-range":
		stmts = append(stmts, &gen.For{Kind: "range1", K: "rk", Iter: &gen.ListLit{Items: []gen.Expr{lit(5), lit(6)}}, Body: body})
	case "switch":
		stmts = append(stmts, es(&gen.SwitchExpr{Subject: lit(1), Cases: []gen.SwitchCase{{Values: []gen.Expr{lit(1)}, Body: body}, {Default: true, Body: []gen.Stmt{assign(h, "=", lit(-1))}}}}))
	}
	stmts = append(stmts, es(id(g)), es(id(h)))
	rounds := r.Range(1, 3)
	for i := 0; i < rounds; i++ {
		switch r.Intn(4) {
		case 0:
			stmts = append(stmts, assign(g, "=", bin("+", id(g), lit(1))))
		case 1:
			stmts = append(stmts, assign(g, "+=", id(h)))
		case 2:
			stmts = append(stmts, &gen.IncDec{Name: g, Op: "++"})
		default:
			stmts = append(stmts, assign(h, "=", bin("-", id(h), id(g))))
		}
		stmts = append(stmts, es(&gen.ListLit{Items: []gen.Expr{id(g), id(h)}}))
	}
	if _, ok := stmts[2].(*gen.FuncDecl); ok {
		stmts = append(stmts, es(call(id("rd"))))
	}
	return cutPieces(r, stmts, false), fmt.Sprintf("block-shadow:%s:rounds=%d", form, rounds)
}

// forwardRefHistory: one piece declares functions that refer forward to each other (legal within a piece);
// the piece before it is rejected — at top level or inside a function body — or accepted.
func forwardRefHistory(r *mon.Rand, k int) ([]piece, string) {
	n := int64(r.Range(3, 9))
	even := fn("isEven", []string{"n"}, es(&gen.IfExpr{Cond: bin("==", id("n"), lit(0)), Then: []gen.Stmt{ret(&gen.BoolLit{V: true})}}), ret(call(id("isOdd"), bin("-", id("n"), lit(1)))))
	odd := fn("isOdd", []string{"n"}, es(&gen.IfExpr{Cond: bin("==", id("n"), lit(0)), Then: []gen.Stmt{ret(&gen.BoolLit{V: false})}}), ret(call(id("isEven"), bin("-", id("n"), lit(1)))))
	var pieces []piece
	pieces = append(pieces, piece{Stmts: []gen.Stmt{decl("q", lit(n))}})
	before := mon.Pick(r, []string{"undefined-in-func", "undefined-in-func", "undefined", "syntax", "const-incdec", "none"})
	if before != "none" {
		pieces = append(pieces, rejectPiece(before, r.Intn(1000), nil, nil))
	}
	third := fn("useBoth", nil, ret(&gen.ListLit{Items: []gen.Expr{call(id("isEven"), id("q")), call(id("isOdd"), id("q"))}}))
	decls := []gen.Stmt{&gen.FuncDecl{F: even}, &gen.FuncDecl{F: odd}}
	if r.Bool() {
		decls = []gen.Stmt{&gen.FuncDecl{F: third}, &gen.FuncDecl{F: even}, &gen.FuncDecl{F: odd}}
	}
	if r.Bool() {
		decls = append(decls, es(call(id("isEven"), id("q"))))
	}
	pieces = append(pieces, piece{Stmts: decls})
	pieces = append(pieces, piece{Stmts: []gen.Stmt{es(call(id("isOdd"), id("q")))}})
	if len(decls) >= 3 {
		if _, ok := decls[0].(*gen.FuncDecl); ok && decls[0].(*gen.FuncDecl).F == third {
			pieces = append(pieces, piece{Stmts: []gen.Stmt{es(call(id("useBoth")))}})
		}
	}
	return pieces, fmt.Sprintf("forward-ref-in-piece:after=%s:decls=%d", before, len(decls))
}

// loopLeftoverHistory: a piece rejected inside a loop header or body, then `break` / `continue` at top level
// (which must be rejected as well), then ordinary pieces.
func loopLeftoverHistory(r *mon.Rand, k int) ([]piece, string) {
	g := fmt.Sprintf("w%d", k%5)
	pieces := []piece{{Stmts: []gen.Stmt{decl(g, lit(int64(r.Range(1, 9))))}}}
	n := r.Range(1, 2)
	for i := 0; i < n; i++ {
		pieces = append(pieces, rejectPiece("undefined-in-loop", r.Intn(1000), nil, nil))
	}
	if r.Bool() {
		pieces = append(pieces, piece{Stmts: []gen.Stmt{assign(g, "+=", lit(10))}})
	}
	m := r.Range(1, 3)
	for i := 0; i < m; i++ {
		pieces = append(pieces, rejectPiece("control-outside-loop", r.Intn(1000), nil, nil))
		pieces = append(pieces, piece{Stmts: []gen.Stmt{assign(g, "=", bin("+", id(g), lit(1))), es(id(g))}})
	}
	body := []gen.Stmt{assign(g, "+=", id("i")), es(&gen.IfExpr{Cond: bin(">", id("i"), lit(1)), Then: []gen.Stmt{&gen.Break{}}})}
	pieces = append(pieces, piece{Stmts: []gen.Stmt{&gen.For{Kind: "three", Init: decl("i", lit(0)), Cond: bin("<", id("i"), lit(5)), Post: &gen.IncDec{Name: "i", Op: "++"}, Body: body}, es(id(g))}})
	return pieces, fmt.Sprintf("loop-leftover:rejected-loops=%d:controls=%d", n, m)
}

// failedMakerHistory: a function creates a closure over its own locals and THEN fails at run time; a later
// piece calls, at the same call depth, another function that creates closures over its locals, and uses them.
func failedMakerHistory(r *mon.Rand, k int) ([]piece, string) {
	n := int64(r.Range(5, 9))
	failKind := mon.Pick(r, []string{"index", "type", "raise", "div"})
	var failing gen.Expr
	switch failKind {
	case "index":
		failing = &gen.Index{X: &gen.ListLit{Items: []gen.Expr{lit(1), lit(2)}}, I: id("n")}
	case "type":
		failing = bin("+", id("n"), &gen.StrLit{V: "x"})
	case "raise":
		failing = call(id("error"), &gen.StrLit{V: "boom"})
	default:
		failing = bin("/", id("n"), lit(0))
	}
	nloc := r.Range(0, 9) // also more than the 8 in-frame slots
	body := []gen.Stmt{decl("get", fn("", nil, ret(id("n"))))}
	for i := 0; i < nloc; i++ {
		body = append(body, decl(fmt.Sprintf("pad%d", i), lit(int64(i))))
	}
	if r.Bool() {
		body = append(body, decl("bump", fn("", nil, assign("n", "+=", lit(1)), ret(id("n")))), es(call(id("bump"))))
	}
	body = append(body, ret(bin("+", failing, call(id("get")))))
	broken := &gen.FuncDecl{F: fn("broken", []string{"n"}, body...)}
	counter := &gen.FuncDecl{F: fn("counter", []string{"start"}, ret(fn("", nil, assign("start", "+=", lit(1)), ret(id("start")))))}
	if r.Bool() {
		counter = &gen.FuncDecl{F: fn("counter", []string{"start"}, decl("cur", bin("*", id("start"), lit(2))), ret(fn("", nil, assign("cur", "+=", id("start")), ret(id("cur")))))}
	}
	pieces := []piece{{Stmts: []gen.Stmt{broken}}, {Stmts: []gen.Stmt{counter}}}
	depth := r.Range(0, 2)
	callee := "broken"
	for d := 0; d < depth; d++ {
		w := fmt.Sprintf("wrap%d", d)
		pieces = append(pieces, piece{Stmts: []gen.Stmt{&gen.FuncDecl{F: fn(w, []string{"a"}, ret(bin("+", call(id(callee), id("a")), lit(1))))}}})
		callee = w
	}
	fails := r.Range(1, 2)
	for i := 0; i < fails; i++ {
		pieces = append(pieces, piece{Stmts: []gen.Stmt{es(call(id(callee), lit(n)))}}) // fails at run time
	}
	mk := "counter"
	if depth > 0 && r.Bool() {
		// the maker is called at the depth the failed call had
		pieces = append(pieces, piece{Stmts: []gen.Stmt{&gen.FuncDecl{F: fn("mkdeep", []string{"a"}, ret(call(id("counter"), id("a"))))}}})
		mk = "mkdeep"
	}
	pieces = append(pieces,
		piece{Stmts: []gen.Stmt{decl("c", call(id(mk), lit(10)))}},
		piece{Stmts: []gen.Stmt{decl("first", call(id("c")))}},
		piece{Stmts: []gen.Stmt{decl("second", call(id("c"))), es(&gen.ListLit{Items: []gen.Expr{id("first"), id("second")}})}},
		piece{Stmts: []gen.Stmt{decl("c2", call(id(mk), lit(100))), es(&gen.ListLit{Items: []gen.Expr{call(id("c2")), call(id("c")), call(id("c2"))}})}},
	)
	return pieces, fmt.Sprintf("failed-closure-maker:%s:locals=%d:depth=%d:fails=%d", failKind, nloc, depth, fails)
}

// blockClosureHistory: closures made inside top-level blocks (if / for / range / switch arms) over variables
// declared in those blocks are kept in globals and called in later pieces.
func blockClosureHistory(r *mon.Rand, k int) ([]piece, string) {
	stmts := []gen.Stmt{decl("keep", &gen.ListLit{}), decl("g", lit(int64(r.Range(1, 5))))}
	form := mon.Pick(r, []string{"if", "for-three", "for-range", "switch", "nested"})
	mkClosure := func(v string) gen.Expr {
		if r.Bool() {
			return fn("", nil, assign(v, "+=", lit(1)), ret(bin("+", id(v), id("g"))))
		}
		return fn("", nil, ret(&gen.ListLit{Items: []gen.Expr{id(v), id("g")}}))
	}
	push := func(v string) gen.Stmt {
		return es(&gen.MethodCall{X: id("keep"), Name: "append", Args: []gen.Expr{mkClosure(v)}})
	}
	switch form {
	case "if":
		stmts = append(stmts, es(&gen.IfExpr{Cond: &gen.BoolLit{V: true}, Then: []gen.Stmt{decl("bv", lit(int64(r.Range(10, 50)))), push("bv"), push("bv")}}))
	case "for-three":
		stmts = append(stmts, &gen.For{Kind: "three", Init: decl("i", lit(0)), Cond: bin("<", id("i"), lit(2)), Post: &gen.IncDec{Name: "i", Op: "++"},
			Body: []gen.Stmt{decl("bv", bin("*", id("i"), lit(10))), push("bv")}})
	case "for-range":
		stmts = append(stmts, &gen.For{Kind: "range2", K: "rk", V: "rv", Iter: &gen.ListLit{Items: []gen.Expr{lit(7), lit(8)}},
			Body: []gen.Stmt{decl("bv", bin("+", id("rv"), id("rk"))), push("bv")}})
	case "switch":
		stmts = append(stmts, es(&gen.SwitchExpr{Subject: lit(1), Cases: []gen.SwitchCase{{Values: []gen.Expr{lit(1)}, Body: []gen.Stmt{decl("bv", lit(30)), push("bv")}}, {Default: true, Body: []gen.Stmt{assign("g", "=", lit(0))}}}}))
	case "nested":
		inner := es(&gen.IfExpr{Cond: &gen.BoolLit{V: true}, Then: []gen.Stmt{decl("bw", bin("+", id("bv"), lit(1))), push("bw"), push("bv")}})
		stmts = append(stmts, es(&gen.IfExpr{Cond: &gen.BoolLit{V: true}, Then: []gen.Stmt{decl("bv", lit(40)), inner}}))
	}
	n := r.Range(2, 5)
	for i := 0; i < n; i++ {
		switch r.Intn(4) {
		case 0:
			stmts = append(stmts, assign("g", "+=", lit(100)))
		case 1:
			stmts = append(stmts, decl(fmt.Sprintf("extra%d", i), lit(int64(i))))
		default:
			stmts = append(stmts, es(call(&gen.Index{X: id("keep"), I: lit(int64(r.Intn(2)) - 1)})))
		}
	}
	stmts = append(stmts, es(call(&gen.Index{X: id("keep"), I: lit(0)})), es(&gen.MethodCall{X: id("keep"), Name: "map", Args: []gen.Expr{fn("", []string{"f"}, ret(call(id("f"))))}}))
	return cutPieces(r, stmts, false), fmt.Sprintf("block-closure:%s:n=%d", form, n)
}

// unreachedDeclHistory: a multi-statement piece fails at run time BEFORE const / var / := declarations with
// literal initialisers in the same piece; later pieces never mention those names (the session's end probes
// them: they must not carry the values of initialisers that never ran).
func unreachedDeclHistory(r *mon.Rand, k int) ([]piece, string) {
	pieces := []piece{{Stmts: []gen.Stmt{decl("u", lit(int64(r.Range(1, 9))))}}}
	var failing gen.Stmt
	switch r.Intn(3) {
	case 0:
		failing = es(&gen.Index{X: &gen.ListLit{Items: []gen.Expr{lit(1)}}, I: lit(5)})
	case 1:
		failing = es(bin("+", id("u"), &gen.StrLit{V: "x"}))
	default:
		failing = es(call(id("error"), &gen.StrLit{V: "stop"}))
	}
	body := []gen.Stmt{assign("u", "+=", lit(1)), failing}
	n := r.Range(1, 4)
	for i := 0; i < n; i++ {
		name := fmt.Sprintf("late%d_%d", k%10, i)
		kind := mon.Pick(r, []string{"const", "const", "var", ":="})
		var x gen.Expr
		switch r.Intn(4) {
		case 0:
			x = lit(int64(100 + r.Intn(900)))
		case 1:
			x = &gen.StrLit{V: fmt.Sprintf("s%d", r.Intn(99))}
		case 2:
			x = &gen.FloatLit{V: float64(r.Intn(50)) + 0.5}
		default:
			x = &gen.BoolLit{V: true}
		}
		body = append(body, &gen.VarDecl{Kind: kind, Name: name, X: x})
	}
	pieces = append(pieces, piece{Stmts: body})
	pieces = append(pieces, piece{Stmts: []gen.Stmt{es(id("u"))}}, piece{Stmts: []gen.Stmt{assign("u", "*=", lit(2)), es(id("u"))}})
	return pieces, fmt.Sprintf("unreached-declarations:n=%d", n)
}

// manyGlobalsHistory: functions loaded by the first piece read and write a global; later pieces declare
// many more globals (12..48, singly and several per piece, some inside top-level blocks) — more than any
// spare room the first load may have left — while top level and the functions keep exchanging values
// through the first global.
func manyGlobalsHistory(r *mon.Rand, k int) ([]piece, string) {
	n := []int{12, 15, 16, 17, 24, 33, 48}[k/16%7]
	base := int64(r.Range(1, 9))
	var pieces []piece
	first := []gen.Stmt{
		decl("mg0", lit(base)),
		&gen.FuncDecl{F: fn("peek", nil, ret(id("mg0")))},
		&gen.FuncDecl{F: fn("bump", []string{"d"}, assign("mg0", "+=", id("d")), ret(id("mg0")))},
		decl("mk", &gen.FuncLit{Body: []gen.Stmt{ret(&gen.FuncLit{Body: []gen.Stmt{assign("mg0", "+=", lit(1)), ret(id("mg0"))}})}}),
		decl("inner", call(id("mk"))),
		es(call(id("peek"))),
	}
	pieces = append(pieces, piece{Stmts: first})
	made := 0
	for made < n {
		var cur []gen.Stmt
		per := 1 + r.Intn(4)
		for j := 0; j < per && made < n; j++ {
			made++
			name := fmt.Sprintf("mx%d", made)
			if r.Chance(1, 5) {
				// a block variable takes a global slot too
				cur = append(cur, es(&gen.IfExpr{Cond: bin(">", id("mg0"), lit(-1000)), Then: []gen.Stmt{decl(name, lit(int64(made))), assign("mg0", "+=", id(name))}}))
			} else {
				cur = append(cur, decl(name, bin("+", id("mg0"), lit(int64(made)))))
			}
		}
		switch r.Intn(4) {
		case 0:
			cur = append(cur, assign("mg0", "=", lit(int64(100+made))), es(call(id("peek"))))
		case 1:
			cur = append(cur, es(call(id("bump"), lit(int64(made)))), es(id("mg0")))
		case 2:
			cur = append(cur, es(call(id("inner"))), es(&gen.ListLit{Items: []gen.Expr{id("mg0"), call(id("peek"))}}))
		}
		pieces = append(pieces, piece{Stmts: cur})
	}
	pieces = append(pieces, piece{Stmts: []gen.Stmt{assign("mg0", "=", lit(1000)), es(&gen.ListLit{Items: []gen.Expr{call(id("peek")), call(id("bump"), lit(5)), call(id("inner")), id("mg0")}})}})
	return pieces, fmt.Sprintf("many-globals:n=%d", n)
}

func nestedHistory(r *mon.Rand, k int) ([]piece, string) {
	if k%16 == 11 {
		return manyGlobalsHistory(r, k)
	}
	if k%16 == 15 {
		return unreachedDeclHistory(r, k)
	}
	if k%16 == 13 {
		return blockClosureHistory(r, k)
	}
	if k%16 == 1 {
		return failedMakerHistory(r, k)
	}
	if k%16 == 9 {
		return loopLeftoverHistory(r, k)
	}
	switch k % 8 {
	case 3, 7:
		return blockShadowHistory(r, k)
	case 5:
		return forwardRefHistory(r, k)
	}
	g := fmt.Sprintf("g%d", k%7)
	var stmts []gen.Stmt
	hostG := r.Chance(1, 4)
	stmts = append(stmts, &gen.VarDecl{Kind: ":=", Name: g, X: lit(int64(r.Range(1, 9)))})
	other := ""
	if r.Bool() {
		other = g + "b"
		stmts = append(stmts, &gen.VarDecl{Kind: ":=", Name: other, X: lit(int64(r.Range(10, 19)))})
	}
	// the inner function's action
	action := mon.Pick(r, []string{"read", "write", "compound", "readwrite-other"})
	if action == "readwrite-other" && other == "" {
		action = "write"
	}
	var innerBody []gen.Stmt
	switch action {
	case "read":
		innerBody = []gen.Stmt{ret(bin("+", id(g), id("d")))}
	case "write":
		innerBody = []gen.Stmt{&gen.Assign{Target: id(g), Op: "=", X: bin("+", id(g), id("d"))}, ret(id(g))}
	case "compound":
		innerBody = []gen.Stmt{&gen.Assign{Target: id(g), Op: "+=", X: id("d")}, ret(bin("*", id(g), lit(2)))}
	case "readwrite-other":
		innerBody = []gen.Stmt{&gen.Assign{Target: id(other), Op: "=", X: bin("+", id(g), id("d"))}, ret(bin("-", id(other), id(g)))}
	}
	inner := fn("", []string{"d"}, innerBody...)
	form := mon.Pick(r, []string{"returned", "returned-named", "depth3", "in-list", "in-callback", "in-map"})
	h := "h"
	callH := func(d int64) gen.Expr { return call(id(h), lit(d)) }
	switch form {
	case "returned":
		stmts = append(stmts, &gen.FuncDecl{F: fn("mk", nil, ret(inner))}, &gen.VarDecl{Kind: ":=", Name: h, X: call(id("mk"))})
	case "returned-named":
		inner.Name = "innerfn"
		stmts = append(stmts, &gen.FuncDecl{F: fn("mk", nil, &gen.FuncDecl{F: inner}, ret(id("innerfn")))}, &gen.VarDecl{Kind: ":=", Name: h, X: call(id("mk"))})
	case "depth3":
		mid := fn("", nil, ret(inner))
		stmts = append(stmts, &gen.FuncDecl{F: fn("mk", nil, ret(mid))}, &gen.VarDecl{Kind: ":=", Name: h, X: call(call(id("mk")))})
	case "in-list":
		stmts = append(stmts, &gen.FuncDecl{F: fn("mk", nil, ret(&gen.ListLit{Items: []gen.Expr{inner}}))}, &gen.VarDecl{Kind: ":=", Name: "hs", X: call(id("mk"))})
		callH = func(d int64) gen.Expr { return call(&gen.Index{X: id("hs"), I: lit(0)}, lit(d)) }
	case "in-callback":
		cb := fn("", []string{"x"}, ret(inner))
		stmts = append(stmts, &gen.VarDecl{Kind: ":=", Name: "hs", X: &gen.MethodCall{X: &gen.ListLit{Items: []gen.Expr{lit(1)}}, Name: "map", Args: []gen.Expr{cb}}})
		callH = func(d int64) gen.Expr { return call(&gen.Index{X: id("hs"), I: lit(0)}, lit(d)) }
	case "in-map":
		stmts = append(stmts, &gen.FuncDecl{F: fn("mk", nil, ret(&gen.MapLit{Keys: []string{"f"}, Vals: []gen.Expr{inner}}))}, &gen.VarDecl{Kind: ":=", Name: "hm", X: call(id("mk"))})
		callH = func(d int64) gen.Expr { return call(&gen.Index{X: id("hm"), I: &gen.StrLit{V: "f"}}, lit(d)) }
	}
	if r.Bool() {
		stmts = append(stmts, &gen.FuncDecl{F: fn("bump", nil, &gen.Assign{Target: id(g), Op: "+=", X: lit(3)}, ret(id(g)))})
	} else {
		stmts = append(stmts, &gen.ExprStmt{X: id(g)})
	}
	hasBump := false
	if _, ok := stmts[len(stmts)-1].(*gen.FuncDecl); ok {
		hasBump = true
	}
	rounds := r.Range(2, 4)
	for i := 0; i < rounds; i++ {
		stmts = append(stmts, &gen.ExprStmt{X: callH(int64(r.Range(1, 5)))})
		choices := []string{"assign", "compound", "incr"}
		if hasBump {
			choices = append(choices, "bump", "bump")
		}
		if other != "" {
			choices = append(choices, "other")
		}
		switch mon.Pick(r, choices) {
		case "assign":
			stmts = append(stmts, &gen.Assign{Target: id(g), Op: "=", X: bin("*", id(g), lit(10))})
		case "compound":
			stmts = append(stmts, &gen.Assign{Target: id(g), Op: "+=", X: lit(7)})
		case "incr":
			stmts = append(stmts, &gen.IncDec{Name: g, Op: "++"})
		case "bump":
			stmts = append(stmts, &gen.ExprStmt{X: call(id("bump"))})
		case "other":
			stmts = append(stmts, &gen.Assign{Target: id(other), Op: "=", X: bin("+", id(other), id(g))})
		}
		if r.Bool() {
			stmts = append(stmts, &gen.ExprStmt{X: id(g)})
		}
	}
	stmts = append(stmts, &gen.ExprStmt{X: callH(1)}, &gen.ExprStmt{X: id(g)})
	// cut into pieces
	var pieces []piece
	start := 0
	if hostG {
		pieces = append(pieces, piece{Host: true, Stmts: stmts[:1]})
		start = 1
	}
	dens := r.Range(2, 5)
	cur := []gen.Stmt{stmts[start]}
	for _, s := range stmts[start+1:] {
		if r.Chance(dens, 5) {
			pieces = append(pieces, piece{Stmts: cur})
			cur = nil
		}
		cur = append(cur, s)
	}
	pieces = append(pieces, piece{Stmts: cur})
	shape := fmt.Sprintf("nested:%s:%s:host=%v:other=%v:bump=%v:rounds=%d", form, action, hostG, other != "", hasBump, rounds)
	return pieces, shape
}
