package c18

import (
	"fmt"
	"strings"
	"testing/fstest"
	"time"

	"verif/internal/mon"
)

// Module sessions: the session imports a file module that has state of its own (globals count, total and a
// list) and functions that read and change it; later pieces declare more script globals (which makes the VM
// rebuild its globals), some with the very names the module uses, and call the module's functions again.
// What every piece must yield is computed here by a direct simulation of module and script state; no
// reference interpreter is involved (it has no modules).

const counterModule = `count := 0
total := 100
seen := []
func inc() { count++; total += 2; return count }
func add(v) { seen.append(v); total += v; return len(seen) }
func get() { return [count, total, len(seen)] }
func mk() { n := 0; return func() { n++; count++; return [n, count] } }
`

func moduleSession(r *mon.Rand, k int) (sig, detail, script string, pieces int) {
	sess, err := newSession(60 * time.Second)
	if err != nil {
		return "harness", err.Error(), "", 0
	}
	defer sess.cancel()
	modName := mon.Pick(r, []string{"counter", "pk/counter"})
	files := fstest.MapFS{modName + ".risor": {Data: []byte(counterModule)}}
	if r.Bool() {
		files["other.risor"] = &fstest.MapFile{Data: []byte("count := 7000\nfunc inc() { count += 10; return count }\n")}
	}
	sess.modules = files
	// module state
	count, total, seen := 0, 100, 0
	h := "counter"
	fromForm := r.Chance(1, 3)
	var sb strings.Builder
	step := func(src, want string) (string, string) {
		pieces++
		fmt.Fprintf(&sb, "--- piece %d\n%s\n", pieces, src)
		got, goPanic := sess.eval(src)
		if goPanic != "" {
			return "go-panic-escaped", goPanic
		}
		if got.Status != "accepted" {
			return "piece-" + got.Status, fmt.Sprintf("piece %d (%s): %s %s, expected value %s", pieces, src, got.Status, got.Err, want)
		}
		if want != "" && got.Value != want {
			return "wrong-value", fmt.Sprintf("piece %d (%s): got %s, a correct session gives %s", pieces, src, got.Value, want)
		}
		return "", ""
	}
	call := func(fn string) string {
		if fromForm {
			return "m_" + fn
		}
		return h + "." + fn
	}
	imp := "import " + strings.ReplaceAll(modName, "/", ".")
	if strings.Contains(modName, "/") {
		imp = `import "` + modName + `"`
	}
	if fromForm {
		imp = "from " + strings.ReplaceAll(modName, "/", ".") + " import inc as m_inc, add as m_add, get as m_get, mk as m_mk"
	}
	// script globals, some named like the module's
	names := []string{"a", "b", "count", "total", "seen", "c", "inc", "d", "e"}
	vals := map[string]int{}
	var declared []string
	declare := func() (string, string) {
		for _, n := range names {
			if _, ok := vals[n]; !ok && !(n == "inc" && fromForm) {
				vals[n] = 1000*len(declared) + r.Range(1, 99)
				declared = append(declared, n)
				return step(fmt.Sprintf("%s := %d", n, vals[n]), "nil:nil")
			}
		}
		return "", ""
	}
	if r.Bool() {
		if s, d := declare(); s != "" {
			return s, d, sb.String(), pieces
		}
	}
	if s, d := step(imp, ""); s != "" {
		return s, d, sb.String(), pieces
	}
	haveClosure := false
	cn := 0
	nops := r.Range(6, 14)
	for i := 0; i < nops; i++ {
		var s, d string
		switch r.Intn(8) {
		case 0, 1:
			count++
			total += 2
			s, d = step(call("inc")+"()", fmt.Sprintf("int:%d", count))
		case 2:
			v := r.Range(1, 9)
			seen++
			total += v
			s, d = step(fmt.Sprintf("%s(%d)", call("add"), v), fmt.Sprintf("int:%d", seen))
		case 3:
			s, d = step(call("get")+"()", fmt.Sprintf("list:[%d, %d, %d]", count, total, seen))
		case 4, 5:
			s, d = declare()
		case 6:
			if len(declared) > 0 {
				n := mon.Pick(r, declared)
				vals[n] += 5
				s, d = step(fmt.Sprintf("%s += 5\n%s", n, n), fmt.Sprintf("int:%d", vals[n]))
			}
		default:
			if !haveClosure {
				haveClosure = true
				s, d = step("clo := "+call("mk")+"()", "nil:nil")
			} else {
				cn++
				count++
				s, d = step("clo()", fmt.Sprintf("list:[%d, %d]", cn, count))
			}
		}
		if s != "" {
			return s, d, sb.String(), pieces
		}
	}
	// final views
	if s, d := step(call("get")+"()", fmt.Sprintf("list:[%d, %d, %d]", count, total, seen)); s != "" {
		return s, d, sb.String(), pieces
	}
	for _, n := range declared {
		if s, d := step(n, fmt.Sprintf("int:%d", vals[n])); s != "" {
			return s, d, sb.String(), pieces
		}
	}
	return "", "", sb.String(), pieces
}
