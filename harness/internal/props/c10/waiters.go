package c10

import (
	"fmt"
	"strings"

	"verif/internal/mon"
)

// WaitSpec describes the second scenario family: ONE thread object is waited for repeatedly, by
// the spawner and by 0..4 further goroutines at the same time. Per round the script spawns a
// target call whose outcome is unique to the round, hands the thread object to the waiter
// goroutines (as an argument, captured by a closure, or through a channel), lets the call finish
// around the moment the waits start (a gate closed by the spawner, or a work loop of varying
// length), and records what every wait gave. HOW each wait is performed varies per wait (plain
// call inside a function literal under try, the bound builtin handed to try with and without a
// handler, call(t.wait), the builtin stored in a variable, the builtin spawned as a thread of its
// own, the wait made in yet another goroutine with the result passed through a channel), in a
// seed-determined order across the repeated waits of every goroutine.
//
// Oracle (values only, nothing depends on time): every wait on the thread gives exactly the
// spawned call's outcome – the same KIND (returned value vs raised error; an error VALUE returned
// by the call stays a returned value) and the same content for every waiter and every
// repetition, whatever the earlier waits were; never a missing object.
type WaitSpec struct {
	Rounds   int        `json:"rounds"`
	Waiters  int        `json:"waiters"`   // concurrent waiter goroutines (the spawner waits in addition); 0 = control
	Forms    []string   `json:"forms"`     // per waiter: go | spawn | method
	Styles   [][]string `json:"styles"`    // per waiter: how each of its successive waits is performed
	MainPre  []string   `json:"main_pre"`  // the spawner's waits while the waiters run
	MainPost []string   `json:"main_post"` // the spawner's waits after it joined the waiters
	Pass     string     `json:"pass"`      // args | capture | chan : how the waiters get the thread object
	Gate     string     `json:"gate"`      // gate: the call blocks until the spawner closes a channel | work: it computes
	Work     int        `json:"work"`      // loop iterations of the target call
	WorkY    int        `json:"work_y"`    // the target yields every k-th iteration (0: never)
	Lag      []int      `json:"lag"`       // per waiter: yields before its first wait
	PreGate  int        `json:"pre_gate"`  // yields of the spawner before it opens the gate / starts waiting
	Ret      string     `json:"ret"`       // int | list | str | errval | raise | rterr
	Target   string     `json:"target"`    // spawn | method : how the target is started
	X0       int        `json:"x0"`        // round i uses the unique id X0+i
}

// Wait styles. The first letter of the observation tag says how the result is to be read:
//
//	s  strong:  ["val", v] or ["raised", message]
//	h  handler: the value itself, or ["raised", message] made by try's handler
//	b  bare:    the value itself, or nil when the wait raised (try without handler)
var waitStyles = []string{"lit", "lit", "call", "var", "boundh", "boundh", "bound", "relayb", "relayf", "chan"}

func genStyles(r *mon.Rand, n int) []string {
	out := make([]string, n)
	for i := range out {
		out[i] = mon.Pick(r, waitStyles)
	}
	return out
}

func genWaitScenario(r *mon.Rand, idx int, thorough bool) Scenario {
	s := Scenario{Seed: r.Uint64(), Scope: "global"}
	s.Procs = procsChoices[idx%len(procsChoices)]
	w := &WaitSpec{}
	w.Rounds = r.Range(16, 30)
	if thorough && r.Chance(1, 4) {
		w.Rounds = r.Range(60, 150)
	}
	w.Waiters = mon.Pick(r, []int{2, 2, 2, 3, 3, 4, 1, 0})
	for i := 0; i < w.Waiters; i++ {
		w.Forms = append(w.Forms, mon.Pick(r, []string{"spawn", "spawn", "method", "go"}))
		w.Lag = append(w.Lag, mon.Pick(r, []int{0, 0, 0, 1, 3, 10}))
		w.Styles = append(w.Styles, genStyles(r, r.Range(2, 3)))
	}
	if r.Chance(1, 2) {
		w.MainPre = genStyles(r, r.Range(1, 2))
	}
	w.MainPost = genStyles(r, r.Range(2, 3))
	if w.Waiters == 0 {
		// control: one goroutine, repeated waits in every order of styles
		w.MainPost = genStyles(r, r.Range(3, 5))
	}
	w.Pass = mon.Pick(r, []string{"args", "capture", "chan"})
	w.Gate = mon.Pick(r, []string{"gate", "gate", "work"})
	w.Work = mon.Pick(r, []int{0, 0, 1, 5, 20, 100})
	w.WorkY = mon.Pick(r, []int{0, 0, 1, 3})
	w.PreGate = mon.Pick(r, []int{0, 0, 1, 2, 5, 20})
	w.Ret = mon.Pick(r, []string{"int", "list", "str", "errval", "raise", "raise", "rterr"})
	w.Target = mon.Pick(r, []string{"spawn", "method"})
	w.X0 = 1000 * (1 + r.Intn(900))
	s.W = w
	return s
}

func (w *WaitSpec) class() string {
	return fmt.Sprintf("waiters=%d:pass=%s:%s:ret=%s", w.Waiters, w.Pass, w.Gate, w.Ret)
}

func (w *WaitSpec) styleKey() string {
	var parts []string
	for _, st := range w.Styles {
		parts = append(parts, strings.Join(st, ">"))
	}
	return strings.Join(parts, "|") + "/" + strings.Join(w.MainPre, ">") + "/" + strings.Join(w.MainPost, ">")
}

func (w *WaitSpec) distinctKey(procs int) string {
	return fmt.Sprintf("wait|W%d|%s|%s|%s|forms=%s|target=%s|styles=%s|P%d", w.Waiters, w.Pass, w.Gate, w.Ret, strings.Join(w.Forms, ","), w.Target, w.styleKey(), procs)
}

const raisedHandler = `func(e) { return ["raised", e.message()] }`

// renderWaiters produces the program. Every closure captures only variables of its directly
// enclosing function (one level), every round is its own activation of round().
func (s *Scenario) renderWaiters() string {
	w := s.W
	b := &sb{}
	raw := func(l string) { b.ln("%s", l) }
	raw("import errors")
	// one observation function per wait style
	raw(`func o_lit(t) { return ["s", try(func() { return ["val", t.wait()] }, ` + raisedHandler + `)] }`)
	raw(`func o_call(t) { return ["s", try(func() { return ["val", call(t.wait)] }, ` + raisedHandler + `)] }`)
	raw(`func o_var(t) {`)
	raw(`  w := t.wait`)
	raw(`  return ["s", try(func() { return ["val", w()] }, ` + raisedHandler + `)]`)
	raw(`}`)
	raw(`func o_boundh(t) { return ["h", try(t.wait, ` + raisedHandler + `)] }`)
	raw(`func o_bound(t) { return ["b", try(t.wait)] }`)
	raw(`func o_relayb(t) {`)
	raw(`  h := spawn(t.wait)`)
	raw(`  return ["s", try(func() { return ["val", h.wait()] }, ` + raisedHandler + `)]`)
	raw(`}`)
	raw(`func o_relayf(t) {`)
	raw(`  h := spawn(func() { return t.wait() })`)
	raw(`  return ["s", try(func() { return ["val", h.wait()] }, ` + raisedHandler + `)]`)
	raw(`}`)
	raw(`func o_chan(t) {`)
	raw(`  c := chan(1)`)
	raw(`  go func() {`)
	raw(`    v := try(t.wait, ` + raisedHandler + `)`)
	raw(`    c <- v`)
	raw(`  }()`)
	raw(`  r := <-c`)
	raw(`  return ["h", r]`)
	raw(`}`)
	raw(`func joinres(h) { return try(func() { return ["val", h.wait()] }, ` + raisedHandler + `) }`)
	// target call
	b.ln("func target(gate, x, work) {")
	b.ind++
	if w.Gate == "gate" {
		b.ln("<-gate")
	}
	b.ln("acc := 0")
	b.ln("for j := 0; j < work; j++ {")
	b.ind++
	b.ln("acc += j")
	switch {
	case w.WorkY == 1:
		b.ln("yield()")
	case w.WorkY > 1:
		b.ln("if j %% %d == 0 { yield() }", w.WorkY)
	}
	b.ind--
	b.ln("}")
	switch w.Ret {
	case "int":
		raw("return x * 3 + 7")
	case "list":
		raw(`return [x, "r", x + 1]`)
	case "str":
		raw(`return "r" + string(x)`)
	case "errval":
		raw(`return errors.new("ev " + string(x))`) // an error VALUE: returned, not raised
	case "raise":
		raw(`error("target %d failed", x)`)
	case "rterr":
		raw(`l := [1, 2, 3]`)
		raw(`return l[x]`) // x ≥ 1000: index error carrying x
	}
	b.ind--
	b.ln("}")
	// one function per waiter (each has its own sequence of wait styles)
	for i := 0; i < w.Waiters; i++ {
		wid := i + 1
		viaChan := w.Pass == "chan"
		first := "t"
		if viaChan {
			first = "hc"
		}
		if w.Forms[i] == "go" {
			b.ln("func waiter%d(%s, lag, rd) {", wid, first)
		} else {
			b.ln("func waiter%d(%s, lag) {", wid, first)
		}
		b.ind++
		if viaChan {
			b.ln("t := <-hc")
		}
		b.ln("for j := 0; j < lag; j++ { yield() }")
		b.ln("obs := []")
		for _, st := range w.Styles[i] {
			b.ln("obs.append(o_%s(t))", st)
		}
		if w.Forms[i] == "go" {
			b.ln("rd <- [%d, obs]", wid)
		} else {
			b.ln("return [%d, obs]", wid)
		}
		b.ind--
		b.ln("}")
	}

	b.ln("func round(x) {")
	b.ind++
	b.ln("gate := chan()")
	b.ln("rd := chan(%d)", w.Waiters)
	b.ln("hc := chan(%d)", w.Waiters)
	b.ln("ws := []")
	ngo := 0
	spawnTarget := func() {
		if w.Target == "method" {
			b.ln("t := target.spawn(gate, x, %d)", w.Work)
		} else {
			b.ln("t := spawn(target, gate, x, %d)", w.Work)
		}
	}
	if w.Pass != "chan" {
		spawnTarget()
	}
	for i := 0; i < w.Waiters; i++ {
		wid := i + 1
		form := w.Forms[i]
		if form == "go" {
			ngo++
		}
		h := "t"
		if w.Pass == "chan" {
			h = "hc" // the waiters exist before the thread does and get it through a channel
		}
		if w.Pass == "capture" {
			// the closure captures t (and rd) of this round's activation
			switch form {
			case "spawn":
				b.ln("ws.append(spawn(func() { return waiter%d(t, %d) }))", wid, w.Lag[i])
			case "method":
				b.ln("f%d := func() { return waiter%d(t, %d) }", wid, wid, w.Lag[i])
				b.ln("ws.append(f%d.spawn())", wid)
			case "go":
				b.ln("go func() { waiter%d(t, %d, rd) }()", wid, w.Lag[i])
			}
			continue
		}
		switch form {
		case "spawn":
			b.ln("ws.append(spawn(waiter%d, %s, %d))", wid, h, w.Lag[i])
		case "method":
			b.ln("ws.append(waiter%d.spawn(%s, %d))", wid, h, w.Lag[i])
		case "go":
			b.ln("go waiter%d(%s, %d, rd)", wid, h, w.Lag[i])
		}
	}
	if w.Pass == "chan" {
		spawnTarget()
		b.ln("for i := 0; i < %d; i++ { hc <- t }", w.Waiters)
	}
	if w.PreGate > 0 {
		b.ln("for j := 0; j < %d; j++ { yield() }", w.PreGate)
	}
	if w.Gate == "gate" {
		b.ln("close(gate)")
	}
	b.ln("mobs := []")
	for _, st := range w.MainPre {
		b.ln("mobs.append(o_%s(t))", st)
	}
	b.ln("wr := []")
	b.ln("for _, h := range ws { wr.append(joinres(h)) }")
	if ngo > 0 {
		b.ln("for i := 0; i < %d; i++ { wr.append([\"val\", <-rd]) }", ngo)
	}
	for _, st := range w.MainPost {
		b.ln("mobs.append(o_%s(t))", st)
	}
	b.ln("return [x, wr, mobs]")
	b.ind--
	b.ln("}")
	b.ln("out := []")
	b.ln("for i := 0; i < %d; i++ { out.append(round(%d + i)) }", w.Rounds, w.X0)
	b.ln("out")
	return b.String()
}

// expected outcome of the target call of round id x. For a runtime error only the kind and the
// presence of x in the message are pinned (plus: the same text for every wait of the round).
func (w *WaitSpec) expected(x int) (kind string, val any) {
	switch w.Ret {
	case "int":
		return "val", x*3 + 7
	case "list":
		return "val", []any{x, "r", x + 1}
	case "str":
		return "val", fmt.Sprintf("r%d", x)
	case "errval":
		return "val", map[string]any{"errval": fmt.Sprintf("ev %d", x)}
	case "rterr":
		return "raised", nil
	}
	return "raised", fmt.Sprintf("target %d failed", x)
}

// describeWait classifies what a wait gave instead of the expected outcome.
func describeWait(kind string, val any, wantKind string) string {
	if m, ok := val.(map[string]any); ok && m["gonil"] == true {
		return "no-object"
	}
	if kind == "val" && val == nil {
		return "nil"
	}
	if kind == "raised" && wantKind == "val" {
		if s, ok := val.(string); ok && strings.HasPrefix(s, "panic:") {
			return "panic"
		}
		return "raised-instead-of-value"
	}
	if kind == "val" && wantKind == "raised" {
		return "value-instead-of-error"
	}
	if kind == "raised" {
		return "other-error"
	}
	return "other-value"
}

// asRaised recognises the record ["raised", message] produced by the scripts' try handler.
func asRaised(x any) (string, bool) {
	p, ok := asList(x)
	if !ok || len(p) != 2 {
		return "", false
	}
	if k, _ := p[0].(string); k != "raised" {
		return "", false
	}
	m, ok := p[1].(string)
	return m, ok
}

func judgeWaiters(s *Scenario, o *Obs, v *verdict) {
	w := s.W
	rounds, ok := asList(o.Value)
	if !ok || len(rounds) != w.Rounds {
		v.add("result-shape:waiters", "the script returned %s, expected %d rounds", show(o.Value), w.Rounds)
		return
	}
	sigSeen := map[string]bool{}
	report := func(what, f string, a ...any) {
		sig := "wait:concurrent-waiters:" + what + ":ret=" + w.Ret
		if w.Waiters == 0 {
			sig = "wait:repeated:" + what + ":ret=" + w.Ret
		}
		if sigSeen[sig] {
			return // one witness per class and run
		}
		sigSeen[sig] = true
		v.add(sig, "%s (%s, %d concurrent waiter goroutines %v + the spawner, thread passed by %s, waits performed as %s, GOMAXPROCS %d)", fmt.Sprintf(f, a...), w.Gate, w.Waiters, w.Forms, w.Pass, w.styleKey(), s.Procs)
	}
	for ri, rx := range rounds {
		r, ok := asList(rx)
		if !ok || len(r) != 3 {
			v.add("result-shape:waiters", "round %d returned %s", ri, show(rx))
			return
		}
		x := w.X0 + ri
		if gx, _ := asInt(r[0]); int(gx) != x {
			v.add("result-shape:waiters", "round %d reports id %s, expected %d", ri, show(r[0]), x)
			return
		}
		wantKind, wantVal := w.expected(x)
		rtMsg := "" // runtime error: the first message seen in this round
		// judgeOutcome compares a normalised (kind, value) with the call's outcome
		judgeOutcome := func(who, how, kind string, val any) {
			v.Events["concurrent_waits_checked"]++
			good := false
			switch {
			case w.Ret == "rterr":
				if msg, isStr := val.(string); kind == "raised" && isStr && strings.Contains(msg, fmt.Sprint(x)) {
					if rtMsg == "" {
						rtMsg = msg
					}
					good = msg == rtMsg
				}
			default:
				good = kind == wantKind && jsonEq(val, wantVal)
			}
			if good {
				return
			}
			want := fmt.Sprintf("%s %s", wantKind, show(wantVal))
			if w.Ret == "rterr" {
				want = fmt.Sprintf("a raised index error naming %d (the same text for every wait; first seen: %q)", x, rtMsg)
			}
			report(describeWait(kind, val, wantKind), "round %d (id %d): the wait performed by %s as %s gave %s %s, the spawned call's outcome is %s", ri, x, who, how, kind, show(val), want)
		}
		checkObs := func(who, how string, ob any) {
			p, ok := asList(ob)
			if !ok || len(p) != 2 {
				report("malformed", "round %d (id %d): %s recorded %s for a wait", ri, x, who, show(ob))
				return
			}
			tag, _ := p[0].(string)
			switch tag {
			case "s":
				q, ok := asList(p[1])
				if !ok || len(q) != 2 {
					report("malformed", "round %d (id %d): %s recorded %s for a wait", ri, x, who, show(ob))
					return
				}
				kind, _ := q[0].(string)
				judgeOutcome(who, how, kind, q[1])
			case "h":
				if msg, isRaised := asRaised(p[1]); isRaised {
					judgeOutcome(who, how, "raised", msg)
				} else {
					judgeOutcome(who, how, "val", p[1])
				}
			case "b":
				// try(t.wait) without handler: the value, or nil when the wait raised
				if wantKind == "raised" {
					v.Events["concurrent_waits_checked"]++
					if p[1] != nil {
						report(describeWait("val", p[1], "raised"), "round %d (id %d): try(t.wait) by %s gave %s although the spawned call raised", ri, x, who, show(p[1]))
					}
				} else {
					judgeOutcome(who, how, "val", p[1])
				}
			default:
				report("malformed", "round %d (id %d): %s recorded %s for a wait", ri, x, who, show(ob))
			}
		}
		wr, _ := asList(r[1])
		seen := map[int]int{}
		for _, e := range wr {
			// e = ["val", [wid, obs]] or ["raised", msg] when the waiter goroutine itself failed
			p, ok := asList(e)
			if !ok || len(p) != 2 {
				report("malformed", "round %d (id %d): waiter entry %s", ri, x, show(e))
				continue
			}
			if k, _ := p[0].(string); k != "val" {
				msg, _ := p[1].(string)
				what := "waiter-failed"
				if strings.HasPrefix(msg, "panic:") {
					what = "waiter-panic"
				}
				report(what, "round %d (id %d): a waiter goroutine ended with %s after waiting for the shared thread", ri, x, show(p[1]))
				continue
			}
			t, ok := asList(p[1])
			if !ok || len(t) != 2 {
				report(describeWait("val", p[1], "val")+"-from-waiter", "round %d (id %d): a waiter goroutine delivered %s instead of [wid, observations]", ri, x, show(p[1]))
				continue
			}
			wid, _ := asInt(t[0])
			seen[int(wid)]++
			obs, _ := asList(t[1])
			if wid < 1 || int(wid) > w.Waiters || len(obs) != len(w.Styles[wid-1]) {
				report("malformed", "round %d (id %d): waiter %d recorded %s", ri, x, wid, show(t[1]))
				continue
			}
			for k, ob := range obs {
				checkObs(fmt.Sprintf("waiter %d (its wait #%d)", wid, k+1), w.Styles[wid-1][k], ob)
			}
		}
		for i := 1; i <= w.Waiters; i++ {
			if seen[i] != 1 && len(sigSeen) == 0 {
				v.add("goroutine-result:count", "round %d (id %d): waiter %d reported %d results", ri, x, i, seen[i])
			}
		}
		mobs, _ := asList(r[2])
		all := append(append([]string{}, w.MainPre...), w.MainPost...)
		if len(mobs) != len(all) {
			report("malformed", "round %d (id %d): the spawner recorded %s", ri, x, show(r[2]))
			continue
		}
		for k, ob := range mobs {
			when := "after joining the waiters"
			if k < len(w.MainPre) {
				when = "while the waiters run"
			}
			checkObs(fmt.Sprintf("the spawner (its wait #%d, %s)", k+1, when), all[k], ob)
		}
		v.Events["shared_threads"]++
	}
}
