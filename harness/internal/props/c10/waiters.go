package c10

import (
	"fmt"
	"strings"

	"verif/internal/mon"
)

// WaitSpec describes the second scenario family: ONE thread object is waited for by several
// goroutines at the same time. Per round the script spawns a target call returning a value that
// is unique to the round, hands the thread object to W waiter goroutines (as an argument,
// captured by a closure, or through a channel), lets the call finish around the moment the
// waits start (a gate closed by the spawner, or a work loop of varying length), and collects
// what every wait() gave: each waiter waits twice, the spawner itself waits too.
//
// Oracle (values only, nothing depends on time): every wait() on the thread gives exactly what
// the spawned call returned – the same value for every waiter and every repetition, never a
// missing object, never an error unless the call raised (then the same message for everybody).
type WaitSpec struct {
	Rounds  int    `json:"rounds"`
	Waiters int    `json:"waiters"` // concurrent waiter goroutines (the spawner waits in addition)
	Forms   []string `json:"forms"` // per waiter: go | spawn | method
	Pass    string `json:"pass"`    // args | capture | chan : how the waiters get the thread object
	Gate    string `json:"gate"`    // gate: the call blocks until the spawner closes a channel | work: it computes
	Work    int    `json:"work"`    // loop iterations of the target call
	WorkY   int    `json:"work_y"`  // the target yields every k-th iteration (0: never)
	Lag     []int  `json:"lag"`     // per waiter: yields before its first wait()
	PreGate int    `json:"pre_gate"` // yields of the spawner before it opens the gate / starts waiting
	Ret     string `json:"ret"`     // int | list | str | raise
	Target  string `json:"target"`  // spawn | method : how the target is started
	MainIn  bool   `json:"main_in"` // the spawner's own first wait() happens before it joins the waiters
	X0      int    `json:"x0"`      // round i uses the unique id X0+i
}

func genWaitScenario(r *mon.Rand, idx int, thorough bool) Scenario {
	s := Scenario{Seed: r.Uint64(), Scope: "global"}
	s.Procs = procsChoices[idx%len(procsChoices)]
	w := &WaitSpec{}
	w.Rounds = r.Range(20, 40)
	if thorough && r.Chance(1, 4) {
		w.Rounds = r.Range(60, 150)
	}
	w.Waiters = mon.Pick(r, []int{2, 2, 2, 3, 3, 4, 1})
	for i := 0; i < w.Waiters; i++ {
		w.Forms = append(w.Forms, mon.Pick(r, []string{"spawn", "spawn", "method", "go"}))
		w.Lag = append(w.Lag, mon.Pick(r, []int{0, 0, 0, 1, 3, 10}))
	}
	w.Pass = mon.Pick(r, []string{"args", "capture", "chan"})
	w.Gate = mon.Pick(r, []string{"gate", "gate", "work"})
	w.Work = mon.Pick(r, []int{0, 0, 1, 5, 20, 100})
	w.WorkY = mon.Pick(r, []int{0, 0, 1, 3})
	w.PreGate = mon.Pick(r, []int{0, 0, 1, 2, 5, 20})
	w.Ret = mon.Pick(r, []string{"int", "int", "list", "str", "raise"})
	w.Target = mon.Pick(r, []string{"spawn", "method"})
	w.MainIn = r.Chance(1, 2)
	w.X0 = 1000 * (1 + r.Intn(900))
	s.W = w
	return s
}

func (w *WaitSpec) class() string {
	return fmt.Sprintf("waiters=%d:pass=%s:%s:ret=%s", w.Waiters, w.Pass, w.Gate, w.Ret)
}

func (w *WaitSpec) distinctKey(procs int) string {
	return fmt.Sprintf("wait|W%d|%s|%s|%s|forms=%s|target=%s|main_in=%v|P%d", w.Waiters, w.Pass, w.Gate, w.Ret, strings.Join(w.Forms, ","), w.Target, w.MainIn, procs)
}

// renderWaiters produces the program. Every closure captures only variables of its directly
// enclosing function (one level), every round is its own activation of round().
func (s *Scenario) renderWaiters() string {
	w := s.W
	b := &sb{}
	b.ln("func waitres(t) { return try(func() { return [\"val\", t.wait()] }, func(e) { return [\"raised\", e.message()] }) }")
	// target call
	b.ln("func target(gate, x, work) {")
	b.ind++
	if w.Gate == "gate" {
		b.ln("<-gate")
	}
	b.ln("acc := 0")
	b.ln("for j := 0; j < work; j++ {")
	b.ind++
	b.ln("acc += j")
	switch {
	case w.WorkY == 1:
		b.ln("yield()")
	case w.WorkY > 1:
		b.ln("if j %% %d == 0 { yield() }", w.WorkY)
	}
	b.ind--
	b.ln("}")
	switch w.Ret {
	case "int":
		b.ln("return x * 3 + 7")
	case "list":
		b.ln("return [x, \"r\", x + 1]")
	case "str":
		b.ln("return \"r\" + string(x)")
	case "raise":
		b.ln("%s", "error(\"target %d failed\", x)")
	}
	b.ind--
	b.ln("}")
	// waiter functions (argument-passing and channel-passing forms)
	b.ln("func waiter(t, wid, lag) {")
	b.ln("  for j := 0; j < lag; j++ { yield() }")
	b.ln("  r1 := waitres(t)")
	b.ln("  r2 := waitres(t)")
	b.ln("  return [wid, r1, r2]")
	b.ln("}")
	b.ln("func waiter_go(t, wid, lag, rd) {")
	b.ln("  for j := 0; j < lag; j++ { yield() }")
	b.ln("  r1 := waitres(t)")
	b.ln("  r2 := waitres(t)")
	b.ln("  rd <- [wid, r1, r2]")
	b.ln("}")
	b.ln("func waiter_ch(hc, wid, lag) {")
	b.ln("  t := <-hc")
	b.ln("  for j := 0; j < lag; j++ { yield() }")
	b.ln("  r1 := waitres(t)")
	b.ln("  r2 := waitres(t)")
	b.ln("  return [wid, r1, r2]")
	b.ln("}")
	b.ln("func waiter_ch_go(hc, wid, lag, rd) {")
	b.ln("  t := <-hc")
	b.ln("  for j := 0; j < lag; j++ { yield() }")
	b.ln("  r1 := waitres(t)")
	b.ln("  r2 := waitres(t)")
	b.ln("  rd <- [wid, r1, r2]")
	b.ln("}")

	b.ln("func round(x) {")
	b.ind++
	b.ln("gate := chan()")
	b.ln("rd := chan(%d)", w.Waiters)
	b.ln("hc := chan(%d)", w.Waiters)
	b.ln("ws := []")
	ngo := 0
	spawnTarget := func() {
		if w.Target == "method" {
			b.ln("t := target.spawn(gate, x, %d)", w.Work)
		} else {
			b.ln("t := spawn(target, gate, x, %d)", w.Work)
		}
	}
	if w.Pass != "chan" {
		spawnTarget()
	}
	for i := 0; i < w.Waiters; i++ {
		wid := i + 1
		form := w.Forms[i]
		if form == "go" {
			ngo++
		}
		switch w.Pass {
		case "args":
			switch form {
			case "spawn":
				b.ln("ws.append(spawn(waiter, t, %d, %d))", wid, w.Lag[i])
			case "method":
				b.ln("ws.append(waiter.spawn(t, %d, %d))", wid, w.Lag[i])
			case "go":
				b.ln("go waiter_go(t, %d, %d, rd)", wid, w.Lag[i])
			}
		case "capture":
			// the closure captures t (and rd) of this round's activation
			switch form {
			case "spawn":
				b.ln("ws.append(spawn(func() { return waiter(t, %d, %d) }))", wid, w.Lag[i])
			case "method":
				b.ln("f%d := func() { return waiter(t, %d, %d) }", wid, wid, w.Lag[i])
				b.ln("ws.append(f%d.spawn())", wid)
			case "go":
				b.ln("go func() { waiter_go(t, %d, %d, rd) }()", wid, w.Lag[i])
			}
		case "chan":
			// the waiters exist before the thread does and get it through a channel
			switch form {
			case "spawn":
				b.ln("ws.append(spawn(waiter_ch, hc, %d, %d))", wid, w.Lag[i])
			case "method":
				b.ln("ws.append(waiter_ch.spawn(hc, %d, %d))", wid, w.Lag[i])
			case "go":
				b.ln("go waiter_ch_go(hc, %d, %d, rd)", wid, w.Lag[i])
			}
		}
	}
	if w.Pass == "chan" {
		spawnTarget()
		b.ln("for i := 0; i < %d; i++ { hc <- t }", w.Waiters)
	}
	if w.PreGate > 0 {
		b.ln("for j := 0; j < %d; j++ { yield() }", w.PreGate)
	}
	if w.Gate == "gate" {
		b.ln("close(gate)")
	}
	b.ln("m1 := nil")
	if w.MainIn {
		b.ln("m1 = waitres(t)")
	}
	b.ln("wr := []")
	b.ln("for _, h := range ws { wr.append(waitres(h)) }")
	if ngo > 0 {
		b.ln("for i := 0; i < %d; i++ { wr.append([\"val\", <-rd]) }", ngo)
	}
	b.ln("m2 := waitres(t)")
	b.ln("m3 := waitres(t)")
	b.ln("return [x, wr, m1, m2, m3]")
	b.ind--
	b.ln("}")
	b.ln("out := []")
	b.ln("for i := 0; i < %d; i++ { out.append(round(%d + i)) }", w.Rounds, w.X0)
	b.ln("out")
	return b.String()
}

func (w *WaitSpec) expected(x int) (kind string, val any) {
	switch w.Ret {
	case "int":
		return "val", x*3 + 7
	case "list":
		return "val", []any{x, "r", x + 1}
	case "str":
		return "val", fmt.Sprintf("r%d", x)
	}
	return "raised", fmt.Sprintf("target %d failed", x)
}

// describeWait classifies what a wait() gave instead of the expected outcome.
func describeWait(kind string, val any, wantKind string) string {
	if m, ok := val.(map[string]any); ok && m["gonil"] == true {
		return "no-object"
	}
	if kind == "val" && val == nil {
		return "nil"
	}
	if kind == "raised" && wantKind == "val" {
		if s, ok := val.(string); ok && strings.HasPrefix(s, "panic:") {
			return "panic"
		}
		return "raised-instead-of-value"
	}
	if kind == "val" && wantKind == "raised" {
		return "value-instead-of-error"
	}
	if kind == "raised" {
		return "other-error"
	}
	return "other-value"
}

func judgeWaiters(s *Scenario, o *Obs, v *verdict) {
	w := s.W
	rounds, ok := asList(o.Value)
	if !ok || len(rounds) != w.Rounds {
		v.add("result-shape:waiters", "the script returned %s, expected %d rounds", show(o.Value), w.Rounds)
		return
	}
	sigSeen := map[string]bool{}
	report := func(what, f string, a ...any) {
		sig := "wait:concurrent-waiters:" + what + ":ret=" + w.Ret
		if sigSeen[sig] {
			return // one witness per class and run
		}
		sigSeen[sig] = true
		v.add(sig, "%s (%s, %d concurrent waiter goroutines %v + the spawner, thread passed by %s, GOMAXPROCS %d)", fmt.Sprintf(f, a...), w.Gate, w.Waiters, w.Forms, w.Pass, s.Procs)
	}
	for ri, rx := range rounds {
		r, ok := asList(rx)
		if !ok || len(r) != 5 {
			v.add("result-shape:waiters", "round %d returned %s", ri, show(rx))
			return
		}
		x := w.X0 + ri
		if gx, _ := asInt(r[0]); int(gx) != x {
			v.add("result-shape:waiters", "round %d reports id %s, expected %d", ri, show(r[0]), x)
			return
		}
		wantKind, wantVal := w.expected(x)
		checkWait := func(who string, wr any) {
			p, ok := asList(wr)
			if !ok || len(p) != 2 {
				report("malformed", "round %d (id %d): %s recorded %s for a wait()", ri, x, who, show(wr))
				return
			}
			kind, _ := p[0].(string)
			v.Events["concurrent_waits_checked"]++
			if kind == wantKind && jsonEq(p[1], wantVal) {
				return
			}
			report(describeWait(kind, p[1], wantKind), "round %d (id %d): wait() called by %s gave %s %s, the spawned call's outcome is %s %s", ri, x, who, kind, show(p[1]), wantKind, show(wantVal))
		}
		wr, _ := asList(r[1])
		seen := map[int]int{}
		for _, e := range wr {
			// e = ["val", [wid, r1, r2]] or ["raised", msg] when the waiter goroutine itself failed
			p, ok := asList(e)
			if !ok || len(p) != 2 {
				report("malformed", "round %d (id %d): waiter entry %s", ri, x, show(e))
				continue
			}
			if k, _ := p[0].(string); k != "val" {
				msg, _ := p[1].(string)
				what := "waiter-failed"
				if strings.HasPrefix(msg, "panic:") {
					what = "waiter-panic"
				}
				report(what, "round %d (id %d): a waiter goroutine ended with %s after calling wait() on the shared thread", ri, x, show(p[1]))
				continue
			}
			t, ok := asList(p[1])
			if !ok || len(t) != 3 {
				report(describeWait("val", p[1], "val")+"-from-waiter", "round %d (id %d): a waiter goroutine delivered %s instead of [wid, first wait, second wait]", ri, x, show(p[1]))
				continue
			}
			wid, _ := asInt(t[0])
			seen[int(wid)]++
			checkWait(fmt.Sprintf("waiter %d (first call)", wid), t[1])
			checkWait(fmt.Sprintf("waiter %d (second call)", wid), t[2])
		}
		for i := 1; i <= w.Waiters; i++ {
			if seen[i] != 1 && len(sigSeen) == 0 {
				v.add("goroutine-result:count", "round %d (id %d): waiter %d reported %d results", ri, x, i, seen[i])
			}
		}
		if w.MainIn {
			checkWait("the spawner (while the waiters run)", r[2])
		}
		checkWait("the spawner (after joining the waiters)", r[3])
		checkWait("the spawner (again)", r[4])
		v.Events["shared_threads"]++
	}
}
