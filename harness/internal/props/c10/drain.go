package c10

import (
	"fmt"
	"sort"
	"strings"

	"verif/internal/mon"
)

// DrainSpec describes the third scenario family: a BUFFERED channel is closed while values are
// still queued and 1..4 receivers drain it, each stopping at the first nil. Many short rounds per
// script, each round with a fresh channel and values unique to the round.
//
//	prefill: the receivers are started but held at a gate; the spawner puts count ≤ cap values into
//	         the channel, closes it and only then opens the gate – all receivers start draining
//	         together, on a channel that is already closed and still holds its values;
//	live:    the receivers run while the spawner (senders = 0) or 1..3 sender threads send, the
//	         channel is closed the moment the last sender is done (the buffer is usually not empty).
//
//	stream:  long-lived receivers get one job after the other through their own job channel: a fresh
//	         channel, prefilled, closed, plus a gate the spawner closes once every receiver has the
//	         job – hundreds of "closed with values queued" drains per script without a spawn each.
//
// Oracle (values only): every value sent is received exactly once over all receivers; every
// receiver sees its sender's values in order; every receiver ends – on risor's nil for `<-ch` /
// `ch.receive()`, by leaving the loop for range / in – and delivers its list: a receiver thread
// never fails (a missing object instead of nil shows up as a panic in that thread).
type DrainSpec struct {
	Rounds  int      `json:"rounds"`
	Cap     int      `json:"cap"`
	Ctor    string   `json:"ctor"`    // chan | make
	Mode    string   `json:"mode"`    // prefill | live
	Senders int      `json:"senders"` // live: sender threads (0: the spawner sends itself)
	N       int      `json:"n"`       // values per sender (prefill: total, ≤ cap)
	SendBy  string   `json:"send_by"` // op | method
	Styles  []string `json:"styles"`  // per receiver: op | method | range | in
	Forms   []string `json:"forms"`   // per receiver: spawn | method | go
	Lag     []int    `json:"lag"`     // per receiver: yields before the first receive
	CloseBy string   `json:"closeby"` // builtin | method
	PreGate int      `json:"pre_gate"` // prefill: yields of the spawner before it lets the receivers go
	X0      int      `json:"x0"`
}

func genDrainScenario(r *mon.Rand, idx int, thorough bool) Scenario {
	s := Scenario{Seed: r.Uint64(), Scope: "global"}
	s.Procs = procsChoices[(idx+1)%len(procsChoices)]
	d := &DrainSpec{}
	d.Rounds = r.Range(30, 55)
	if thorough && r.Chance(1, 4) {
		d.Rounds = r.Range(100, 250)
	}
	d.Cap = r.Range(1, 8)
	d.Ctor = mon.Pick(r, []string{"chan", "make"})
	d.Mode = mon.Pick(r, []string{"prefill", "live", "stream", "stream"})
	d.SendBy = mon.Pick(r, []string{"op", "method"})
	d.CloseBy = mon.Pick(r, []string{"builtin", "method"})
	nr := mon.Pick(r, []int{2, 2, 3, 3, 4, 4, 4, 1})
	family := r.Intn(3) // 0 plain receives only, 1 mixed with iteration, 2 one style for all
	single := mon.Pick(r, []string{"op", "method"})
	for i := 0; i < nr; i++ {
		switch family {
		case 0:
			d.Styles = append(d.Styles, mon.Pick(r, []string{"op", "method"}))
		case 1:
			d.Styles = append(d.Styles, mon.Pick(r, []string{"op", "method", "op", "method", "range", "in"}))
		default:
			d.Styles = append(d.Styles, single)
		}
		d.Forms = append(d.Forms, mon.Pick(r, []string{"spawn", "spawn", "method", "go"}))
		d.Lag = append(d.Lag, mon.Pick(r, []int{0, 0, 0, 1, 3}))
	}
	if d.Mode == "prefill" {
		d.N = mon.Pick(r, []int{1, 1, 2, 3, d.Cap, r.Range(1, d.Cap)})
		if d.N > d.Cap {
			d.N = d.Cap
		}
		d.PreGate = mon.Pick(r, []int{0, 0, 1, 5})
	} else if d.Mode == "stream" {
		// long-lived receivers, one closed-and-still-filled channel after the other: many rounds are cheap
		d.Rounds = r.Range(300, 500)
		if thorough && r.Chance(1, 4) {
			d.Rounds = r.Range(1000, 3000)
		}
		d.N = mon.Pick(r, []int{1, 1, 2, 3, d.Cap})
		if d.N > d.Cap {
			d.N = d.Cap
		}
		d.PreGate = mon.Pick(r, []int{0, 0, 0, 1})
		for i := range d.Forms {
			d.Lag[i] = 0
		}
	} else {
		d.Senders = mon.Pick(r, []int{0, 0, 1, 2, 3})
		d.N = r.Range(d.Cap, 40)
	}
	d.X0 = 100 * (1 + r.Intn(9000))
	s.D = d
	return s
}

func (d *DrainSpec) styleSet() string {
	m := map[string]bool{}
	for _, st := range d.Styles {
		m[st] = true
	}
	var k []string
	for x := range m {
		k = append(k, x)
	}
	sort.Strings(k)
	return strings.Join(k, "+")
}

func (d *DrainSpec) class() string {
	return fmt.Sprintf("drain:%s:receivers=%d:recv=%s:cap=%s", d.Mode, len(d.Styles), d.styleSet(), capClass(d.Cap))
}

func (d *DrainSpec) distinctKey(procs int) string {
	return fmt.Sprintf("drain|%s|cap%d|S%d|N%d|%s|recv=%s|forms=%s|%s|P%d", d.Mode, d.Cap, d.Senders, d.N, d.SendBy, strings.Join(d.Styles, ","), strings.Join(d.Forms, ","), d.CloseBy, procs)
}

// value of (round id x, sender sid, seq): unique over the whole script
func drainVal(x, sid, seq int) int { return x*1000 + sid*100 + seq }

func (s *Scenario) renderDrain() string {
	d := s.D
	if d.Mode == "stream" {
		return s.renderDrainStream()
	}
	b := &sb{}
	raw := func(l string) { b.ln("%s", l) }
	raw(`func joinres(h) { return try(func() { return ["val", h.wait()] }, func(e) { return ["raised", e.message()] }) }`)
	// receivers: one function per style and delivery
	body := func(style string) {
		raw(`  got := []`)
		raw(`  term := "none"`)
		raw(`  <-gate`)
		raw(`  for j := 0; j < lag; j++ { yield() }`)
		switch style {
		case "op", "method":
			raw(`  for {`)
			if style == "op" {
				raw(`    v := <-ch`)
			} else {
				raw(`    v := ch.receive()`)
			}
			raw(`    if v == nil {`)
			raw(`      term = v`)
			raw(`      break`)
			raw(`    }`)
			raw(`    got.append(v)`)
			raw(`  }`)
		case "range":
			raw(`  for _, v := range ch { got.append(v) }`)
			raw(`  term = nil`)
		case "in":
			raw(`  for v in ch { got.append(v) }`)
			raw(`  term = nil`)
		}
	}
	for _, st := range []string{"op", "method", "range", "in"} {
		b.ln("func rx_%s(ch, gate, rid, lag) {", st)
		body(st)
		raw(`  return [rid, got, term]`)
		raw(`}`)
		b.ln("func rxgo_%s(ch, gate, rid, lag, rd) {", st)
		body(st)
		raw(`  rd <- [rid, got, term]`)
		raw(`}`)
	}
	send := "ch <- v"
	if d.SendBy == "method" {
		send = "ch.send(v)"
	}
	raw(`func tx(ch, x, sid, n) {`)
	raw(`  for i := 0; i < n; i++ {`)
	raw(`    v := x * 1000 + sid * 100 + i`)
	raw(`    ` + send)
	raw(`  }`)
	raw(`  return [sid, n]`)
	raw(`}`)

	raw(`func round(x) {`)
	b.ind++
	if d.Ctor == "make" {
		b.ln("ch := make(chan, %d)", d.Cap)
	} else {
		b.ln("ch := chan(%d)", d.Cap)
	}
	b.ln("rd := chan(%d)", len(d.Styles))
	raw(`hs := []`)
	ngo := 0
	startReceivers := func() {
		for i, st := range d.Styles {
			rid := i + 1
			switch d.Forms[i] {
			case "spawn":
				b.ln("hs.append(spawn(rx_%s, ch, gate, %d, %d))", st, rid, d.Lag[i])
			case "method":
				b.ln("hs.append(rx_%s.spawn(ch, gate, %d, %d))", st, rid, d.Lag[i])
			case "go":
				ngo++
				b.ln("go rxgo_%s(ch, gate, %d, %d, rd)", st, rid, d.Lag[i])
			}
		}
	}
	closeIt := func() {
		if d.CloseBy == "method" {
			raw(`ch.close()`)
		} else {
			raw(`close(ch)`)
		}
	}
	raw(`sr := []`)
	raw(`gate := chan()`)
	if d.Mode == "prefill" {
		// the receivers exist but are held at the gate: they all start draining together, on a
		// channel that is already closed and still holds its values
		startReceivers()
		b.ln("tx(ch, x, 0, %d)", d.N)
		closeIt()
		if d.PreGate > 0 {
			b.ln("for j := 0; j < %d; j++ { yield() }", d.PreGate)
		}
		raw(`close(gate)`)
	} else {
		raw(`close(gate)`)
		startReceivers()
		if d.Senders == 0 {
			b.ln("tx(ch, x, 0, %d)", d.N)
		} else {
			raw(`ts := []`)
			for sid := 1; sid <= d.Senders; sid++ {
				b.ln("ts.append(spawn(tx, ch, x, %d, %d))", sid, d.N)
			}
			raw(`for _, t := range ts { sr.append(joinres(t)) }`)
		}
		closeIt()
	}
	raw(`rr := []`)
	raw(`for _, h := range hs { rr.append(joinres(h)) }`)
	if ngo > 0 {
		b.ln("for i := 0; i < %d; i++ { rr.append([\"val\", <-rd]) }", ngo)
	}
	raw(`return [x, rr, sr]`)
	b.ind--
	raw(`}`)
	raw(`out := []`)
	b.ln("for i := 0; i < %d; i++ { out.append(round(%d + i)) }", d.Rounds, d.X0)
	raw(`out`)
	return b.String()
}

func judgeDrain(s *Scenario, o *Obs, v *verdict) {
	d := s.D
	if d.Mode == "stream" {
		judgeDrainStream(s, o, v)
		return
	}
	rounds, ok := asList(o.Value)
	if !ok || len(rounds) != d.Rounds {
		v.add("result-shape:drain", "the script returned %s, expected %d rounds", show(o.Value), d.Rounds)
		return
	}
	sigSeen := map[string]bool{}
	report := func(what, f string, a ...any) {
		sig := "drain-after-close:" + what + ":recv=" + d.styleSet() + ":" + d.Mode
		if sigSeen[sig] {
			return
		}
		sigSeen[sig] = true
		v.add(sig, "%s (channel of capacity %d, %s, %d sender threads × %d values, receivers %v started as %v, GOMAXPROCS %d)", fmt.Sprintf(f, a...), d.Cap, d.Mode, d.Senders, d.N, d.Styles, d.Forms, s.Procs)
	}
	sids := []int{0}
	if d.Mode == "live" && d.Senders > 0 {
		sids = nil
		for i := 1; i <= d.Senders; i++ {
			sids = append(sids, i)
		}
	}
	for ri, rx := range rounds {
		r, ok := asList(rx)
		if !ok || len(r) != 3 {
			v.add("result-shape:drain", "round %d returned %s", ri, show(rx))
			return
		}
		x := d.X0 + ri
		if gx, _ := asInt(r[0]); int(gx) != x {
			v.add("result-shape:drain", "round %d reports id %s, expected %d", ri, show(r[0]), x)
			return
		}
		// senders
		sr, _ := asList(r[2])
		if d.Mode == "live" && d.Senders > 0 && len(sr) != d.Senders {
			report("sender-results", "round %d (id %d): %d sender results", ri, x, len(sr))
		}
		for _, e := range sr {
			p, ok := asList(e)
			if !ok || len(p) != 2 || p[0] != "val" {
				report("sender-failed", "round %d (id %d): a sender thread ended with %s", ri, x, show(e))
			}
		}
		// receivers
		rr, _ := asList(r[1])
		count := map[int]int{}
		received := 0
		failed := false
		seen := map[int]int{}
		for _, e := range rr {
			p, ok := asList(e)
			if !ok || len(p) != 2 {
				report("malformed", "round %d (id %d): receiver entry %s", ri, x, show(e))
				failed = true
				continue
			}
			if k, _ := p[0].(string); k != "val" {
				msg, _ := p[1].(string)
				what := "receiver-failed"
				if strings.HasPrefix(msg, "panic:") {
					what = "receiver-panic"
				}
				report(what, "round %d (id %d): a receiver thread draining the closed channel ended with %s instead of delivering its values", ri, x, show(p[1]))
				failed = true
				continue
			}
			t, ok := asList(p[1])
			if !ok || len(t) != 3 {
				report("malformed", "round %d (id %d): a receiver delivered %s", ri, x, show(p[1]))
				failed = true
				continue
			}
			rid, _ := asInt(t[0])
			seen[int(rid)]++
			style := "?"
			if rid >= 1 && int(rid) <= len(d.Styles) {
				style = d.Styles[rid-1]
			}
			if t[2] != nil {
				what := "terminator-not-nil"
				if m, ok := t[2].(map[string]any); ok && m["gonil"] == true {
					what = "terminator-no-object"
				}
				report(what, "round %d (id %d): receiver %d (%s) stopped on %s, a closed and drained channel yields nil", ri, x, rid, style, show(t[2]))
			}
			got, _ := asList(t[1])
			last := map[int]int{}
			for _, val := range got {
				n, ok := asInt(val)
				if !ok || int(n)/1000 != x {
					report("invented", "round %d (id %d): receiver %d (%s) got %s, which was never sent in this round", ri, x, rid, style, show(val))
					continue
				}
				sid, seq := int(n)%1000/100, int(n)%100
				valid := seq < d.N
				if valid {
					valid = false
					for _, q := range sids {
						if q == sid {
							valid = true
						}
					}
				}
				if !valid {
					report("invented", "round %d (id %d): receiver %d (%s) got %d, which was never sent", ri, x, rid, style, n)
					continue
				}
				received++
				count[int(n)]++
				if prev, ok := last[sid]; ok && seq <= prev {
					report("order", "round %d (id %d): receiver %d (%s) got seq %d of sender %d after seq %d", ri, x, rid, style, seq, sid, prev)
				}
				last[sid] = seq
			}
		}
		v.Events["drain_rounds"]++
		v.Events["messages_sent"] += len(sids) * d.N
		v.Events["messages_received"] += received
		if failed {
			continue // the failed receiver's values are gone with it: already reported
		}
		for i := 1; i <= len(d.Styles); i++ {
			if seen[i] != 1 {
				report("receiver-results", "round %d (id %d): receiver %d delivered %d results", ri, x, i, seen[i])
			}
		}
		lost, dup := 0, 0
		var ex []string
		for _, sid := range sids {
			for q := 0; q < d.N; q++ {
				c := count[drainVal(x, sid, q)]
				if c == 0 {
					lost++
					if len(ex) < 5 {
						ex = append(ex, fmt.Sprintf("(%d,%d) lost", sid, q))
					}
				} else if c > 1 {
					dup++
					if len(ex) < 5 {
						ex = append(ex, fmt.Sprintf("(%d,%d)x%d", sid, q, c))
					}
				}
			}
		}
		if lost > 0 || dup > 0 {
			var kinds []string
			if lost > 0 {
				kinds = append(kinds, "lost")
			}
			if dup > 0 {
				kinds = append(kinds, "duplicated")
			}
			report(strings.Join(kinds, "+"), "round %d (id %d): of %d values %d were never received and %d more than once %v (sender,seq)", ri, x, len(sids)*d.N, lost, dup, ex)
		}
		v.Events["closed_with_values_queued_drains"]++
	}
}

func (s *Scenario) renderDrainStream() string {
	d := s.D
	b := &sb{}
	raw := func(l string) { b.ln("%s", l) }
	raw(`func joinres(h) { return try(func() { return ["val", h.wait()] }, func(e) { return ["raised", e.message()] }) }`)
	for _, st := range []string{"op", "method", "range", "in"} {
		for _, viaGo := range []bool{false, true} {
			if viaGo {
				b.ln("func rxsgo_%s(jobs, rid, rd) {", st)
			} else {
				b.ln("func rxs_%s(jobs, rid) {", st)
			}
			raw(`  got := []`)
			raw(`  terms := 0`)
			raw(`  for {`)
			raw(`    job := <-jobs`)
			raw(`    if job == nil { break }`)
			raw(`    ch := job[0]`)
			raw(`    g := job[1]`)
			raw(`    <-g`)
			switch st {
			case "op", "method":
				raw(`    for {`)
				if st == "op" {
					raw(`      v := <-ch`)
				} else {
					raw(`      v := ch.receive()`)
				}
				raw(`      if v == nil {`)
				raw(`        terms += 1`)
				raw(`        break`)
				raw(`      }`)
				raw(`      got.append(v)`)
				raw(`    }`)
			case "range":
				raw(`    for _, v := range ch { got.append(v) }`)
				raw(`    terms += 1`)
			case "in":
				raw(`    for v in ch { got.append(v) }`)
				raw(`    terms += 1`)
			}
			raw(`  }`)
			if viaGo {
				raw(`  rd <- [rid, got, terms]`)
			} else {
				raw(`  return [rid, got, terms]`)
			}
			raw(`}`)
		}
	}
	nr := len(d.Styles)
	b.ln("rd := chan(%d)", nr)
	raw(`hs := []`)
	ngo := 0
	for i, st := range d.Styles {
		rid := i + 1
		b.ln("jobs%d := chan(%d)", rid, d.Rounds+1)
		switch d.Forms[i] {
		case "spawn":
			b.ln("hs.append(spawn(rxs_%s, jobs%d, %d))", st, rid, rid)
		case "method":
			b.ln("hs.append(rxs_%s.spawn(jobs%d, %d))", st, rid, rid)
		case "go":
			ngo++
			b.ln("go rxsgo_%s(jobs%d, %d, rd)", st, rid, rid)
		}
	}
	raw(`func feed(x) {`)
	b.ind++
	if d.Ctor == "make" {
		b.ln("ch := make(chan, %d)", d.Cap)
	} else {
		b.ln("ch := chan(%d)", d.Cap)
	}
	b.ln("for j := 0; j < %d; j++ {", d.N)
	raw(`  v := x * 1000 + j`)
	if d.SendBy == "method" {
		raw(`  ch.send(v)`)
	} else {
		raw(`  ch <- v`)
	}
	raw(`}`)
	if d.CloseBy == "method" {
		raw(`ch.close()`)
	} else {
		raw(`close(ch)`)
	}
	raw(`gate := chan()`)
	raw(`job := [ch, gate]`)
	for i := range d.Styles {
		b.ln("jobs%d <- job", i+1)
	}
	if d.PreGate > 0 {
		b.ln("for j := 0; j < %d; j++ { yield() }", d.PreGate)
	}
	raw(`close(gate)`)
	b.ind--
	raw(`}`)
	b.ln("for i := 0; i < %d; i++ { feed(%d + i) }", d.Rounds, d.X0)
	for i := range d.Styles {
		b.ln("close(jobs%d)", i+1)
	}
	raw(`rr := []`)
	raw(`for _, h := range hs { rr.append(joinres(h)) }`)
	if ngo > 0 {
		b.ln("for i := 0; i < %d; i++ { rr.append([\"val\", <-rd]) }", ngo)
	}
	raw(`rr`)
	return b.String()
}

func judgeDrainStream(s *Scenario, o *Obs, v *verdict) {
	d := s.D
	rr, ok := asList(o.Value)
	if !ok || len(rr) != len(d.Styles) {
		v.add("result-shape:drain", "the script returned %s, expected the results of %d receivers", show(o.Value), len(d.Styles))
		return
	}
	sigSeen := map[string]bool{}
	report := func(what, f string, a ...any) {
		sig := "drain-after-close:" + what + ":recv=" + d.styleSet() + ":" + d.Mode
		if sigSeen[sig] {
			return
		}
		sigSeen[sig] = true
		v.add(sig, "%s (%d channels of capacity %d in a row, each prefilled with %d values and closed before the receivers %v (started as %v) are let go, GOMAXPROCS %d)", fmt.Sprintf(f, a...), d.Rounds, d.Cap, d.N, d.Styles, d.Forms, s.Procs)
	}
	count := map[int]int{}
	received := 0
	failed := false
	seen := map[int]int{}
	for _, e := range rr {
		p, ok := asList(e)
		if !ok || len(p) != 2 {
			report("malformed", "receiver entry %s", show(e))
			failed = true
			continue
		}
		if k, _ := p[0].(string); k != "val" {
			msg, _ := p[1].(string)
			what := "receiver-failed"
			if strings.HasPrefix(msg, "panic:") {
				what = "receiver-panic"
			}
			report(what, "a receiver thread draining closed channels ended with %s instead of delivering its values", show(p[1]))
			failed = true
			continue
		}
		t, ok := asList(p[1])
		if !ok || len(t) != 3 {
			report("malformed", "a receiver delivered %s", show(p[1]))
			failed = true
			continue
		}
		rid, _ := asInt(t[0])
		seen[int(rid)]++
		style := "?"
		if rid >= 1 && int(rid) <= len(d.Styles) {
			style = d.Styles[rid-1]
		}
		if terms, _ := asInt(t[2]); int(terms) != d.Rounds {
			report("terminator-count", "receiver %d (%s) saw the end of %d channels, %d were handed to it", rid, style, terms, d.Rounds)
		}
		got, _ := asList(t[1])
		lastX, lastSeq := -1, -1
		for _, val := range got {
			n, ok := asInt(val)
			x, seq := int(n)/1000, int(n)%1000
			if !ok || x < d.X0 || x >= d.X0+d.Rounds || seq >= d.N {
				report("invented", "receiver %d (%s) got %s, which was never sent", rid, style, show(val))
				continue
			}
			received++
			count[int(n)]++
			if x < lastX || (x == lastX && seq <= lastSeq) {
				report("order", "receiver %d (%s) got value %d of channel %d after value %d of channel %d", rid, style, seq, x, lastSeq, lastX)
			}
			lastX, lastSeq = x, seq
		}
	}
	v.Events["drain_rounds"] += d.Rounds
	v.Events["messages_sent"] += d.Rounds * d.N
	v.Events["messages_received"] += received
	if failed {
		return
	}
	for i := 1; i <= len(d.Styles); i++ {
		if seen[i] != 1 {
			report("receiver-results", "receiver %d delivered %d results", i, seen[i])
		}
	}
	lost, dup := 0, 0
	var ex []string
	for i := 0; i < d.Rounds; i++ {
		for q := 0; q < d.N; q++ {
			c := count[(d.X0+i)*1000+q]
			if c == 0 {
				lost++
				if len(ex) < 5 {
					ex = append(ex, fmt.Sprintf("(channel %d, value %d) lost", i, q))
				}
			} else if c > 1 {
				dup++
				if len(ex) < 5 {
					ex = append(ex, fmt.Sprintf("(channel %d, value %d)x%d", i, q, c))
				}
			}
		}
	}
	if lost > 0 || dup > 0 {
		var kinds []string
		if lost > 0 {
			kinds = append(kinds, "lost")
		}
		if dup > 0 {
			kinds = append(kinds, "duplicated")
		}
		report(strings.Join(kinds, "+"), "of %d values %d were never received and %d more than once %v", d.Rounds*d.N, lost, dup, ex)
	}
	v.Events["closed_with_values_queued_drains"] += d.Rounds
}
