package c10

import (
	"encoding/json"

	"verif/internal/mon"
)

// DebugRun generates scenario idx of a seed, runs it in-process and judges it (development aid).
func DebugRun(seed uint64, idx int, thorough bool, reps int) (src string, out []string) {
	r := mon.NewRand(seed).Split("C10").Split("scenarios")
	s := genScenario(r.SplitN(idx), idx, thorough)
	src = s.Render()
	for i := 0; i < reps; i++ {
		o := runScenario(&s)
		// through JSON like the real path
		b, _ := json.Marshal(o)
		var o2 Obs
		_ = json.Unmarshal(b, &o2)
		v := judge(&s, &o2)
		vb, _ := json.Marshal(map[string]any{"status": o.Status, "err": o.Err, "ms": o.Ms, "findings": v.Findings, "hang": v.Hang, "overlap": v.Overlap, "events": v.Events, "inconc": v.Inconc, "blocked": o.Blocked})
		out = append(out, string(vb))
	}
	return
}
