package c10

import (
	"context"
	"encoding/json"
	"fmt"
	"os"
	"path/filepath"
	"regexp"
	"runtime"
	"runtime/debug"
	"sort"
	"strings"
	"sync/atomic"
	"time"

	"github.com/risor-io/risor"
	"github.com/risor-io/risor/object"
)

// Stamp is one event of the client-boundary history: the call or the return of a channel
// operation, ordered by a global atomic counter taken inside the host builtin.
type Stamp struct {
	T    int64  `json:"t"`
	G    int    `json:"g"`
	Kind string `json:"k"` // sc sr rc rr cc cr
	Ch   int    `json:"c"`
	V    any    `json:"v"` // payload (int64 / string) or nil
}

// Obs is what the worker recorded for one execution of a scenario.
type Obs struct {
	Status  string  `json:"status"` // ok | error | deadlock | timeout | gopanic
	Err     string  `json:"err,omitempty"`
	Value   any     `json:"value,omitempty"`
	Stamps  []Stamp `json:"stamps,omitempty"`
	Blocked string  `json:"blocked,omitempty"` // deadlock: where every script goroutine is parked
	RaceLo  int64   `json:"race_lo"`           // size of the race log before / after the run
	RaceHi  int64   `json:"race_hi"`
	Ms      int64   `json:"ms"`
}

type caseData struct {
	S    Scenario `json:"s"`
	Reps int      `json:"reps"`
}

type caseOut struct {
	Runs []Obs `json:"runs"`
}

func worker(kind string, data json.RawMessage) any {
	var c caseData
	if err := json.Unmarshal(data, &c); err != nil {
		return caseOut{Runs: []Obs{{Status: "error", Err: "harness: bad case: " + err.Error()}}}
	}
	reps := c.Reps
	if reps <= 0 {
		reps = 1
	}
	var out caseOut
	for i := 0; i < reps; i++ {
		out.Runs = append(out.Runs, runScenario(&c.S))
	}
	return out
}

func raceLogSize() int64 {
	m, _ := filepath.Glob("race.*")
	var n int64
	for _, f := range m {
		if st, err := os.Stat(f); err == nil {
			n += st.Size()
		}
	}
	return n
}

// conv turns a risor result into plain JSON-able data.
func conv(o object.Object) any {
	switch v := o.(type) {
	case nil:
		// not risor's nil but no object at all: must never reach a script
		return map[string]any{"gonil": true}
	case *object.NilType:
		return nil
	case *object.Int:
		return v.Value()
	case *object.String:
		return v.Value()
	case *object.Bool:
		return v.Value()
	case *object.List:
		items := v.Value()
		out := make([]any, len(items))
		for i, it := range items {
			out[i] = conv(it)
		}
		return out
	case *object.Map:
		return map[string]any{"mapval": v.Size()}
	case *object.Error:
		return map[string]any{"errval": v.Value().Error()}
	default:
		return map[string]any{"other": string(o.Type()) + ":" + o.Inspect()}
	}
}

type stampLog struct {
	ctr  atomic.Int64
	logs [][]Stamp // one slice per goroutine id: appended only by that goroutine (no lock: keeps
	// the harness from adding more happens-before edges than the counter itself)
}

func runScenario(s *Scenario) (obs Obs) {
	start := time.Now()
	obs.RaceLo = raceLogSize()
	defer func() {
		obs.Ms = time.Since(start).Milliseconds()
		obs.RaceHi = raceLogSize()
	}()
	if s.Procs > 0 {
		runtime.GOMAXPROCS(s.Procs)
	}
	src := s.Render()
	sl := &stampLog{logs: make([][]Stamp, len(s.Gors)+1)}
	yield := object.NewBuiltin("yield", func(ctx context.Context, args ...object.Object) object.Object {
		runtime.Gosched()
		return object.Nil
	})
	stamp := object.NewBuiltin("stamp", func(ctx context.Context, args ...object.Object) object.Object {
		if len(args) != 4 {
			return object.Errorf("stamp: 4 arguments")
		}
		g, _ := args[0].(*object.Int)
		k, _ := args[1].(*object.String)
		ch, _ := args[2].(*object.Int)
		if g == nil || k == nil || ch == nil || g.Value() < 0 || int(g.Value()) >= len(sl.logs) {
			return object.Errorf("stamp: bad arguments")
		}
		// "return" stamps are taken as late as possible and "call" stamps as early as possible
		// relative to the operation they bracket simply by their position in the script.
		t := sl.ctr.Add(1)
		sl.logs[g.Value()] = append(sl.logs[g.Value()], Stamp{T: t, G: int(g.Value()), Kind: k.Value(), Ch: int(ch.Value()), V: conv(args[3])})
		return object.Nil
	})

	total := 0
	for ci, c := range s.Chans {
		total += c.N * len(s.gorsOf(ci, "send"))
	}
	// generous: only a livelock ends here (a deadlock is recognised from the goroutine states long before)
	limit := 120*time.Second + time.Duration(total/1000)*10*time.Second
	ctx, cancel := context.WithCancel(context.Background())
	defer cancel()

	type evalOut struct {
		v   object.Object
		err error
		pan string
	}
	done := make(chan evalOut, 1)
	go func() {
		var eo evalOut
		defer func() {
			if r := recover(); r != nil {
				eo.pan = fmt.Sprintf("%v\n%s", r, debug.Stack())
			}
			done <- eo
		}()
		eo.v, eo.err = risor.Eval(ctx, src, risor.WithConcurrency(), risor.WithGlobal("yield", yield), risor.WithGlobal("stamp", stamp))
	}()

	// Watchdog. A deadlock is decided logically, not by the clock: every goroutine that has a
	// risor frame on its stack is parked in a channel operation (two consecutive samples with
	// the same goroutine set). Only the plain time limit is a wall-clock verdict ("timeout").
	tick := time.NewTicker(500 * time.Millisecond)
	defer tick.Stop()
	deadline := time.After(limit)
	prev := ""
	var eo evalOut
	status := ""
loop:
	for {
		select {
		case eo = <-done:
			break loop
		case <-tick.C:
			if time.Since(start) < 1500*time.Millisecond {
				continue
			}
			all, sig, summary := parkedEverywhere()
			if all && sig == prev {
				status = "deadlock"
				obs.Blocked = summary
				cancel()
				select {
				case eo = <-done:
				case <-time.After(20 * time.Second):
				}
				break loop
			}
			if all {
				prev = sig
			} else {
				prev = ""
			}
		case <-deadline:
			status = "timeout"
			_, _, obs.Blocked = parkedEverywhere()
			cancel()
			select {
			case eo = <-done:
			case <-time.After(20 * time.Second):
			}
			break loop
		}
	}
	// stamps (every script goroutine has ended or is cancelled by now)
	if s.Stamped {
		for _, l := range sl.logs {
			obs.Stamps = append(obs.Stamps, l...)
		}
		sort.Slice(obs.Stamps, func(i, j int) bool { return obs.Stamps[i].T < obs.Stamps[j].T })
	}
	switch {
	case status != "":
		obs.Status = status
		if eo.err != nil {
			obs.Err = eo.err.Error()
		}
	case eo.pan != "":
		obs.Status = "gopanic"
		obs.Err = eo.pan
	case eo.err != nil:
		obs.Status = "error"
		obs.Err = eo.err.Error()
	default:
		obs.Status = "ok"
		obs.Value = conv(eo.v)
	}
	return obs
}

var goroutineHdr = regexp.MustCompile(`^goroutine (\d+) \[([^\],]+)`)

// parkedEverywhere inspects all goroutines: those with a risor frame are the script's. It
// returns whether all of them are parked in a channel operation, a signature of the set and a
// short description (innermost risor function per goroutine).
func parkedEverywhere() (all bool, sig string, summary string) {
	buf := make([]byte, 1<<20)
	for {
		n := runtime.Stack(buf, true)
		if n < len(buf) {
			buf = buf[:n]
			break
		}
		buf = make([]byte, 2*len(buf))
	}
	blocks := strings.Split(string(buf), "\n\n")
	all = true
	count := 0
	var ids, desc []string
	for _, b := range blocks {
		if !strings.Contains(b, "github.com/risor-io/risor/") && !strings.Contains(b, "github.com/risor-io/risor.") {
			continue
		}
		lines := strings.Split(b, "\n")
		m := goroutineHdr.FindStringSubmatch(lines[0])
		if m == nil {
			continue
		}
		inner := ""
		for _, l := range lines[1:] {
			if strings.HasPrefix(l, "github.com/risor-io/risor") {
				inner = l
				break
			}
		}
		if i := strings.LastIndex(inner, "("); i > 0 {
			inner = inner[:i]
		}
		inner = strings.TrimPrefix(inner, "github.com/risor-io/risor/")
		if strings.Contains(inner, "(*VirtualMachine).start.func") {
			continue // the VM's context watcher: always parked, can only be woken by cancellation
		}
		count++
		state := m[2]
		switch state {
		case "select", "chan receive", "chan send", "select (no cases)", "chan receive (nil chan)", "chan send (nil chan)":
		default:
			all = false
		}
		ids = append(ids, m[1])
		desc = append(desc, inner+"["+state+"]")
	}
	if count == 0 {
		all = false
	}
	sort.Strings(ids)
	sort.Strings(desc)
	return all, strings.Join(ids, ","), strings.Join(desc, " ")
}
