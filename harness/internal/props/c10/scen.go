package c10

import (
	"fmt"
	"sort"
	"strings"

	"verif/internal/mon"
)

// A Scenario is one producer/consumer program: 1..2 independent channels, each with its own
// senders and receivers, all of them SCRIPT functions started by the script (go statement,
// spawn(), fn.spawn()). Goroutines share only channels and read-only values; every piece of
// mutable state (the receiver's list, counters) is private to one goroutine, so that a race
// report can only concern interpreter state.
type Scenario struct {
	Seed    uint64     `json:"seed"`
	Scope   string     `json:"scope"` // global | func
	Chans   []ChanSpec `json:"chans"`
	Gors    []Gor      `json:"gors"`  // GID = index+1 (0 is the main script)
	Order   []int      `json:"order"` // spawn order (indices into Gors)
	Stamped bool       `json:"stamped"`
	Procs   int        `json:"procs"` // GOMAXPROCS
	SDone   int        `json:"sdone"` // capacity of the senders' done channel (go-form results)
	RDone   int        `json:"rdone"`
	Base    int64      `json:"base"` // shared read-only offset added to every int payload
	// run-time knobs (not part of the program)
	Race bool `json:"race,omitempty"`
	Reps int  `json:"reps,omitempty"`
	// Launch > 0: the goroutines marked Via are not started by the main flow but by a chain of
	// Launch intermediate threads ("launchers", flat functions, nested only in who spawns whom);
	// every launcher returns at once – long before the senders and receivers it started are done –
	// and the main flow gets the thread handles back as the launcher's result.
	Launch      int      `json:"launch,omitempty"`
	LaunchForms []string `json:"launch_forms,omitempty"` // per level: spawn | method | go (go only at level 1)
	LaunchFirst bool     `json:"launch_first,omitempty"` // launcher started before the main flow's own spawns
	// W, when set, makes this a "several goroutines wait for one thread" scenario (waiters.go);
	// the channel fields above are then unused.
	W *WaitSpec `json:"w,omitempty"`
	// D, when set, makes this a "drain a buffered channel closed with values queued" scenario (drain.go).
	D *DrainSpec `json:"d,omitempty"`
	// C, when set, makes this a "close while senders are parked in a send" scenario (closeblock.go).
	C *CloseSpec `json:"c,omitempty"`
	// M, when set, makes this a "threads started through list.map / list.each callbacks" scenario (mapspawn.go).
	M *MapSpec `json:"m,omitempty"`
}

type ChanSpec struct {
	Cap     int    `json:"cap"`
	Ctor    string `json:"ctor"`    // chan | make
	N       int    `json:"n"`       // messages per sender
	Mode    string `json:"mode"`    // close: receivers run until close | counted: receivers take a quota
	CloseBy string `json:"closeby"` // builtin | method
	Payload string `json:"payload"` // int | str
	// MarkEvery k > 0: after every k-th identified message each sender also sends a bare falsy
	// "marker" (its Gor.Mark: nil, 0, "", false, [] or {}); the kinds differ between the senders of
	// one channel, so a received marker still says whose it is. Receivers that use `<-c` /
	// c.receive() then stop by count (a received nil is a value here, not the end).
	MarkEvery int `json:"mark_every,omitempty"`
}

type Gor struct {
	Role  string `json:"role"` // send | recv
	Ch    int    `json:"ch"`
	ID    int    `json:"id"`    // sender id 1.. / receiver id 1.. (per channel)
	Style string `json:"style"` // send: op|method ; recv: op|method|range|rangekv|in
	Form  string `json:"form"`  // go | spawn | method
	Bind  string `json:"bind"`  // args | closure | outer | builtin
	Yield int    `json:"yield"` // 0 never, k: on every k-th iteration
	Quota int    `json:"quota"` // counted receivers
	Ret   string `json:"ret"`   // senders: list|int|str|errval|raise
	Lag   int    `json:"lag"`   // yields before the first channel operation
	Via   bool   `json:"via,omitempty"` // started by the launcher chain, not by the main flow
	Mark  string `json:"mark,omitempty"` // senders on a channel with markers: nil | zero | empty | false | list | map
}

func (g Gor) iter() bool { return g.Style == "range" || g.Style == "rangekv" || g.Style == "in" }

// ---------------------------------------------------------------------------------------
// generation

var procsChoices = []int{1, 2, 4, 16}

func genScenario(r *mon.Rand, idx int, thorough bool) Scenario {
	s := Scenario{Seed: r.Uint64()}
	s.Scope = mon.Pick(r, []string{"global", "func"})
	s.Procs = procsChoices[idx%len(procsChoices)]
	s.Stamped = idx%5 < 2 // 40 % record a client-boundary history through the host builtin
	s.Base = int64(r.Intn(9)) * 100000000
	nch := 1
	if r.Chance(1, 5) {
		nch = 2
	}
	for c := 0; c < nch; c++ {
		cs := ChanSpec{Cap: r.Intn(9)}
		if r.Chance(1, 4) {
			cs.Cap = 0
		}
		cs.Ctor = mon.Pick(r, []string{"chan", "make"})
		cs.Mode = "close"
		if r.Chance(1, 4) {
			cs.Mode = "counted"
		}
		cs.CloseBy = mon.Pick(r, []string{"builtin", "method"})
		cs.Payload = "int"
		if r.Chance(1, 5) {
			cs.Payload = "str"
		}
		// messages per sender
		switch x := r.Intn(100); {
		case x < 15:
			cs.N = 1
		case x < 55:
			cs.N = 10
		case x < 80:
			cs.N = r.Range(2, 60)
		case x < 98 || !thorough:
			cs.N = 1000
		default:
			cs.N = 10000
		}
		if cs.N == 1000 && r.Chance(1, 2) {
			cs.N = r.Range(100, 400)
		}
		if s.Stamped && cs.N > 1000 {
			cs.N = 1000 // keeps the stamp log of one run small
		}
		S := r.Range(1, 4)
		R := r.Range(1, 4)
		if s.Stamped {
			// half of the stamped histories are kept short enough for the linearizability checker
			if cs.Cap > 0 && r.Chance(2, 3) {
				for S*cs.N > 80 {
					if cs.N > 20 {
						cs.N = r.Range(3, 20)
					} else {
						S--
					}
				}
			}
		}
		// receive styles: either all receivers of the channel use the same family or a mix
		family := r.Intn(4) // 0 plain ops, 1 iteration, 2 mixed, 3 single style
		single := mon.Pick(r, []string{"op", "method", "range", "rangekv", "in"})
		total := S * cs.N
		quota := splitQuota(r, total, R)
		for i := 1; i <= S; i++ {
			g := Gor{Role: "send", Ch: c, ID: i}
			g.Style = mon.Pick(r, []string{"op", "method"})
			g.Form = mon.Pick(r, []string{"go", "spawn", "method"})
			g.Bind = mon.Pick(r, []string{"args", "closure", "outer"})
			g.Yield = mon.Pick(r, []int{0, 0, 1, 2, 3, 7, 50})
			g.Ret = mon.Pick(r, []string{"list", "list", "int", "str", "errval", "raise"})
			if g.Form == "go" && g.Ret == "raise" {
				g.Ret = "list"
			}
			if cs.N == 1 && cs.Payload == "int" && !s.Stamped && r.Chance(1, 3) {
				// the goroutine IS the channel's builtin method
				g.Bind = "builtin"
				g.Style = "method"
				g.Yield = 0
				g.Ret = "nil"
				if g.Form == "go" && cs.Mode != "counted" {
					g.Form = "spawn"
				}
			}
			if s.Stamped && r.Chance(1, 4) {
				g.Lag = mon.Pick(r, []int{20, 200})
			}
			if cs.N > 100 && g.Yield > 0 && g.Yield < 7 {
				g.Yield = 7 // long runs: occasional yields only (a Gosched per message dominates the run otherwise)
			}
			s.Gors = append(s.Gors, g)
		}
		for i := 1; i <= R; i++ {
			g := Gor{Role: "recv", Ch: c, ID: i}
			switch family {
			case 0:
				g.Style = mon.Pick(r, []string{"op", "method"})
			case 1:
				g.Style = mon.Pick(r, []string{"range", "rangekv", "in"})
			case 2:
				g.Style = mon.Pick(r, []string{"op", "method", "range", "rangekv", "in"})
			default:
				g.Style = single
			}
			g.Form = mon.Pick(r, []string{"go", "spawn", "method"})
			g.Bind = mon.Pick(r, []string{"args", "closure", "outer"})
			g.Yield = mon.Pick(r, []int{0, 0, 1, 2, 3, 7, 50})
			if cs.Mode == "counted" {
				g.Quota = quota[i-1]
			}
			if s.Stamped && r.Chance(1, 2) {
				g.Lag = mon.Pick(r, []int{50, 300, 1000})
			}
			if cs.N > 100 && g.Yield > 0 && g.Yield < 7 {
				g.Yield = 7
			}
			s.Gors = append(s.Gors, g)
		}
		// bare nil / falsy markers among the messages (own stream: the other choices stay what they were)
		rm := r.Split(fmt.Sprintf("marks%d", c))
		if !s.Stamped && cs.N >= 2 && rm.Chance(2, 5) {
			cs.MarkEvery = mon.Pick(rm, []int{1, 2, 3, 5})
			if cs.MarkEvery > cs.N {
				cs.MarkEvery = cs.N
			}
			kinds := []string{"nil", "zero", "empty", "false", "list", "map"}
			perm := rm.Perm(len(kinds))
			nilAt := rm.Intn(S) // one sender of the channel always sends nil
			k := 0
			plain := false
			first := len(s.Gors) - S - R
			for i := first; i < len(s.Gors); i++ {
				g := &s.Gors[i]
				if g.Role == "send" {
					if g.ID-1 == nilAt {
						g.Mark = "nil"
					} else {
						for kinds[perm[k%len(perm)]] == "nil" {
							k++
						}
						g.Mark = kinds[perm[k%len(perm)]]
						k++
					}
				} else if !g.iter() {
					plain = true
				}
			}
			if plain {
				cs.Mode = "counted"
			}
			if cs.Mode == "counted" {
				q := splitQuota(rm, S*(cs.N+cs.N/cs.MarkEvery), R)
				for i := first; i < len(s.Gors); i++ {
					if g := &s.Gors[i]; g.Role == "recv" {
						g.Quota = q[g.ID-1]
					}
				}
			}
		}
		s.Chans = append(s.Chans, cs)
	}
	s.Order = r.Perm(len(s.Gors))
	s.SDone = r.Intn(5)
	s.RDone = r.Intn(5)
	// launcher topologies (own stream: the other choices of the scenario stay what they were)
	rl := r.Split("launch")
	if rl.Chance(1, 3) {
		s.Launch = rl.Range(1, 3)
		for l := 0; l < s.Launch; l++ {
			f := mon.Pick(rl, []string{"spawn", "method"})
			if l == 0 && rl.Chance(1, 3) {
				f = "go"
			}
			s.LaunchForms = append(s.LaunchForms, f)
		}
		s.LaunchFirst = rl.Bool()
		all := rl.Chance(1, 2)
		n := 0
		for i := range s.Gors {
			if all || rl.Bool() {
				s.Gors[i].Via = true
				n++
			}
		}
		if n == 0 {
			s.Gors[rl.Intn(len(s.Gors))].Via = true
		}
	}
	return s
}

func splitQuota(r *mon.Rand, total, parts int) []int {
	q := make([]int, parts)
	left := total
	for i := 0; i < parts-1; i++ {
		x := 0
		if left > 0 {
			x = r.Intn(left + 1)
			if r.Chance(1, 2) {
				x = left / (parts - i)
			}
		}
		q[i] = x
		left -= x
	}
	q[parts-1] = left
	return q
}

// ---------------------------------------------------------------------------------------
// classification

func (s *Scenario) gorsOf(ch int, role string) []int {
	var out []int
	for i, g := range s.Gors {
		if g.Ch == ch && g.Role == role {
			out = append(out, i)
		}
	}
	return out
}

func styleSet(s *Scenario, idx []int) string {
	m := map[string]bool{}
	for _, i := range idx {
		m[s.Gors[i].Style] = true
	}
	var k []string
	for x := range m {
		k = append(k, x)
	}
	sort.Strings(k)
	return strings.Join(k, "+")
}

func formSet(s *Scenario, idx []int) string {
	m := map[string]bool{}
	for _, i := range idx {
		m[s.Gors[i].Form+"/"+s.Gors[i].Bind] = true
	}
	var k []string
	for x := range m {
		k = append(k, x)
	}
	sort.Strings(k)
	return strings.Join(k, "+")
}

func capClass(c int) string {
	switch {
	case c == 0:
		return "0"
	case c == 1:
		return "1"
	}
	return "n"
}

// multiIter: ≥2 receivers of the channel iterate over it (range / in): the shape of D18.
func (s *Scenario) multiIter(ch int) bool {
	n := 0
	for _, i := range s.gorsOf(ch, "recv") {
		if s.Gors[i].iter() {
			n++
		}
	}
	return n >= 2
}

func (s *Scenario) shape(ch int) string {
	mk := ""
	if s.Chans[ch].MarkEvery > 0 {
		mk = ":markers"
	}
	return fmt.Sprintf("send=%s:recv=%s:cap=%s:%s%s", styleSet(s, s.gorsOf(ch, "send")), styleSet(s, s.gorsOf(ch, "recv")),
		capClass(s.Chans[ch].Cap), s.Chans[ch].Mode, mk)
}

// distinctKey: (topology, buffer, styles, forms, GOMAXPROCS) of one channel group.
func (s *Scenario) distinctKey(ch int) string {
	sn, rc := s.gorsOf(ch, "send"), s.gorsOf(ch, "recv")
	return fmt.Sprintf("S%dR%d|cap%d|%s|send=%s|recv=%s|forms=%s|P%d|%s", len(sn), len(rc), s.Chans[ch].Cap, s.Chans[ch].Mode,
		styleSet(s, sn), styleSet(s, rc), formSet(s, append(append([]int{}, sn...), rc...)), s.Procs, s.Scope) + s.launchKey()
}

// ---------------------------------------------------------------------------------------
// rendering

type sb struct {
	strings.Builder
	ind int
}

func (b *sb) ln(f string, a ...any) {
	b.WriteString(strings.Repeat("  ", b.ind))
	if len(a) == 0 {
		b.WriteString(f)
	} else {
		fmt.Fprintf(&b.Builder, f, a...)
	}
	b.WriteByte('\n')
}

func chName(i int) string { return fmt.Sprintf("c%d", i) }

func (s *Scenario) doneName(g Gor) string {
	if g.Role == "send" {
		return "sdone"
	}
	return "rdone"
}

// payload literal of message (id, seq) – used by the builtin-bound senders.
func (s *Scenario) payloadInt(id, seq int) int64 { return s.Base + int64(id)*1000000 + int64(seq) }

// Render produces the risor source of the scenario.
func (s *Scenario) Render() string {
	if s.W != nil {
		return s.renderWaiters()
	}
	if s.D != nil {
		return s.renderDrain()
	}
	if s.C != nil {
		return s.renderCloseBlock()
	}
	if s.M != nil {
		return s.renderMapSpawn()
	}
	b := &sb{}
	b.ln("import errors")
	if s.Scope == "func" {
		b.ln("func main_() {")
		b.ind++
	}
	b.ln("base := %d", s.Base)
	for i, c := range s.Chans {
		switch {
		case c.Ctor == "make":
			b.ln("%s := make(chan, %d)", chName(i), c.Cap)
		case c.Cap == 0 && s.Seed%2 == 0:
			b.ln("%s := chan()", chName(i))
		default:
			b.ln("%s := chan(%d)", chName(i), c.Cap)
		}
	}
	b.ln("sdone := chan(%d)", s.SDone)
	b.ln("rdone := chan(%d)", s.RDone)
	b.ln("func noise(a, b, c, d) { return a + b + c + d }")
	b.ln("func waitres(t) { return try(func() { return [\"val\", t.wait()] }, func(e) { return [\"raised\", e.message()] }) }")
	for i := range s.Gors {
		s.renderFunc(b, i)
	}
	// spawn
	s.renderLaunchers(b)
	b.ln("a1 := 0; a2 := 0; a3 := 0")
	if s.Launch > 0 && s.LaunchFirst {
		s.renderLaunchStart(b)
	}
	for _, i := range s.Order {
		if s.Launch > 0 && s.Gors[i].Via {
			continue
		}
		s.renderSpawn(b, i)
	}
	if s.Launch > 0 && !s.LaunchFirst {
		s.renderLaunchStart(b)
	}
	s.renderLaunchJoin(b)
	// collect senders
	b.ln("sres := []")
	ngo := 0
	for i, g := range s.Gors {
		if g.Role != "send" {
			continue
		}
		if g.Form == "go" {
			if g.Bind != "builtin" {
				ngo++
			}
			continue
		}
		b.ln("sres.append([%d, waitres(t%d), waitres(t%d)])", i+1, i+1, i+1)
	}
	if ngo > 0 {
		b.ln("for j := 0; j < %d; j++ { sres.append(<-sdone) }", ngo)
	}
	for i, c := range s.Chans {
		if c.Mode == "close" {
			s.renderClose(b, i)
		}
	}
	b.ln("rres := []")
	ngo = 0
	for i, g := range s.Gors {
		if g.Role != "recv" {
			continue
		}
		if g.Form == "go" {
			ngo++
			continue
		}
		b.ln("rres.append([%d, waitres(t%d), waitres(t%d)])", i+1, i+1, i+1)
	}
	if ngo > 0 {
		b.ln("for j := 0; j < %d; j++ { rres.append(<-rdone) }", ngo)
	}
	for i, c := range s.Chans {
		if c.Mode != "close" {
			s.renderClose(b, i)
		}
	}
	b.ln("post := []")
	for i := range s.Chans {
		cn := chName(i)
		b.ln("p1_%d := <-%s", i, cn)
		b.ln("p2_%d := %s.receive()", i, cn)
		b.ln("pn_%d := 0", i)
		b.ln("for _, v := range %s { pn_%d += 1 }", cn, i)
		b.ln("for v in %s { pn_%d += 1 }", cn, i)
		b.ln("post.append([p1_%d, p2_%d, pn_%d])", i, i, i)
	}
	// a buffered channel accepts as many sends as it has slots without any receiver, FIFO
	b.ln("selfbuf := []")
	for i, c := range s.Chans {
		if c.Ctor == "make" {
			b.ln("sb%d := make(chan, %d)", i, c.Cap)
		} else {
			b.ln("sb%d := chan(%d)", i, c.Cap)
		}
		b.ln("for i := 0; i < %d; i++ { sb%d <- i }", c.Cap, i)
		b.ln("so%d := []", i)
		b.ln("for i := 0; i < %d; i++ { so%d.append(<-sb%d) }", c.Cap, i, i)
		b.ln("selfbuf.append(so%d)", i)
	}
	b.ln("post.append(selfbuf)")
	if s.Scope == "func" {
		b.ln("return [sres, rres, post]")
		b.ind--
		b.ln("}")
		b.ln("main_()")
	} else {
		b.ln("[sres, rres, post]")
	}
	return b.String()
}

func (s *Scenario) renderClose(b *sb, ch int) {
	cn := chName(ch)
	if s.Stamped {
		b.ln("stamp(0, \"cc\", %d, nil)", ch)
	}
	if s.Chans[ch].CloseBy == "method" {
		b.ln("%s.close()", cn)
	} else {
		b.ln("close(%s)", cn)
	}
	if s.Stamped {
		b.ln("stamp(0, \"cr\", %d, nil)", ch)
	}
}

// names used inside the goroutine's function for the channel, the done channel and the base
func (s *Scenario) inner(g Gor) (c, dn, bs string) {
	if g.Bind == "outer" {
		return chName(g.Ch), s.doneName(g), "base"
	}
	return "c", "dn", "bs"
}

func (s *Scenario) renderFunc(b *sb, i int) {
	g := s.Gors[i]
	gid := i + 1
	if g.Bind == "builtin" {
		return
	}
	switch g.Bind {
	case "args":
		b.ln("func w%d(c, dn, bs, id, n, q) {", gid)
		b.ind++
		s.renderState(b, g)
		s.renderBody(b, i)
		b.ind--
		b.ln("}")
	case "outer":
		b.ln("func w%d(id, n, q) {", gid)
		b.ind++
		s.renderState(b, g)
		s.renderBody(b, i)
		b.ind--
		b.ln("}")
	case "closure":
		// the private state lives in the factory's activation and is captured by the closure
		b.ln("func mk%d(c, dn, bs, id, n, q) {", gid)
		b.ind++
		s.renderState(b, g)
		b.ln("return func() {")
		b.ind++
		s.renderBody(b, i)
		b.ind--
		b.ln("}")
		b.ind--
		b.ln("}")
	}
	_ = gid
}

func (s *Scenario) renderState(b *sb, g Gor) {
	if g.Role == "send" {
		b.ln("sent := 0")
	} else {
		b.ln("got := []")
		b.ln("keys := []")
		b.ln("nils := 0")
	}
}

func (s *Scenario) yieldStmt(b *sb, g Gor, counter string) {
	switch {
	case g.Yield == 0:
	case g.Yield == 1:
		b.ln("yield()")
	default:
		b.ln("if %s %% %d == %d { yield() }", counter, g.Yield, g.Yield-1)
	}
}

func (s *Scenario) renderBody(b *sb, i int) {
	g := s.Gors[i]
	gid := i + 1
	c, dn, bs := s.inner(g)
	cs := s.Chans[g.Ch]
	st := func(kind, v string) {
		if s.Stamped {
			b.ln("stamp(%d, \"%s\", %d, %s)", gid, kind, g.Ch, v)
		}
	}
	if g.Lag > 0 {
		b.ln("for j := 0; j < %d; j++ { yield() }", g.Lag)
	}
	if g.Role == "send" {
		b.ln("for i := 0; i < n; i++ {")
		b.ind++
		if cs.Payload == "str" {
			b.ln("v := \"m\" + string(id) + \":\" + string(i)")
		} else {
			b.ln("v := %s + id * 1000000 + i", bs)
		}
		st("sc", "v")
		if g.Style == "method" {
			b.ln("%s.send(v)", c)
		} else {
			b.ln("%s <- v", c)
		}
		st("sr", "v")
		b.ln("sent += 1")
		if cs.MarkEvery > 0 && g.Mark != "" {
			// a bare falsy marker between the identified messages: a value like any other
			lit := map[string]string{"nil": "nil", "zero": "0", "empty": "\"\"", "false": "false", "list": "[]", "map": "{}"}[g.Mark]
			if cs.MarkEvery == 1 {
				b.ln("mk := %s", lit)
			} else {
				b.ln("if i %% %d == %d {", cs.MarkEvery, cs.MarkEvery-1)
				b.ind++
				b.ln("mk := %s", lit)
			}
			if g.Style == "method" {
				b.ln("%s.send(mk)", c)
			} else {
				b.ln("%s <- mk", c)
			}
			if cs.MarkEvery != 1 {
				b.ind--
				b.ln("}")
			}
		}
		s.yieldStmt(b, g, "i")
		b.ind--
		b.ln("}")
		switch g.Ret {
		case "list":
			b.ln("ret := [id, n, sent]")
		case "int":
			b.ln("ret := id * 7 + sent * 100 + n")
		case "str":
			b.ln("ret := \"s\" + string(id) + \"/\" + string(sent)")
		case "errval":
			b.ln("ret := errors.new(\"ev \" + string(id))")
		case "raise":
			b.ln("%s", "error(\"raised by %d after %d of %d\", id, sent, n)")
			b.ln("ret := nil")
		}
	} else {
		recv := "<-" + c
		if g.Style == "method" {
			recv = c + ".receive()"
		}
		counted := cs.Mode == "counted"
		switch g.Style {
		case "op", "method":
			if counted {
				b.ln("for len(got) < q {")
			} else {
				b.ln("for {")
			}
			b.ind++
			st("rc", "nil")
			b.ln("v := %s", recv)
			st("rr", "v")
			if counted && cs.MarkEvery > 0 {
				b.ln("got.append(v)") // nil is a value on this channel; the receiver stops by count
			} else if counted {
				b.ln("if v == nil {")
				b.ln("  nils += 1")
				b.ln("  if nils > 2 { break }")
				b.ln("} else {")
				b.ln("  got.append(v)")
				b.ln("}")
			} else {
				b.ln("if v == nil { break }")
				b.ln("got.append(v)")
			}
			s.yieldStmt(b, g, "len(got)")
			b.ind--
			b.ln("}")
		default:
			guard := counted
			if guard {
				// a zero quota must not even start iterating
				b.ln("if q > 0 {")
				b.ind++
			}
			st("rc", "nil")
			switch g.Style {
			case "range":
				b.ln("for _, v := range %s {", c)
			case "rangekv":
				b.ln("for k, v := range %s {", c)
			case "in":
				b.ln("for v in %s {", c)
			}
			b.ind++
			st("rr", "v")
			b.ln("got.append(v)")
			if g.Style == "rangekv" {
				b.ln("keys.append(k)")
			}
			s.yieldStmt(b, g, "len(got)")
			if counted {
				b.ln("if len(got) >= q { break }")
			}
			st("rc", "nil")
			b.ind--
			b.ln("}")
			if counted {
				if s.Stamped {
					b.ln("if len(got) < q { stamp(%d, \"rr\", %d, nil) }", gid, g.Ch)
				}
				b.ind--
				b.ln("}")
			} else {
				st("rr", "nil")
			}
		}
		b.ln("ret := [id, got, keys, nils]")
	}
	if g.Form == "go" {
		b.ln("%s <- [%d, ret]", dn, gid)
	} else {
		b.ln("return ret")
	}
}

func (s *Scenario) renderSpawn(b *sb, i int) {
	g := s.Gors[i]
	gid := i + 1
	cs := s.Chans[g.Ch]
	cn := chName(g.Ch)
	if g.Bind == "builtin" {
		v := s.payloadInt(g.ID, 0)
		b.ln("a1 = %d", v)
		switch g.Form {
		case "go":
			b.ln("go %s.send(a1)", cn)
		case "spawn":
			b.ln("t%d := spawn(%s.send, a1)", gid, cn)
		case "method":
			b.ln("t%d := %s.send.spawn(a1)", gid, cn)
		}
		b.ln("a1 = -1")
		b.ln("noise(-4, -5, -6, -7)")
		return
	}
	n := cs.N
	if g.Role == "recv" {
		n = -9
	}
	b.ln("a1 = %d; a2 = %d; a3 = %d", g.ID, n, g.Quota)
	var callee, args string
	switch g.Bind {
	case "args":
		callee = fmt.Sprintf("w%d", gid)
		args = fmt.Sprintf("%s, %s, base, a1, a2, a3", cn, s.doneName(g))
	case "outer":
		callee = fmt.Sprintf("w%d", gid)
		args = "a1, a2, a3"
	case "closure":
		callee = fmt.Sprintf("mk%d(%s, %s, base, a1, a2, a3)", gid, cn, s.doneName(g))
		args = ""
	}
	switch g.Form {
	case "go":
		b.ln("go %s(%s)", callee, args)
	case "spawn":
		if args == "" {
			b.ln("t%d := spawn(%s)", gid, callee)
		} else {
			b.ln("t%d := spawn(%s, %s)", gid, callee, args)
		}
	case "method":
		b.ln("t%d := %s.spawn(%s)", gid, callee, args)
	}
	// the spawner reassigns its variables and makes an unrelated call immediately afterwards
	b.ln("a1 = -1; a2 = -2; a3 = -3")
	b.ln("noise(-4, -5, -6, -7)")
}

// viaHandles lists the goroutines started by the launcher chain that have a thread handle.
func (s *Scenario) viaHandles() []int {
	var out []int
	for _, i := range s.Order {
		g := s.Gors[i]
		if g.Via && g.Form != "go" {
			out = append(out, i)
		}
	}
	return out
}

// renderLaunchers emits launchN … launch1 (deepest first, so that every name is defined before
// it is used). launchK (K < N) starts launchK+1 as a thread and returns its handle without
// waiting; launchN starts the goroutines and returns [[gid, handle], …] at once.
func (s *Scenario) renderLaunchers(b *sb) {
	if s.Launch == 0 {
		return
	}
	for k := s.Launch; k >= 1; k-- {
		if k == 1 {
			b.ln("func launch1(lc) {")
		} else {
			b.ln("func launch%d() {", k)
		}
		b.ind++
		if k == s.Launch {
			b.ln("a1 := 0; a2 := 0; a3 := 0")
			for _, i := range s.Order {
				if s.Gors[i].Via {
					s.renderSpawn(b, i)
				}
			}
			var hs []string
			for _, i := range s.viaHandles() {
				hs = append(hs, fmt.Sprintf("[%d, t%d]", i+1, i+1))
			}
			b.ln("res := [%s]", strings.Join(hs, ", "))
		} else {
			if s.LaunchForms[k] == "method" {
				b.ln("res := launch%d.spawn()", k+1)
			} else {
				b.ln("res := spawn(launch%d)", k+1)
			}
		}
		if k == 1 {
			b.ln("if lc != nil { lc <- res }")
		}
		b.ln("return res")
		b.ind--
		b.ln("}")
	}
}

func (s *Scenario) renderLaunchStart(b *sb) {
	switch s.LaunchForms[0] {
	case "go":
		b.ln("lc := chan(1)")
		b.ln("go launch1(lc)")
	case "method":
		b.ln("lt := launch1.spawn(nil)")
	default:
		b.ln("lt := spawn(launch1, nil)")
	}
}

// renderLaunchJoin waits for the launchers (they have returned long before their goroutines are
// done) and binds the thread handles they hand back to the names the main flow uses.
func (s *Scenario) renderLaunchJoin(b *sb) {
	if s.Launch == 0 {
		return
	}
	if s.LaunchForms[0] == "go" {
		b.ln("lr := <-lc")
	} else {
		b.ln("lr := lt.wait()")
	}
	for k := 1; k < s.Launch; k++ {
		b.ln("lr = lr.wait()")
	}
	for k, i := range s.viaHandles() {
		b.ln("t%d := lr[%d][1]", i+1, k)
	}
}

func (s *Scenario) launchKey() string {
	if s.Launch == 0 {
		return ""
	}
	return fmt.Sprintf("|launch%d:%s", s.Launch, strings.Join(s.LaunchForms, ">"))
}
