package c10

import (
	"fmt"
	"strings"
	"time"

	"github.com/anishathalye/porcupine"
)

// Sequential specification of a buffered channel as a bounded FIFO queue.
//
//	send(v):  enabled iff !closed && len(queue) < cap;  queue = queue ++ [v]
//	recv()→v: enabled iff queue = [v] ++ rest;           queue = rest
//	recv()→nil: enabled iff closed && queue empty
//	close():  enabled iff !closed;                       closed = true
//
// A Go channel with capacity k ≥ 1 is linearizable with respect to this specification when
// operations are the blocking send / receive with their call and return recorded at the client
// boundary: a direct hand-off to a parked receiver is "send; recv" back to back (the queue
// holds one element for an instant, allowed since k ≥ 1), and a parked sender whose value is
// moved into the buffer by a receiver is "recv; send" back to back, both inside their intervals.
// Nothing more is demanded. Unbuffered channels are not checked with this model (a rendezvous
// is not a queue of capacity 0); for them conservation, order and the occupancy bound remain.
type qInput struct {
	Op string // send | recv | close
	V  string
}

// state: "<closed 0|1>|v1,v2,…"
func qModel(capacity int) porcupine.Model {
	return porcupine.Model{
		Init: func() interface{} { return "0|" },
		Step: func(state, input, output interface{}) (bool, interface{}) {
			st := state.(string)
			closed := st[0] == '1'
			q := st[2:]
			in := input.(qInput)
			switch in.Op {
			case "send":
				if closed {
					return false, state
				}
				n := 0
				if q != "" {
					n = strings.Count(q, ",") + 1
				}
				if n >= capacity {
					return false, state
				}
				if q == "" {
					return true, st[:2] + in.V
				}
				return true, st + "," + in.V
			case "recv":
				out := output.(string)
				if out == "<nil>" {
					return closed && q == "", state
				}
				if q == "" {
					return false, state
				}
				head, rest := q, ""
				if i := strings.IndexByte(q, ','); i >= 0 {
					head, rest = q[:i], q[i+1:]
				}
				if head != out {
					return false, state
				}
				return true, st[:2] + rest
			case "close":
				if closed {
					return false, state
				}
				return true, "1|" + q
			}
			return false, state
		},
		Equal: func(a, b interface{}) bool { return a.(string) == b.(string) },
		DescribeOperation: func(input, output interface{}) string {
			in := input.(qInput)
			if in.Op == "recv" {
				return fmt.Sprintf("recv()→%v", output)
			}
			return fmt.Sprintf("%s(%s)", in.Op, in.V)
		},
	}
}

func valKey(v any) string {
	if v == nil {
		return "<nil>"
	}
	switch x := v.(type) {
	case float64:
		return fmt.Sprintf("%d", int64(x))
	case int64:
		return fmt.Sprintf("%d", x)
	case string:
		return "s" + x
	}
	return fmt.Sprintf("?%v", v)
}

// opsOf pairs the call/return stamps of one channel into operations. Unpaired calls (an
// operation that never returned: only in aborted runs) are dropped together with a flag.
func opsOf(stamps []Stamp, ch int) (ops []porcupine.Operation, pending int, malformed string) {
	open := map[int]*Stamp{} // per goroutine: the pending call
	for i := range stamps {
		s := &stamps[i]
		if s.Ch != ch {
			continue
		}
		switch s.Kind {
		case "sc", "rc", "cc":
			if open[s.G] != nil {
				// an iteration "call" stamp can be followed by another one only through a bug in the generator
				return nil, 0, fmt.Sprintf("goroutine %d: call stamp %s@%d while %s@%d is pending", s.G, s.Kind, s.T, open[s.G].Kind, open[s.G].T)
			}
			open[s.G] = s
		case "sr", "rr", "cr":
			c := open[s.G]
			if c == nil || c.Kind[0] != s.Kind[0] {
				return nil, 0, fmt.Sprintf("goroutine %d: return stamp %s@%d without its call", s.G, s.Kind, s.T)
			}
			open[s.G] = nil
			op := porcupine.Operation{ClientId: s.G, Call: c.T, Return: s.T}
			switch s.Kind {
			case "sr":
				op.Input = qInput{Op: "send", V: valKey(s.V)}
				op.Output = ""
			case "rr":
				op.Input = qInput{Op: "recv"}
				op.Output = valKey(s.V)
			case "cr":
				op.Input = qInput{Op: "close"}
				op.Output = ""
			}
			ops = append(ops, op)
		}
	}
	for _, c := range open {
		if c != nil {
			pending++
		}
	}
	return ops, pending, ""
}

// occupancy: at no instant may the number of completed sends exceed capacity + the number of
// receives that have been called (every value that left the sender is either in the buffer or
// was taken by a receive whose call precedes the take). Sound for every capacity including 0.
func occupancy(stamps []Stamp, ch, capacity int) (ok bool, detail string) {
	sret, rcall := 0, 0
	for _, s := range stamps {
		if s.Ch != ch {
			continue
		}
		switch s.Kind {
		case "sr":
			sret++
			if sret > capacity+rcall {
				return false, fmt.Sprintf("at stamp %d: %d sends have returned, only %d receives were ever called, capacity %d", s.T, sret, rcall, capacity)
			}
		case "rc":
			rcall++
		}
	}
	return true, ""
}

// nilBeforeClose: a receive that returned nil before close() was even called.
func nilBeforeClose(stamps []Stamp, ch int) (bad bool, detail string) {
	for _, s := range stamps {
		if s.Ch != ch {
			continue
		}
		if s.Kind == "cc" {
			return false, ""
		}
		if s.Kind == "rr" && s.V == nil {
			return true, fmt.Sprintf("goroutine %d: receive returned nil at stamp %d, before close was called", s.G, s.T)
		}
	}
	return false, ""
}

// interleaved: stamps of at least two goroutines alternate (A … B … A).
func interleaved(stamps []Stamp) bool {
	seen := map[int]bool{}
	last := -1
	for _, s := range stamps {
		if s.G == 0 {
			continue
		}
		if s.G != last {
			if seen[s.G] {
				return true
			}
			seen[s.G] = true
			last = s.G
		}
	}
	return false
}

func checkLinearizable(stamps []Stamp, ch, capacity int) (res porcupine.CheckResult, nops int, note string) {
	ops, pending, bad := opsOf(stamps, ch)
	if bad != "" {
		return porcupine.Unknown, 0, "malformed history: " + bad
	}
	if pending > 0 {
		return porcupine.Unknown, len(ops), "pending operations"
	}
	if len(ops) == 0 || len(ops) > 200 {
		return porcupine.Unknown, len(ops), "size"
	}
	r, _ := porcupine.CheckOperationsVerbose(qModel(capacity), ops, 30*time.Second)
	return r, len(ops), ""
}

// realTimeOrder: values of one sender are dequeued in the order they were enqueued, whoever
// receives them. With deq(i) ∈ [call_i, ret_i] of the receive that returned message i, message j
// (j > i, same sender) may not have been received wholly before the receive of i was called.
// Sound for every capacity and every receive style (iteration only widens the intervals).
func realTimeOrder(stamps []Stamp, ch int, decode func(v any) (sid, seq int, ok bool)) (ok bool, detail string) {
	type iv struct{ call, ret int64 }
	open := map[int]int64{}
	per := map[int]map[int]iv{} // sender -> seq -> interval of the first receive that returned it
	for _, s := range stamps {
		if s.Ch != ch {
			continue
		}
		switch s.Kind {
		case "rc":
			open[s.G] = s.T
		case "rr":
			c, has := open[s.G]
			delete(open, s.G)
			if !has || s.V == nil {
				continue
			}
			sid, seq, ok := decode(s.V)
			if !ok {
				continue
			}
			if per[sid] == nil {
				per[sid] = map[int]iv{}
			}
			if _, dup := per[sid][seq]; !dup {
				per[sid][seq] = iv{c, s.T}
			}
		}
	}
	for sid, m := range per {
		maxSeq := -1
		for q := range m {
			if q > maxSeq {
				maxSeq = q
			}
		}
		minRet, minSeq := int64(1<<62), -1
		for q := maxSeq; q >= 0; q-- {
			x, has := m[q]
			if !has {
				continue
			}
			if minRet < x.call {
				return false, fmt.Sprintf("sender %d: message %d was received during stamps [%d,%d], but its later message %d had already been received by stamp %d", sid, q, x.call, x.ret, minSeq, minRet)
			}
			if x.ret < minRet {
				minRet, minSeq = x.ret, q
			}
		}
	}
	return true, ""
}
