// Package c10 checks property C10: between goroutines started by a script every value sent on a
// channel is received exactly once, per-sender order is kept, a closed and drained channel
// yields nil, iteration ends at close, wait() returns exactly the spawned call's result or
// error, and the spawned call sees the argument values of the spawn site.
//
// The worker only RECORDS (what every receiver got, what every wait() returned, the stamped
// call/return history taken in a host builtin, the race detector's log); all judging happens
// offline in the driver (judge.go semantics are in this file).
package c10

import (
	"encoding/json"
	"fmt"
	"os"
	"regexp"
	"runtime"
	"sort"
	"strconv"
	"strings"
	"time"

	"github.com/anishathalye/porcupine"

	"verif/internal/mon"
)

func Register() {
	mon.Register(&mon.Prop{ID: "C10", Drive: drive})
	mon.RegisterWorker("C10", worker)
}

// ---------------------------------------------------------------------------------------
// offline oracle

type finding struct {
	Sig    string
	Detail string
}

type verdict struct {
	Findings []finding
	Hang     string // "", deadlock, timeout
	Overlap  []bool // per channel: ≥2 goroutines provably overlapped
	Events   map[string]int
	Inconc   []string
}

func (v *verdict) add(sig, f string, a ...any) {
	v.Findings = append(v.Findings, finding{Sig: sig, Detail: fmt.Sprintf(f, a...)})
}

func asList(x any) ([]any, bool) { l, ok := x.([]any); return l, ok }

func asInt(x any) (int64, bool) {
	switch v := x.(type) {
	case float64:
		return int64(v), v == float64(int64(v))
	case int64:
		return v, true
	case int:
		return int64(v), true
	}
	return 0, false
}

func show(x any) string {
	b, _ := json.Marshal(x)
	return mon.Truncate(string(b), 300)
}

var digits = regexp.MustCompile(`[0-9]+`)

func normErr(s string) string {
	s = digits.ReplaceAllString(s, "N")
	if i := strings.IndexByte(s, '\n'); i >= 0 {
		s = s[:i]
	}
	return mon.Truncate(s, 100)
}

type msgKey struct{ sid, seq int }

func decodeMsg(s *Scenario, ch int, v any) (msgKey, bool) {
	cs := s.Chans[ch]
	nS := len(s.gorsOf(ch, "send"))
	var k msgKey
	if cs.Payload == "str" {
		str, ok := v.(string)
		if !ok || !strings.HasPrefix(str, "m") {
			return k, false
		}
		parts := strings.Split(str[1:], ":")
		if len(parts) != 2 {
			return k, false
		}
		a, e1 := strconv.Atoi(parts[0])
		b, e2 := strconv.Atoi(parts[1])
		if e1 != nil || e2 != nil {
			return k, false
		}
		k = msgKey{a, b}
	} else {
		x, ok := asInt(v)
		if !ok {
			return k, false
		}
		x -= s.Base
		if x < 0 {
			return k, false
		}
		k = msgKey{int(x / 1000000), int(x % 1000000)}
	}
	if k.sid < 1 || k.sid > nS || k.seq < 0 || k.seq >= cs.N {
		return k, false
	}
	return k, true
}

// waited normalises one result entry. Thread forms: [gid, ["val"|"raised", x], [..second wait..]];
// go form (through the done channel): [gid, ret].
type entry struct {
	gid     int
	kind    string // val | raised
	val     any
	second  bool
	kind2   string
	val2    any
	viaDone bool
}

func parseEntry(x any) (entry, bool) {
	l, ok := asList(x)
	if !ok || len(l) < 2 {
		return entry{}, false
	}
	g, ok := asInt(l[0])
	if !ok {
		return entry{}, false
	}
	e := entry{gid: int(g)}
	if len(l) == 2 {
		e.kind, e.val, e.viaDone = "val", l[1], true
		return e, true
	}
	w1, ok1 := asList(l[1])
	w2, ok2 := asList(l[2])
	if !ok1 || !ok2 || len(w1) != 2 || len(w2) != 2 {
		return entry{}, false
	}
	e.kind, _ = w1[0].(string)
	e.val = w1[1]
	e.second = true
	e.kind2, _ = w2[0].(string)
	e.val2 = w2[1]
	return e, true
}

func jsonEq(a, b any) bool {
	x, _ := json.Marshal(a)
	y, _ := json.Marshal(b)
	return string(x) == string(y)
}

func expectedSenderResult(s *Scenario, g Gor) (kind string, val any) {
	n := s.Chans[g.Ch].N
	switch g.Ret {
	case "list":
		return "val", []any{g.ID, n, n}
	case "int":
		return "val", g.ID*7 + n*100 + n
	case "str":
		return "val", fmt.Sprintf("s%d/%d", g.ID, n)
	case "errval":
		return "val", map[string]any{"errval": fmt.Sprintf("ev %d", g.ID)}
	case "raise":
		return "raised", fmt.Sprintf("raised by %d after %d of %d", g.ID, n, n)
	}
	return "val", nil
}

// judge decides one recorded execution.
func judge(s *Scenario, o *Obs) *verdict {
	v := &verdict{Events: map[string]int{}, Overlap: make([]bool, len(s.Chans))}
	switch o.Status {
	case "deadlock", "timeout":
		v.Hang = o.Status
		return v
	case "gopanic":
		v.add("go-panic:"+normErr(o.Err), "a Go panic escaped risor.Eval: %s", mon.Truncate(o.Err, 1500))
		return v
	case "error":
		v.add("script-error:"+normErr(o.Err), "the well-formed scenario ended with an error: %s", o.Err)
		return v
	case "ok":
	default:
		v.Inconc = append(v.Inconc, "unknown status "+o.Status)
		return v
	}
	if s.W != nil {
		judgeWaiters(s, o, v)
		return v
	}
	if s.D != nil {
		judgeDrain(s, o, v)
		return v
	}
	if s.C != nil {
		judgeCloseBlock(s, o, v)
		return v
	}
	if s.M != nil {
		judgeMapSpawn(s, o, v)
		return v
	}
	top, ok := asList(o.Value)
	if !ok || len(top) != 3 {
		v.add("result-shape", "script result is not [sres, rres, post]: %s", show(o.Value))
		return v
	}
	sres, _ := asList(top[0])
	rres, _ := asList(top[1])
	post, _ := asList(top[2])

	// ---- results of the goroutines: wait() values, done-channel deliveries, spawn-site arguments
	seen := map[int]int{}
	skipConservation := false
	recvGot := map[int][]any{}  // gid -> values
	recvKeys := map[int][]any{} // gid -> keys
	handle := func(x any, role string) {
		if x == nil {
			v.add("nil-before-close:done-channel", "the main script received nil from the %s done channel, which is never closed", role)
			skipConservation = true
			return
		}
		e, ok := parseEntry(x)
		if !ok || e.gid < 1 || e.gid > len(s.Gors) || s.Gors[e.gid-1].Role != role {
			v.add("result-entry:"+role, "unexpected %s result entry %s", role, show(x))
			skipConservation = true
			return
		}
		g := s.Gors[e.gid-1]
		seen[e.gid]++
		fb := g.Form + "/" + g.Bind
		if e.second {
			v.Events["wait_checked"]++
			if e.kind != e.kind2 || !jsonEq(e.val, e.val2) {
				v.add("wait:second-call-differs:"+g.Form, "goroutine %d (%s): first wait() = %s %s, second wait() = %s %s", e.gid, fb, e.kind, show(e.val), e.kind2, show(e.val2))
			}
		} else {
			v.Events["done_channel_result"]++
		}
		if role == "send" {
			ek, ev := expectedSenderResult(s, g)
			if e.kind == ek && jsonEq(e.val, ev) {
				if g.Bind != "builtin" {
					v.Events["spawn_args_checked"]++
				}
				return
			}
			// which clause? a list result carries the arguments the call saw
			if l, ok := asList(e.val); ok && g.Ret == "list" && len(l) == 3 {
				id, _ := asInt(l[0])
				n, _ := asInt(l[1])
				if int(id) != g.ID || int(n) != s.Chans[g.Ch].N {
					v.add("spawn-args:"+fb, "sender %d spawned with (id=%d, n=%d) saw (id=%d, n=%d)", e.gid, g.ID, s.Chans[g.Ch].N, id, n)
					return
				}
			}
			if e.viaDone {
				v.add("go-result:"+g.Ret, "sender %d (%s) delivered %s through the done channel, expected %s", e.gid, fb, show(e.val), show(ev))
			} else {
				v.add("wait:value-mismatch:"+g.Form+":"+g.Ret, "sender %d (%s): wait() gave %s %s, the spawned call's outcome is %s %s", e.gid, fb, e.kind, show(e.val), ek, show(ev))
			}
			return
		}
		// receiver: [id, got, keys, nils]
		l, ok := asList(e.val)
		if e.kind != "val" || !ok || len(l) != 4 {
			skipConservation = true
			if e.viaDone {
				v.add("go-result:recv", "receiver %d (%s) delivered %s", e.gid, fb, show(e.val))
			} else {
				v.add("wait:value-mismatch:"+g.Form+":recv", "receiver %d (%s): wait() gave %s %s, expected its [id, got, keys, nils]", e.gid, fb, e.kind, show(e.val))
			}
			return
		}
		id, _ := asInt(l[0])
		if int(id) != g.ID {
			v.add("spawn-args:"+fb, "receiver %d spawned with id=%d saw id=%d", e.gid, g.ID, id)
		} else {
			v.Events["spawn_args_checked"]++
		}
		got, _ := asList(l[1])
		keys, _ := asList(l[2])
		nils, _ := asInt(l[3])
		recvGot[e.gid] = got
		recvKeys[e.gid] = keys
		if nils > 0 {
			v.add("nil-before-close:"+g.Style, "receiver %d (%s) received nil %d times although the channel was not closed", e.gid, g.Style, nils)
		}
		if s.Chans[g.Ch].Mode == "counted" && nils == 0 && len(got) != g.Quota {
			v.add("counted-receiver:"+g.Style, "receiver %d stopped after %d values, its quota was %d", e.gid, len(got), g.Quota)
		}
	}
	for _, x := range sres {
		handle(x, "send")
	}
	for _, x := range rres {
		handle(x, "recv")
	}
	for i, g := range s.Gors {
		if g.Bind == "builtin" && g.Form == "go" {
			continue // no result channel for a bare builtin goroutine
		}
		if seen[i+1] != 1 {
			v.add("goroutine-result:count", "goroutine %d (%s %s/%s) reported %d results, expected exactly 1", i+1, g.Role, g.Form, g.Bind, seen[i+1])
			skipConservation = true
		}
	}
	if skipConservation {
		return v // without every receiver's list the conservation check would only echo the same problem
	}

	// ---- per channel: conservation, order, close semantics
	for ch, cs := range s.Chans {
		senders := s.gorsOf(ch, "send")
		receivers := s.gorsOf(ch, "recv")
		total := len(senders) * cs.N
		K := cs.MarkEvery
		nMarks := 0
		markSid := map[string]int{} // marker kind -> sender id
		markKind := map[int]string{}
		if K > 0 {
			nMarks = cs.N / K
			total += len(senders) * nMarks
			for _, si := range senders {
				markSid[s.Gors[si].Mark] = s.Gors[si].ID
				markKind[s.Gors[si].ID] = s.Gors[si].Mark
			}
		}
		// position of a message / of the j-th marker in its sender's sequence
		msgPos := func(seq int) int {
			if K > 0 {
				return seq + seq/K
			}
			return seq
		}
		markPos := func(j int) int { return (j+1)*K + j }
		markRecv := map[int]int{}
		count := map[msgKey]int{}
		invented := 0
		var inventedEx any
		received := 0
		orderBad := ""
		orderStyle := ""
		switches := false
		perSenderRecv := map[int]map[int]bool{} // sid -> set of receivers that saw it
		for _, ri := range receivers {
			g := s.Gors[ri]
			last := map[int]int{}
			lastSid := 0
			seenSid := map[int]bool{}
			nextMark := map[int]int{}
			for _, val := range recvGot[ri+1] {
				if mk := markerKind(val); K > 0 && mk != "" {
					sid, known := markSid[mk]
					if !known {
						invented++
						if inventedEx == nil {
							inventedEx = val
						}
						continue
					}
					received++
					markRecv[sid]++
					v.Events["markers_received"]++
					// the earliest marker of that sender that can still follow what this receiver already has
					j := nextMark[sid]
					if p, ok := last[sid]; ok {
						for j < nMarks && markPos(j) <= p {
							j++
						}
					}
					if j >= nMarks {
						if orderBad == "" {
							orderBad = fmt.Sprintf("receiver %d (%s) got a %s marker of sender %d after everything that sender sends before its last marker", ri+1, g.Style, mk, sid)
							orderStyle = g.Style
						}
					} else {
						last[sid] = markPos(j)
						nextMark[sid] = j + 1
					}
					if perSenderRecv[sid] == nil {
						perSenderRecv[sid] = map[int]bool{}
					}
					perSenderRecv[sid][ri] = true
					continue
				}
				k, ok := decodeMsg(s, ch, val)
				if !ok {
					invented++
					if inventedEx == nil {
						inventedEx = val
					}
					continue
				}
				received++
				count[k]++
				if p, ok := last[k.sid]; ok && msgPos(k.seq) <= p && orderBad == "" {
					orderBad = fmt.Sprintf("receiver %d (%s) got seq %d of sender %d (position %d of what it sends) after position %d", ri+1, g.Style, k.seq, k.sid, msgPos(k.seq), p)
					orderStyle = g.Style
				}
				last[k.sid] = msgPos(k.seq)
				if k.sid != lastSid {
					if seenSid[k.sid] {
						switches = true
					}
					seenSid[k.sid] = true
					lastSid = k.sid
				}
				if perSenderRecv[k.sid] == nil {
					perSenderRecv[k.sid] = map[int]bool{}
				}
				perSenderRecv[k.sid][ri] = true
			}
		}
		v.Events["messages_sent"] += total
		v.Events["messages_received"] += received
		lost, dup := 0, 0
		var lostEx, dupEx []string
		for _, si := range senders {
			sid := s.Gors[si].ID
			for q := 0; q < cs.N; q++ {
				c := count[msgKey{sid, q}]
				if c == 0 {
					lost++
					if len(lostEx) < 5 {
						lostEx = append(lostEx, fmt.Sprintf("(%d,%d)", sid, q))
					}
				} else if c > 1 {
					dup++
					if len(dupEx) < 5 {
						dupEx = append(dupEx, fmt.Sprintf("(%d,%d)x%d", sid, q, c))
					}
				}
			}
		}
		for _, si := range senders {
			sid := s.Gors[si].ID
			if K == 0 {
				break
			}
			v.Events["markers_sent"] += nMarks
			if got := markRecv[sid]; got < nMarks {
				lost += nMarks - got
				if len(lostEx) < 5 {
					lostEx = append(lostEx, fmt.Sprintf("%d of the %d bare %s markers of sender %d", nMarks-got, nMarks, markKind[sid], sid))
				}
			} else if got > nMarks {
				dup += got - nMarks
				if len(dupEx) < 5 {
					dupEx = append(dupEx, fmt.Sprintf("%d %s markers of sender %d received, %d sent", got, markKind[sid], sid, nMarks))
				}
			}
		}
		rset := styleSet(s, receivers)
		where := fmt.Sprintf("channel c%d (cap %d, %d senders × %d messages, receivers %s, %s, GOMAXPROCS %d)", ch, cs.Cap, len(senders), cs.N, rset, cs.Mode, s.Procs)
		mkSuffix := ""
		if K > 0 {
			var ks []string
			for _, si := range senders {
				ks = append(ks, s.Gors[si].Mark)
			}
			where = fmt.Sprintf("channel c%d (cap %d, %d senders × (%d messages + a bare marker after every %d, marker kinds %v), receivers %s, %s, GOMAXPROCS %d)", ch, cs.Cap, len(senders), cs.N, K, ks, rset, cs.Mode, s.Procs)
			mkSuffix = ":markers"
		}
		if invented > 0 {
			v.add("exactly-once:invented:recv="+rset, "%s: %d received values were never sent, e.g. %s", where, invented, show(inventedEx))
		}
		d18 := s.multiIter(ch)
		if lost > 0 || dup > 0 {
			var kinds []string
			if lost > 0 {
				kinds = append(kinds, "lost")
			}
			if dup > 0 {
				kinds = append(kinds, "duplicated")
			}
			detail := fmt.Sprintf("%s: %d of %d messages never received %v, %d received more than once %v (sender,seq)", where, lost, total, lostEx, dup, dupEx)
			if orderBad != "" {
				detail += "; also out of order: " + orderBad
			}
			if d18 && received == total && invented == 0 {
				// D18's shape exactly: ≥2 receivers iterate over the channel, as many values were
				// delivered as were sent, but some deliveries carry another delivery's value
				v.add("chan-iter-multi-receiver:lost-or-duplicated", "%s", detail)
			} else {
				v.add("exactly-once:"+strings.Join(kinds, "+")+":recv="+rset+":cap="+capClass(cs.Cap)+mkSuffix, "%s", detail)
			}
		} else if orderBad != "" {
			v.add("order:per-sender:recv="+orderStyle+mkSuffix, "%s: %s", where, orderBad)
		}
		// the iteration key of a sole iterating receiver counts the values 0,1,2,…
		if len(receivers) == 1 && s.Gors[receivers[0]].Style == "rangekv" {
			keys := recvKeys[receivers[0]+1]
			for i, k := range keys {
				if kk, ok := asInt(k); !ok || int(kk) != i {
					v.add("iter-key:single-receiver", "%s: the %d-th iteration of `for k, v := range c` had key %s", where, i, show(k))
					break
				}
			}
			v.Events["iter_keys_checked"] += len(keys)
		}
		for _, ri := range receivers {
			if s.Gors[ri].iter() && cs.Mode == "close" {
				v.Events["iterations_ended_at_close"]++
			}
			if !s.Gors[ri].iter() && cs.Mode == "close" {
				v.Events["nil_after_close_ended_loop"]++
			}
		}
		// closed and drained
		if ch < len(post) {
			if p, ok := asList(post[ch]); ok && len(p) == 3 {
				v.Events["closed_drained_checks"] += 3
				if p[0] != nil {
					v.add("closed-drained-recv-not-nil:op", "%s: `<-c` after close and drain gave %s", where, show(p[0]))
				}
				if p[1] != nil {
					v.add("closed-drained-recv-not-nil:method", "%s: c.receive() after close and drain gave %s", where, show(p[1]))
				}
				if n, _ := asInt(p[2]); n != 0 {
					v.add("closed-drained-iteration-yields", "%s: iterating the closed and drained channel ran its body %d times", where, n)
				}
			} else {
				v.add("result-shape", "post entry %s", show(post[ch]))
			}
		}
		// overlap evidence without stamps
		if total > cs.Cap || switches {
			v.Overlap[ch] = true
		}
		for _, m := range perSenderRecv {
			if len(m) >= 2 {
				v.Overlap[ch] = true
			}
		}
	}

	// ---- a buffered channel used by one goroutine alone: k sends fit, and come back in order
	if len(post) == len(s.Chans)+1 {
		sb, _ := asList(post[len(s.Chans)])
		for ch, cs := range s.Chans {
			var want []any
			for i := 0; i < cs.Cap; i++ {
				want = append(want, i)
			}
			if want == nil {
				want = []any{}
			}
			if ch >= len(sb) || !jsonEq(sb[ch], want) {
				v.add("buffer-self-test:cap="+capClass(cs.Cap), "one goroutine sent 0..%d into a fresh channel of capacity %d and then received %s", cs.Cap-1, cs.Cap, show(sb))
			}
			v.Events["buffer_self_tests"]++
		}
	} else {
		v.add("result-shape", "post has %d entries for %d channels", len(post), len(s.Chans))
	}

	// ---- stamped history
	if s.Stamped {
		v.Events["stamped_histories"]++
		v.Events["stamps"] += len(o.Stamps)
		il := interleaved(o.Stamps)
		for ch, cs := range s.Chans {
			v.Overlap[ch] = il
			if ok, detail := occupancy(o.Stamps, ch, cs.Cap); !ok {
				v.add("chan-capacity:exceeded:cap="+capClass(cs.Cap), "channel c%d with capacity %d: %s", ch, cs.Cap, detail)
			}
			v.Events["occupancy_checked"]++
			if ok, detail := realTimeOrder(o.Stamps, ch, func(x any) (int, int, bool) { k, ok := decodeMsg(s, ch, x); return k.sid, k.seq, ok }); !ok {
				if !(s.multiIter(ch) && hasSig(v, "chan-iter-multi-receiver:lost-or-duplicated")) {
					v.add("order:per-sender:real-time:recv="+styleSet(s, s.gorsOf(ch, "recv")), "channel c%d (cap %d): %s", ch, cs.Cap, detail)
				}
			}
			v.Events["real_time_order_checked"]++
			if cs.Mode == "close" {
				if bad, detail := nilBeforeClose(o.Stamps, ch); bad {
					v.add("nil-before-close:stamped", "channel c%d: %s", ch, detail)
				}
			}
			if cs.Cap > 0 {
				res, nops, note := checkLinearizable(o.Stamps, ch, cs.Cap)
				switch {
				case note == "size":
					v.Events["porcupine_skipped_size"]++
				case note != "":
					v.Inconc = append(v.Inconc, "porcupine: "+note)
				case res == porcupine.Ok:
					v.Events["porcupine_ok"]++
					v.Events["porcupine_ops"] += nops
				case res == porcupine.Unknown:
					v.Events["porcupine_unknown"]++
					v.Inconc = append(v.Inconc, "porcupine timed out")
				case res == porcupine.Illegal:
					if s.multiIter(ch) && hasSig(v, "chan-iter-multi-receiver:lost-or-duplicated") {
						// the same loss/duplication seen through the stamped history
						v.Events["porcupine_illegal_d18"]++
					} else {
						v.add("fifo-linearizability:cap="+capClass(cs.Cap)+":recv="+styleSet(s, s.gorsOf(ch, "recv")),
							"channel c%d (cap %d): the stamped history of %d operations is not linearizable as a FIFO queue of that capacity:\n%s", ch, cs.Cap, nops, renderHistory(o.Stamps, ch))
					}
				}
			}
		}
	}
	return v
}

// markerKind classifies a received value as one of the bare falsy markers ("" if it is none).
func markerKind(v any) string {
	switch x := v.(type) {
	case nil:
		return "nil"
	case float64:
		if x == 0 {
			return "zero"
		}
	case int64:
		if x == 0 {
			return "zero"
		}
	case string:
		if x == "" {
			return "empty"
		}
	case bool:
		if !x {
			return "false"
		}
	case []any:
		if len(x) == 0 {
			return "list"
		}
	case map[string]any:
		if n, ok := asInt(x["mapval"]); ok && n == 0 && len(x) == 1 {
			return "map"
		}
	}
	return ""
}

func hasSig(v *verdict, sig string) bool {
	for _, f := range v.Findings {
		if f.Sig == sig {
			return true
		}
	}
	return false
}

func renderHistory(st []Stamp, ch int) string {
	var b strings.Builder
	n := 0
	for _, s := range st {
		if s.Ch != ch {
			continue
		}
		fmt.Fprintf(&b, "%d:g%d:%s", s.T, s.G, s.Kind)
		if s.V != nil {
			fmt.Fprintf(&b, "(%s)", valKey(s.V))
		}
		b.WriteByte(' ')
		n++
		if n%10 == 0 {
			b.WriteByte('\n')
		}
	}
	return b.String()
}

func (s *Scenario) hangClass() string {
	if s.W != nil {
		return s.W.class()
	}
	if s.D != nil {
		return s.D.class()
	}
	if s.C != nil {
		return s.C.class()
	}
	if s.M != nil {
		return s.M.class()
	}
	if s.Launch > 0 {
		var parts []string
		for ch := range s.Chans {
			parts = append(parts, s.shape(ch))
		}
		sort.Strings(parts)
		return strings.Join(parts, " & ") + fmt.Sprintf(":launcher-depth=%d", s.Launch)
	}
	var parts []string
	for ch := range s.Chans {
		parts = append(parts, s.shape(ch))
	}
	sort.Strings(parts)
	return strings.Join(parts, " & ")
}

// ---------------------------------------------------------------------------------------
// driver

// probes are fixed scenarios run on every execution: the known shape of D18 (several receivers
// iterating over one channel) so that the listed finding is exercised deterministically.
func probes() []Scenario {
	mk := func(styles []string, n, capacity, procs int) Scenario {
		s := Scenario{Seed: 7, Scope: "global", Procs: procs, Base: 0, SDone: 1, RDone: 1}
		s.Chans = []ChanSpec{{Cap: capacity, Ctor: "chan", N: n, Mode: "close", CloseBy: "builtin", Payload: "int"}}
		s.Gors = append(s.Gors, Gor{Role: "send", Ch: 0, ID: 1, Style: "op", Form: "spawn", Bind: "args", Ret: "list"})
		for i, st := range styles {
			s.Gors = append(s.Gors, Gor{Role: "recv", Ch: 0, ID: i + 1, Style: st, Form: "spawn", Bind: "args"})
		}
		for i := range s.Gors {
			s.Order = append(s.Order, i)
		}
		return s
	}
	return []Scenario{
		mk([]string{"range", "range", "range"}, 20000, 4, 4),
		mk([]string{"in", "in"}, 20000, 0, 16),
		// the same load with plain receives must be clean
		mk([]string{"op", "method", "op"}, 20000, 4, 4),
	}
}

type planned struct {
	s    Scenario
	race bool
}

func drive(d *mon.Driver, replay string) int {
	d.Rule = "(senders, receivers, buffer, mode, send styles, receive styles, spawn forms/bindings, GOMAXPROCS, scope) of one channel group is new AND at least two script goroutines provably overlapped in that run (stamped runs: stamps of ≥2 goroutines alternate; unstamped: more messages than buffer slots, or a receiver's list alternates between senders, or two receivers both got values of one sender); shared-thread scenarios: (waiters, forms, way the thread object is passed, gate/work, result kind, GOMAXPROCS) is new and ≥2 waiter goroutines plus the spawner called wait() on the same thread; drain scenarios: (mode, capacity, senders, receive styles, forms, GOMAXPROCS) is new and ≥2 receivers drained the channel; launcher depth and forms are part of a channel group's key"
	d.Assume = []string{
		"script goroutines share only channels and read-only values; every mutable value is private to one goroutine, so any race report concerns interpreter state",
		"the stamped history is taken in a host builtin with one global atomic counter; the counter itself orders the goroutines, so stamped runs can hide races that the unstamped runs (60 %) expose",
		"a deadlock is decided from the goroutine states (every goroutine with a risor frame parked in a channel operation, twice in a row), a plain wall-clock timeout alone is inconclusive; both are re-run alone before being reported",
		"unbuffered channels are not checked with the FIFO-queue model (a rendezvous is not a queue of capacity 0); conservation, order and the occupancy bound apply to them",
	}
	raceBin := os.Getenv("VERIF_RACE_BIN")
	if _, err := os.Stat(raceBin); raceBin == "" || err != nil {
		d.Fatal("race worker binary not available (VERIF_RACE_BIN)")
		return d.Finish(1, 0)
	}

	var plan []planned
	if replay != "" {
		var c caseData
		if err := mon.LoadReplay(replay, &c); err != nil {
			d.Fatal("cannot load replay: " + err.Error())
			return d.Finish(1, 0)
		}
		c.S.Reps = 0
		for i := 0; i < 12; i++ {
			plan = append(plan, planned{s: c.S, race: c.S.Race})
		}
	} else {
		n := d.N(170, 10000)
		r := d.Rand("scenarios")
		for i := 0; i < n; i++ {
			s := genScenario(r.SplitN(i), i, d.Thorough())
			plan = append(plan, planned{s: s}, planned{s: s, race: true})
		}
		for _, p := range probes() {
			for k := 0; k < 2; k++ {
				plan = append(plan, planned{s: p}, planned{s: p, race: true})
			}
		}
		// threads started through builtin callbacks: items.map(f.spawn) and relatives
		rms := d.Rand("mapspawn")
		for i := 0; i < d.N(12, 500); i++ {
			s := genMapScenario(rms.SplitN(i), i, d.Thorough())
			plan = append(plan, planned{s: s}, planned{s: s, race: true})
		}
		// a channel closed by another goroutine while senders are parked in a blocking send
		rc := d.Rand("closeblock")
		for i := 0; i < d.N(12, 600); i++ {
			s := genCloseScenario(rc.SplitN(i), i, d.Thorough())
			plan = append(plan, planned{s: s}, planned{s: s, race: true})
		}
		// a buffered channel closed with values still queued, drained by several receivers
		rd := d.Rand("drain")
		for i := 0; i < d.N(22, 1200); i++ {
			s := genDrainScenario(rd.SplitN(i), i, d.Thorough())
			plan = append(plan, planned{s: s}, planned{s: s, race: true})
		}
		// one thread object waited for by several goroutines at once
		rw := d.Rand("waiters")
		for i := 0; i < d.N(40, 2000); i++ {
			s := genWaitScenario(rw.SplitN(i), i, d.Thorough())
			plan = append(plan, planned{s: s}, planned{s: s, race: true})
		}
	}

	var plain, race []mon.Case
	byID := map[string]*planned{}
	for i := range plan {
		p := &plan[i]
		p.s.Race = p.race
		id := fmt.Sprintf("s%05d", i)
		if p.race {
			id += "r"
		}
		byID[id] = p
		c := mon.NewCase(id, "scenario", caseData{S: p.s, Reps: 1})
		if p.race {
			race = append(race, c)
		} else {
			plain = append(plain, c)
		}
	}

	type hung struct {
		c    mon.Case
		p    *planned
		kind string
		obs  Obs
	}
	var hangs []hung
	raceSeen := map[string]int{}
	samples := 0

	// pendingRaces: reports of the batch whose results are being handled (AfterBatch runs right
	// before the handle calls of the same batch, under the same lock).
	var pendingRaces []RaceReport
	batchHadHang := false
	attribute := func(lo, hi int64, last bool) []RaceReport {
		var mine, rest []RaceReport
		for _, r := range pendingRaces {
			if (r.Off >= lo && r.Off < hi) || last {
				mine = append(mine, r)
			} else {
				rest = append(rest, r)
			}
		}
		pendingRaces = rest
		return mine
	}
	reportRaces := func(p *planned, reps []RaceReport) {
		for _, r := range reps {
			d.Event("race_reports", 1)
			if r.Harness {
				d.Event("race_reports_in_harness_code_ignored", 1)
				continue
			}
			if r.NoRisor {
				d.Event("race_reports_without_risor_frame_ignored", 1)
				continue
			}
			if p.s.C != nil && r.Sig == closeSendRace {
				// made by the script on purpose: close while another goroutine sends (see closeblock.go)
				d.Event("race_reports_close_vs_blocked_send_by_design_ignored", 1)
				continue
			}
			raceSeen[r.Sig]++
			if raceSeen[r.Sig] > 3 {
				continue // de-duplicated by function pair; the first ones carry the witnesses
			}
			cd := caseData{S: p.s, Reps: 1}
			d.Violation(r.Sig, fmt.Sprintf("data race inside the interpreter while goroutines share only a channel (%s)\n%s\n--- program ---\n%s", p.s.hangClass(), r.Text, p.s.Render()), cd)
		}
	}

	type slowRun struct {
		ID    string `json:"id"`
		Ms    int64  `json:"ms"`
		Class string `json:"class"`
		Procs int    `json:"procs"`
		N     int    `json:"n"`
	}
	var slowest []slowRun
	waitSampled := false
	var totalMs = map[string]int64{}
	judgeRun := func(c mon.Case, p *planned, o *Obs, rerun bool) {
		d.Eval(1)
		nmsg := 0
		if len(p.s.Chans) > 0 {
			nmsg = p.s.Chans[0].N
		} else if p.s.W != nil {
			nmsg = p.s.W.Rounds
		} else if p.s.D != nil {
			nmsg = p.s.D.Rounds
		} else if p.s.C != nil {
			nmsg = p.s.C.Rounds
		} else if p.s.M != nil {
			nmsg = p.s.M.Rounds
		}
		slowest = append(slowest, slowRun{c.ID, o.Ms, p.s.hangClass(), p.s.Procs, nmsg})
		sort.Slice(slowest, func(i, j int) bool { return slowest[i].Ms > slowest[j].Ms })
		if len(slowest) > 8 {
			slowest = slowest[:8]
		}
		totalMs[fmt.Sprintf("race=%v,procs=%d", p.race, p.s.Procs)] += o.Ms
		if p.race {
			d.Event("runs_race", 1)
		} else {
			d.Event("runs_plain", 1)
		}
		v := judge(&p.s, o)
		for k, n := range v.Events {
			d.Event(k, n)
		}
		for _, n := range v.Inconc {
			d.Inconclusive(c.ID + ": " + n)
		}
		if v.Hang != "" {
			d.Event("hang_"+v.Hang, 1)
			if !rerun {
				hangs = append(hangs, hung{c: c, p: p, kind: v.Hang, obs: *o})
			}
			return
		}
		for _, f := range v.Findings {
			d.Violation(f.Sig, f.Detail+"\n--- program ---\n"+p.s.Render(), caseData{S: p.s, Reps: 1})
		}
		for ch := range p.s.Chans {
			if v.Overlap[ch] {
				d.Distinct(p.s.distinctKey(ch))
				d.Event("channel_groups_with_overlap", 1)
			} else {
				d.Event("channel_groups_without_overlap", 1)
			}
		}
		if p.s.M != nil {
			d.Distinct(p.s.M.distinctKey(p.s.Procs))
			d.Event("callback_spawn_scenarios", 1)
		}
		if p.s.C != nil {
			d.Distinct(p.s.C.distinctKey(p.s.Procs))
			d.Event("close_while_blocked_scenarios", 1)
		}
		if p.s.D != nil && len(p.s.D.Styles) >= 2 {
			d.Distinct(p.s.D.distinctKey(p.s.Procs))
			d.Event("drain_scenarios", 1)
		}
		if p.s.Launch > 0 {
			d.Event("launcher_scenarios", 1)
		}
		if p.s.W != nil && p.s.W.Waiters >= 2 {
			// ≥2 waiter goroutines plus the spawner call wait() on one thread whose call ends while they do
			d.Distinct(p.s.W.distinctKey(p.s.Procs))
			d.Event("shared_thread_scenarios", 1)
		}
		if !waitSampled && p.s.W != nil && len(v.Findings) == 0 && p.s.W.Waiters >= 2 {
			waitSampled = true
			rounds, _ := asList(o.Value)
			if len(rounds) > 2 {
				rounds = rounds[:2]
			}
			d.Sample(map[string]any{"case": c.ID, "race_build": p.race, "classes": p.s.hangClass(), "program": p.s.Render(), "first_rounds": rounds})
		}
		if samples < 4 && len(v.Findings) == 0 && len(p.s.Gors) >= 3 && p.s.Chans[0].N <= 10 {
			samples++
			d.Sample(map[string]any{"case": c.ID, "race_build": p.race, "classes": p.s.hangClass(), "program": p.s.Render(), "result": o.Value})
		}
	}

	handle := func(c mon.Case, res mon.Result) {
		p := byID[c.ID]
		if p == nil {
			return
		}
		switch res.Status {
		case "done":
			if res.Panic != "" {
				d.Inconclusive("harness panic in worker: " + mon.Truncate(res.Panic, 300))
				return
			}
			var out caseOut
			if err := json.Unmarshal(res.Data, &out); err != nil || len(out.Runs) == 0 {
				d.Inconclusive("bad worker output for " + c.ID)
				return
			}
			for i := range out.Runs {
				o := &out.Runs[i]
				if p.race {
					reps := attribute(o.RaceLo, o.RaceHi, false)
					if o.Status == "deadlock" || o.Status == "timeout" {
						batchHadHang = true
						// the watchdog cancelled the run: the script's own join protocol (wait before close) is
						// torn down by the cancellation, so reports of this window say nothing about C10
						d.Event("race_reports_after_watchdog_cancel_ignored", len(reps))
					} else {
						reportRaces(p, reps)
					}
				}
				judgeRun(c, p, o, false)
			}
		case "crash":
			fl := ""
			if res.Crash != nil {
				fl = res.Crash.FatalLine
			}
			tail := ""
			if res.Crash != nil {
				tail = res.Crash.StderrTail
			}
			d.Eval(1)
			d.Violation("crash:"+normErr(fl), fmt.Sprintf("the worker process died while running the scenario (%s): %s\n%s\n--- program ---\n%s", p.s.hangClass(), fl, mon.Truncate(tail, 3000), p.s.Render()), caseData{S: p.s, Reps: 1})
		case "timeout":
			// the batch watchdog fired (the in-worker watchdog normally ends a run much earlier)
			d.Eval(1)
			if res.Crash != nil && res.Crash.Confirmed {
				d.Violation("hang:"+p.s.hangClass(), "the scenario did not finish within the process watchdog, twice (second time alone)\n--- program ---\n"+p.s.Render(), caseData{S: p.s, Reps: 1})
			} else {
				d.Inconclusive("process watchdog fired in " + c.ID)
			}
		default:
			d.Inconclusive("case " + c.ID + " lost by the worker")
		}
	}

	onUnconfirmed := func(c mon.Case, prev *mon.CrashInfo) {
		p := byID[c.ID]
		if p != nil && prev != nil && (strings.HasPrefix(prev.FatalLine, "fatal error:") || strings.HasPrefix(prev.FatalLine, "panic:")) {
			// a schedule-dependent process death is still a process death
			d.Violation("crash:"+normErr(prev.FatalLine), fmt.Sprintf("the worker process died in this scenario (not reproduced when re-run alone): %s\n%s\n--- program ---\n%s", prev.FatalLine, mon.Truncate(prev.StderrTail, 3000), p.s.Render()), caseData{S: p.s, Reps: 1})
			return
		}
		exit := ""
		if prev != nil {
			exit = prev.Exit + " " + prev.FatalLine
		}
		d.Inconclusive("worker died or hung in case " + c.ID + " but not when re-run alone: " + exit)
	}

	raceEnv := []string{"GORACE=halt_on_error=0 log_path=race"}
	// One pool per (build, GOMAXPROCS): the number of concurrent worker processes is chosen so that
	// processes × GOMAXPROCS stays near the number of CPUs – goroutines that are meant to run in
	// parallel then really do, instead of time-slicing on an oversubscribed machine.
	byProcs := func(cs []mon.Case) map[int][]mon.Case {
		m := map[int][]mon.Case{}
		for _, c := range cs {
			m[byID[c.ID].s.Procs] = append(m[byID[c.ID].s.Procs], c)
		}
		return m
	}
	procsOf := func(m map[int][]mon.Case) []int {
		var k []int
		for p := range m {
			k = append(k, p)
		}
		sort.Ints(k)
		return k
	}
	parallelFor := func(procs int) int {
		n := runtime.NumCPU() / procs
		if n < 3 {
			n = 3
		}
		return n
	}
	t0 := time.Now()
	pm := byProcs(plain)
	for _, procs := range procsOf(pm) {
		d.RunPool(pm[procs], mon.PoolOpts{BatchSize: d.N(10, 25), Parallel: parallelFor(procs), BatchTimeout: 30 * time.Minute, OnUnconfirmed: onUnconfirmed,
			Env: []string{fmt.Sprintf("GOMAXPROCS=%d", procs)}}, handle)
	}
	d.Extra("wall_plain_s", time.Since(t0).Seconds())
	t1 := time.Now()
	// Reports that fell between two cases' windows are attributed to the last case of their batch.
	var lastOfBatch *planned
	flush := func() {
		if len(pendingRaces) > 0 && lastOfBatch != nil {
			reps := attribute(0, 0, true)
			if batchHadHang {
				d.Event("race_reports_after_watchdog_cancel_ignored", len(reps))
			} else {
				reportRaces(lastOfBatch, reps)
			}
		}
		pendingRaces = nil
		batchHadHang = false
	}
	rm := byProcs(race)
	for _, procs := range procsOf(rm) {
		d.RunPool(rm[procs], mon.PoolOpts{Binary: raceBin, BatchSize: d.N(5, 20), Parallel: parallelFor(procs), BatchTimeout: 30 * time.Minute, OnUnconfirmed: onUnconfirmed,
			Env: append([]string{fmt.Sprintf("GOMAXPROCS=%d", procs)}, raceEnv...),
			AfterBatch: func(dir string, cases []mon.Case) {
				flush()
				pendingRaces = readRaceReports(dir)
				if len(cases) > 0 {
					lastOfBatch = byID[cases[len(cases)-1].ID]
				}
			}}, handle)
		flush()
	}
	d.Extra("wall_race_s", time.Since(t1).Seconds())

	// ---- non-termination: re-run alone; only a repeatable one is a violation
	if len(hangs) > 0 {
		sort.SliceStable(hangs, func(i, j int) bool { return hangs[i].kind < hangs[j].kind }) // deadlocks first
		seenClass := map[string]int{}
		var again []mon.Case
		orig := map[string]hung{}
		for _, h := range hangs {
			cl := h.p.s.hangClass()
			seenClass[cl]++
			if seenClass[cl] > 2 || len(again) >= 12 {
				d.Inconclusive(fmt.Sprintf("%s: %s (%s) – not re-run, the re-run budget is spent on earlier ones", h.c.ID, h.kind, cl))
				continue
			}
			id := h.c.ID + "-again"
			byID[id] = h.p
			orig[id] = h
			again = append(again, mon.NewCase(id, "scenario", caseData{S: h.p.s, Reps: 3}))
		}
		rr := func(c mon.Case, res mon.Result) {
			h := orig[c.ID]
			p := h.p
			repeated := 0
			var o2 *Obs
			if res.Status == "done" && res.Panic == "" {
				var out caseOut
				_ = json.Unmarshal(res.Data, &out)
				for i := range out.Runs {
					o := &out.Runs[i]
					if o.Status == "deadlock" || o.Status == "timeout" {
						batchHadHang = true
						repeated++
						o2 = o
					} else {
						judgeRun(c, p, o, true)
					}
				}
			} else if res.Status == "timeout" {
				repeated = 1
				o2 = &Obs{Status: "timeout", Blocked: "process watchdog"}
			}
			if repeated > 0 {
				d.Violation("hang:"+p.s.hangClass(), fmt.Sprintf("the well-formed scenario did not finish: %s in the batch, and again %d of 3 times when re-run alone (%s).\nfirst: %s\nagain: %s\n--- program ---\n%s",
					h.kind, repeated, o2.Status, h.obs.Blocked, o2.Blocked, p.s.Render()), caseData{S: p.s, Reps: 1})
			} else {
				d.Inconclusive(fmt.Sprintf("%s: %s once (%s), finished 3 times when re-run alone", h.c.ID, h.kind, mon.Truncate(h.obs.Blocked, 200)))
			}
		}
		var againPlain, againRace []mon.Case
		for _, c := range again {
			if byID[c.ID].race {
				againRace = append(againRace, c)
			} else {
				againPlain = append(againPlain, c)
			}
		}
		d.RunPool(againPlain, mon.PoolOpts{BatchSize: 1, Parallel: 4, BatchTimeout: 30 * time.Minute, NoRetry: true}, rr)
		d.RunPool(againRace, mon.PoolOpts{Binary: raceBin, Env: raceEnv, BatchSize: 1, Parallel: 4, BatchTimeout: 30 * time.Minute, NoRetry: true}, rr)
	}

	d.Extra("race_signatures_seen", raceSeen)
	d.Extra("slowest_runs", slowest)
	d.Extra("run_ms_by_pool", totalMs)
	if replay != "" {
		return d.Finish(1, 0)
	}
	return d.Finish(d.N(300, 18000), d.N(100, 4000))
}
