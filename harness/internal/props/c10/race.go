package c10

import (
	"os"
	"path/filepath"
	"sort"
	"strings"
)

// RaceReport is one "WARNING: DATA RACE" block of a race log, reduced to what identifies it.
type RaceReport struct {
	Off     int64    // byte offset of the block in the (concatenated) race log of the process
	Sig     string   // race:<fnA>|<fnB> (innermost risor functions of the two accesses, sorted)
	Fns     []string // the two functions
	Text    string   // the report, truncated
	Harness bool     // one of the two accesses is in harness code, not in risor
	NoRisor bool     // no risor frame at all
}

const risorPrefix = "github.com/risor-io/risor"

type frame struct{ fn, file string }

func parseFrames(lines []string) []frame {
	var out []frame
	for i := 0; i < len(lines); i++ {
		l := lines[i]
		if strings.HasPrefix(l, "  ") && !strings.HasPrefix(l, "   ") {
			f := frame{fn: strings.TrimSpace(l)}
			if i+1 < len(lines) && strings.HasPrefix(lines[i+1], "      ") {
				f.file = strings.TrimSpace(lines[i+1])
				i++
			}
			out = append(out, f)
		}
	}
	return out
}

func cleanFn(fn string) string {
	if i := strings.LastIndex(fn, "("); i > 0 && strings.HasSuffix(fn, ")") {
		fn = fn[:i]
	}
	fn = strings.TrimPrefix(fn, risorPrefix+"/")
	fn = strings.TrimPrefix(fn, risorPrefix+".")
	return fn
}

// innermost returns the innermost risor (non-test) function of an access stack and whether the
// access itself (first non-runtime frame) is harness code.
func innermost(fr []frame) (fn string, harness bool) {
	first := true
	for _, f := range fr {
		if strings.HasPrefix(f.fn, "runtime.") || strings.HasPrefix(f.fn, "sync.") || strings.HasPrefix(f.fn, "sync/atomic.") {
			continue
		}
		isRisor := strings.HasPrefix(f.fn, risorPrefix) && !strings.Contains(f.file, "_test.go")
		if first && (strings.HasPrefix(f.fn, "verif/") || strings.HasPrefix(f.fn, "main.")) {
			harness = true
		}
		first = false
		if isRisor {
			return cleanFn(f.fn), harness
		}
	}
	return "", harness
}

func parseRaceLog(text string, base int64) []RaceReport {
	var out []RaceReport
	const sep = "=================="
	pos := 0
	for {
		i := strings.Index(text[pos:], "WARNING: DATA RACE")
		if i < 0 {
			break
		}
		startAt := pos + i
		end := strings.Index(text[startAt:], sep)
		var block string
		if end < 0 {
			block = text[startAt:]
			pos = len(text)
		} else {
			block = text[startAt : startAt+end]
			pos = startAt + end
		}
		secs := strings.Split(block, "\n\n")
		var fns []string
		harness := false
		for _, sec := range secs {
			lines := strings.Split(strings.TrimLeft(sec, "\n"), "\n")
			hdr := lines[0]
			if strings.HasPrefix(hdr, "WARNING") && len(lines) > 1 {
				lines = lines[1:]
				hdr = lines[0]
			}
			lh := strings.ToLower(hdr)
			if !(strings.Contains(lh, "read at") || strings.Contains(lh, "write at")) {
				continue
			}
			fn, h := innermost(parseFrames(lines[1:]))
			if h {
				harness = true
			}
			fns = append(fns, fn)
			if len(fns) == 2 {
				break
			}
		}
		r := RaceReport{Off: base + int64(startAt), Harness: harness, Text: block}
		if len(r.Text) > 5000 {
			r.Text = r.Text[:5000] + "…"
		}
		for len(fns) < 2 {
			fns = append(fns, "")
		}
		if fns[0] == "" && fns[1] == "" {
			r.NoRisor = true
		}
		sort.Strings(fns)
		r.Fns = fns
		a, b := fns[0], fns[1]
		if a == "" {
			a = "?"
		}
		if b == "" {
			b = "?"
		}
		r.Sig = "race:" + a + "|" + b
		out = append(out, r)
	}
	return out
}

func readRaceReports(dir string) []RaceReport {
	m, _ := filepath.Glob(filepath.Join(dir, "race.*"))
	sort.Strings(m)
	var out []RaceReport
	var base int64
	for _, f := range m {
		b, err := os.ReadFile(f)
		if err != nil {
			continue
		}
		out = append(out, parseRaceLog(string(b), base)...)
		base += int64(len(b))
	}
	return out
}
