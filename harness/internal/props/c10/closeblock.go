package c10

import (
	"fmt"
	"strings"

	"verif/internal/mon"
)

// CloseSpec describes the fourth scenario family: a channel is closed by ANOTHER goroutine while
// 1..3 senders are parked in a blocking send (unbuffered channel without a receiver, or a buffer
// that the spawner filled completely beforehand). Many short rounds per script.
//
// The outcome does not depend on the schedule: no receiver runs before the close, so none of these
// sends can ever complete; whether the closer gets there before or after a sender has parked, the
// sender must end with the ordinary "send on closed channel" error – caught by its try handler, or
// raised out of the thread and delivered by wait() – never with a Go panic ("panic: …" from
// wait()/Eval) and never with a dead process. The values that were in the buffer before stay
// there exactly once and in order, the blocked senders' values never appear, and receivers see the
// close (nil, zero iterations).
//
// The -race build reports closechan vs chansend for exactly this script-made situation (the Go
// detector treats "close while another goroutine sends" as a race by definition); that one pair
// is therefore not counted for scenarios of this family, everything else is.
type CloseSpec struct {
	Rounds   int      `json:"rounds"`
	Cap      int      `json:"cap"`      // 0 = unbuffered; > 0: prefilled to the brim
	Variants []string `json:"variants"` // per sender: try | raw (wait() must raise the error)
	SendBy   []string `json:"send_by"`  // per sender: op | method
	Forms    []string `json:"forms"`    // per sender: spawn | method | go (go only with try)
	Main     bool     `json:"main"`     // the main script itself is one more blocked sender (under try)
	Closer   string   `json:"closer"`   // spawn | method | go : how the closing goroutine is started
	CloseBy  string   `json:"closeby"`  // builtin | method
	Pre      int      `json:"pre"`      // yields of the closer before it closes (lets the senders park)
	X0       int      `json:"x0"`
}

const sendOnClosed = "exec error: send on closed channel"
const closeSendRace = "race:object.(*Chan).Close|object.(*Chan).Send"

func genCloseScenario(r *mon.Rand, idx int, thorough bool) Scenario {
	s := Scenario{Seed: r.Uint64(), Scope: "global"}
	s.Procs = procsChoices[(idx+2)%len(procsChoices)]
	c := &CloseSpec{}
	c.Rounds = r.Range(15, 30)
	if thorough && r.Chance(1, 4) {
		c.Rounds = r.Range(60, 150)
	}
	c.Cap = mon.Pick(r, []int{0, 0, 1, 2, 3, 8})
	n := r.Range(1, 3)
	for i := 0; i < n; i++ {
		v := mon.Pick(r, []string{"try", "raw"})
		f := mon.Pick(r, []string{"spawn", "method", "go"})
		if f == "go" {
			v = "try"
		}
		c.Variants = append(c.Variants, v)
		c.Forms = append(c.Forms, f)
		c.SendBy = append(c.SendBy, mon.Pick(r, []string{"op", "method"}))
	}
	c.Main = r.Chance(1, 4)
	c.Closer = mon.Pick(r, []string{"spawn", "method", "go"})
	c.CloseBy = mon.Pick(r, []string{"builtin", "method"})
	c.Pre = mon.Pick(r, []int{0, 2, 10, 10, 50, 200})
	c.X0 = 100 * (1 + r.Intn(9000))
	s.C = c
	return s
}

func (c *CloseSpec) class() string {
	k := "buffer-full"
	if c.Cap == 0 {
		k = "unbuffered"
	}
	m := ""
	if c.Main {
		m = "+main"
	}
	return fmt.Sprintf("close-while-send-blocked:%s:senders=%d%s", k, len(c.Variants), m)
}

func (c *CloseSpec) distinctKey(procs int) string {
	return fmt.Sprintf("closeblock|cap%d|%s|%s|%s|main=%v|closer=%s/%s|pre%d|P%d", c.Cap, strings.Join(c.Variants, ","), strings.Join(c.SendBy, ","), strings.Join(c.Forms, ","), c.Main, c.Closer, c.CloseBy, c.Pre, procs)
}

func (s *Scenario) renderCloseBlock() string {
	c := s.C
	b := &sb{}
	raw := func(l string) { b.ln("%s", l) }
	raw(`func joinres(h) { return try(func() { return ["val", h.wait()] }, func(e) { return ["raised", e.message()] }) }`)
	for _, by := range []string{"op", "method"} {
		send := "ch <- v"
		if by == "method" {
			send = "ch.send(v)"
		}
		b.ln("func tx_try_%s(ch, sid, v) {", by)
		raw(`  return try(func() {`)
		raw(`    ` + send)
		raw(`    return ["sent", sid]`)
		raw(`  }, func(e) { return ["caught", sid, e.message()] })`)
		raw(`}`)
		b.ln("func tx_try_go_%s(ch, sid, v, rd) {", by)
		raw(`  r := try(func() {`)
		raw(`    ` + send)
		raw(`    return ["sent", sid]`)
		raw(`  }, func(e) { return ["caught", sid, e.message()] })`)
		raw(`  rd <- r`)
		raw(`}`)
		b.ln("func tx_raw_%s(ch, sid, v) {", by)
		raw(`  ` + send)
		raw(`  return ["sent", sid]`)
		raw(`}`)
	}
	raw(`func closer(ch, pre) {`)
	raw(`  for j := 0; j < pre; j++ { yield() }`)
	if c.CloseBy == "method" {
		raw(`  ch.close()`)
	} else {
		raw(`  close(ch)`)
	}
	raw(`  return "closed"`)
	raw(`}`)
	raw(`func closer_go(ch, pre, cd) {`)
	raw(`  r := closer(ch, pre)`)
	raw(`  cd <- r`)
	raw(`}`)

	raw(`func round(x) {`)
	b.ind++
	b.ln("ch := chan(%d)", c.Cap)
	b.ln("for i := 0; i < %d; i++ {", c.Cap)
	raw(`  v := x * 1000 + i`)
	raw(`  ch <- v`)
	raw(`}`)
	b.ln("rd := chan(%d)", len(c.Variants))
	raw(`cd := chan(1)`)
	raw(`hs := []`)
	ngo := 0
	for i, v := range c.Variants {
		sid := i + 1
		val := fmt.Sprintf("x * 1000 + %d", 100+sid)
		b.ln("v%d := %s", sid, val)
		switch c.Forms[i] {
		case "spawn":
			b.ln("hs.append(spawn(tx_%s_%s, ch, %d, v%d))", v, c.SendBy[i], sid, sid)
		case "method":
			b.ln("hs.append(tx_%s_%s.spawn(ch, %d, v%d))", v, c.SendBy[i], sid, sid)
		case "go":
			ngo++
			b.ln("go tx_try_go_%s(ch, %d, v%d, rd)", c.SendBy[i], sid, sid)
		}
	}
	switch c.Closer {
	case "spawn":
		b.ln("ct := spawn(closer, ch, %d)", c.Pre)
	case "method":
		b.ln("ct := closer.spawn(ch, %d)", c.Pre)
	case "go":
		b.ln("go closer_go(ch, %d, cd)", c.Pre)
	}
	raw(`mres := nil`)
	if c.Main {
		raw(`vm := x * 1000 + 100`)
		raw(`mres = tx_try_op(ch, 0, vm)`)
	}
	raw(`sr := []`)
	raw(`for _, h := range hs { sr.append(joinres(h)) }`)
	if ngo > 0 {
		b.ln("for i := 0; i < %d; i++ { sr.append([\"val\", <-rd]) }", ngo)
	}
	if c.Closer == "go" {
		raw(`cres := ["val", <-cd]`)
	} else {
		raw(`cres := joinres(ct)`)
	}
	// what is in the channel now: exactly what was put there before, then the close
	raw(`got := []`)
	raw(`for {`)
	raw(`  v := <-ch`)
	raw(`  if v == nil { break }`)
	raw(`  got.append(v)`)
	raw(`}`)
	raw(`extra := 0`)
	raw(`for _, v := range ch { extra += 1 }`)
	raw(`again := try(func() { closer(ch, 0) }, func(e) { return e.message() })`)
	raw(`last := ch.receive()`)
	raw(`return [x, sr, mres, cres, got, extra, last, again]`)
	b.ind--
	raw(`}`)
	raw(`out := []`)
	b.ln("for i := 0; i < %d; i++ { out.append(round(%d + i)) }", c.Rounds, c.X0)
	raw(`out`)
	return b.String()
}

func judgeCloseBlock(s *Scenario, o *Obs, v *verdict) {
	c := s.C
	rounds, ok := asList(o.Value)
	if !ok || len(rounds) != c.Rounds {
		v.add("result-shape:closeblock", "the script returned %s, expected %d rounds", show(o.Value), c.Rounds)
		return
	}
	kind := "buffer-full"
	if c.Cap == 0 {
		kind = "unbuffered"
	}
	sigSeen := map[string]bool{}
	report := func(what, f string, a ...any) {
		sig := "close-while-send-blocked:" + what + ":" + kind
		if sigSeen[sig] {
			return
		}
		sigSeen[sig] = true
		v.add(sig, "%s (channel of capacity %d, filled; %d sender goroutines %v/%v/%v, main sends too: %v; closed by a %s goroutine after %d yields, GOMAXPROCS %d)", fmt.Sprintf(f, a...), c.Cap, len(c.Variants), c.Variants, c.SendBy, c.Forms, c.Main, c.Closer, c.Pre, s.Procs)
	}
	classify := func(msg string) string {
		if strings.HasPrefix(msg, "panic:") {
			return "panic"
		}
		return "other-error"
	}
	for ri, rx := range rounds {
		r, ok := asList(rx)
		if !ok || len(r) != 8 {
			v.add("result-shape:closeblock", "round %d returned %s", ri, show(rx))
			return
		}
		x := c.X0 + ri
		// caught: ["caught", sid, msg] from a try handler
		checkCaught := func(who string, e any) {
			p, ok := asList(e)
			if ok && len(p) == 3 && p[0] == "caught" {
				if msg, _ := p[2].(string); msg != sendOnClosed {
					report(classify(msg)+":try", "round %d: %s, blocked in its send when the channel was closed, caught %q; expected %q", ri, who, msg, sendOnClosed)
				}
				return
			}
			if ok && len(p) == 2 && p[0] == "sent" {
				report("sent", "round %d: %s reports its send as completed although nobody received and the channel was closed", ri, who)
				return
			}
			report("malformed", "round %d: %s ended with %s", ri, who, show(e))
		}
		sr, _ := asList(r[1])
		if len(sr) != len(c.Variants) {
			report("sender-results", "round %d: %d sender results for %d senders", ri, len(sr), len(c.Variants))
		}
		var threadVariants []string
		for i, f := range c.Forms {
			if f != "go" {
				threadVariants = append(threadVariants, c.Variants[i])
			}
		}
		for ei, e := range sr {
			p, ok := asList(e)
			if !ok || len(p) != 2 {
				report("malformed", "round %d: sender entry %s", ri, show(e))
				continue
			}
			v.Events["blocked_sends_closed"]++
			k, _ := p[0].(string)
			// thread forms come first, in sender order; go forms afterwards through rd (any order, all under try)
			variant := "try"
			if ei < len(threadVariants) {
				variant = threadVariants[ei]
			}
			if k == "raised" {
				msg, _ := p[1].(string)
				if variant == "raw" && msg == sendOnClosed {
					continue // the error of the send ended the thread and wait() raised exactly it
				}
				report(classify(msg)+":"+variant, "round %d: a sender thread (%s) blocked in its send when the channel was closed ended with %q from wait(); expected %q %s", ri, variant, msg, sendOnClosed,
					map[string]string{"try": "caught by its try handler", "raw": "raised by wait()"}[variant])
				continue
			}
			if variant == "raw" {
				report("sent", "round %d: an unwrapped sender thread returned %s although its send cannot have completed", ri, show(p[1]))
				continue
			}
			checkCaught("a sender goroutine (under try)", p[1])
		}
		if c.Main {
			v.Events["blocked_sends_closed"]++
			checkCaught("the main script (under try)", r[2])
		}
		if cr, ok := asList(r[3]); !ok || len(cr) != 2 || cr[0] != "val" || cr[1] != "closed" {
			report("closer-failed", "round %d: the closing goroutine ended with %s", ri, show(r[3]))
		}
		// the buffer content of before, exactly once and in order; nothing of the blocked senders
		want := make([]any, 0, c.Cap)
		for i := 0; i < c.Cap; i++ {
			want = append(want, x*1000+i)
		}
		if !jsonEq(r[4], want) {
			report("delivered-values", "round %d: after the close the channel held %s, it was filled with %s before and no send completed since", ri, show(r[4]), show(want))
		}
		if n, _ := asInt(r[5]); n != 0 || r[6] != nil {
			report("closed-drained", "round %d: the closed and drained channel gave %d iterations and receive() = %s", ri, n, show(r[6]))
		}
		if msg, _ := r[7].(string); msg != "exec error: close of closed channel" {
			report("second-close", "round %d: closing the channel again gave %s", ri, show(r[7]))
		}
		v.Events["close_while_blocked_rounds"]++
	}
}
