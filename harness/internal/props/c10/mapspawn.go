package c10

import (
	"fmt"
	"strings"

	"verif/internal/mon"
)

// MapSpec describes the fifth scenario family: threads are started THROUGH a builtin callback –
// `items.map(work.spawn)` (the bound spawn method of a script function or of a builtin is the
// callback of list.map) – or through a script callback of list.map / list.each that spawns. The
// spawner has moved on to the next item (and to unrelated calls) long before a thread reads its
// arguments: the targets wait at a gate or start slowly.
//
// Oracle (values only): the thread started for the item at position k yields, from wait(), the
// result for ITS OWN item – one thread per item, per position, whatever the schedule.
type MapSpec struct {
	Rounds int    `json:"rounds"`
	Items  int    `json:"items"`  // 2..64
	Target string `json:"target"` // gated | slow | plain (script functions) | to_upper | len (builtins)
	Via    string `json:"via"`    // map-bound: items.map(f.spawn) | map-func: items.map(func(it) { return f.spawn(it) }) | each-func | map-func2 (index, item)
	Slow   int    `json:"slow"`   // yields of a slow target before it reads its argument
	X0     int    `json:"x0"`
}

func genMapScenario(r *mon.Rand, idx int, thorough bool) Scenario {
	s := Scenario{Seed: r.Uint64(), Scope: "global"}
	s.Procs = procsChoices[idx%len(procsChoices)]
	m := &MapSpec{}
	m.Rounds = r.Range(8, 16)
	if thorough && r.Chance(1, 4) {
		m.Rounds = r.Range(40, 100)
	}
	m.Items = mon.Pick(r, []int{2, 3, 4, 8, 16, 33, 64})
	m.Target = mon.Pick(r, []string{"gated", "gated", "slow", "plain", "to_upper", "len"})
	m.Via = mon.Pick(r, []string{"map-bound", "map-bound", "map-bound", "map-func", "each-func", "map-func2"})
	if m.Target == "to_upper" || m.Target == "len" {
		if m.Via == "map-func2" {
			m.Via = "map-bound"
		}
	}
	m.Slow = mon.Pick(r, []int{1, 5, 30})
	m.X0 = 100 * (1 + r.Intn(9000))
	s.M = m
	return s
}

func (m *MapSpec) class() string {
	return fmt.Sprintf("spawn-through-callback:%s:%s", m.Via, m.Target)
}

func (m *MapSpec) distinctKey(procs int) string {
	return fmt.Sprintf("mapspawn|%s|%s|n%d|P%d", m.Via, m.Target, m.Items, procs)
}

func (s *Scenario) renderMapSpawn() string {
	m := s.M
	b := &sb{}
	raw := func(l string) { b.ln("%s", l) }
	raw(`func joinres(h) { return try(func() { return ["val", h.wait()] }, func(e) { return ["raised", e.message()] }) }`)
	raw(`func noise(a, b, c, d) { return a + b + c + d }`)
	raw(`func round(x) {`)
	b.ind++
	raw(`gate := chan()`)
	// the items of this round: unique to the round and to the position
	raw(`items := []`)
	switch m.Target {
	case "to_upper":
		b.ln("for k := 0; k < %d; k++ { items.append(\"r\" + string(x) + \"k\" + string(k)) }", m.Items)
	case "len":
		raw(`it := ""`)
		b.ln("for k := 0; k < %d; k++ {", m.Items)
		raw(`  it = it + "a"`)
		raw(`  items.append(it)`)
		raw(`}`)
	default:
		b.ln("for k := 0; k < %d; k++ { items.append(x * 1000 + k) }", m.Items)
	}
	callee := "work"
	switch m.Target {
	case "gated":
		raw(`work := func(it) {`)
		raw(`  <-gate`)
		raw(`  return [it, it * 3 + 1]`)
		raw(`}`)
	case "slow":
		raw(`work := func(it) {`)
		b.ln("  for j := 0; j < %d; j++ { yield() }", m.Slow)
		raw(`  return [it, it * 3 + 1]`)
		raw(`}`)
	case "plain":
		raw(`work := func(it) { return [it, it * 3 + 1] }`)
	case "to_upper":
		callee = "strings.to_upper"
	case "len":
		callee = "len"
	}
	switch m.Via {
	case "map-bound":
		b.ln("ts := items.map(%s.spawn)", callee)
	case "map-func":
		b.ln("ts := items.map(func(it) { return %s.spawn(it) })", callee)
	case "map-func2":
		b.ln("ts := items.map(func(i, it) { return spawn(%s, it) })", callee)
	case "each-func":
		raw(`ts := []`)
		b.ln("items.each(func(it) { ts.append(%s.spawn(it)) })", callee)
	}
	// the spawner moves on
	raw(`noise(-4, -5, -6, -7)`)
	raw(`for j := 0; j < 3; j++ { yield() }`)
	raw(`close(gate)`)
	raw(`res := ts.map(joinres)`)
	raw(`return [x, len(ts), res]`)
	b.ind--
	raw(`}`)
	raw(`out := []`)
	b.ln("for i := 0; i < %d; i++ { out.append(round(%d + i)) }", m.Rounds, m.X0)
	raw(`out`)
	return b.String()
}

func (m *MapSpec) expected(x, k int) any {
	switch m.Target {
	case "to_upper":
		return fmt.Sprintf("R%dK%d", x, k)
	case "len":
		return k + 1
	}
	it := x*1000 + k
	return []any{it, it*3 + 1}
}

func judgeMapSpawn(s *Scenario, o *Obs, v *verdict) {
	m := s.M
	rounds, ok := asList(o.Value)
	if !ok || len(rounds) != m.Rounds {
		v.add("result-shape:mapspawn", "the script returned %s, expected %d rounds", show(o.Value), m.Rounds)
		return
	}
	sigSeen := map[string]bool{}
	report := func(what, f string, a ...any) {
		sig := "spawn-args:via-callback:" + what + ":" + m.Via + ":" + m.Target
		if sigSeen[sig] {
			return
		}
		sigSeen[sig] = true
		v.add(sig, "%s (%d items, threads started by %s with target %s, GOMAXPROCS %d)", fmt.Sprintf(f, a...), m.Items, m.Via, m.Target, s.Procs)
	}
	for ri, rx := range rounds {
		r, ok := asList(rx)
		if !ok || len(r) != 3 {
			v.add("result-shape:mapspawn", "round %d returned %s", ri, show(rx))
			return
		}
		x := m.X0 + ri
		res, _ := asList(r[2])
		if n, _ := asInt(r[1]); int(n) != m.Items || len(res) != m.Items {
			report("thread-count", "round %d: %s threads and %d results for %d items", ri, show(r[1]), len(res), m.Items)
			continue
		}
		for k, e := range res {
			v.Events["callback_spawned_threads"]++
			want := m.expected(x, k)
			p, ok := asList(e)
			if ok && len(p) == 2 && p[0] == "val" && jsonEq(p[1], want) {
				continue
			}
			what := "other-value"
			if ok && len(p) == 2 && p[0] == "raised" {
				what = "raised"
				if msg, _ := p[1].(string); strings.HasPrefix(msg, "panic:") {
					what = "panic"
				}
			} else if ok && len(p) == 2 {
				for k2 := 0; k2 < m.Items; k2++ {
					if k2 != k && jsonEq(p[1], m.expected(x, k2)) {
						what = "other-items-result"
						report(what, "round %d: wait() of the thread started for item %d gave %s, which is the result for item %d; its own is %s", ri, k, show(p[1]), k2, show(want))
						break
					}
				}
				if what == "other-items-result" {
					continue
				}
			}
			report(what, "round %d: wait() of the thread started for item %d gave %s, expected %s", ri, k, show(e), show(want))
		}
		v.Events["callback_spawn_rounds"]++
	}
}
