// Package racelog parses Go race detector logs into de-duplicated, machine-comparable reports (used by C06 and C07).
package racelog

import (
	"regexp"
	"sort"
	"strings"
)

// Report is one "WARNING: DATA RACE" block of a Go race detector log.
type Report struct {
	Sig  string // "race:<fnA>|<fnB>" (innermost risor frame of each access, sorted), "" when no risor frame is involved
	Text string
}

var accessRe = regexp.MustCompile(`^(Previous )?(Write|Read|Atomic write|Atomic read|write|read|atomic write|atomic read) at 0x[0-9a-f]+ by `)

const risorPkg = "github.com/risor-io/risor"

func cleanFn(line string) string {
	s := strings.TrimSpace(line)
	if i := strings.LastIndex(s, "("); i > 0 && strings.HasSuffix(s, ")") {
		// drop the argument list, keep receiver parentheses like (*VirtualMachine)
		depth := 0
		for j := len(s) - 1; j >= 0; j-- {
			if s[j] == ')' {
				depth++
			} else if s[j] == '(' {
				depth--
				if depth == 0 {
					s = s[:j]
					break
				}
			}
		}
	}
	s = strings.TrimPrefix(s, risorPkg+"/")
	s = strings.TrimPrefix(s, risorPkg+".")
	return s
}

// Parse splits a race detector log into reports and computes their signatures.
func Parse(log string) []Report {
	var out []Report
	for _, block := range strings.Split(log, "==================") {
		if !strings.Contains(block, "WARNING: DATA RACE") {
			continue
		}
		lines := strings.Split(block, "\n")
		var tops []string
		inAccess := false
		found := false
		for _, l := range lines {
			switch {
			case accessRe.MatchString(l):
				inAccess, found = true, false
			case strings.TrimSpace(l) == "":
				if inAccess && !found {
					tops = append(tops, "")
				}
				inAccess = false
			case inAccess && !found && strings.HasPrefix(l, "  ") && !strings.HasPrefix(l, "      "):
				if strings.Contains(l, risorPkg) {
					tops = append(tops, cleanFn(l))
					found = true
				}
			}
		}
		var fns []string
		for _, t := range tops {
			if t != "" {
				fns = append(fns, t)
			}
		}
		rep := Report{Text: strings.TrimSpace(block)}
		if len(fns) > 0 {
			for len(fns) < 2 {
				fns = append(fns, "(non-risor code)")
			}
			sort.Strings(fns)
			rep.Sig = "race:" + fns[0] + "|" + fns[1]
		}
		out = append(out, rep)
	}
	return out
}
