package props

import "verif/internal/props/c02"

func init() { registrars = append(registrars, c02.Register) }
