package props

import "verif/internal/props/c01"

func init() { registrars = append(registrars, c01.Register) }
