package props

import "verif/internal/props/c03"

func init() { registrars = append(registrars, c03.Register) }
