package props

import "verif/internal/props/c19"

func init() { registrars = append(registrars, c19.Register) }
