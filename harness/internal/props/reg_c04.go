package props

import "verif/internal/props/c04"

func init() { registrars = append(registrars, c04.Register) }
