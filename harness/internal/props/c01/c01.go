// Package c01: execution of a program matches its source-level meaning (reference-model monitor).
//
// Programs are generated in the harness's own AST, rendered to source text, and evaluated twice: by
// the reference interpreter (internal/gen, written from the pinned language rules) and by the real
// lexer → parser → compiler → VM. The oracle is equality of outcomes: result (typed rendering), error
// category (exact message for user-raised errors), printed output, final values of top-level variables.
package c01

import (
	"encoding/json"
	"fmt"
	"sort"
	"strings"
	"time"

	"verif/internal/eng"
	"verif/internal/gen"
	"verif/internal/mon"
	"verif/internal/rz"
)

const ID = "C01"

func Register() {
	mon.Register(&mon.Prop{ID: ID, Drive: drive})
	mon.RegisterWorker(ID, worker)
}

type disagreement struct {
	Index  int    `json:"index"`
	Sig    string `json:"sig"`
	Source string `json:"source"`
	Shrunk string `json:"shrunk"`
	Diff   string `json:"diff"`
	Probe  string `json:"probe,omitempty"`
}

type out struct {
	Programs   int            `json:"programs"`
	Discarded  int            `json:"discarded"`
	Agree      int            `json:"agree"`
	ModelErr   map[string]int `json:"model_err"` // outcomes by error category ("" = value)
	Feats      map[string]int `json:"feats"`     // generator feature -> programs containing it
	Sigs       []string       `json:"sigs"`      // feature signatures of non-trivial programs
	Steps      int64          `json:"steps"`
	Disagree   []disagreement `json:"disagree"`
	Samples    []string       `json:"samples"`
	HarnessErr []string       `json:"harness_err"`
	Aborted    int            `json:"aborted"` // programs not evaluated because the batch already produced enough witnesses
}

// classify turns a diff into the coarse mismatch kind used in signatures.
func classify(want gen.Outcome, got rz.Result) string {
	switch {
	case got.GoPanic != "":
		return "go-panic-escaped"
	case got.Err == "timeout":
		return "hang"
	case got.Stage == "parse" && want.Err == "":
		return "rejected-by-parser"
	case got.Stage == "compile" && want.Err == "":
		return "rejected-by-compiler"
	case want.Err != got.Err:
		if want.Err == "" {
			return "unexpected-error:" + errClass(got.Err)
		}
		if got.Err == "" {
			return "missing-error:" + errClass(want.Err)
		}
		return "wrong-error:" + errClass(want.Err) + "->" + errClass(got.Err)
	case want.Result != got.Result:
		return "wrong-result"
	case want.Out != got.Out:
		return "wrong-output"
	}
	return "wrong-global"
}

func errClass(e string) string {
	if strings.HasPrefix(e, "user:") {
		return "user"
	}
	return strings.ReplaceAll(e, " ", "-")
}

// realTimeout bounds one real evaluation. The model bounds every program to 2*10^5 steps (a few tens
// of milliseconds of real execution), so this is a >100x margin even on a loaded machine.
var realTimeout = 8 * time.Second

func compare(p *gen.Program) (agree bool, decided bool, want gen.Outcome, got rz.Result, src string, steps int, herr error) {
	return compareT(p, realTimeout)
}

func compareT(p *gen.Program, timeout time.Duration) (agree bool, decided bool, want gen.Outcome, got rz.Result, src string, steps int, herr error) {
	want, in, ok, err := eng.Model(p)
	if err != nil {
		return false, false, want, got, "", 0, err
	}
	if !ok {
		return false, false, want, got, "", 0, nil
	}
	src = gen.RenderProgram(p)
	got = rz.Run(src, rz.Opts{GlobalNames: eng.GlobalNames(want), Timeout: timeout})
	if got.Err == "timeout" && timeout >= realTimeout {
		// a watchdog hit is only believed when it repeats with four times the budget (a loaded machine is
		// not a hang)
		got = rz.Run(src, rz.Opts{GlobalNames: eng.GlobalNames(want), Timeout: 4 * timeout})
	}
	return rz.Diff(want, got) == "", true, want, got, src, in.Steps, nil
}

type caseData struct {
	eng.Batch
	Probes bool   `json:"probes,omitempty"`
	Replay string `json:"replay,omitempty"` // kind of replay: "gen" (Seed, From) or "probe:<name>"
}

func worker(kind string, data json.RawMessage) any {
	var c caseData
	if err := json.Unmarshal(data, &c); err != nil {
		panic(err)
	}
	o := &out{ModelErr: map[string]int{}, Feats: map[string]int{}}
	if c.Probes {
		runProbes(o, "")
		return o
	}
	if strings.HasPrefix(c.Replay, "probe:") {
		runProbes(o, strings.TrimPrefix(c.Replay, "probe:"))
		return o
	}
	hangs, shrunk := 0, 0
	for i := c.From; i < c.From+c.N; i++ {
		p, g := c.Batch.Program(i)
		o.Programs++
		agree, decided, want, got, src, steps, herr := compare(p)
		if herr != nil {
			if len(o.HarnessErr) < 5 {
				o.HarnessErr = append(o.HarnessErr, fmt.Sprintf("program %d: %v\n%s", i, herr, gen.RenderProgram(p)))
			}
			continue
		}
		if !decided {
			o.Discarded++
			continue
		}
		o.Steps += int64(steps)
		for f := range g.Feats {
			o.Feats[f]++
		}
		o.ModelErr[errClass(want.Err)]++
		if steps >= 20 {
			o.Sigs = append(o.Sigs, eng.FeatureSig(p))
		}
		if len(o.Samples) < 2 && steps >= 40 && i%7 == 0 {
			o.Samples = append(o.Samples, src)
		}
		if agree {
			o.Agree++
			continue
		}
		d := disagreement{Index: i, Source: src, Diff: rz.Diff(want, got), Sig: "generated:" + classify(want, got)}
		kind := classify(want, got)
		if kind == "hang" {
			hangs++
		}
		// shrink to a smaller witness of the same mismatch kind (bounded: at most a few per batch, short
		// timeouts for candidates; a candidate that times out is not "the same failure")
		if shrunk < 4 && kind != "hang" {
			shrunk++
			deadline := time.Now().Add(60 * time.Second)
			gen.Shrink(p, func(q *gen.Program) bool {
				if time.Now().After(deadline) {
					return false
				}
				a, dec, w2, g2, _, _, he := compareT(q, 2*time.Second)
				return he == nil && dec && !a && classify(w2, g2) == kind
			}, 300)
			_, dec, w2, g2, s2, _, _ := compare(p)
			if dec && classify(w2, g2) == kind {
				d.Shrunk = s2
				d.Diff = rz.Diff(w2, g2)
			}
		}
		if len(o.Disagree) < 10 {
			o.Disagree = append(o.Disagree, d)
		}
		if hangs >= 2 || len(o.Disagree) >= 10 {
			// enough witnesses from this batch: the rest of the batch would only cost time
			o.Aborted = c.From + c.N - i - 1
			break
		}
	}
	return o
}

func drive(d *mon.Driver, replay string) int {
	d.Rule = "programs are generated from the harness's grammar (type- and scope-directed; four mixes: expression-, control-, data- and closure-heavy), rendered with minimal parentheses, and evaluated by the reference interpreter and by the real pipeline; a program is non-trivial when the model executed >= 20 steps, distinct when its feature signature (set of construct kinds incl. operators, loop forms, break/continue nesting chains + deepest nesting chain) is new"
	d.Assume = []string{
		"the reference interpreter encodes the language rules pinned in design/LANGUAGE_RULES.md (read from the implementation and its tests at the pinned commit; the repository has no language reference)",
		"not generated: constructs whose present behaviour is not pinned (for-in over maps/sets, set literals with unhashable members, captures of function locals two or more function levels up (C02 covers those), both operands of `in` having side effects, non-trivial targets of compound index assignment, text of built-in error messages)",
		"programs the model cannot decide (step budget, slice starting exactly at len, opaque error text observed) are discarded and counted",
	}
	var cases []mon.Case
	if replay != "" {
		var c caseData
		if err := mon.LoadReplay(replay, &c); err != nil {
			fmt.Println("cannot load replay:", err)
			return 3
		}
		cases = append(cases, mon.NewCase("replay", "replay", c))
	} else {
		r := d.Rand("programs")
		total := d.N(24000, 1500000)
		per := 500
		seed := r.Uint64()
		for from := 0; from < total; from += per {
			cases = append(cases, mon.NewCase(fmt.Sprintf("gen-%d", from), "gen", caseData{Batch: eng.Batch{Seed: seed, From: from, N: per, Mix: -1}}))
		}
		cases = append(cases, mon.NewCase("probes", "probes", caseData{Probes: true}))
	}
	feats := map[string]int{}
	modelErr := map[string]int{}
	var discarded, programs int
	d.RunPool(cases, mon.PoolOpts{BatchSize: 1, BatchTimeout: 900e9}, func(c mon.Case, res mon.Result) {
		var cd caseData
		_ = json.Unmarshal(c.Data, &cd)
		if res.Status != "done" {
			detail := ""
			if res.Crash != nil {
				detail = res.Crash.Exit + " " + res.Crash.FatalLine + "\n" + res.Crash.StderrTail
			}
			if res.Status == "crash" && res.Crash != nil && res.Crash.Confirmed {
				d.Violation("worker-died:"+crashClass(res.Crash), "the process evaluating generated programs died: "+detail, cd)
			} else {
				d.Inconclusive("worker " + c.ID + ": " + res.Status + " " + detail)
			}
			return
		}
		if res.Panic != "" {
			d.Fatal("harness panic in worker: " + res.Panic)
			return
		}
		var o out
		if err := json.Unmarshal(res.Data, &o); err != nil {
			d.Fatal("bad worker output: " + err.Error())
			return
		}
		for _, h := range o.HarnessErr {
			d.Fatal("reference interpreter failed (harness bug): " + h)
		}
		programs += o.Programs
		discarded += o.Discarded
		if o.Aborted > 0 {
			d.Event("programs-skipped-after-enough-witnesses", o.Aborted)
		}
		d.Eval(o.Programs - o.Discarded)
		d.Event("programs-agree", o.Agree)
		d.Event("model-steps", int(o.Steps))
		for k, v := range o.Feats {
			feats[k] += v
		}
		for k, v := range o.ModelErr {
			modelErr[k] += v
		}
		for _, s := range o.Sigs {
			d.Distinct(s)
		}
		for _, s := range o.Samples {
			d.Sample(s)
		}
		for _, dis := range o.Disagree {
			src := dis.Shrunk
			if src == "" {
				src = dis.Source
			}
			rc := cd
			rc.Replay = "gen"
			rc.From = dis.Index
			rc.N = 1
			if dis.Probe != "" {
				rc = caseData{Replay: "probe:" + dis.Probe}
			}
			d.Violation(dis.Sig, mon.Truncate(dis.Diff, 1500)+"\n--- minimised program:\n"+mon.Truncate(src, 3000)+"--- original program:\n"+mon.Truncate(dis.Source, 3000), rc)
		}
	})
	if replay != "" {
		return d.Finish(0, 0)
	}
	d.Event("discarded-undecided", discarded)
	for k, v := range modelErr {
		name := "outcome:" + k
		if k == "" {
			name = "outcome:value"
		}
		d.Event(name, v)
	}
	keys := make([]string, 0, len(feats))
	for k := range feats {
		keys = append(keys, k)
	}
	sort.Strings(keys)
	d.Extra("generator_features", feats)
	d.Extra("programs_generated", programs)
	// coverage gate: every generator feature must have been exercised
	var missing []string
	for _, f := range requiredFeatures {
		if feats[f] == 0 {
			missing = append(missing, f)
		}
	}
	if len(missing) > 0 {
		d.Fatal("generator features never exercised in this run: " + strings.Join(missing, ", "))
	}
	return d.Finish(d.N(15000, 1000000), d.N(2000, 20000))
}

func crashClass(c *mon.CrashInfo) string {
	fl := c.FatalLine
	if i := strings.Index(fl, ":"); i >= 0 && len(fl) > i+40 {
		fl = fl[:i+40]
	}
	return strings.ReplaceAll(fl, " ", "-")
}

var requiredFeatures = []string{
	"if", "else", "else-if", "switch", "switch-default", "switch-multi-value", "for:three", "for:cond", "for:inf", "for:range0", "for:range1", "for:range2", "for:in",
	"break", "continue", "early-return", "return", "implicit-return", "defer", "try", "raise", "closure", "funcdecl", "default-param", "user-call",
	"ternary", "if-expr", "switch-expr", "template", "pipe", "multi-decl", "multi-assign", "incdec", "list-index-assign:=", "map-index-assign", "attr-assign",
	"shadowing", "for-post-expression", "for-init-expression", "recursion", "mutual-recursion", "slice-str", "slice-list", "index-list", "index-str", "in", "and-or-value", "list.map", "list.filter", "int**", "int%", "int<<", "cmp<", "cmp==", "neg", "not",
}

func diffOf(w gen.Outcome, g rz.Result) string { return rz.Diff(w, g) }
