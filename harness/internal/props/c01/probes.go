package c01

import (
	"fmt"

	"verif/internal/gen"
)

type probe struct {
	name string
	sig  string // signature reported when it disagrees
	p    *gen.Program
}

func id(n string) *gen.Ident                   { return &gen.Ident{Name: n} }
func in(v int64) *gen.IntLit                   { return &gen.IntLit{V: v} }
func str(s string) *gen.StrLit                 { return &gen.StrLit{V: s} }
func call(f gen.Expr, a ...gen.Expr) *gen.Call { return &gen.Call{F: f, Args: a} }
func es(e gen.Expr) gen.Stmt                   { return &gen.ExprStmt{X: e} }
func decl(n string, e gen.Expr) gen.Stmt       { return &gen.VarDecl{Kind: ":=", Name: n, X: e} }
func list(items ...gen.Expr) *gen.ListLit      { return &gen.ListLit{Items: items} }

// tickFn: func <name>(x) { log.append(x); return x }  — makes evaluation order observable.
func tickFn(name string) gen.Stmt {
	return &gen.FuncDecl{F: &gen.FuncLit{Name: name, Params: []gen.Param{{Name: "x"}}, Body: []gen.Stmt{
		es(&gen.MethodCall{X: id("log"), Name: "append", Args: []gen.Expr{id("x")}}),
		&gen.Return{X: id("x")},
	}}}
}

var binOps = []string{"&&", "||", "==", "!=", "<", "<=", ">", ">=", "+", "-", "*", "/", "&", "<<", ">>", "**", "%"}

func allProbes() []probe {
	var ps []probe
	// 1. every ordered pair of binary operators, both groupings, three operand sets
	operands := [][3]int64{{7, 3, 2}, {2, 5, 3}, {0, 1, 4}}
	for _, o1 := range binOps {
		for _, o2 := range binOps {
			for k, ops := range operands {
				a, b, c := in(ops[0]), in(ops[1]), in(ops[2])
				left := &gen.Binary{Op: o2, L: &gen.Binary{Op: o1, L: a, R: b}, R: c}
				right := &gen.Binary{Op: o1, L: a, R: &gen.Binary{Op: o2, L: b, R: c}}
				ps = append(ps, probe{name: fmt.Sprintf("prec:(a%sb)%sc#%d", o1, o2, k), sig: "precedence:" + o1 + "," + o2, p: &gen.Program{Stmts: []gen.Stmt{es(left)}}})
				ps = append(ps, probe{name: fmt.Sprintf("prec:a%s(b%sc)#%d", o1, o2, k), sig: "precedence:" + o1 + "," + o2, p: &gen.Program{Stmts: []gen.Stmt{es(right)}}})
			}
		}
		// prefix operators against each binary operator
		for _, pre := range []string{"-", "!"} {
			x := &gen.Binary{Op: o1, L: &gen.Prefix{Op: pre, X: in(3)}, R: in(2)}
			y := &gen.Prefix{Op: pre, X: &gen.Binary{Op: o1, L: in(3), R: in(2)}}
			ps = append(ps, probe{name: "prec:(" + pre + "a)" + o1 + "b", sig: "precedence:prefix" + pre + "," + o1, p: &gen.Program{Stmts: []gen.Stmt{es(x)}}})
			ps = append(ps, probe{name: "prec:" + pre + "(a" + o1 + "b)", sig: "precedence:prefix" + pre + "," + o1, p: &gen.Program{Stmts: []gen.Stmt{es(y)}}})
		}
		// `in` against each binary operator
		l := list(in(1), in(2), in(3))
		x := &gen.Binary{Op: o1, L: in(1), R: &gen.InExpr{X: in(2), C: l}}
		y := &gen.InExpr{X: &gen.Binary{Op: o1, L: in(1), R: in(2)}, C: l}
		ps = append(ps, probe{name: "prec:a" + o1 + "(b in l)", sig: "precedence:in," + o1, p: &gen.Program{Stmts: []gen.Stmt{es(x)}}})
		ps = append(ps, probe{name: "prec:(a" + o1 + "b) in l", sig: "precedence:in," + o1, p: &gen.Program{Stmts: []gen.Stmt{es(y)}}})
	}
	// 2. evaluation order with observable side effects: every binary operator, call arguments, list,
	//    map and set literals, index, slice (one effectful bound), method call, ternary, templates
	pre := func(body ...gen.Stmt) *gen.Program {
		st := []gen.Stmt{decl("log", list()), tickFn("t")}
		st = append(st, body...)
		st = append(st, es(id("log")))
		return &gen.Program{Stmts: st}
	}
	t := func(v int64) gen.Expr { return call(id("t"), in(v)) }
	for _, o := range binOps {
		ps = append(ps, probe{name: "order:t(1)" + o + "t(2)", sig: "eval-order:binary" + o, p: pre(decl("r", &gen.Binary{Op: o, L: t(1), R: t(2)}))})
		ps = append(ps, probe{name: "order:t(0)" + o + "t(2)", sig: "eval-order:binary" + o, p: pre(decl("r", &gen.Binary{Op: o, L: t(0), R: t(2)}))})
	}
	ps = append(ps, probe{name: "order:call-args", sig: "eval-order:call-args", p: pre(decl("r", call(id("t"), &gen.Binary{Op: "+", L: t(1), R: t(2)})), es(call(id("print"), t(3), t(4), t(5))))})
	ps = append(ps, probe{name: "order:list-literal", sig: "eval-order:list-literal", p: pre(decl("r", list(t(1), t(2), t(3))))})
	ps = append(ps, probe{name: "order:map-literal", sig: "eval-order:map-literal", p: pre(decl("r", &gen.MapLit{Keys: []string{"b", "a", "c"}, Vals: []gen.Expr{t(1), t(2), t(3)}}))})
	ps = append(ps, probe{name: "order:set-literal", sig: "eval-order:set-literal", p: pre(decl("r", &gen.SetLit{Items: []gen.Expr{t(1), t(2), t(3)}}))})
	ps = append(ps, probe{name: "order:index", sig: "eval-order:index", p: pre(decl("r", &gen.Index{X: call(id("t"), list(in(5), in(6))), I: t(1)}))})
	ps = append(ps, probe{name: "order:ternary", sig: "eval-order:ternary", p: pre(decl("r", &gen.Ternary{C: t(0), A: t(1), B: t(2)}))})
	ps = append(ps, probe{name: "order:template", sig: "eval-order:template", p: pre(decl("r", &gen.TemplateLit{Parts: []gen.TemplPart{{X: t(1)}, {Text: "-"}, {X: t(2)}}}))})
	ps = append(ps, probe{name: "order:method-args", sig: "eval-order:method-args", p: pre(decl("r", &gen.MethodCall{X: call(id("t"), list(in(9))), Name: "append", Args: []gen.Expr{t(2)}}))})
	ps = append(ps, probe{name: "order:assign-index-value-only", sig: "eval-order:index-assign", p: pre(decl("a", list(in(0), in(0))), &gen.Assign{Target: &gen.Index{X: id("a"), I: in(1)}, Op: "=", X: t(4)}, es(id("a")))})
	// known shapes (recorded findings are matched by these exact signatures)
	ps = append(ps, probe{name: "order:in-operands", sig: "eval-order:in-operands-right-before-left",
		p: pre(decl("r", &gen.InExpr{X: t(1), C: list(t(2))}))})
	ps = append(ps, probe{name: "order:not-in-operands", sig: "eval-order:in-operands-right-before-left",
		p: pre(decl("r", &gen.InExpr{X: t(1), C: list(t(2)), Not: true}))})
	ps = append(ps, probe{name: "compound-index-target-once", sig: "compound-index-assign:target-evaluated-twice",
		p: pre(decl("a", list(in(0), in(0), in(0))), &gen.Assign{Target: &gen.Index{X: id("a"), I: t(0)}, Op: "+=", X: in(10)}, es(id("a")))})
	ps = append(ps, probe{name: "compound-attr-target-once", sig: "compound-attr-assign:target-evaluated-twice",
		p: pre(decl("m", &gen.MapLit{Keys: []string{"k"}, Vals: []gen.Expr{in(1)}}), &gen.Assign{Target: &gen.Attr{X: call(id("t"), id("m")), Name: "k"}, Op: "+=", X: in(10)}, es(id("m")))})
	ps = append(ps, probe{name: "nil-default-param", sig: "default-param:nil-default-treated-as-required",
		p: &gen.Program{Stmts: []gen.Stmt{
			&gen.FuncDecl{F: &gen.FuncLit{Name: "f", Params: []gen.Param{{Name: "a"}, {Name: "b", Default: &gen.NilLit{}}}, Body: []gen.Stmt{&gen.Return{X: list(id("a"), id("b"))}}}},
			es(call(id("f"), in(1))),
		}}})
	return ps
}

func runProbes(o *out, only string) {
	for _, pr := range allProbes() {
		if only != "" && pr.name != only {
			continue
		}
		o.Programs++
		agree, decided, want, got, src, steps, herr := compare(pr.p)
		if herr != nil {
			o.HarnessErr = append(o.HarnessErr, fmt.Sprintf("probe %s: %v", pr.name, herr))
			continue
		}
		if !decided {
			o.Discarded++
			continue
		}
		o.Steps += int64(steps)
		o.ModelErr[errClass(want.Err)]++
		o.Feats["probe"]++
		if agree {
			o.Agree++
			continue
		}
		_ = got
		d := disagreement{Source: src, Probe: pr.name, Sig: pr.sig}
		_, _, w2, g2, _, _, _ := compare(pr.p)
		d.Diff = "probe " + pr.name + "\n" + diffOf(w2, g2)
		if len(o.Disagree) < 40 {
			o.Disagree = append(o.Disagree, d)
		}
	}
}
