package c01

import (
	"fmt"

	"verif/internal/gen"
)

type probe struct {
	name string
	sig  string // signature reported when it disagrees
	p    *gen.Program
}

func id(n string) *gen.Ident                   { return &gen.Ident{Name: n} }
func in(v int64) *gen.IntLit                   { return &gen.IntLit{V: v} }
func str(s string) *gen.StrLit                 { return &gen.StrLit{V: s} }
func call(f gen.Expr, a ...gen.Expr) *gen.Call { return &gen.Call{F: f, Args: a} }
func es(e gen.Expr) gen.Stmt                   { return &gen.ExprStmt{X: e} }
func decl(n string, e gen.Expr) gen.Stmt       { return &gen.VarDecl{Kind: ":=", Name: n, X: e} }
func list(items ...gen.Expr) *gen.ListLit      { return &gen.ListLit{Items: items} }

// tickFn: func <name>(x) { log.append(x); return x }  — makes evaluation order observable.
func tickFn(name string) gen.Stmt {
	return &gen.FuncDecl{F: &gen.FuncLit{Name: name, Params: []gen.Param{{Name: "x"}}, Body: []gen.Stmt{
		es(&gen.MethodCall{X: id("log"), Name: "append", Args: []gen.Expr{id("x")}}),
		&gen.Return{X: id("x")},
	}}}
}

var binOps = []string{"&&", "||", "==", "!=", "<", "<=", ">", ">=", "+", "-", "*", "/", "&", "<<", ">>", "**", "%"}

func allProbes() []probe {
	var ps []probe
	// 1. every ordered pair of binary operators, both groupings, three operand sets
	operands := [][3]int64{{7, 3, 2}, {2, 5, 3}, {0, 1, 4}}
	for _, o1 := range binOps {
		for _, o2 := range binOps {
			for k, ops := range operands {
				a, b, c := in(ops[0]), in(ops[1]), in(ops[2])
				left := &gen.Binary{Op: o2, L: &gen.Binary{Op: o1, L: a, R: b}, R: c}
				right := &gen.Binary{Op: o1, L: a, R: &gen.Binary{Op: o2, L: b, R: c}}
				ps = append(ps, probe{name: fmt.Sprintf("prec:(a%sb)%sc#%d", o1, o2, k), sig: "precedence:" + o1 + "," + o2, p: &gen.Program{Stmts: []gen.Stmt{es(left)}}})
				ps = append(ps, probe{name: fmt.Sprintf("prec:a%s(b%sc)#%d", o1, o2, k), sig: "precedence:" + o1 + "," + o2, p: &gen.Program{Stmts: []gen.Stmt{es(right)}}})
			}
		}
		// prefix operators against each binary operator
		for _, pre := range []string{"-", "!"} {
			x := &gen.Binary{Op: o1, L: &gen.Prefix{Op: pre, X: in(3)}, R: in(2)}
			y := &gen.Prefix{Op: pre, X: &gen.Binary{Op: o1, L: in(3), R: in(2)}}
			ps = append(ps, probe{name: "prec:(" + pre + "a)" + o1 + "b", sig: "precedence:prefix" + pre + "," + o1, p: &gen.Program{Stmts: []gen.Stmt{es(x)}}})
			ps = append(ps, probe{name: "prec:" + pre + "(a" + o1 + "b)", sig: "precedence:prefix" + pre + "," + o1, p: &gen.Program{Stmts: []gen.Stmt{es(y)}}})
		}
		// `in` against each binary operator
		l := list(in(1), in(2), in(3))
		x := &gen.Binary{Op: o1, L: in(1), R: &gen.InExpr{X: in(2), C: l}}
		y := &gen.InExpr{X: &gen.Binary{Op: o1, L: in(1), R: in(2)}, C: l}
		ps = append(ps, probe{name: "prec:a" + o1 + "(b in l)", sig: "precedence:in," + o1, p: &gen.Program{Stmts: []gen.Stmt{es(x)}}})
		ps = append(ps, probe{name: "prec:(a" + o1 + "b) in l", sig: "precedence:in," + o1, p: &gen.Program{Stmts: []gen.Stmt{es(y)}}})
	}
	// 2. evaluation order with observable side effects: every binary operator, call arguments, list,
	//    map and set literals, index, slice (one effectful bound), method call, ternary, templates
	pre := func(body ...gen.Stmt) *gen.Program {
		st := []gen.Stmt{decl("log", list()), tickFn("t")}
		st = append(st, body...)
		st = append(st, es(id("log")))
		return &gen.Program{Stmts: st}
	}
	t := func(v int64) gen.Expr { return call(id("t"), in(v)) }
	for _, o := range binOps {
		ps = append(ps, probe{name: "order:t(1)" + o + "t(2)", sig: "eval-order:binary" + o, p: pre(decl("r", &gen.Binary{Op: o, L: t(1), R: t(2)}))})
		ps = append(ps, probe{name: "order:t(0)" + o + "t(2)", sig: "eval-order:binary" + o, p: pre(decl("r", &gen.Binary{Op: o, L: t(0), R: t(2)}))})
	}
	ps = append(ps, probe{name: "order:call-args", sig: "eval-order:call-args", p: pre(decl("r", call(id("t"), &gen.Binary{Op: "+", L: t(1), R: t(2)})), es(call(id("print"), t(3), t(4), t(5))))})
	ps = append(ps, probe{name: "order:list-literal", sig: "eval-order:list-literal", p: pre(decl("r", list(t(1), t(2), t(3))))})
	ps = append(ps, probe{name: "order:map-literal", sig: "eval-order:map-literal", p: pre(decl("r", &gen.MapLit{Keys: []string{"b", "a", "c"}, Vals: []gen.Expr{t(1), t(2), t(3)}}))})
	ps = append(ps, probe{name: "order:set-literal", sig: "eval-order:set-literal", p: pre(decl("r", &gen.SetLit{Items: []gen.Expr{t(1), t(2), t(3)}}))})
	ps = append(ps, probe{name: "order:index", sig: "eval-order:index", p: pre(decl("r", &gen.Index{X: call(id("t"), list(in(5), in(6))), I: t(1)}))})
	ps = append(ps, probe{name: "order:ternary", sig: "eval-order:ternary", p: pre(decl("r", &gen.Ternary{C: t(0), A: t(1), B: t(2)}))})
	ps = append(ps, probe{name: "order:template", sig: "eval-order:template", p: pre(decl("r", &gen.TemplateLit{Parts: []gen.TemplPart{{X: t(1)}, {Text: "-"}, {X: t(2)}}}))})
	ps = append(ps, probe{name: "order:method-args", sig: "eval-order:method-args", p: pre(decl("r", &gen.MethodCall{X: call(id("t"), list(in(9))), Name: "append", Args: []gen.Expr{t(2)}}))})
	ps = append(ps, probe{name: "order:assign-index-value-only", sig: "eval-order:index-assign", p: pre(decl("a", list(in(0), in(0))), &gen.Assign{Target: &gen.Index{X: id("a"), I: in(1)}, Op: "=", X: t(4)}, es(id("a")))})
	// 3. lexical scoping and shadowing: a name resolves to the innermost declaration compiled before the use
	ifT := func(body ...gen.Stmt) gen.Stmt {
		return es(&gen.IfExpr{Cond: &gen.BoolLit{V: true}, Then: body})
	}
	asg := func(n string, e gen.Expr) gen.Stmt { return &gen.Assign{Target: id(n), Op: "=", X: e} }
	add := func(a, b gen.Expr) gen.Expr { return &gen.Binary{Op: "+", L: a, R: b} }
	fnlit := func(params []string, body ...gen.Stmt) *gen.FuncLit {
		f := &gen.FuncLit{Body: body}
		for _, p := range params {
			f.Params = append(f.Params, gen.Param{Name: p})
		}
		return f
	}
	ret := func(e gen.Expr) gen.Stmt { return &gen.Return{X: e} }
	scope := func(name string, stmts ...gen.Stmt) {
		ps = append(ps, probe{name: "scope:" + name, sig: "scoping:" + name, p: &gen.Program{Stmts: stmts}})
	}
	// free variable used first, then shadowed in a block, then used from a deeper block (read)
	scope("free-then-shadow-in-block-read",
		&gen.FuncDecl{F: &gen.FuncLit{Name: "outer", Body: []gen.Stmt{
			decl("x", str("outer")),
			decl("inner", fnlit(nil,
				decl("a", id("x")),
				ifT(decl("x", str("shadow")), ifT(asg("a", add(add(id("a"), str("/")), id("x"))))),
				ret(id("a")))),
			ret(call(id("inner")))}}},
		es(call(id("outer"))))
	// ... (write): the shadow is updated from deeper blocks, the captured outer binding stays untouched
	scope("free-then-shadow-in-block-write",
		&gen.FuncDecl{F: &gen.FuncLit{Name: "outer", Body: []gen.Stmt{
			decl("x", in(100)),
			decl("inner", fnlit(nil,
				decl("y", id("x")),
				decl("z", in(0)),
				ifT(decl("x", in(0)),
					&gen.For{Kind: "three", Init: decl("i", in(0)), Cond: &gen.Binary{Op: "<", L: id("i"), R: in(3)}, Post: &gen.IncDec{Name: "i", Op: "++"}, Body: []gen.Stmt{
						ifT(&gen.Assign{Target: id("x"), Op: "+=", X: in(2)})}},
					asg("z", id("x"))),
				ret(list(id("y"), id("z"), id("x"))))),
			ret(list(call(id("inner")), id("x")))}}},
		es(call(id("outer"))))
	// a closure compiled before a later declaration of the same name in an enclosing scope keeps the outer binding
	scope("closure-before-later-declaration",
		decl("g", in(1)),
		&gen.FuncDecl{F: &gen.FuncLit{Name: "f", Body: []gen.Stmt{
			decl("bump", fnlit(nil, &gen.Assign{Target: id("g"), Op: "+=", X: in(10)}, ret(id("g")))),
			decl("g", str("local")),
			ret(list(call(id("bump")), id("g")))}}},
		es(list(call(id("f")), id("g"))))
	// parameter shadowed in the body's first block, loop variable shadowing an outer name, nested function parameter shadowing
	scope("param-and-loop-shadowing",
		decl("i", str("global-i")),
		&gen.FuncDecl{F: &gen.FuncLit{Name: "f", Params: []gen.Param{{Name: "p"}}, Body: []gen.Stmt{
			decl("acc", list()),
			ifT(decl("p", add(id("p"), in(100))), es(&gen.MethodCall{X: id("acc"), Name: "append", Args: []gen.Expr{id("p")}})),
			&gen.For{Kind: "three", Init: decl("i", in(0)), Cond: &gen.Binary{Op: "<", L: id("i"), R: in(2)}, Post: &gen.IncDec{Name: "i", Op: "++"}, Body: []gen.Stmt{
				decl("p", add(id("i"), in(7))),
				es(&gen.MethodCall{X: id("acc"), Name: "append", Args: []gen.Expr{id("p")}})}},
			decl("h", fnlit([]string{"p"}, ret(add(id("p"), in(1000))))),
			es(&gen.MethodCall{X: id("acc"), Name: "append", Args: []gen.Expr{call(id("h"), in(1))}}),
			ret(list(id("acc"), id("p"), id("i")))}}},
		es(list(call(id("f"), in(1)), id("i"))))
	// switch-case and else-branch scopes; sibling blocks do not see each other's declarations
	scope("sibling-blocks",
		&gen.FuncDecl{F: &gen.FuncLit{Name: "f", Params: []gen.Param{{Name: "k"}}, Body: []gen.Stmt{
			decl("v", str("fn")),
			es(&gen.SwitchExpr{Subject: id("k"), Cases: []gen.SwitchCase{
				{Values: []gen.Expr{in(1)}, Body: []gen.Stmt{decl("v", str("case1")), asg("v", add(id("v"), str("!")))}},
				{Default: true, Body: []gen.Stmt{asg("v", add(id("v"), str("+default")))}}}}),
			es(&gen.IfExpr{Cond: &gen.Binary{Op: "==", L: id("k"), R: in(2)}, Then: []gen.Stmt{decl("v", str("then"))}, HasElse: true, Else: []gen.Stmt{asg("v", add(id("v"), str("+else")))}}),
			ret(id("v"))}}},
		es(list(call(id("f"), in(1)), call(id("f"), in(2)), call(id("f"), in(3)))))
	// closures capture the shadow when created inside its block and the outer binding when created outside
	scope("closures-capture-innermost",
		&gen.FuncDecl{F: &gen.FuncLit{Name: "f", Body: []gen.Stmt{
			decl("x", in(1)),
			decl("fs", list()),
			es(&gen.MethodCall{X: id("fs"), Name: "append", Args: []gen.Expr{fnlit(nil, &gen.Assign{Target: id("x"), Op: "+=", X: in(1)}, ret(id("x")))}}),
			ifT(decl("x", in(50)),
				es(&gen.MethodCall{X: id("fs"), Name: "append", Args: []gen.Expr{fnlit(nil, &gen.Assign{Target: id("x"), Op: "+=", X: in(1)}, ret(id("x")))}}),
				ifT(es(&gen.MethodCall{X: id("fs"), Name: "append", Args: []gen.Expr{fnlit(nil, &gen.Assign{Target: id("x"), Op: "+=", X: in(5)}, ret(id("x")))}}))),
			ret(list(call(&gen.Index{X: id("fs"), I: in(0)}), call(&gen.Index{X: id("fs"), I: in(1)}), call(&gen.Index{X: id("fs"), I: in(2)}), call(&gen.Index{X: id("fs"), I: in(0)}), id("x")))}}},
		es(call(id("f"))))
	// a named function literal's own name, shadowed by a local of the same name in a block
	scope("self-name-shadowed",
		decl("r", fnlit(nil)),
		asg("r", &gen.FuncLit{Name: "me", Params: []gen.Param{{Name: "n"}}, Body: []gen.Stmt{
			es(&gen.IfExpr{Cond: &gen.Binary{Op: "<=", L: id("n"), R: in(0)}, Then: []gen.Stmt{ret(in(0))}}),
			ifT(decl("me", in(5)), es(&gen.IfExpr{Cond: &gen.Binary{Op: "==", L: id("n"), R: in(1)}, Then: []gen.Stmt{ret(add(id("me"), in(1)))}})),
			ret(add(in(1), call(id("me"), &gen.Binary{Op: "-", L: id("n"), R: in(1)})))}}),
		es(list(call(id("r"), in(1)), call(id("r"), in(3)))))

	// known shapes (recorded findings are matched by these exact signatures)
	ps = append(ps, probe{name: "order:in-operands", sig: "eval-order:in-operands-right-before-left",
		p: pre(decl("r", &gen.InExpr{X: t(1), C: list(t(2))}))})
	ps = append(ps, probe{name: "order:not-in-operands", sig: "eval-order:in-operands-right-before-left",
		p: pre(decl("r", &gen.InExpr{X: t(1), C: list(t(2)), Not: true}))})
	ps = append(ps, probe{name: "compound-index-target-once", sig: "compound-index-assign:target-evaluated-twice",
		p: pre(decl("a", list(in(0), in(0), in(0))), &gen.Assign{Target: &gen.Index{X: id("a"), I: t(0)}, Op: "+=", X: in(10)}, es(id("a")))})
	ps = append(ps, probe{name: "compound-attr-target-once", sig: "compound-attr-assign:target-evaluated-twice",
		p: pre(decl("m", &gen.MapLit{Keys: []string{"k"}, Vals: []gen.Expr{in(1)}}), &gen.Assign{Target: &gen.Attr{X: call(id("t"), id("m")), Name: "k"}, Op: "+=", X: in(10)}, es(id("m")))})
	ps = append(ps, probe{name: "nil-default-param", sig: "default-param:nil-default-treated-as-required",
		p: &gen.Program{Stmts: []gen.Stmt{
			&gen.FuncDecl{F: &gen.FuncLit{Name: "f", Params: []gen.Param{{Name: "a"}, {Name: "b", Default: &gen.NilLit{}}}, Body: []gen.Stmt{&gen.Return{X: list(id("a"), id("b"))}}}},
			es(call(id("f"), in(1))),
		}}})
	return ps
}

func runProbes(o *out, only string) {
	for _, pr := range allProbes() {
		if only != "" && pr.name != only {
			continue
		}
		o.Programs++
		agree, decided, want, got, src, steps, herr := compare(pr.p)
		if herr != nil {
			o.HarnessErr = append(o.HarnessErr, fmt.Sprintf("probe %s: %v", pr.name, herr))
			continue
		}
		if !decided {
			o.Discarded++
			continue
		}
		o.Steps += int64(steps)
		o.ModelErr[errClass(want.Err)]++
		o.Feats["probe"]++
		if agree {
			o.Agree++
			continue
		}
		_ = got
		d := disagreement{Source: src, Probe: pr.name, Sig: pr.sig}
		_, _, w2, g2, _, _, _ := compare(pr.p)
		d.Diff = "probe " + pr.name + "\n" + diffOf(w2, g2)
		if len(o.Disagree) < 40 {
			o.Disagree = append(o.Disagree, d)
		}
	}
}
