package props

import "verif/internal/props/c14"

func init() { registrars = append(registrars, c14.Register) }
