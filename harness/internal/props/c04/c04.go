// Package c04: statements are stack-neutral; iteration count never exhausts VM capacity.
// Three monitors over generated programs:
//  1. emitted-code invariant: abstract interpretation of every compiled code object over its control-flow
//     graph with the pinned per-opcode stack effects (all paths, also the ones not executed);
//  2. depth at a hook: a host builtin called between all statements samples VerifSP()-VerifFrameBaseSP();
//     per site the relative depth must be one constant over the whole run; a finished run leaves sp == 0;
//  3. scaled bounds: loop-dominated programs run with bounds 10, 3*10^3 and 10^5 (3x and 100x the
//     1024-slot stack) must agree with the reference interpreter and never fail with a stack overflow.
package c04

import (
	"context"
	"encoding/json"
	"fmt"
	"runtime/debug"
	"sort"
	"strings"
	"sync"
	"testing/fstest"
	"time"

	"github.com/risor-io/risor"
	"github.com/risor-io/risor/compiler"
	"github.com/risor-io/risor/importer"
	"github.com/risor-io/risor/object"
	"github.com/risor-io/risor/op"
	ros "github.com/risor-io/risor/os"
	"github.com/risor-io/risor/parser"
	"github.com/risor-io/risor/vm"

	"verif/internal/eng"
	"verif/internal/gen"
	"verif/internal/mon"
	"verif/internal/rz"
)

const ID = "C04"

func Register() {
	mon.Register(&mon.Prop{ID: ID, Drive: drive})
	mon.RegisterWorker(ID, worker)
}

// ---------------------------------------------------------------------------------------
// monitor 1: emitted-code invariant

type succ struct {
	to     int
	effect int
}

// successors returns the successors of the instruction at ip with the stack effect along each edge,
// whether the instruction is terminal, and the minimal height it needs.
func successors(code *compiler.Code, ip int) (next []succ, terminal bool, need int, size int, err error) {
	opcode := code.Instruction(ip)
	info := op.GetInfo(opcode)
	size = 1 + info.OperandCount
	operand := func(i int) int { return int(code.Instruction(ip + 1 + i)) }
	fall := ip + size
	one := func(effect, need0 int) {
		next = []succ{{fall, effect}}
		need = need0
	}
	switch opcode {
	case op.Nop:
		one(0, 0)
	case op.Halt:
		terminal = true
	case op.Call, op.Partial:
		n := operand(0)
		one(-n, n+1)
	case op.ReturnValue:
		terminal = true
		need = 1
	case op.Defer, op.Go:
		one(-1, 1)
	case op.JumpBackward:
		next = []succ{{ip - operand(0), 0}}
	case op.JumpForward:
		next = []succ{{ip + operand(0), 0}}
	case op.PopJumpForwardIfFalse, op.PopJumpForwardIfTrue:
		next = []succ{{fall, -1}, {ip + operand(0), -1}}
		need = 1
	case op.LoadAttr:
		one(0, 1)
	case op.LoadFast, op.LoadFree, op.LoadGlobal, op.LoadConst, op.Nil, op.True, op.False, op.MakeCell:
		one(1, 0)
	case op.StoreAttr:
		one(-2, 2)
	case op.StoreFast, op.StoreFree, op.StoreGlobal, op.PopTop:
		one(-1, 1)
	case op.BinaryOp, op.CompareOp, op.BinarySubscr, op.ContainsOp:
		one(-1, 2)
	case op.UnaryNegative, op.UnaryNot, op.Length, op.GetIter, op.Range, op.Import, op.Receive:
		one(0, 1)
	case op.BuildList, op.BuildSet, op.BuildString:
		n := operand(0)
		one(1-n, n)
	case op.BuildMap:
		n := operand(0)
		one(1-2*n, 2*n)
	case op.StoreSubscr:
		one(-3, 3)
	case op.Slice:
		one(-2, 3)
	case op.Unpack:
		n := operand(0)
		one(n-1, 1)
	case op.Swap:
		one(0, operand(0)+1)
	case op.Copy:
		one(1, operand(0)+1)
	case op.ForIter:
		jump, names := operand(0), operand(1)
		k := map[int]int{0: 0, 1: 1, 2: 2, 3: 1}[names]
		next = []succ{{fall, k}, {ip + jump, -1}}
		need = 1
	case op.FromImport:
		parents, imports := operand(0), operand(1)
		one(-parents, parents+imports)
	case op.Send:
		one(-2, 2)
	case op.LoadClosure:
		n := operand(1)
		one(1-n, n)
	default:
		err = fmt.Errorf("unknown opcode %d at %d", opcode, ip)
	}
	return
}

type codeFinding struct {
	Sig    string
	Detail string
}

// checkCode walks the control-flow graph of one code object.
func checkCode(code *compiler.Code, isMain bool) (instrs int, edges int, f *codeFinding) {
	n := code.InstructionCount()
	height := make(map[int]int, n)
	height[0] = 0
	work := []int{0}
	seenEnd := false
	endHeight := 0
	lastReturn, lastReturnHeight := -1, 0
	name := code.CodeName()
	if isMain {
		name = "main"
	} else {
		name = "function"
	}
	for len(work) > 0 {
		ip := work[len(work)-1]
		work = work[:len(work)-1]
		h := height[ip]
		if ip == n {
			if seenEnd && endHeight != h {
				return instrs, edges, &codeFinding{"emitted-code:inconsistent-height-at-end:" + name, fmt.Sprintf("end of code reached with heights %d and %d", endHeight, h)}
			}
			seenEnd, endHeight = true, h
			continue
		}
		if ip < 0 || ip > n {
			return instrs, edges, &codeFinding{"emitted-code:jump-outside-code:" + name, fmt.Sprintf("jump to %d (code has %d slots)", ip, n)}
		}
		next, terminal, need, _, err := successors(code, ip)
		if err != nil {
			return instrs, edges, &codeFinding{"emitted-code:unknown-opcode", err.Error()}
		}
		instrs++
		opname := op.GetInfo(code.Instruction(ip)).Name
		if h < need {
			return instrs, edges, &codeFinding{"emitted-code:stack-underflow:" + opname, fmt.Sprintf("%s at %d needs %d values, height is %d", opname, ip, need, h)}
		}
		if terminal {
			if !isMain && code.Instruction(ip) == op.ReturnValue && ip > lastReturn {
				lastReturn, lastReturnHeight = ip, h
			}
			continue
		}
		for _, s := range next {
			edges++
			nh := h + s.effect
			if nh < 0 {
				return instrs, edges, &codeFinding{"emitted-code:stack-underflow:" + opname, fmt.Sprintf("%s at %d drives the height to %d", opname, ip, nh)}
			}
			if old, ok := height[s.to]; ok {
				if old != nh {
					toName := "end"
					if s.to < n {
						toName = op.GetInfo(code.Instruction(s.to)).Name
					}
					kind := "forward-merge"
					if s.to <= ip {
						kind = "loop-back-edge"
					}
					return instrs, edges, &codeFinding{"emitted-code:inconsistent-height:" + kind + ":" + opname + "->" + toName + ":" + name,
						fmt.Sprintf("instruction %d (%s) is reached with height %d and, from %d (%s), with height %d", s.to, toName, old, ip, opname, nh)}
				}
				continue
			}
			height[s.to] = nh
			work = append(work, s.to)
		}
	}
	if isMain && seenEnd && endHeight != 1 {
		return instrs, edges, &codeFinding{"emitted-code:main-ends-with-height", fmt.Sprintf("main code ends with %d values on the stack (expected exactly the result)", endHeight)}
	}
	if !isMain && lastReturn >= 0 && lastReturnHeight != 1 {
		// the return that ends the body sits outside every loop and switch: nothing but the result may be
		// on the frame's stack there (statements of the body that left values behind show up here)
		return instrs, edges, &codeFinding{"emitted-code:function-body-ends-with-height", fmt.Sprintf("the last return of the function body (instruction %d) is reached with %d values on the stack (expected exactly the result)", lastReturn, lastReturnHeight)}
	}
	if !isMain && seenEnd {
		return instrs, edges, &codeFinding{"emitted-code:function-falls-off-end", "a function body can run past its last instruction"}
	}
	return instrs, edges, nil
}

// ---------------------------------------------------------------------------------------
// monitor 2: depth at a hook

type depthRun struct {
	Sites   map[int][]int // site -> distinct relative depths seen
	Samples int
	FinalSP int
	Err     string
	Result  string
	Out     string
	GoPanic string
	ErrText string
}

func runWithDepthHook(src string, timeout time.Duration) (dr depthRun) {
	ctx, cancel := context.WithTimeout(context.Background(), timeout)
	defer cancel()
	dr.Sites = map[int][]int{}
	stdout := &rz.OutFile{}
	var machine *vm.VirtualMachine
	var mu sync.Mutex
	hook := object.NewBuiltin("__sp", func(ctx context.Context, args ...object.Object) object.Object {
		if machine == nil || len(args) != 1 {
			return object.Nil
		}
		site, ok := args[0].(*object.Int)
		if !ok {
			return object.Nil
		}
		rel := machine.VerifSP() - machine.VerifFrameBaseSP()
		mu.Lock()
		dr.Samples++
		seen := false
		for _, d := range dr.Sites[int(site.Value())] {
			if d == rel {
				seen = true
			}
		}
		if !seen {
			dr.Sites[int(site.Value())] = append(dr.Sites[int(site.Value())], rel)
		}
		mu.Unlock()
		return object.Nil
	})
	defer func() {
		if r := recover(); r != nil {
			dr.GoPanic = fmt.Sprintf("%v\n%s", r, debug.Stack())
		}
	}()
	vos := ros.NewVirtualOS(ctx, ros.WithStdout(stdout))
	cfg := risor.NewConfig(risor.WithOS(vos), risor.WithGlobal("__sp", hook))
	prog, err := parser.Parse(ctx, src)
	if err != nil {
		dr.Err, dr.ErrText = "front-end", err.Error()
		return
	}
	code, err := compiler.Compile(prog, cfg.CompilerOpts()...)
	if err != nil {
		dr.Err, dr.ErrText = "front-end", err.Error()
		return
	}
	machine = vm.New(code, cfg.VMOpts()...)
	runErr := machine.Run(ctx)
	dr.Out = stdout.String()
	dr.FinalSP = machine.VerifSP()
	if runErr != nil {
		dr.ErrText = runErr.Error()
		dr.Err = rz.ClassifyErr(dr.ErrText)
		if ctx.Err() != nil {
			dr.Err = "timeout"
		}
		return
	}
	if tos, ok := machine.TOS(); ok && tos != nil {
		dr.Result = rz.RenderObj(tos)
	}
	return
}

// ---------------------------------------------------------------------------------------

type caseData struct {
	eng.Batch
	Kind   string  `json:"kind"` // "code+depth" or "scaled"
	Bounds []int64 `json:"bounds,omitempty"`
}

type failure struct {
	Index  int    `json:"index"`
	Sig    string `json:"sig"`
	Detail string `json:"detail"`
	Source string `json:"source"`
	Bound  int64  `json:"bound,omitempty"`
}

type out struct {
	Programs   int       `json:"programs"`
	CodeObjs   int       `json:"code_objs"`
	Instrs     int       `json:"instrs"`
	Edges      int       `json:"edges"`
	Sites      int       `json:"sites"`
	DepthSamp  int       `json:"depth_samples"`
	Finished   int       `json:"finished"`
	ScaledRuns int       `json:"scaled_runs"`
	MaxBound   int64     `json:"max_bound"`
	MaxIter    int64     `json:"max_iter"`
	Discarded  int       `json:"discarded"`
	TimedOut   int       `json:"timed_out"`
	Sigs       []string  `json:"sigs"`
	Fail       []failure `json:"fail"`
	Samples    []string  `json:"samples"`
	Harness    []string  `json:"harness"`
}

func hostSp(in *gen.Interp, args []gen.Value) (gen.Value, *gen.RErr) { return gen.NilV{}, nil }

func model(p *gen.Program, maxSteps int) (gen.Outcome, bool, int, error) {
	in := gen.NewInterp()
	in.MaxSteps = maxSteps
	in.Host = map[string]func(*gen.Interp, []gen.Value) (gen.Value, *gen.RErr){"__sp": hostSp}
	var out gen.Outcome
	var ok bool
	var err error
	func() {
		defer func() {
			if r := recover(); r != nil {
				err = fmt.Errorf("model panic: %v", r)
			}
		}()
		out, ok = in.Run(p)
	}()
	return out, ok, in.Steps, err
}

func hasLoopNest(p *gen.Program) bool {
	kinds, _ := gen.Features(p)
	for k := range kinds {
		if strings.HasPrefix(k, "break@") || strings.HasPrefix(k, "continue@") {
			return true
		}
	}
	loop := false
	for k := range kinds {
		if strings.HasPrefix(k, "for:") {
			loop = true
		}
	}
	return loop && (kinds["switch"] > 0 || kinds["if"] > 0)
}

func worker(kind string, data json.RawMessage) any {
	var c caseData
	if err := json.Unmarshal(data, &c); err != nil {
		panic(err)
	}
	o := &out{}
	addFail := func(f failure) {
		if len(o.Fail) < 10 {
			o.Fail = append(o.Fail, f)
		}
	}
	if c.Kind == "probes" {
		runProbes(o, addFail)
		return o
	}
	timeouts := 0
	for i := c.From; i < c.From+c.N && timeouts < 2; i++ {
		if c.Kind == "scaled" {
			r := mon.NewRand(c.Seed).SplitN(i)
			var prev string
			prevSteps := 0
			for bi, bound := range c.Bounds {
				g := gen.NewGen(mon.NewRand(c.Seed).SplitN(i), gen.MixControl) // same stream for every bound: same program shape
				_ = r
				p := g.LoopProgram(60, bound)
				src := gen.RenderProgram(p)
				if bi == 0 {
					o.Programs++
				}
				if bound > 3000 && prevSteps > 120000 {
					break // the largest bound would cost the model more than ~4*10^6 steps for this body
				}
				want, ok, steps, err := model(p, 8000000)
				prevSteps = steps
				if err != nil {
					o.Harness = append(o.Harness, err.Error()+"\n"+src)
					break
				}
				if !ok {
					o.Discarded++
					break
				}
				got := rz.Run(src, rz.Opts{GlobalNames: eng.GlobalNames(want), Timeout: 60 * time.Second})
				o.ScaledRuns++
				if bound > o.MaxBound {
					o.MaxBound = bound
				}
				if int64(steps) > o.MaxIter {
					o.MaxIter = int64(steps)
				}
				if got.Err == "timeout" {
					// slowness is not a stack-neutrality question: inconclusive, never a violation
					timeouts++
					o.TimedOut++
					break
				}
				if d := rz.Diff(want, got); d != "" {
					sig := "scaled-bound:disagrees-with-model"
					if strings.Contains(got.ErrText, "index out of range [1024]") || strings.Contains(got.ErrText, "stack overflow") {
						sig = "scaled-bound:stack-overflow-from-iteration-count"
					} else if want.Err == "" && got.Err == "panic" {
						sig = "scaled-bound:panic"
					}
					addFail(failure{Index: i, Sig: sig, Detail: fmt.Sprintf("bound %d: %s", bound, d), Source: src, Bound: bound})
					break
				}
				if got.Err == "" && got.FinalSP != 0 {
					addFail(failure{Index: i, Sig: "finished-run-leaves-extra-values", Detail: fmt.Sprintf("bound %d: sp after the run is %d (expected 0)", bound, got.FinalSP), Source: src, Bound: bound})
					break
				}
				_ = prev
				if bi == len(c.Bounds)-1 {
					o.Sigs = append(o.Sigs, "scaled:"+eng.FeatureSig(p))
				}
			}
			continue
		}
		// code + depth monitors on the ordinary generator's programs (control-heavy mixes dominate)
		p, _ := c.Batch.Program(i)
		o.Programs++
		// monitor 1 on the un-instrumented program
		src0 := gen.RenderProgram(p)
		cc := rz.Compile(src0, rz.Opts{})
		if cc.Code != nil {
			for ci, code := range cc.Code.Flatten() {
				n, e, f := checkCode(code, ci == 0 && code.IsRoot())
				o.CodeObjs++
				o.Instrs += n
				o.Edges += e
				if f != nil {
					addFail(failure{Index: i, Sig: f.Sig, Detail: f.Detail + "\ncode object: " + code.CodeName(), Source: src0})
					break
				}
			}
		}
		// monitor 2 on the instrumented program
		sites := gen.Instrument(p, "__sp")
		want, ok, steps, err := model(p, 400000)
		if err != nil {
			o.Harness = append(o.Harness, err.Error()+"\n"+src0)
			continue
		}
		if !ok {
			o.Discarded++
			continue
		}
		src := gen.RenderProgram(p)
		dr := runWithDepthHook(src, 10*time.Second)
		if dr.Err == "timeout" {
			timeouts++
			continue
		}
		o.Sites += len(dr.Sites)
		o.DepthSamp += dr.Samples
		_ = sites
		if dr.GoPanic != "" {
			addFail(failure{Index: i, Sig: "go-panic-escaped", Detail: mon.Truncate(dr.GoPanic, 1500), Source: src})
			continue
		}
		var bad []string
		for site, depths := range dr.Sites {
			if len(depths) > 1 {
				sort.Ints(depths)
				bad = append(bad, fmt.Sprintf("site %d: relative depths %v", site, depths))
			}
		}
		if len(bad) > 0 {
			sort.Strings(bad)
			addFail(failure{Index: i, Sig: "depth-at-statement-boundary-not-constant", Detail: strings.Join(bad, "\n"), Source: src})
			continue
		}
		if dr.Err == "" {
			o.Finished++
			if dr.FinalSP != 0 {
				addFail(failure{Index: i, Sig: "finished-run-leaves-extra-values", Detail: fmt.Sprintf("sp after the run is %d (expected 0: exactly the result)", dr.FinalSP), Source: src})
				continue
			}
			if want.Err == "" && dr.Result != want.Result {
				addFail(failure{Index: i, Sig: "result-differs-from-model", Detail: fmt.Sprintf("model %s, real %s", want.Result, dr.Result), Source: src})
				continue
			}
		}
		if steps >= 20 && hasLoopNest(p) {
			o.Sigs = append(o.Sigs, eng.FeatureSig(p))
		}
		if len(o.Samples) < 1 && i%9 == 0 && hasLoopNest(p) {
			o.Samples = append(o.Samples, src)
		}
	}
	return o
}

// runProbes: fixed source programs for shapes the generator does not produce.
func runProbes(o *out, addFail func(failure)) {
	type probe struct {
		name, sig, src string
		modules        map[string]string
		wantResult     string
	}
	probes := []probe{
		// importing file-based modules must not leave their last value on the importer's stack
		{name: "import-module-value", sig: "import-leaves-module-value-on-stack", src: "import modm\nimport modn as q\nfrom modm import f\n[modm.f(2), q.g(3), f(4)]", wantResult: "list:[3, 9, 5]",
			modules: map[string]string{"modm.risor": "func f(x) { return x + 1 }\n\"the module's last value\"\n", "modn.risor": "func g(x) { return x * 3 }\n[1, 2, 3]\n"}},
		{name: "import-in-loop", sig: "import-leaves-module-value-on-stack", src: "t := 0\nfor i := 0; i < 1500; i++ {\n  import modm\n  t += modm.f(i)\n}\nt", wantResult: "int:1125750",
			modules: map[string]string{"modm.risor": "func f(x) { return x + 1 }\n99\n"}},
		// recorded finding: break/continue inside an expression that already has operands on the stack
		{name: "continue-inside-list-literal", sig: "control-flow-out-of-expression-with-pending-operands", src: "x := 0\nfor i := 0; i < 3000; i++ {\n  y := [1, 2, if i % 2 == 0 { continue } else { 3 }]\n  x++\n}\nx", wantResult: "int:1500"},
		{name: "break-inside-call-arguments", sig: "control-flow-out-of-expression-with-pending-operands", src: "x := 0\nfor j := 0; j < 1500; j++ {\n  for i := 0; i < 2; i++ {\n    x += len([7, 8, if i == 1 { break } else { 9 }])\n  }\n}\nx", wantResult: "int:4500"},
	}
	for _, pr := range probes {
		o.Programs++
		res, finalSP, errText := runProbe(pr.src, pr.modules)
		switch {
		case errText != "":
			addFail(failure{Sig: pr.sig, Detail: fmt.Sprintf("probe %s: %s", pr.name, errText), Source: pr.src})
		case res != pr.wantResult:
			addFail(failure{Sig: pr.sig + ":wrong-result", Detail: fmt.Sprintf("probe %s: result %s, expected %s", pr.name, res, pr.wantResult), Source: pr.src})
		case finalSP != 0:
			addFail(failure{Sig: pr.sig, Detail: fmt.Sprintf("probe %s: sp after the run is %d (expected 0)", pr.name, finalSP), Source: pr.src})
		default:
			o.Finished++
		}
		o.Sigs = append(o.Sigs, "probe:"+pr.name)
	}
}

func runProbe(src string, modules map[string]string) (result string, finalSP int, errText string) {
	ctx, cancel := context.WithTimeout(context.Background(), 20*time.Second)
	defer cancel()
	defer func() {
		if r := recover(); r != nil {
			errText = fmt.Sprintf("go panic: %v", r)
		}
	}()
	opts := []risor.Option{risor.WithOS(ros.NewVirtualOS(ctx))}
	var cfg *risor.Config
	if len(modules) > 0 {
		mfs := fstest.MapFS{}
		for name, text := range modules {
			mfs[name] = &fstest.MapFile{Data: []byte(text)}
		}
		names := risor.NewConfig().GlobalNames()
		imp := importer.NewFSImporter(importer.FSImporterOptions{GlobalNames: names, SourceFS: mfs, Extensions: []string{".risor"}})
		opts = append(opts, risor.WithImporter(imp))
	}
	cfg = risor.NewConfig(opts...)
	prog, err := parser.Parse(ctx, src)
	if err != nil {
		return "", 0, err.Error()
	}
	code, err := compiler.Compile(prog, cfg.CompilerOpts()...)
	if err != nil {
		return "", 0, err.Error()
	}
	machine := vm.New(code, cfg.VMOpts()...)
	if err := machine.Run(ctx); err != nil {
		return "", machine.VerifSP(), err.Error()
	}
	if tos, ok := machine.TOS(); ok && tos != nil {
		result = rz.RenderObj(tos)
	}
	return result, machine.VerifSP(), ""
}

func drive(d *mon.Driver, replay string) int {
	d.Rule = "programs from the engine's generator (control-heavy mixes: all loop forms x switch/if/nested loops/function literals x break/continue/return, inside functions and at top level, try/defer) are (1) compiled and every code object's control-flow graph is abstractly interpreted with the pinned stack effect of each opcode (heights must agree on every path, never go negative, >=1 at return, exactly 1 at the end of main), (2) instrumented with a host call between all statements that samples VerifSP()-VerifFrameBaseSP() (one constant per site over the whole run; sp==0 after a finished run), (3) as loop-dominated programs run with bounds 10, 3000 and 100000 and compared with the reference interpreter. distinct+non-trivial: new feature signature containing a loop with a nested control statement (or break/continue inside a nesting chain)"
	d.Assume = []string{"the per-opcode stack effects are pinned from vm.eval at the pinned commit (ForIter has two successors with different effects; ReturnValue/Halt are terminal)", "hooks: vm.VerifSP/VerifFrameBaseSP (build tag verif)"}
	var cases []mon.Case
	if replay != "" {
		var c caseData
		if err := mon.LoadReplay(replay, &c); err != nil {
			fmt.Println("cannot load replay:", err)
			return 3
		}
		cases = append(cases, mon.NewCase("replay", "replay", c))
	} else {
		r := d.Rand("programs")
		seed1, seed2 := r.Uint64(), r.Uint64()
		total := d.N(4000, 300000)
		per := 250
		for from := 0; from < total; from += per {
			mix := []int{1, 1, 3, -1}[(from/per)%4]
			cases = append(cases, mon.NewCase(fmt.Sprintf("code-%d", from), "code+depth", caseData{Batch: eng.Batch{Seed: seed1, From: from, N: per, Mix: mix}, Kind: "code+depth"}))
		}
		cases = append(cases, mon.NewCase("probes", "probes", caseData{Kind: "probes"}))
		nScaled := d.N(160, 6000)
		perS := 10
		for from := 0; from < nScaled; from += perS {
			bounds := []int64{10, 3000}
			if (from/perS)%4 == 0 || d.Thorough() {
				bounds = []int64{10, 3000, 100000}
			}
			cases = append(cases, mon.NewCase(fmt.Sprintf("scaled-%d", from), "scaled", caseData{Batch: eng.Batch{Seed: seed2, From: from, N: perS}, Kind: "scaled", Bounds: bounds}))
		}
	}
	var sites, samples, maxBound int64
	d.RunPool(cases, mon.PoolOpts{BatchSize: 1, BatchTimeout: 600e9}, func(c mon.Case, res mon.Result) {
		var cd caseData
		_ = json.Unmarshal(c.Data, &cd)
		if res.Status != "done" {
			detail := ""
			if res.Crash != nil {
				detail = res.Crash.Exit + " " + res.Crash.FatalLine + "\n" + mon.Truncate(res.Crash.StderrTail, 2000)
			}
			if res.Status == "crash" && res.Crash != nil && res.Crash.Confirmed {
				d.Violation("worker-died", detail, cd)
			} else {
				d.Inconclusive("worker " + c.ID + ": " + res.Status + " " + mon.Truncate(detail, 300))
			}
			return
		}
		if res.Panic != "" {
			d.Fatal("harness panic in worker: " + res.Panic)
			return
		}
		var o out
		if err := json.Unmarshal(res.Data, &o); err != nil {
			d.Fatal("bad worker output: " + err.Error())
			return
		}
		for _, h := range o.Harness {
			d.Fatal("reference interpreter failed (harness bug): " + mon.Truncate(h, 2000))
		}
		d.Eval(o.Programs - o.Discarded)
		d.Event("code-objects-checked", o.CodeObjs)
		d.Event("instructions-visited", o.Instrs)
		d.Event("cfg-edges-checked", o.Edges)
		d.Event("depth-samples", o.DepthSamp)
		d.Event("sites-sampled", o.Sites)
		d.Event("finished-runs-with-sp-0", o.Finished)
		d.Event("scaled-runs", o.ScaledRuns)
		d.Event("discarded-undecided", o.Discarded)
		for k := 0; k < o.TimedOut; k++ {
			d.Inconclusive("a scaled-bound run hit the 60 s watchdog (slow, not judged)")
		}
		sites += int64(o.Sites)
		samples += int64(o.DepthSamp)
		if o.MaxBound > maxBound {
			maxBound = o.MaxBound
		}
		for _, s := range o.Sigs {
			d.Distinct(s)
		}
		for _, s := range o.Samples {
			d.Sample(s)
		}
		for _, f := range o.Fail {
			rc := cd
			rc.From = f.Index
			rc.N = 1
			if f.Bound > 0 {
				rc.Bounds = []int64{f.Bound}
			}
			d.Violation(f.Sig, mon.Truncate(f.Detail, 2000)+"\n--- program:\n"+mon.Truncate(f.Source, 3500), rc)
		}
	})
	d.Extra("max_loop_bound_run", maxBound)
	d.Extra("sites_sampled", sites)
	if replay != "" {
		return d.Finish(0, 0)
	}
	return d.Finish(d.N(2500, 200000), d.N(600, 8000))
}
