package c09

import (
	"fmt"
	"os"
	"strings"
)

// Workload kind "failfirst": process-wide pools, caches and scratch state that are poisoned by an
// ERROR path of one VM and observed later by other VMs that run at the same time. Every script
// mixes operations that FAIL (caught with try: type errors, value errors — argument-count errors
// are fatal in risor and are not used) with successful operations of the same builtin family, in
// tight loops and with arguments derived from the goroutine's own id; all goroutines do this at the
// same time. Oracles as for hammer: identical calls inside one evaluation must give identical
// results (INCONSISTENT line), the failures must fail the same way every time, and every result
// line (with a digest of the complete results) must equal the same goroutine's sequential run; an
// evaluation that ends in an error or Go panic only when run concurrently is reported by the
// general differential.

const failFirstPrelude = `
func failfirst(name, n, variants, fails, run) {
	first := []
	for _, v := range variants { first.append(nil) }
	ferr := []
	for _, f := range fails { ferr.append(nil) }
	bad := 0
	witness := ""
	for i := 0; i < n; i++ {
		if i % 3 == 0 {
			j := (i / 3) % len(fails)
			e := sprintf("%v", try(fails[j], func(e) { return "E: " + string(e) }))
			if ferr[j] == nil {
				ferr[j] = e
			} else if e != ferr[j] {
				bad++
				if witness == "" { witness = sprintf(" INCONSISTENT call %d: failing operation %d gave %s, the same call gave %s before;", i, j, e, ferr[j]) }
			}
		}
		k := i % len(variants)
		got := sprintf("%v", run(variants[k]))
		if first[k] == nil {
			first[k] = got
		} else if got != first[k] {
			bad++
			if witness == "" { witness = sprintf(" INCONSISTENT call %d with %v gave %s, the same call gave %s before;", i, variants[k], got, first[k]) }
		}
	}
	okays := []
	for j, e := range ferr {
		if e != nil && !strings.has_prefix(e, "\"E: ") && !strings.has_prefix(e, "E: ") { okays.append(sprintf("#%d=%s", j, e)) }
	}
	all := sprintf("%v %v", ferr, first)
	short := all
	if len(short) > 200 { short = short[:200] + "..." }
	return sprintf("%s calls=%d changed=%d%s did-not-fail=%v sha256=%s %s", name, n, bad, witness, okays, encode(hash(all), "hex")[:20], short)
}
func guard(f) { return try(f, func(e) { return "E: " + string(e) }) }
r := []
`

type failEntry struct {
	name     string
	n        int
	variants string   // script expression: list of argument values
	fails    []string // script expressions that must raise a catchable error
	run      string   // script function of one argument value a
}

func failFamilies(T, U string, g int) map[string][]failEntry {
	f := map[string][]failEntry{}
	add := func(fam string, e failEntry) { f[fam] = append(f[fam], e) }
	L := func(items ...string) string { return "[" + strings.Join(items, ", ") + "]" }
	strs := func(n int) string { // n own strings in a scrambled, goroutine-specific order
		items := make([]string, n)
		for i := range items {
			items[i] = q(fmt.Sprintf("%s%03d", T, (i*37+g*11+5)%(n+3)))
		}
		return L(items...)
	}
	ints := func(n int) string {
		items := make([]string, n)
		for i := range items {
			items[i] = fmt.Sprint((i*7919+g*104729)%1000 - 300)
		}
		return L(items...)
	}
	floats := func(n int) string {
		items := make([]string, n)
		for i := range items {
			items[i] = fmt.Sprintf("%d.%d", (i*31+g*17)%97, (i+g)%10)
		}
		return L(items...)
	}

	// sorting: incomparable members first, then comparable lists of various lengths
	sortFails := []string{`sorted([3, "a", 1])`, `[1, "x", 2.5, "y"].sort()`, `sorted([{"k": 1}, 2, 3])`, `sorted([[1], "b", nil])`, `sorted(["` + T + `", 4])`, `sorted(5)`}
	add("sort", failEntry{"sorted", 240, L(L(), strs(1), strs(2), ints(3), strs(5), ints(8), floats(13), strs(21), ints(40), strs(64)), sortFails,
		`func(a) { return sorted(a) }`})
	add("sort", failEntry{"list.sort", 150, L(ints(2), strs(7), floats(16), ints(33), strs(50)), sortFails,
		`func(a) { b := a.copy(); b.sort(); return [b, a] }`})
	add("sort", failEntry{"sorted other iterables", 80, L(q(T+"zyx"), `{"`+T+`b": 1, "`+T+`a": 2, "c": 3}`, `{"`+U+`", "`+T+`", "m"}`, `byte_slice("`+T+`")`), sortFails,
		`func(a) { return sorted(a) }`})
	add("sort", failEntry{"sorted with comparator", 60, L(strs(6), ints(12), strs(25)),
		append([]string{`sorted([1, 2, 3], 4)`, `sorted([3, "a", 1], func(x, y) { return x < y })`}, sortFails[:2]...),
		`func(a) { return [sorted(a, func(x, y) { return y < x }), sorted(a, func(x, y) { return string(x) < string(y) }), sorted(a)] }`})

	// formatting: wrong types for the format argument and bad verbs, then own formats
	fm := T + "|%0" + fmt.Sprint(2+g%5) + "d|%s|%6.2f|%v"
	add("format", failEntry{"sprintf", 120, L(L(q(fm), fmt.Sprint(g+7), q(T), "1.5", L("1", q(U))), L(q("%x/%q/"+T+"/%t/%c"), "255", q(T), "true", "66")),
		[]string{`sprintf(1, 2)`, `fmt.sprintf(nil)`, `errorf([1], 2)`, `error(sprintf("%!z(` + T + `) %z %d", "s", "notanumber"))`, `int("` + T + `")`, `float("1.2.3")`, `strconv.atoi("x` + T + `")`, `strconv.parse_int("zz", 10, 64)`, `strconv.parse_bool("maybe")`, `chr("a")`, `ord(1)`},
		`func(a) { return [sprintf(a[0], a[1], a[2], a[3], a[4]), fmt.sprintf(a[0], a[1], a[2], a[3], a[4]), string(a[1]), int(string(a[1])), sprintf("%!z %z %d", a[2], a[1])] }`})

	// codecs and json: unsupported values and malformed input, then valid round trips
	add("codec", failEntry{"encode/decode", 90, L(q("data "+T+" é"), q(T+"\x00\x7f"), q("")),
		[]string{`encode(func() { return 1 }, "json")`, `json.marshal(math.inf(1))`, `json.marshal(len)`, `decode("{\"` + T + `\": ", "json")`, `json.unmarshal("[1, 2")`, `decode("%%%` + T + `", "base64")`, `decode("zz` + T + `", "hex")`, `decode("========", "base32")`, `decode("%zz", "urlquery")`, `decode("a,\"b\n", "csv")`, `decode("notgzip` + T + `", "gzip")`, `encode(1, "hex")`, `encode({"a": 1}, "base64")`, `encode("x", "no-such-codec")`, `encode([1, 2], "csv")`, `base64.decode("!!!")`},
		`func(a) { out := []; for _, c := range ["base64", "base32", "hex", "urlquery"] { e := encode(a, c); out.append(e); out.append(string(decode(e, c)) == a) }; j := encode({"v": a, "l": [a, 1]}, "json"); out.append(j); out.append(decode(j, "json")["l"]); out.append(json.valid(j)); c := encode([[a, "x"]], "csv"); out.append(decode(c, "csv")); return out }`})

	// regexp: invalid patterns, then own patterns
	add("regexp", failEntry{"regexp", 120, L(L(q("^"+T+"[a-c]+$"), q(T+"abc")), L(q(T+"(x+)y"), q("."+T+"xxy."+U+"xy")), L(q("^"+T+"\\d+$"), q(U+"42"))),
		[]string{`regexp.compile("` + T + `(")`, `regexp.match("[` + T + `", "x")`, `regexp.compile("a{2,1}")`, `regexp.compile("\\")`, `regexp.compile(1)`, `regexp.match("a", 1)`, `regexp.compile("*a")`, `filepath.match("[` + T + `", "x")`},
		`func(a) { re := regexp.compile(a[0]); return [regexp.match(a[0], a[1]), re.match(a[1]), re.find(a[1]), re.find_all(a[1]), re.find_submatch(a[1]), re.replace_all(a[1], "<$1>"), re.split(a[1])] }`})

	// strings and bytes: wrong argument types, then own arguments
	s1 := T + "-one," + T + "-Two,," + T
	add("strings", failEntry{"strings/bytes", 90, L(L(q(s1), q(","), q(T)), L(q(" "+T+" x "+U+" "), q(" "), q("x"))),
		[]string{`strings.contains(1, "a")`, `strings.join("x", 1)`, `strings.split(nil, ",")`, `strings.repeat("a", "b")`, `strings.trim(1, 2)`, `strings.to_upper([1])`, `bytes.index(1, 2)`, `bytes.contains(nil, "a")`, `bytes.repeat("a", "b")`, `"` + T + `".split(1)`, `"a".join(1)`, `"a".replace_all(1, 2)`, `"` + T + `"[99]`, `byte_slice("` + T + `")[99]`, `strings.fields(1)`},
		`func(a) { s := a[0]; b := byte_slice(s); n := byte_slice(a[2]); return [strings.split(s, a[1]), strings.replace_all(s, a[2], "<>"), strings.trim(s, a[1] + " "), strings.fields(s), strings.to_upper(s), strings.count(s, a[2]), strings.join(strings.split(s, a[1]), a[2]), strings.repeat(a[2], 2), s.split(a[1]), s.replace_all(a[2], "#"), s.to_lower(), a[1].join([a[2], s]), bytes.index(b, n), bytes.count(b, n), string(bytes.replace_all(b, n, byte_slice("_"))), string(bytes.repeat(n, 2)), s[1:4]] }`})

	// math and core containers: wrong types, division by zero, missing keys, then own numbers / keys
	add("math", failEntry{"math/core", 90, L(L(fmt.Sprint(g+2), fmt.Sprintf("%d.75", g), q(T)), L(fmt.Sprint(-g-5), "0.5", q(U))),
		[]string{`math.sqrt("x")`, `math.sum(["a", 1])`, `math.max("a", 1)`, `math.pow("2", 2)`, `math.abs(nil)`, `math.round([1])`, `1 + "` + T + `"`, `[1, 2][7]`, `{"a": 1}["` + T + `"]`, `len(5)`, `set([[1]])`, `int([1])`, `keys(1.5)`, `reversed(1)`, `chunk([1], 0)`, `nil.x`, `(1).y`, `"` + T + `" < 1`},
		`func(a) { m := {}; m[a[2]] = a[0]; return [math.pow(a[0], 2), math.sqrt(math.abs(a[0])), math.abs(a[0]), math.round(a[1]), math.max(a[0], a[1]), math.min(a[0], a[1]), math.sum([a[0], a[1]]), math.mod(a[0], 7), a[0] / 3, a[0] % 5, a[0] * a[1], [a[0], a[1]][1], m[a[2]], a[2] in m, len(m), sorted(keys(m)), set([a[0], a[0]]), list(a[2]), reversed([a[0], a[1]]), chunk([a[0], a[1], a[2]], 2), a[2] < "z"] }`})
	return f
}

var failFamilyNames = []string{"sort", "format", "codec", "regexp", "strings", "math"}

func failFirstScript(family, T, U string, g, N int) string {
	var b strings.Builder
	b.WriteString(failFirstPrelude)
	for _, e := range failFamilies(T, U, g)[family] {
		n := e.n
		if N > 4 {
			n = n * 4 / N
			if n < 24 {
				n = 24
			}
		}
		fails := make([]string, len(e.fails))
		for i, fx := range e.fails {
			fails[i] = "func() { return " + fx + " }"
		}
		fmt.Fprintf(&b, "r.append(guard(func() { return failfirst(%s, %d, %s, [%s], %s) }))\n", q(e.name), n, e.variants, strings.Join(fails, ", "), e.run)
	}
	b.WriteString("r\n")
	return b.String()
}

func failFirstJobs(c CaseData, tag string) []job {
	tok := func(g int) string { return fmt.Sprintf("f%sp%dg%dz", tag, c.Proc%1000, g) }
	var jobs []job
	for _, fam := range failFamilyNames {
		if only := os.Getenv("C09_FAILFIRST"); only != "" && only != fam { // development aid
			continue
		}
		jobs = append(jobs, job{kind: "failfirst", path: "failfirst:" + fam, run: func(e *env, g int) ([]string, int) {
			return evalScript(failFirstScript(fam, tok(g), tok((g+1)%c.N), g, c.N)), 1
		}})
	}
	return jobs
}
