package c09

import (
	"context"
	"fmt"
	"reflect"
	"strings"

	"verif/internal/mon"
)

// Go types that are handed to scripts as globals. None of them is known to risor before a worker
// process uses it, so every process meets them on the first-use paths of the Go-type registry
// (object.goTypeRegistry), the converter registry (object.typeConverters) and the lazily filled
// GoType.converter. Each goroutine of a workload gets its OWN values of these types: nothing is
// shared at script level, only the package-level registries are.

type Inner struct {
	A int
	B string
	C []int16
}

type Pair struct {
	X []int32
	Y map[string]float32
	Z [2]int8
	W string
}

// Svc is instantiated with many element types; each instantiation is a distinct Go type with
// distinct parameter and result types ([]T, map[string]T, [2]T, *T), all converted lazily by
// object.(*GoType).GetConverter on the first call.
type Svc[T any] struct {
	Last  T
	Items []T
	Count int
	Tag   string
}

func (s *Svc[T]) Put(x T) int {
	s.Last = x
	s.Items = append(s.Items, x)
	s.Count++
	return s.Count
}
func (s *Svc[T]) PutAll(xs []T) []T                   { s.Items = append(s.Items, xs...); return s.Items }
func (s *Svc[T]) Table(m map[string]T) map[string]T   { return m }
func (s *Svc[T]) Arr(a [2]T) [2]T                     { return [2]T{a[1], a[0]} }
func (s *Svc[T]) Ptr(p *T) *T                         { return p }
func (s *Svc[T]) Get() T                              { return s.Last }
func (s *Svc[T]) Ctx(ctx context.Context, x T) T      { return x }
func (s *Svc[T]) Any(x any) any                       { return x }
func (s *Svc[T]) Both(a T, b []T, c map[string]T) int { return 1 + len(b) + len(c) }
func (s *Svc[T]) Err(fail bool) (T, error) {
	if fail {
		var z T
		return z, fmt.Errorf("failed at count %d", s.Count)
	}
	return s.Last, nil
}

// Box is a second family: its instantiations share element GoTypes with Svc's but have their own
// receiver, slice-of-slice and nested map types.
type Box[T any] struct {
	V T
	L [][]T
}

func (b *Box[T]) Swap(x T) T                           { old := b.V; b.V = x; return old }
func (b *Box[T]) Rows(xs [][]T) int                    { b.L = xs; return len(xs) }
func (b *Box[T]) Nest(m map[string][]T) map[string][]T { return m }
func (b *Box[T]) Trio(a [3]T) [3]T                     { return [3]T{a[2], a[1], a[0]} }

// inst describes one instantiation: how to make a fresh receiver and how to write a script
// literal of the element type that depends on the goroutine index g and a small variant k.
type inst struct {
	Name string
	New  func() any
	Lit  func(g, k int) string
	Box  bool
}

func litInt(mod int) func(g, k int) string {
	return func(g, k int) string { return fmt.Sprintf("%d", (g*7+k*3+1)%mod) }
}
func litFloat(g, k int) string  { return fmt.Sprintf("%d.5", g*3+k) }
func litString(g, k int) string { return fmt.Sprintf("%q", fmt.Sprintf("s%d-%d", g, k)) }
func litBool(g, k int) string {
	if (g+k)%2 == 0 {
		return "true"
	}
	return "false"
}
func litInner(g, k int) string {
	return fmt.Sprintf(`{"A": %d, "B": "b%d", "C": [%d, %d]}`, g*10+k, g, g, k)
}
func litPair(g, k int) string {
	return fmt.Sprintf(`{"X": [%d, %d], "Y": {"y": %d.5}, "Z": [%d, %d], "W": "w%d"}`, g, k, g, g%100, k, g)
}
func litList(elem func(g, k int) string) func(g, k int) string {
	return func(g, k int) string { return "[" + elem(g, k) + ", " + elem(g, k+1) + "]" }
}
func litArr(n int, elem func(g, k int) string) func(g, k int) string {
	return func(g, k int) string {
		parts := make([]string, n)
		for i := range parts {
			parts[i] = elem(g, k+i)
		}
		return "[" + strings.Join(parts, ", ") + "]"
	}
}
func litMap(elem func(g, k int) string) func(g, k int) string {
	return func(g, k int) string { return fmt.Sprintf(`{"k%d": %s, "z": %s}`, g, elem(g, k), elem(g, k+2)) }
}

func svc[T any](name string, lit func(g, k int) string) inst {
	return inst{Name: "Svc[" + name + "]", New: func() any { return &Svc[T]{} }, Lit: lit}
}
func box[T any](name string, lit func(g, k int) string) inst {
	return inst{Name: "Box[" + name + "]", New: func() any { return &Box[T]{} }, Lit: lit, Box: true}
}

// instances is the fixed table of instantiations; a process uses a seed-determined subset in a
// seed-determined order. (Named non-struct types, nil and large uint64 values are left out: their
// conversion defects belong to C08.)
var instances = []inst{
	svc[int8]("int8", litInt(100)),
	svc[int16]("int16", litInt(1000)),
	svc[int32]("int32", litInt(100000)),
	svc[int64]("int64", litInt(1000000)),
	svc[int]("int", litInt(1000000)),
	svc[uint16]("uint16", litInt(1000)),
	svc[uint32]("uint32", litInt(100000)),
	svc[uint]("uint", litInt(100000)),
	svc[float32]("float32", litFloat),
	svc[string]("string", litString),
	svc[bool]("bool", litBool),
	svc[Inner]("Inner", litInner),
	svc[*Inner]("*Inner", litInner),
	svc[Pair]("Pair", litPair),
	svc[*Pair]("*Pair", litPair),
	svc[[]int]("[]int", litList(litInt(1000))),
	svc[[]string]("[]string", litList(litString)),
	svc[[]Inner]("[]Inner", litList(litInner)),
	svc[[3]uint16]("[3]uint16", litArr(3, litInt(1000))),
	svc[[2]string]("[2]string", litArr(2, litString)),
	svc[map[string]int32]("map[string]int32", litMap(litInt(1000))),
	svc[map[string][]int8]("map[string][]int8", litMap(litList(litInt(100)))),
	svc[map[string]Inner]("map[string]Inner", litMap(litInner)),
	svc[[][]int16]("[][]int16", litList(litList(litInt(1000)))),
	box[int8]("int8", litInt(100)),
	box[uint32]("uint32", litInt(1000)),
	box[float32]("float32", litFloat),
	box[string]("string", litString),
	box[Inner]("Inner", litInner),
	box[*Pair]("*Pair", litPair),
	box[[]float32]("[]float32", litList(litFloat)),
	box[map[string]uint16]("map[string]uint16", litMap(litInt(1000))),
}

func instByName(name string) *inst {
	for i := range instances {
		if instances[i].Name == name {
			return &instances[i]
		}
	}
	return nil
}

// script for one instantiation and goroutine: method calls with parameters and results of the
// fresh types, field get and set. The result is a list; the worker renders it element by element.
func (in *inst) script(g int) string {
	v1, v2, v3 := in.Lit(g, 1), in.Lit(g, 2), in.Lit(g, 3)
	var b strings.Builder
	w := func(f string, a ...any) { fmt.Fprintf(&b, f+"\n", a...) }
	w("r := []")
	if in.Box {
		w("r.append(box.Swap(%s))", v1)
		w("r.append(box.Swap(%s))", v2)
		w("r.append(box.Rows([[%s, %s], [%s]]))", v1, v2, v3)
		w(`r.append(box.Nest({"n": [%s, %s], "m": [%s]}))`, v3, v1, v2)
		w("r.append(box.Trio([%s, %s, %s]))", v1, v2, v3)
		w("r.append(box.V)")
		w("r.append(box.L)")
		w("r.append(box.__type__.name)")
	} else {
		w("r.append(svc.Put(%s))", v1)
		w("r.append(svc.PutAll([%s, %s]))", v2, v3)
		w(`r.append(svc.Table({"a": %s, "b": %s}))`, v1, v2)
		w("r.append(svc.Arr([%s, %s]))", v1, v2)
		w("r.append(svc.Get())")
		w("r.append(try(func() { svc.Err(true) }, func(e) { string(e) }))")
		w("r.append(svc.Err(false))")
		w("r.append(svc.Ctx(%s))", v2)
		w("r.append(svc.Any(%s))", v3)
		w("r.append(svc.Ptr(%s))", v2)
		w(`r.append(svc.Both(%s, [%s], {"q": %s}))`, v1, v2, v3)
		w("r.append(svc.Count)")
		w(`svc.Tag = "tag-%d"`, g)
		w("r.append(svc.Tag)")
		w("r.append(svc.Last)")
		w("r.append(svc.Items)")
		w("svc.Count = %d", 100+g)
		w("r.append(svc.Put(%s))", v3)
		w("r.append(svc.__type__.name)")
	}
	w("r")
	return b.String()
}

func (in *inst) globalName() string {
	if in.Box {
		return "box"
	}
	return "svc"
}

// ---------------------------------------------------------------------------------------
// reflect.StructOf types with run-specific field names

type sfield struct {
	Name string
	Kind string
}

var sfieldKinds = []string{"int32", "float32", "string", "bool", "[]int16", "map[string]int8", "[2]uint32", "[]string", "Inner", "*Inner", "nested", "[]float32", "map[string][]string", "uint16"}

// structShape derives a struct shape from the seed: 4..8 exported fields with run-specific names.
func structShape(r *mon.Rand, tag string) []sfield {
	n := r.Range(4, 8)
	fs := make([]sfield, n)
	for i := range fs {
		fs[i] = sfield{Name: fmt.Sprintf("F%s%dx%d", tag, i, r.Intn(100000)), Kind: mon.Pick(r, sfieldKinds)}
	}
	return fs
}

func nestedType(tag string) reflect.Type {
	return reflect.StructOf([]reflect.StructField{
		{Name: "P" + tag, Type: reflect.TypeOf(int64(0))},
		{Name: "Q" + tag, Type: reflect.TypeOf([]string(nil))},
	})
}

func fieldType(k, tag string) reflect.Type {
	switch k {
	case "int32":
		return reflect.TypeOf(int32(0))
	case "uint16":
		return reflect.TypeOf(uint16(0))
	case "float32":
		return reflect.TypeOf(float32(0))
	case "string":
		return reflect.TypeOf("")
	case "bool":
		return reflect.TypeOf(false)
	case "[]int16":
		return reflect.TypeOf([]int16(nil))
	case "[]float32":
		return reflect.TypeOf([]float32(nil))
	case "map[string]int8":
		return reflect.TypeOf(map[string]int8(nil))
	case "map[string][]string":
		return reflect.TypeOf(map[string][]string(nil))
	case "[2]uint32":
		return reflect.TypeOf([2]uint32{})
	case "[]string":
		return reflect.TypeOf([]string(nil))
	case "Inner":
		return reflect.TypeOf(Inner{})
	case "*Inner":
		return reflect.TypeOf(&Inner{})
	case "nested":
		return nestedType(tag)
	}
	panic("bad field kind " + k)
}

func structType(fs []sfield, tag string) reflect.Type {
	sf := make([]reflect.StructField, len(fs))
	for i, f := range fs {
		sf[i] = reflect.StructField{Name: f.Name, Type: fieldType(f.Kind, tag)}
	}
	return reflect.StructOf(sf)
}

// newStructValue returns a pointer to a fresh, initialised value of the struct type.
func newStructValue(fs []sfield, tag string, g int) any {
	t := structType(fs, tag)
	v := reflect.New(t)
	for i, f := range fs {
		fv := v.Elem().Field(i)
		switch f.Kind {
		case "*Inner":
			fv.Set(reflect.ValueOf(&Inner{A: g, B: "init", C: []int16{int16(g)}}))
		case "Inner":
			fv.Set(reflect.ValueOf(Inner{A: g + 1, B: "val"}))
		case "string":
			fv.SetString(fmt.Sprintf("init-%d", g))
		case "int32":
			fv.SetInt(int64(g))
		}
	}
	return v.Interface()
}

func structScript(fs []sfield, tag string, g int) string {
	var b strings.Builder
	w := func(f string, a ...any) { fmt.Fprintf(&b, f+"\n", a...) }
	w("r := []")
	for i, f := range fs {
		w("r.append(rec.%s)", f.Name)
		switch f.Kind {
		case "int32", "uint16":
			w("rec.%s = %d", f.Name, g*11+i)
		case "float32":
			w("rec.%s = %d.25", f.Name, g+i)
		case "string":
			w(`rec.%s = "set-%d-%d"`, f.Name, g, i)
		case "bool":
			w("rec.%s = %s", f.Name, litBool(g, i))
		case "[]int16":
			w("rec.%s = [%d, %d, 3]", f.Name, g, i)
		case "[]float32":
			w("rec.%s = [%d.5, 1.25]", f.Name, g)
		case "map[string]int8":
			w(`rec.%s = {"g": %d, "i": %d}`, f.Name, g%100, i)
		case "map[string][]string":
			w(`rec.%s = {"g": ["a%d", "b"], "e": []}`, f.Name, g)
		case "[2]uint32":
			w("rec.%s = [%d, %d]", f.Name, g, i+1)
		case "[]string":
			w(`rec.%s = ["x%d", "y%d"]`, f.Name, g, i)
		case "Inner":
			w("rec.%s.A = %d", f.Name, g*100+i)
			w(`rec.%s.B = "in-%d"`, f.Name, g)
			w("rec.%s.C = [%d]", f.Name, g)
			w("r.append(rec.%s.A)", f.Name)
		case "*Inner":
			w("rec.%s.A = %d", f.Name, g*100+i+1)
			w("r.append(rec.%s.B)", f.Name)
		case "nested":
			w("rec.%s.P%s = %d", f.Name, tag, g*1000+i)
			w(`rec.%s.Q%s = ["q%d"]`, f.Name, tag, g)
			w("r.append(rec.%s.P%s)", f.Name, tag)
			w("r.append(rec.%s.Q%s)", f.Name, tag)
		}
		switch f.Kind {
		case "Inner", "*Inner", "nested":
		default:
			w("r.append(rec.%s)", f.Name)
		}
	}
	w("r.append(len(rec.__type__.attributes))")
	w("r")
	return b.String()
}
