package c09

import (
	"context"
	"fmt"
	"strings"

	"github.com/risor-io/risor"
	"github.com/risor-io/risor/compiler"
	"github.com/risor-io/risor/object"
	"github.com/risor-io/risor/parser"
	"github.com/risor-io/risor/vm"
)

// Workload kind "mutate": every script-visible object that is reachable from process-wide state
// (the Go-type registry behind <proxy>.__type__, module and builtin objects, values that module
// functions hand out, the constants of compiled code shared between VMs or clones) must behave as
// per-VM or immutable. The scripts therefore MUTATE everything mutable they can reach through such
// objects, with keys and values that carry the id of their own evaluation, and read it back:
// through the handle they edited and through a fresh access. An evaluation must see exactly its own
// edits; the result lines must equal those of the same program run alone; a key or element that
// carries another evaluation's id is reported directly (FOREIGN-EDIT line), independent of the
// sequential reference (which runs in the same, possibly already polluted, process).

// mutPrelude defines the helpers. ID is the id of the evaluation.
const mutPrelude = `
func foreign(x) {
	t := type(x)
	items := []
	if t == "map" { items = keys(x) }
	if t == "list" { items = x }
	if t == "set" { items = list(x) }
	bad := []
	for _, k := range items {
		if type(k) == "string" && strings.has_prefix(k, "c09-") && !strings.contains(k, ID) { bad.append(k) }
	}
	return sorted(bad)
}
func show(x) {
	t := type(x)
	f := foreign(x)
	s := ""
	if len(f) > 0 { s = sprintf(" FOREIGN-EDIT %v", f) }
	if t == "map" { return sprintf("map keys=%v%s", sorted(keys(x)), s) }
	if t == "list" && len(x) > 12 {
		// long lists (the process environment): length and the edits only
		mine := x.filter(func(k) { return type(k) == "string" && strings.has_prefix(k, "c09-") })
		return sprintf("list of %d, edits in it: %v%s", len(x), mine, s)
	}
	if t == "list" || t == "set" { return sprintf("%s %v%s", t, x, s) }
	return sprintf("%s %v", t, x)
}
// mut edits h through every mutating operation of its type and says what it did
func mut(h) {
	t := type(h)
	if t == "map" {
		victim := nil
		for _, k := range sorted(keys(h)) {
			if type(k) == "string" && !strings.has_prefix(k, "c09-") && victim == nil { victim = k }
		}
		h[ID] = 1
		u := {}
		u[ID + "-u"] = 2
		h.update(u)
		h.setdefault(ID + "-d", 3)
		if victim != nil { delete(h, victim) }
		return sprintf("map: set, update, setdefault, delete %v", victim)
	}
	if t == "list" {
		h.append(ID)
		h.insert(0, ID + "-i")
		if len(h) > 2 { h[1] = ID + "-s" }
		h.extend([ID + "-e"])
		return "list: append, insert, set, extend"
	}
	if t == "set" {
		h.add(ID)
		return "set: add"
	}
	return "not a container: " + t
}
// mut2 empties a second handle of the same thing and leaves one own entry in it
func mut2(h) {
	t := type(h)
	if t == "map" { h.clear(); h[ID + "-c"] = 4; return "map: clear, set" }
	if t == "list" { h.clear(); h.append(ID + "-c"); return "list: clear, append" }
	if t == "set" { h.clear(); h.add(ID + "-c"); return "set: clear, add" }
	return "not a container: " + t
}
func guard(f) { return try(f, func(e) { return "E: " + string(e) }) }
// probe: fetch, look, edit, look again through the edited handle, fetch again, empty that one,
// fetch a third time and look at what a fresh access gives
func probe(name, fetch) {
	h := guard(fetch)
	pre := guard(func() { return show(h) })
	did := guard(func() { return mut(h) })
	own := guard(func() { return show(h) })
	h2 := guard(fetch)
	did2 := guard(func() { return mut2(h2) })
	own2 := guard(func() { return show(h2) })
	h3 := guard(fetch)
	fresh := guard(func() { return show(h3) })
	return [name + " first look: " + pre, name + " edit: " + did, name + " edited handle: " + own,
		name + " second handle: " + did2 + " -> " + own2, name + " fresh access: " + fresh]
}
// setattr attempts are written out (attribute names are static in the language)
r := []
`

func mutProxyScript(id string, box bool) string {
	var b strings.Builder
	fmt.Fprintf(&b, "ID := %q\n", id)
	b.WriteString(mutPrelude)
	w := func(f string, a ...any) { fmt.Fprintf(&b, f+"\n", a...) }
	recv, method, field := "svc", "Put", "Items"
	if box {
		recv, method, field = "box", "Swap", "L"
	}
	w(`T := %s.__type__`, recv)
	w(`r.extend(probe("type.attributes", func() { return %s.__type__.attributes }))`, recv)
	w(`r.extend(probe("keys(type.attributes)", func() { return keys(%s.__type__.attributes) }))`, recv)
	w(`r.extend(probe("method.in_type(1).attributes", func() { return %s.__type__.attributes[%q].in_type(1).attributes }))`, recv, method)
	w(`r.extend(probe("method.in_type(0).attributes", func() { return %s.__type__.attributes[%q].in_type(0).attributes }))`, recv, method)
	w(`r.extend(probe("field.type.attributes", func() { return %s.__type__.attributes[%q].type.attributes }))`, recv, field)
	if !box {
		w(`r.extend(probe("method.error_indices", func() { return svc.__type__.attributes["Err"].error_indices }))`)
		w(`r.extend(probe("method.out_type(0).attributes", func() { return svc.__type__.attributes["Get"].out_type(0).attributes }))`)
		w(`r.extend(probe("field value (own Go slice)", func() { return svc.Items }))`)
	}
	w(`r.extend(probe("getattr(type).attributes", func() { return getattr(%s, "__type__").attributes }))`, recv)
	// attribute assignment on the shared type / method / field objects
	for _, a := range []string{"name", "package_path", "attributes", "is_pointer_type", ID0} {
		w(`r.append("set type.%s: " + guard(func() { T.%s = ID; return "assigned" }))`, a, a)
	}
	w(`r.append(sprintf("type now: %%v %%v %%v %%v", T.name, T.package_path, T.is_pointer_type, sorted(keys(T.attributes))))`)
	w(`M := T.attributes[%q]`, method)
	w(`r.append("set method.name: " + guard(func() { M.name = ID; return "assigned" }))`)
	w(`r.append("set method.num_in: " + guard(func() { M.num_in = 99; return "assigned" }))`)
	w(`r.append(sprintf("method now: %%v %%v %%v", M.name, M.num_in, M.num_out))`)
	w(`F := T.attributes[%q]`, field)
	w(`r.append("set field.tag: " + guard(func() { F.tag = ID; return "assigned" }))`)
	w(`r.append("set field.name: " + guard(func() { F.name = ID; return "assigned" }))`)
	w(`r.append(sprintf("field now: %%v %%v %%v", F.name, F.tag, F.type.name))`)
	w(`r.append("set proxy.__type__: " + guard(func() { %s.__type__ = ID; return "assigned" }))`, recv)
	w(`r.append(sprintf("proxy type now: %%v", %s.__type__.name))`, recv)
	w("r")
	return b.String()
}

// ID0 is an attribute name no type has: assignment must fail the same way everywhere.
const ID0 = "c09_new_attribute"

func mutStructScript(id string, fs []sfield) string {
	var b strings.Builder
	fmt.Fprintf(&b, "ID := %q\n", id)
	b.WriteString(mutPrelude)
	w := func(f string, a ...any) { fmt.Fprintf(&b, f+"\n", a...) }
	w(`T := rec.__type__`)
	w(`r.extend(probe("type.attributes", func() { return rec.__type__.attributes }))`)
	w(`r.extend(probe("field.type.attributes", func() { return rec.__type__.attributes[%q].type.attributes }))`, fs[0].Name)
	w(`r.append("set type.name: " + guard(func() { T.name = ID; return "assigned" }))`)
	w(`r.append(sprintf("type now: %%v %%v", T.is_pointer_type, sorted(keys(T.attributes))))`)
	w("r")
	return b.String()
}

func mutModuleScript(id string) string {
	var b strings.Builder
	fmt.Fprintf(&b, "ID := %q\n", id)
	b.WriteString(mutPrelude)
	w := func(f string, a ...any) { fmt.Fprintf(&b, f+"\n", a...) }
	// containers handed out by module functions and builtins: any of them could be a cached value
	for _, p := range [][2]string{
		{"os.args()", `os.args()`},
		{"keys(os.environ())", `keys(os.environ())`},
		{"os.environ()", `os.environ()`},
		{"strings.fields", `strings.fields("a b c")`},
		{"strings.split", `strings.split("a,b,c", ",")`},
		{"regexp.find_all", `regexp.compile("[a-c]+").find_all("abc xx cab")`},
		{"regexp.find_submatch", `regexp.compile("(a)(b)").find_submatch("xaby")`},
		{"regexp.split", `regexp.compile(",").split("a,b,c")`},
		{"json.unmarshal", `json.unmarshal("{\"a\": [1, 2], \"b\": {\"c\": 1}}")`},
		{"json.unmarshal nested", `json.unmarshal("{\"a\": [1, 2], \"b\": {\"c\": 1}}")["b"]`},
		{"decode json", `decode("[1, 2, 3]", "json")`},
		{"decode csv", `decode("a,b\n1,2\n", "csv")`},
		{"filepath.split_list", `filepath.split_list("a:b:c")`},
		{"filepath.split", `filepath.split("/a/b/c.txt")`},
		{"net.split_host_port", `net.split_host_port("host:80")`},
		{"sorted", `sorted(["b", "a"])`},
		{"reversed", `reversed(["b", "a"])`},
		{"keys", `keys({"k": 1, "j": 2})`},
		{"list(string)", `list("abc")`},
		{"chunk", `chunk(["a", "b", "c"], 2)`},
		{"chunk[0]", `chunk(["a", "b", "c"], 2)[0]`},
		{"set literal", `{"x", "y"}`},
		{"set()", `set(["x", "y"])`},
		{"map()", `map([["x", 1], ["y", 2]])`},
		{"string.split", `"a b".split(" ")`},
		{"string.fields", `"a b".fields()`},
		{"map.keys", `{"k": 1}.keys()`},
		{"map.values", `{"k": "v"}.values()`},
		{"map.items", `{"k": "v"}.items()`},
		{"map.copy", `{"k": "v"}.copy()`},
		{"list.copy", `["a"].copy()`},
		{"list.map", `["a"].map(func(x) { return x })`},
		{"list.filter", `["a"].filter(func(x) { return true })`},
		{"set.union", `{"a"}.union({"b"})`},
		{"missing module attribute", `math.no_such_thing`},
	} {
		w(`r.extend(probe(%q, func() { return %s }))`, p[0], p[1])
	}
	// attribute assignment on module, builtin and module-made objects
	for _, p := range [][2]string{
		{"math.PI", `math.PI = 3`},
		{"math.c09_new", `math.c09_new = ID`},
		{"strings.to_upper", `strings.to_upper = ID`},
		{"builtin.__name__", `strings.to_upper.__name__ = ID`},
		{"builtin.__module__", `strings.to_upper.__module__ = ID`},
		{"module.__name__", `strings.__name__ = ID`},
		{"module via builtin", `strings.to_upper.__module__.c09_new = ID`},
		{"len.__name__", `len.__name__ = ID`},
		{"regexp object", `regexp.compile("a+").c09_new = ID`},
		{"time object", `time.unix(1700000000, 0).c09_new = ID`},
		{"error object", `errors.new("x").c09_new = ID`},
		{"time.RFC3339", `time.RFC3339 = ID`},
		{"os.stdout", `os.stdout.c09_new = ID`},
		{"nil", `nil.c09_new = ID`},
		{"true", `true.c09_new = ID`},
		{"small int", `(1).c09_new = ID`},
		{"string method", `"a".to_upper.__name__ = ID`},
	} {
		w(`r.append("set %s: " + guard(func() { %s; return "assigned" }))`, p[0], p[1])
	}
	w(`r.append(sprintf("now: %%v %%v %%v %%v %%v %%v", math.PI, strings.to_upper.__name__, strings.to_upper.__module__.__name__, strings.__name__, len.__name__, time.RFC3339))`)
	w(`r.append(sprintf("now: %%v %%v %%v", strings.to_upper("x"), regexp.compile("a+").match("caat"), "a".to_upper()))`)
	w("r")
	return b.String()
}

// mutCodeSrc: constants and default parameter values of compiled code. The same source is used
// (a) compiled per evaluation, (b) compiled ONCE and run by all VMs, (c) as functions of ONE VM
// called on its clones. Every container literal must give a new, unedited value on every evaluation
// of the literal, also when the enclosing function is called twice.
const mutCodeSrc = `
func lit() { return ["x", "y", "z"] }
func mlit() { return {"a": 1, "b": ["p", "q"]} }
func slit() { return {"s", "t"} }
func dflt(x, sep="-", n=2, flag=true, f=1.5) { return [x, sep, n, flag, f] }
func nested() { return {"l": [["n"], ["m"]]} }
func strs() { return "const-" + "string" }
func work(ID) {
	foreign := func(items) {
		bad := []
		for _, k := range items {
			if type(k) == "string" && strings.has_prefix(k, "c09-") && !strings.contains(k, ID) { bad.append(k) }
		}
		if len(bad) > 0 { return sprintf(" FOREIGN-EDIT %v", sorted(bad)) }
		return ""
	}
	out := []
	for round := 0; round < 2; round++ {
		a := lit()
		out.append(sprintf("list literal first look: %v%s", a, foreign(a)))
		a.append(ID); a[0] = ID + "-s"; a.insert(1, ID + "-i")
		b := lit()
		out.append(sprintf("list literal edited: %v again: %v%s", a, b, foreign(b)))
		b.clear()
		out.append(sprintf("list literal after clear of the second: %v", lit()))
		m := mlit()
		out.append(sprintf("map literal first look: %v %v%s%s", sorted(keys(m)), m["b"], foreign(keys(m)), foreign(m["b"])))
		m[ID] = 1; m["b"].append(ID); delete(m, "a")
		u := {}
		u[ID + "-u"] = 2
		m.update(u)
		m2 := mlit()
		out.append(sprintf("map literal edited: %v %v again: %v %v%s%s", sorted(keys(m)), m["b"], sorted(keys(m2)), m2["b"], foreign(keys(m2)), foreign(m2["b"])))
		m2.clear()
		out.append(sprintf("map literal after clear of the second: %v", sorted(keys(mlit()))))
		s := slit()
		out.append(sprintf("set literal first look: %v%s", s, foreign(list(s))))
		s.add(ID)
		s2 := slit()
		out.append(sprintf("set literal edited: %v again: %v%s", s, s2, foreign(list(s2))))
		d := dflt(ID)
		out.append(sprintf("defaults first look: %v", d))
		d.append(ID); d[1] = ID
		d2 := dflt(ID + "-2")
		out.append(sprintf("defaults edited: %v again: %v%s", d, d2, foreign([d2[1]])))
		n := nested()
		n["l"][0].append(ID); n["l"].append([ID])
		n2 := nested()
		out.append(sprintf("nested literal edited: %v again: %v%s", n, n2, foreign(n2["l"][0])))
		c := strs()
		c += ID
		out.append(sprintf("string constant: %v again: %v", c, strs()))
	}
	return out
}
`

type mutParent struct {
	machine *vm.VirtualMachine
	work    *object.Function
}

func compileMutCode(extraGlobals map[string]any, tail string) (*compiler.Code, *risor.Config, error) {
	cfg := risor.NewConfig(risor.WithGlobals(extraGlobals))
	ast, err := parser.Parse(context.Background(), mutCodeSrc+tail)
	if err != nil {
		return nil, nil, err
	}
	code, err := compiler.Compile(ast, cfg.CompilerOpts()...)
	return code, cfg, err
}

func newMutParent() (*mutParent, error) {
	code, cfg, err := compileMutCode(nil, "")
	if err != nil {
		return nil, err
	}
	m := vm.New(code, cfg.VMOpts()...)
	if err := m.Run(context.Background()); err != nil {
		return nil, err
	}
	o, err := m.Get("work")
	if err != nil {
		return nil, err
	}
	fn, ok := o.(*object.Function)
	if !ok {
		return nil, fmt.Errorf("work is %s", o.Type())
	}
	return &mutParent{machine: m, work: fn}, nil
}

func mutateJobs(c CaseData, tag string, pick func(n int) []int, shape []sfield, stag string) []job {
	id := func(g int) string { return fmt.Sprintf("c09-%s-p%d-g%d", tag, c.Proc, g) }
	var jobs []job
	// two instantiations per process (one Svc, one Box when the draw gives one)
	for _, idx := range pick(len(instances))[:2] {
		in := &instances[idx]
		jobs = append(jobs, job{kind: "mutate", path: "mutate:type-objects:" + in.Name, run: func(e *env, g int) ([]string, int) {
			recv := in.New()
			return evalScript(mutProxyScript(id(g), in.Box), risor.WithGlobal(in.globalName(), recv)), 1
		}})
	}
	jobs = append(jobs, job{kind: "mutate", path: "mutate:type-objects:structof", run: func(e *env, g int) ([]string, int) {
		rec := newStructValue(shape, stag, g)
		return evalScript(mutStructScript(id(g), shape), risor.WithGlobal("rec", rec)), 1
	}})
	jobs = append(jobs, job{kind: "mutate", path: "mutate:module-and-builtin-values", run: func(e *env, g int) ([]string, int) {
		return evalScript(mutModuleScript(id(g))), 1
	}})
	jobs = append(jobs, job{kind: "mutate", path: "mutate:code-constants:own-code", run: func(e *env, g int) ([]string, int) {
		return evalScript(mutCodeSrc + fmt.Sprintf("\nwork(%q)\n", id(g))), 1
	}})
	jobs = append(jobs, job{kind: "mutate", path: "mutate:code-constants:one-compiled-code", run: func(e *env, g int) ([]string, int) {
		if e.mutCode == nil {
			return []string{"ERR: no shared code"}, 0
		}
		return guard(func() []string {
			res, err := risor.EvalCode(context.Background(), e.mutCode, risor.WithGlobals(map[string]any{"gid": id(g)}))
			return render(res, err)
		}), 1
	}})
	jobs = append(jobs, job{kind: "mutate", path: "mutate:code-constants:clones-of-one-vm", run: func(e *env, g int) ([]string, int) {
		if e.mutParent == nil {
			return []string{"ERR: no parent"}, 0
		}
		n := 0
		lines := guard(func() []string {
			var out []string
			for k := 0; k < 2; k++ { // two clones per goroutine, used one after the other
				cl, err := e.mutParent.machine.Clone()
				if err != nil {
					return append(out, "ERR: clone: "+err.Error())
				}
				n++
				res, err := cl.Call(context.Background(), e.mutParent.work, []object.Object{object.NewString(fmt.Sprintf("%s-k%d", id(g), k))})
				out = append(out, render(res, err)...)
			}
			return out
		})
		return lines, n
	}})
	return jobs
}
