package c09

import (
	"sort"
	"strings"
)

// Parsing of Go race-detector reports (GORACE log_path files).
//
//	==================
//	WARNING: DATA RACE
//	Write at 0x00c0001a2b40 by goroutine 23:
//	  github.com/risor-io/risor/object.(*GoType).GetConverter()
//	      /repo/object/go_type.go:140 +0x1c4
//	  ...
//
//	Previous read at 0x00c0001a2b40 by goroutine 24:
//	  ...
//
//	Goroutine 23 (running) created at:
//	  ...
//	==================

type frame struct {
	Func string `json:"func"`
	File string `json:"file"` // with line number
}

type raceReport struct {
	AccessA string  `json:"access_a"` // e.g. "Write", "Read", "Atomic write"
	AccessB string  `json:"access_b"` // e.g. "Previous read"
	A       []frame `json:"a"`
	B       []frame `json:"b"`
	Raw     string  `json:"-"`
}

const risorMod = "github.com/risor-io/risor"

func isRisorFrame(f frame) bool {
	if !strings.HasPrefix(f.Func, risorMod) {
		return false
	}
	rest := f.Func[len(risorMod):]
	if rest == "" || (rest[0] != '.' && rest[0] != '/') {
		return false
	}
	file := f.File
	if i := strings.LastIndex(file, ":"); i >= 0 {
		file = file[:i]
	}
	return !strings.HasSuffix(file, "_test.go")
}

func shortFunc(fn string) string {
	fn = strings.TrimSuffix(fn, "()")
	if strings.HasPrefix(fn, risorMod+"/") {
		return fn[len(risorMod)+1:]
	}
	if strings.HasPrefix(fn, risorMod+".") {
		// same naming as internal/props/racelog (used by C06, C07): functions of the root package
		// appear without a package qualifier
		return fn[len(risorMod)+1:]
	}
	return fn
}

// innermost / outermost frame of the stack that lies in a non-test risor package ("" if none).
func innermostRisor(st []frame) string {
	for _, f := range st {
		if isRisorFrame(f) {
			return shortFunc(f.Func)
		}
	}
	return ""
}

func outermostRisor(st []frame) string {
	for i := len(st) - 1; i >= 0; i-- {
		if isRisorFrame(st[i]) {
			return shortFunc(st[i].Func)
		}
	}
	return ""
}

func (r *raceReport) hasRisorFrame() bool {
	return innermostRisor(r.A) != "" || innermostRisor(r.B) != ""
}

// noRisor names a stack without a frame in a risor package (same wording as internal/props/racelog).
const noRisor = "(non-risor code)"

func orDash(s string) string {
	if s == "" {
		return noRisor
	}
	return s
}

func sortedPair(a, b string) string {
	if b < a {
		a, b = b, a
	}
	return a + "|" + b
}

// signature: the pair of innermost risor functions of the two stacks, order-independent.
func (r *raceReport) signature() string {
	return "race:" + sortedPair(orDash(innermostRisor(r.A)), orDash(innermostRisor(r.B)))
}

func (r *raceReport) entryPair() string {
	return sortedPair(orDash(outermostRisor(r.A)), orDash(outermostRisor(r.B)))
}

func stackKey(st []frame) string {
	parts := make([]string, 0, len(st))
	for _, f := range st {
		parts = append(parts, shortFunc(f.Func))
	}
	return strings.Join(parts, "<")
}

// stackPair: both stacks as function names only (no line numbers, no addresses), order-independent.
func (r *raceReport) stackPair() string {
	return sortedPair(stackKey(r.A), stackKey(r.B))
}

func parseStack(lines []string) []frame {
	var st []frame
	for i := 0; i < len(lines); i++ {
		l := lines[i]
		if !strings.HasPrefix(l, "  ") || strings.HasPrefix(l, "      ") {
			continue
		}
		f := frame{Func: strings.TrimSpace(l)}
		if i+1 < len(lines) && strings.HasPrefix(lines[i+1], "      ") {
			file := strings.TrimSpace(lines[i+1])
			if j := strings.Index(file, " +0x"); j >= 0 {
				file = file[:j]
			}
			f.File = file
			i++
		}
		st = append(st, f)
	}
	return st
}

// parseRaceLog extracts all DATA RACE reports from the text of a race log.
func parseRaceLog(text string) []raceReport {
	var reports []raceReport
	blocks := strings.Split(text, "==================")
	for _, blk := range blocks {
		if !strings.Contains(blk, "WARNING: DATA RACE") {
			continue
		}
		lines := strings.Split(blk, "\n")
		// sections: header line (not indented, ends with ':') followed by indented frames
		type section struct {
			head string
			body []string
		}
		var secs []section
		for _, l := range lines {
			if l == "" || strings.HasPrefix(l, "WARNING:") {
				continue
			}
			if !strings.HasPrefix(l, " ") {
				secs = append(secs, section{head: l})
				continue
			}
			if len(secs) > 0 {
				secs[len(secs)-1].body = append(secs[len(secs)-1].body, l)
			}
		}
		var rep raceReport
		rep.Raw = strings.TrimSpace(blk)
		n := 0
		for _, s := range secs {
			if strings.HasPrefix(s.head, "Goroutine ") {
				continue
			}
			acc := s.head
			if i := strings.Index(acc, " at 0x"); i >= 0 {
				acc = acc[:i]
			}
			switch n {
			case 0:
				rep.AccessA, rep.A = acc, parseStack(s.body)
			case 1:
				rep.AccessB, rep.B = acc, parseStack(s.body)
			}
			n++
		}
		if n >= 1 {
			reports = append(reports, rep)
		}
	}
	return reports
}

func (r *raceReport) describe() string {
	var b strings.Builder
	wr := func(acc string, st []frame) {
		b.WriteString(acc + ":\n")
		if len(st) == 0 {
			b.WriteString("    [no stack]\n")
		}
		for i, f := range st {
			if i >= 14 {
				b.WriteString("    …\n")
				break
			}
			b.WriteString("    " + shortFunc(f.Func) + "  " + f.File + "\n")
		}
	}
	wr(r.AccessA, r.A)
	wr(r.AccessB, r.B)
	return b.String()
}

// fatalSignature classifies a dead worker from its stderr: Go runtime fatal errors are named, the
// innermost risor function of the first goroutine stack after the fatal line is appended.
func fatalSignature(stderr string) (sig string, fatal string) {
	lines := strings.Split(stderr, "\n")
	for i, l := range lines {
		if strings.HasPrefix(l, "fatal error:") || strings.HasPrefix(l, "panic:") {
			fatal = strings.TrimSpace(l)
			inner := ""
			for _, m := range lines[i+1:] {
				m = strings.TrimSpace(m)
				if strings.HasPrefix(m, risorMod) {
					if j := strings.LastIndex(m, "("); j > 0 {
						m = m[:j]
					}
					inner = shortFunc(m)
					break
				}
			}
			class := fatal
			if j := strings.Index(class, " [recovered]"); j >= 0 {
				class = class[:j]
			}
			if strings.HasPrefix(class, "panic:") {
				class = "panic"
			}
			return "fatal:" + strings.TrimPrefix(class, "fatal error: ") + ":" + orDash(inner), fatal
		}
	}
	return "", ""
}

func sortedKeys[V any](m map[string]V) []string {
	ks := make([]string, 0, len(m))
	for k := range m {
		ks = append(ks, k)
	}
	sort.Strings(ks)
	return ks
}
