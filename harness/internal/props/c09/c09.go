// Package c09: evaluations on separate VMs are safe to run concurrently.
//
// Deciding monitor: the Go race detector. Every case is one fresh worker PROCESS (a `-race` build
// of the harness binary) in which N goroutines are released from one barrier; each goroutine
// evaluates programs on its own VM with its own globals. The programs are chosen so that they meet
// on the first-use paths of all package-level state (Go-type and converter registries, codec
// registry, int/byte caches, module functions) and on what separate VMs may legitimately share
// (one importer, one compiled code object, the parent of cloned VMs). Script-level sharing is
// excluded by construction, so every race report with a frame in a risor package is a race on
// interpreter or package state. Second oracle: each concurrent evaluation must give exactly the
// result lines that the same program gives when run alone afterwards in the same process.
package c09

import (
	"encoding/json"
	"fmt"
	"os"
	"path/filepath"
	"runtime"
	"sort"
	"strings"
	"time"

	"verif/internal/mon"
)

const ID = "C09"

func Register() {
	mon.Register(&mon.Prop{ID: ID, Drive: drive})
	mon.RegisterWorker(ID, worker)
}

var goroutineCounts = []int{2, 4, 8, 16}
var gomaxprocsValues = []int{2, 16}

func planCases(d *mon.Driver) []CaseData {
	r := d.Rand("cases")
	perP := d.N(24, 600)
	var cases []CaseData
	for _, p := range gomaxprocsValues {
		for i := 0; i < perP; i++ {
			rr := r.Split(fmt.Sprintf("p%d", p)).SplitN(i)
			c := CaseData{Proc: i, N: goroutineCounts[i%len(goroutineCounts)], Procs: p, Seed: rr.Uint64()}
			// modes alternate with a period that is coprime to the goroutine-count period
			if (i/len(goroutineCounts))%2 == 0 {
				c.Mode = "rounds"
			} else {
				c.Mode = "free"
			}
			perm := rr.Perm(len(allKinds))
			k := len(allKinds)
			if i%3 != 2 { // two thirds of the processes run a subset, so that first uses meet in different orders
				k = rr.Range(3, len(allKinds)-1)
			}
			for _, idx := range perm[:k] {
				c.Kinds = append(c.Kinds, allKinds[idx])
			}
			cases = append(cases, c)
		}
	}
	return cases
}

func caseID(c CaseData) string {
	return fmt.Sprintf("p%d-n%d-%s-proc%d", c.Procs, c.N, c.Mode, c.Proc)
}

type sigAgg struct {
	Reports   int            `json:"reports"`
	Processes int            `json:"processes"`
	Entries   map[string]int `json:"entry_pairs"`
	Stacks    map[string]int `json:"-"`
}

func drive(d *mon.Driver, replay string) int {
	d.Rule = "a process run (one fresh -race worker process) is counted once per workload kind in which >=2 goroutines executed the same first-use path concurrently, key = workload kind x goroutine count N x GOMAXPROCS x process index; workload kinds: proxy (method calls with parameters/results of Go types never seen before in the process), structof (reflect.StructOf types with run-specific fields: field get/set), codec (every codec + one registered per goroutine), smallint (int/byte caches, os.args, type-error path), sweep (every pure module function and builtin), import (ONE LocalImporter and ONE FSImporter shared by all VMs), sharedcode (ONE *compiler.Code run by all VMs, typed globals), clone (Clone()+Call on clones of one VM with disjoint arguments, parent idle / running / starting), mutate (scripts edit every mutable object reachable from process-wide state with keys carrying their own id and must see exactly their own edits), hammer (every pure module function / builtin / method with a pattern-, format-, layout- or key-like argument called hundreds of times with arguments derived from the goroutine's own id: identical calls must agree and every line must equal the sequential run; rand.*, time.now, os.getpid etc. in tight loops for the race detector with range checks and no 63-bit random value drawn twice per process), failfirst (operations that fail - caught with try - mixed with successful ones of the same builtin family in tight loops in all VMs at once: sorting, formatting/conversion, codecs/json, regexp, strings/bytes, math/containers; identical calls must agree and every line must equal the sequential run)"
	d.Assume = []string{
		"each goroutine has its own risor config, default globals and Go values; nothing is shared at script level, so every race report with a risor frame is on interpreter or package-level state",
		"first use happens once per process: each case is a fresh process; goroutines are released from one barrier (mode rounds: one barrier per program, mode free: one barrier, every goroutine runs the programs in its own order)",
		"the race detector decides from the happens-before relation of the observed accesses, not from timing; watchdog timeouts are inconclusive",
		"errz.SetTypeErrorsAreFatal and os.SetScriptArgs are process-wide settings and are only read by the workload; builtins.RegisterCodec is called concurrently because the registry is documented as guarded by its RWMutex",
		"the sequential reference results are computed after the concurrent phase in the same process (computing them before would remove the first-use paths); lines that differ between two sequential runs are not compared",
	}
	raceBin := os.Getenv("VERIF_RACE_BIN")
	if raceBin == "" {
		d.Fatal("VERIF_RACE_BIN is not set (run through run.sh)")
		return d.Finish(1, 0)
	}
	if _, err := os.Stat(raceBin); err != nil {
		d.Fatal("race-detector build of the harness not found: " + err.Error())
		return d.Finish(1, 0)
	}

	var cases []CaseData
	if replay != "" {
		var c CaseData
		if err := mon.LoadReplay(replay, &c); err != nil {
			fmt.Println("cannot load replay:", err)
			return 3
		}
		// a race report needs the two accesses to meet without an intervening synchronisation: repeat
		for i := 0; i < 8; i++ {
			cc := c
			cc.Proc = c.Proc*1000 + i
			cases = append(cases, cc)
		}
	} else {
		cases = planCases(d)
	}

	pending := map[string][]raceReport{} // case id -> reports of its process (filled by AfterBatch)
	pendingErr := map[string]string{}    // case id -> full stderr of a process that was killed or died
	allSigs := map[string]int{}          // every violation signature with its count (the driver prints only the first few)
	firstDetail := map[string]string{}
	violation := func(sig, detail string, c CaseData) {
		allSigs[sig]++
		if _, ok := firstDetail[sig]; !ok && !strings.HasPrefix(sig, "race:") {
			firstDetail[sig] = mon.Truncate(detail, 2500)
		}
		d.Violation(sig, detail, c)
	}
	sigs := map[string]*sigAgg{}
	entryPairs := map[string]int{}
	stackPairs := map[string]int{}
	pathRuns := map[string]int{}
	var firstNonRisor string
	samples := 0
	goroutines := 0

	afterBatch := func(dir string, batch []mon.Case) {
		files, _ := filepath.Glob(filepath.Join(dir, "race.*"))
		var reps []raceReport
		for _, f := range files {
			b, err := os.ReadFile(f)
			if err != nil {
				continue
			}
			reps = append(reps, parseRaceLog(string(b))...)
		}
		// GORACE log_path failing to open falls back to stderr
		if b, err := os.ReadFile(filepath.Join(dir, "stderr.txt")); err == nil && strings.Contains(string(b), "WARNING: DATA RACE") {
			reps = append(reps, parseRaceLog(string(b))...)
		}
		if len(batch) > 0 {
			pending[batch[0].ID] = append(pending[batch[0].ID], reps...)
			if b, err := os.ReadFile(filepath.Join(dir, "stderr.txt")); err == nil && (strings.Contains(string(b), "SIGQUIT") || strings.Contains(string(b), "fatal error:") || strings.Contains(string(b), "panic:")) {
				if len(b) > 4<<20 {
					b = b[:4<<20]
				}
				pendingErr[batch[0].ID] = string(b)
			}
		}
	}

	handle := func(mc mon.Case, res mon.Result) {
		var c CaseData
		_ = json.Unmarshal(mc.Data, &c)
		reps := pending[mc.ID]
		delete(pending, mc.ID)
		fullErr := pendingErr[mc.ID]
		delete(pendingErr, mc.ID)
		d.Event("processes_run", 1)
		goroutines += c.N
		d.Event("goroutines_released_from_barriers", c.N)

		// race reports first: they are valid whatever happened to the process afterwards
		d.Event("race_reports_raw", len(reps))
		inProc := map[string]*raceReport{}
		inProcCount := map[string]int{}
		// A stack that could not be restored (or whose risor function was not recorded) leaves one
		// side of the pair unknown. Such a report is counted under the complete signature of the same
		// process that shares its known side, if there is one; otherwise that side is named "(non-risor code)".
		completeBySide := map[string]string{}
		for i := range reps {
			a, b := innermostRisor(reps[i].A), innermostRisor(reps[i].B)
			if a != "" && b != "" {
				sig := reps[i].signature()
				for _, side := range []string{a, b} {
					if old, ok := completeBySide[side]; !ok || sig < old {
						completeBySide[side] = sig
					}
				}
			}
		}
		for i := range reps {
			r := &reps[i]
			if !r.hasRisorFrame() {
				d.Event("race_reports_without_risor_frame", 1)
				if firstNonRisor == "" {
					firstNonRisor = r.describe()
				}
				continue
			}
			d.Event("race_reports_with_risor_frame", 1)
			sig := r.signature()
			if a, b := innermostRisor(r.A), innermostRisor(r.B); a == "" || b == "" {
				d.Event("race_reports_with_one_stack_without_risor_frame", 1)
				if full, ok := completeBySide[a+b]; ok {
					sig = full
				}
			}
			if inProc[sig] == nil {
				inProc[sig] = r
			}
			inProcCount[sig]++
			a := sigs[sig]
			if a == nil {
				a = &sigAgg{Entries: map[string]int{}, Stacks: map[string]int{}}
				sigs[sig] = a
			}
			a.Reports++
			a.Entries[r.entryPair()]++
			a.Stacks[r.stackPair()]++
			entryPairs[r.entryPair()]++
			stackPairs[r.stackPair()]++
		}
		for _, sig := range sortedKeys(inProc) {
			r := inProc[sig]
			sigs[sig].Processes++
			detail := fmt.Sprintf("data race on interpreter/package state between evaluations on separate VMs (each with its own globals)\nprocess: %s  goroutines=%d GOMAXPROCS=%d mode=%s kinds=%s\nreports with this signature in this process: %d; outermost risor entry points: %s\n%s",
				mc.ID, c.N, c.Procs, c.Mode, strings.Join(c.Kinds, ","), inProcCount[sig], r.entryPair(), r.describe())
			violation(sig, detail, c)
		}

		switch res.Status {
		case "timeout":
			note := "watchdog timeout in process " + mc.ID
			if fullErr == "" && res.Crash != nil {
				fullErr = res.Crash.StderrTail
			}
			note += "; goroutines at SIGQUIT: " + condenseDump(fullErr)
			if dir := os.Getenv("C09_DEBUG_DIR"); dir != "" {
				_ = os.MkdirAll(dir, 0o755)
				_ = os.WriteFile(filepath.Join(dir, mc.ID+".stderr.txt"), []byte(fullErr), 0o644)
			}
			d.Event("watchdog_timeouts", 1)
			d.Inconclusive(note)
			return
		case "lost":
			d.Inconclusive("worker exited without a result for " + mc.ID)
			return
		case "crash":
			stderr := ""
			exit := ""
			if res.Crash != nil {
				stderr, exit = res.Crash.StderrTail, res.Crash.Exit
			}
			if fullErr != "" {
				stderr = fullErr
			}
			if dir := os.Getenv("C09_DEBUG_DIR"); dir != "" {
				_ = os.MkdirAll(dir, 0o755)
				_ = os.WriteFile(filepath.Join(dir, mc.ID+".crash.stderr.txt"), []byte(stderr), 0o644)
			}
			sig, fatal := fatalSignature(stderr)
			if sig == "" {
				// no Go fatal error or panic on stderr: the process was killed from outside (e.g. the
				// kernel's OOM killer on a loaded machine); nothing can be concluded from that
				d.Event("worker_killed_without_go_fatal", 1)
				d.Inconclusive("worker " + mc.ID + " ended without a Go fatal error or panic: " + exit)
				return
			}
			d.Event("worker_deaths", 1)
			violation(sig, fmt.Sprintf("the worker process died while %d goroutines evaluated on separate VMs: %s (%s)\nprocess: %s GOMAXPROCS=%d mode=%s kinds=%s\n%s",
				c.N, fatal, exit, mc.ID, c.Procs, c.Mode, strings.Join(c.Kinds, ","), mon.Truncate(stderr, 3000)), c)
			return
		}
		if res.Panic != "" {
			d.Fatal("harness panic in worker: " + mon.Truncate(res.Panic, 1500))
			return
		}
		var o Out
		if err := json.Unmarshal(res.Data, &o); err != nil {
			d.Fatal("bad worker output: " + err.Error())
			return
		}
		if o.Harness != "" {
			d.Fatal("worker: " + o.Harness)
			return
		}
		if o.GoMaxProcs != c.Procs {
			d.Fatal(fmt.Sprintf("worker ran with GOMAXPROCS=%d, planned %d", o.GoMaxProcs, c.Procs))
			return
		}
		d.Eval(o.ConcEvals + o.SeqEvals)
		d.Event("evaluations_concurrent", o.ConcEvals)
		d.Event("evaluations_sequential_reference", o.SeqEvals)
		d.Event("result_lines_compared_with_sequential", o.Lines)
		d.Event("result_lines_unstable_when_run_alone_not_compared", o.Unstable)
		kindsHit := map[string]bool{}
		for p, n := range o.Paths {
			if n >= 2 {
				d.Event("first_use_paths_executed_by_2plus_goroutines", 1)
				pathRuns[p]++
				kindsHit[strings.SplitN(p, ":", 2)[0]] = true
			}
		}
		for range o.Overlapped {
			d.Event("first_use_paths_with_overlapping_execution_wallclock_info", 1)
		}
		for k := range kindsHit {
			d.Distinct(fmt.Sprintf("%s/n%d/p%d/proc%d", k, c.N, c.Procs, c.Proc))
		}
		seen := map[string]bool{}
		for _, m := range o.Mismatches {
			d.Event("result_lines_different_from_sequential", 1)
			sig := "differs:" + m.Class + ":" + m.Kind
			if seen[sig] {
				continue
			}
			seen[sig] = true
			violation(sig, fmt.Sprintf("an evaluation gave a different result when run concurrently with evaluations on other VMs than when run alone\nprocess: %s goroutines=%d GOMAXPROCS=%d mode=%s\npath %s, goroutine %d, result line %d\n concurrent: %s\n alone:      %s",
				mc.ID, c.N, c.Procs, c.Mode, m.Path, m.G, m.Line, m.Conc, m.Seq), c)
		}
		if samples < 4 && o.Sample != "" {
			samples++
			d.Sample(map[string]any{"process": mc.ID, "kinds": c.Kinds, "first_use_paths": len(o.Paths), "concurrent_evaluations": o.ConcEvals, "race_reports": len(reps), "sample": o.Sample})
		}
	}

	byP := map[int][]mon.Case{}
	for _, c := range cases {
		if only := os.Getenv("C09_ONLY"); only != "" && !strings.Contains(caseID(c), only) { // development aid
			continue
		}
		byP[c.Procs] = append(byP[c.Procs], mon.NewCase(caseID(c), "process", c))
	}
	var ps []int
	for p := range byP {
		ps = append(ps, p)
	}
	sort.Ints(ps)
	parallel := runtime.NumCPU() / 2
	if parallel < 2 {
		parallel = 2
	}
	for _, p := range ps {
		d.RunPool(byP[p], mon.PoolOpts{
			Binary:       raceBin,
			BatchSize:    1,
			Parallel:     parallel,
			BatchTimeout: 300 * time.Second,
			NoRetry:      true,
			Env:          []string{"GORACE=halt_on_error=0 exitcode=0 history_size=3 log_path=race", fmt.Sprintf("GOMAXPROCS=%d", p)},
			AfterBatch:   afterBatch,
		}, handle)
	}

	// evidence
	type sigOut struct {
		Signature string `json:"signature"`
		*sigAgg
		DistinctStackPairs int `json:"distinct_stack_pairs"`
	}
	so := []sigOut{}
	for _, s := range sortedKeys(sigs) {
		so = append(so, sigOut{Signature: s, sigAgg: sigs[s], DistinctStackPairs: len(sigs[s].Stacks)})
	}
	d.Extra("race_signatures", so)
	d.Extra("violation_signatures_all", allSigs)
	if len(firstDetail) > 0 {
		d.Extra("first_witness_of_each_non_race_signature", firstDetail)
	}
	d.Extra("race_reports_distinct_by_entry_point_pair", len(entryPairs))
	d.Extra("race_reports_distinct_by_stack_pair_without_lines", len(stackPairs))
	d.Extra("race_reports_distinct_signatures", len(sigs))
	d.Extra("first_use_paths_distinct", len(pathRuns))
	d.Extra("first_use_paths_process_runs", pathRuns)
	d.Extra("goroutine_counts", goroutineCounts)
	d.Extra("gomaxprocs_values", gomaxprocsValues)
	d.Extra("goroutines_total", goroutines)
	if firstNonRisor != "" {
		d.Extra("first_race_report_without_risor_frame_ignored", firstNonRisor)
	}
	if replay != "" {
		return d.Finish(1, 0)
	}
	return d.Finish(d.N(5000, 100000), d.N(100, 2500))
}

// condenseDump summarises a SIGQUIT goroutine dump: per goroutine (those inside risor or harness
// code first) its state, the function it is in and its innermost risor / harness frame.
func condenseDump(stderr string) string {
	var inside, other []string
	for _, b := range strings.Split(stderr, "\n\n") {
		lines := strings.Split(strings.TrimSpace(b), "\n")
		if len(lines) == 0 || !strings.HasPrefix(lines[0], "goroutine ") {
			continue
		}
		cut := func(l string) string {
			if i := strings.LastIndex(l, "("); i > 0 {
				l = l[:i]
			}
			return l
		}
		where := ""
		for _, l := range lines[1:] {
			if strings.HasPrefix(l, risorMod) || strings.HasPrefix(l, "verif/") {
				where = shortFunc(cut(l))
				break
			}
		}
		top := ""
		if len(lines) > 1 {
			top = cut(lines[1])
		}
		head := strings.TrimSuffix(lines[0], ":")
		if i := strings.Index(head, " gp="); i > 0 {
			if j := strings.Index(head, "["); j > i {
				head = head[:i] + " " + head[j:]
			}
		}
		if where != "" {
			inside = append(inside, head+" "+top+" in "+where)
		} else if len(other) < 3 {
			other = append(other, head+" "+top)
		}
	}
	if len(inside) > 24 {
		inside = append(inside[:24], fmt.Sprintf("… %d more", len(inside)-24))
	}
	return mon.Truncate(strings.Join(append(inside, other...), "; "), 3000)
}
