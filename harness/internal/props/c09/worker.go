package c09

import (
	"context"
	"encoding/json"
	"fmt"
	"os"
	"path/filepath"
	"runtime"
	"runtime/debug"
	"sort"
	"strings"
	"sync"
	"time"

	"github.com/risor-io/risor"
	"github.com/risor-io/risor/builtins"
	"github.com/risor-io/risor/compiler"
	"github.com/risor-io/risor/importer"
	"github.com/risor-io/risor/object"
	"github.com/risor-io/risor/parser"
	"github.com/risor-io/risor/vm"

	"verif/internal/mon"
)

// CaseData describes one worker PROCESS: first use of a type / codec / module happens once per
// process, so a case is a whole process run.
type CaseData struct {
	Proc  int      `json:"proc"`       // process index (only part of the case id / distinct key)
	N     int      `json:"n"`          // goroutines released from one barrier
	Procs int      `json:"gomaxprocs"` // GOMAXPROCS the pool run sets through the environment
	Seed  uint64   `json:"seed"`
	Mode  string   `json:"mode"` // rounds: one barrier per program; free: one barrier, each goroutine runs all programs in its own order
	Kinds []string `json:"kinds"`
}

var allKinds = []string{"proxy", "structof", "codec", "smallint", "sweep", "import", "sharedcode", "clone", "mutate", "hammer", "failfirst"}

type Mismatch struct {
	Class string `json:"class"`
	Kind  string `json:"kind"`
	Path  string `json:"path"`
	G     int    `json:"g"`
	Line  int    `json:"line"`
	Conc  string `json:"conc"`
	Seq   string `json:"seq"`
}

type Out struct {
	ConcEvals  int            `json:"conc_evals"`
	SeqEvals   int            `json:"seq_evals"`
	Lines      int            `json:"lines"`                // result lines compared with the sequential run
	Paths      map[string]int `json:"paths"`                // first-use path -> goroutines that executed it in the concurrent phase
	Overlapped map[string]int `json:"overlapped,omitempty"` // informational (wall clock): goroutines that entered the path before the first one left it
	Mismatches []Mismatch     `json:"mismatches,omitempty"`
	Unstable   int            `json:"unstable,omitempty"` // lines whose two sequential runs disagree (not compared)
	GoMaxProcs int            `json:"gomaxprocs"`
	Harness    string         `json:"harness,omitempty"`
	Sample     string         `json:"sample,omitempty"`
	Dump       []string       `json:"dump,omitempty"` // only with C09_DUMP=1 (development aid)
}

// ---------------------------------------------------------------------------------------
// rendering and evaluation helpers

func clip(s string, n int) string {
	if len(s) > n {
		return s[:n] + "…"
	}
	return s
}

func renderObj(o object.Object) string {
	if o == nil {
		return "<nil object>"
	}
	return string(o.Type()) + ":" + clip(o.Inspect(), 400)
}

// render turns a result into comparable lines: a list result gives one line per element.
func render(res object.Object, err error) []string {
	if err != nil {
		return []string{"ERR: " + clip(err.Error(), 400)}
	}
	if l, ok := res.(*object.List); ok {
		items := l.Value()
		lines := make([]string, 0, len(items)+1)
		lines = append(lines, fmt.Sprintf("list of %d", len(items)))
		for _, it := range items {
			lines = append(lines, renderObj(it))
		}
		return lines
	}
	return []string{renderObj(res)}
}

func guard(f func() []string) (lines []string) {
	defer func() {
		if r := recover(); r != nil {
			lines = []string{"GO-PANIC: " + clip(fmt.Sprint(r), 300) + " @ " + clip(topFrames(string(debug.Stack())), 300)}
		}
	}()
	return f()
}

func topFrames(stack string) string {
	var out []string
	for _, l := range strings.Split(stack, "\n") {
		if strings.HasPrefix(l, "github.com/risor-io/risor") {
			out = append(out, strings.TrimSpace(l))
			if len(out) == 3 {
				break
			}
		}
	}
	return strings.Join(out, " < ")
}

func evalScript(src string, opts ...risor.Option) []string {
	return guard(func() []string {
		res, err := risor.Eval(context.Background(), src, opts...)
		return render(res, err)
	})
}

func goState(v any) string {
	b, err := json.Marshal(v)
	if err != nil {
		return "go-state: !" + err.Error()
	}
	return "go-state: " + clip(string(b), 600)
}

// ---------------------------------------------------------------------------------------
// jobs

type job struct {
	kind string
	path string
	// run performs goroutine g's evaluation(s) for this job with g's own globals and returns the
	// comparable result lines and the number of evaluations (Eval / EvalCode / Call) made.
	run func(e *env, g int) ([]string, int)
	// nondet: the results cannot be compared with a sequential run (random values, clock); only
	// the race detector, fatal errors and post judge this job
	nondet bool
	// post, if set, judges the concurrent results of all goroutines ([g] -> lines) of this job
	post func(perG [][]string) []Mismatch
}

// env holds what the evaluations of one phase legitimately share: importers, compiled code, the
// parent VMs of the clone jobs. A fresh env is built for the concurrent phase and for each
// sequential reference phase.
type env struct {
	c          CaseData
	dir        string
	localImp   importer.Importer
	fsImp      importer.Importer
	sharedCode *compiler.Code
	idle       *cloneParent
	running    *cloneParent
	starting   *cloneParent
	mutCode    *compiler.Code // kind mutate: one compiled code run by all VMs
	mutParent  *mutParent     // kind mutate: the VM whose clones call work()
	gate       chan struct{}
	gateOnce   sync.Once
	setupErr   string
}

func (e *env) openGate() { e.gateOnce.Do(func() { close(e.gate) }) }

type Counter struct {
	Total int
	Log   []string
}

func (c *Counter) Add(n int) int { c.Total += n; return c.Total }
func (c *Counter) Names(xs []string) string {
	c.Log = append(c.Log, xs...)
	return strings.Join(xs, "+")
}
func (c *Counter) Scale(f float32, by map[string]float32) float32 { return f * by["k"] }

const modA = `
K := 5
table := {"a": 1, "b": 2}
func f(x) { return x * 2 + K }
func mk(n) {
	l := []
	for i := 0; i < n; i++ { l.append(i * i) }
	return l
}
func look(k) { return table[k] }
`

const modB = `
import c09moda
func h(x) { return c09moda.f(x) + 1 }
func words(s) { return strings.split(s, " ").map(func(w) { return strings.to_upper(w) }) }
`

const importScript = `
import c09moda
import c09modb
from c09moda import mk
[c09moda.f(%d), c09modb.h(%d), mk(%d), c09moda.K, c09moda.look("b"), c09modb.words("x%d y z"), ctr.Add(%d), ctr.Names(["n%d", "m"])]
`

const sharedSrc = `
func sq(x) { return x * x }
func fact(n) { if n < 2 { return 1 }; return n * fact(n - 1) }
total := 0
for _, v := range gl { total += sq(v) }
words := []
for k, v := range gm { words.append(k + "=" + string(v)) }
f := func(a, b=2) { return a * b + gi }
acc := func() { c := 0; return func() { c += gi; return c } }()
acc(); acc()
names := gin.map(func(p) { return p.B })
[total, sorted(words), f(3), f(3, 4), fact(gi % 10 + 3), acc(), names, gs.map(func(s) { return strings.to_upper(s) }), ctr.Add(gi), ctr.Scale(1.5, {"k": 2.0}), {"n": gi, "l": gl}, gf * 2]
`

func sharedGlobals(g int) map[string]any {
	return map[string]any{
		"gi":  g,
		"gl":  []int{g, g + 1, g + 2},
		"gm":  map[string]int{"a": g, "b": g * 2},
		"gs":  []string{fmt.Sprintf("w%d", g), "x"},
		"gin": []Inner{{A: g, B: fmt.Sprintf("in%d", g)}, {A: 1, B: "one"}},
		"gf":  float32(g) + 0.5,
		"ctr": &Counter{},
	}
}

const cloneSrcHead = `
func fib(n) { if n < 2 { return n }; return fib(n - 1) + fib(n - 2) }
func work(g, n) {
	l := []
	for i := 0; i < n; i++ { l.append(fib(i % 12) + g) }
	m := {}
	for i, v := range l { m[string(i)] = v }
	up := strings.to_upper("g" + string(g))
	return [l, len(m), up, math.sqrt(float(g * g)), sorted(keys(m))[0], encode(up, "hex")]
}
func mk(g) {
	c := 0
	inc := func() { c += g; return c }
	inc(); inc()
	return [inc(), [1, 2, 3].map(func(x) { return x * g })]
}
`

// cloneSrc adds 40 small functions with a nested function each; the driver imports a module and
// calls them for the first time while clones are being made (every first call of a nested function
// loads code into the parent VM, the import stores a module in it).
func cloneSrc(withGate bool) string {
	var b strings.Builder
	b.WriteString(cloneSrcHead)
	for i := 0; i < 40; i++ {
		// the nested function's code is loaded into the VM by the first call, not by Run
		fmt.Fprintf(&b, "func h%d(x) { f := func(y) { return y + %d }; return f(x) }\n", i, i)
	}
	b.WriteString("func driver(g) {\n")
	if withGate {
		b.WriteString("\tgate()\n")
	}
	b.WriteString("\timport c09moda\n")
	b.WriteString("\ts := g + c09moda.f(1) - 7\n")
	for i := 0; i < 40; i++ {
		fmt.Fprintf(&b, "\ts = h%d(s)\n", i)
	}
	b.WriteString("\treturn [s, work(g, 6)]\n}\n")
	return b.String()
}

type cloneParent struct {
	machine *vm.VirtualMachine
	work    *object.Function
	mk      *object.Function
	driver  *object.Function
}

func newCloneParent(e *env, withGate bool) (*cloneParent, error) {
	ctx := context.Background()
	globals := map[string]any{}
	if withGate {
		globals["gate"] = object.NewBuiltin("gate", func(ctx context.Context, args ...object.Object) object.Object {
			e.openGate()
			return object.Nil
		})
	}
	cfg := risor.NewConfig(risor.WithGlobals(globals), risor.WithImporter(e.localImp))
	ast, err := parser.Parse(ctx, cloneSrc(withGate))
	if err != nil {
		return nil, err
	}
	code, err := compiler.Compile(ast, cfg.CompilerOpts()...)
	if err != nil {
		return nil, err
	}
	m := vm.New(code, cfg.VMOpts()...)
	if err := m.Run(ctx); err != nil {
		return nil, err
	}
	p := &cloneParent{machine: m}
	for name, dst := range map[string]**object.Function{"work": &p.work, "mk": &p.mk, "driver": &p.driver} {
		o, err := m.Get(name)
		if err != nil {
			return nil, err
		}
		fn, ok := o.(*object.Function)
		if !ok {
			return nil, fmt.Errorf("%s is %s", name, o.Type())
		}
		*dst = fn
	}
	return p, nil
}

func newEnv(c CaseData, dir string, kinds map[string]bool) *env {
	e := &env{c: c, dir: dir, gate: make(chan struct{})}
	fail := func(what string, err error) {
		if e.setupErr == "" {
			e.setupErr = what + ": " + err.Error()
		}
	}
	if kinds["import"] || kinds["clone"] {
		names := risor.NewConfig(risor.WithGlobals(map[string]any{"ctr": &Counter{}})).GlobalNames()
		e.localImp = importer.NewLocalImporter(importer.LocalImporterOptions{GlobalNames: names, SourceDir: dir})
		e.fsImp = importer.NewFSImporter(importer.FSImporterOptions{GlobalNames: names, SourceFS: os.DirFS(dir)})
	}
	if kinds["sharedcode"] {
		cfg := risor.NewConfig(risor.WithGlobals(sharedGlobals(0)))
		ast, err := parser.Parse(context.Background(), sharedSrc)
		if err != nil {
			fail("shared code parse", err)
		} else if e.sharedCode, err = compiler.Compile(ast, cfg.CompilerOpts()...); err != nil {
			fail("shared code compile", err)
		}
	}
	if kinds["mutate"] {
		var err error
		if e.mutCode, _, err = compileMutCode(map[string]any{"gid": ""}, "\nwork(gid)\n"); err != nil {
			fail("mutate shared code", err)
		}
		if e.mutParent, err = newMutParent(); err != nil {
			fail("mutate clone parent", err)
		}
	}
	if kinds["clone"] {
		var err error
		if e.idle, err = newCloneParent(e, false); err != nil {
			fail("clone parent", err)
		}
		if e.running, err = newCloneParent(e, true); err != nil {
			fail("clone parent", err)
		}
		if e.starting, err = newCloneParent(e, false); err != nil {
			fail("clone parent", err)
		}
	}
	return e
}

func cloneCall(p *cloneParent, g int) ([]string, int) {
	var lines []string
	n := 0
	lines = append(lines, guard(func() []string {
		cl, err := p.machine.Clone()
		if err != nil {
			return []string{"ERR: clone: " + err.Error()}
		}
		n++
		res, err := cl.Call(context.Background(), p.work, []object.Object{object.NewInt(int64(g)), object.NewInt(int64(10 + g%7))})
		out := render(res, err)
		// a second clone made while the first one exists, used for an independent call
		cl2, err := p.machine.Clone()
		if err != nil {
			return append(out, "ERR: clone: "+err.Error())
		}
		n++
		res, err = cl2.Call(context.Background(), p.mk, []object.Object{object.NewInt(int64(g + 1))})
		out = append(out, render(res, err)...)
		n++
		res, err = cl.Call(context.Background(), p.mk, []object.Object{object.NewInt(int64(g + 2))})
		return append(out, render(res, err)...)
	})...)
	return lines, n
}

func parentCall(p *cloneParent, g int) ([]string, int) {
	return guard(func() []string {
		res, err := p.machine.Call(context.Background(), p.driver, []object.Object{object.NewInt(int64(g))})
		return render(res, err)
	}), 1
}

// ---------------------------------------------------------------------------------------
// module sweep: every pure function of the default modules and builtins is called through a VM
// with a fixed set of argument shapes (most shapes end in an argument or type error; the ones
// that fit run the function's body).

var sweepGroups = map[string][]string{
	"text": {"strings", "bytes", "regexp", "strconv", "fmt"},
	"data": {"base64", "json", "errors", "filepath", "net", "time", "rand"},
	"core": {"", "math"},
}

var sweepAllowTop = strings.Fields("all any bool buffer byte byte_slice call chr chunk coalesce decode encode error errorf float float_slice getattr hash int is_hashable iter keys len list map ord reversed set sorted sprintf string try type")

var sweepDeny = map[string]bool{
	"fmt.printf": true, "fmt.println": true, "filepath.walk_dir": true,
	"time.now": true, "time.since": true, "time.sleep": true,
	"net.interface_addrs": true, "net.lookup_addr": true, "net.lookup_cname": true, "net.lookup_host": true,
	"net.lookup_ip": true, "net.lookup_port": true, "net.lookup_txt": true,
}

const sweepSrc = `
func t0(f) { return f() }
func t1(f, a) { return f(a) }
func t2(f, a, b) { return f(a, b) }
func t3(f, a, b, c) { return f(a, b, c) }
`

func sweepShapes(g int) [][]object.Object {
	s := func(x string) object.Object { return object.NewString(x) }
	i := func(x int) object.Object { return object.NewInt(int64(x)) }
	bs := func(x string) object.Object { return object.NewByteSlice([]byte(x)) }
	gs := fmt.Sprint(g)
	return [][]object.Object{
		{},
		{s("ab" + gs)}, {i(g + 2)}, {object.NewFloat(2.5)}, {object.NewList([]object.Object{s("b"), s("a" + gs)})}, {bs("x" + gs)},
		{s("ab" + gs), s("b")}, {s("a,b" + gs), s(",")}, {i(g + 2), i(3)},
		{object.NewList([]object.Object{s("b"), s("a" + gs)}), s(",")}, {s("ab" + gs), i(2)}, {s("%d|%v"), i(g)},
		{s("[a-z]+"), s("ab" + gs)}, {bs("xyx" + gs), bs("x")},
		{s("ab" + gs), s("b"), s("c")}, {s("ab" + gs), i(0), i(1)}, {bs("xyx"), bs("x"), bs("z" + gs)},
	}
}

func sweep(group string, g int) ([]string, int) {
	ctx := context.Background()
	n := 0
	var lines []string
	lines = guard(func() []string {
		cfg := risor.NewConfig() // own default globals
		ast, err := parser.Parse(ctx, sweepSrc)
		if err != nil {
			return []string{"ERR: " + err.Error()}
		}
		code, err := compiler.Compile(ast, cfg.CompilerOpts()...)
		if err != nil {
			return []string{"ERR: " + err.Error()}
		}
		m := vm.New(code, cfg.VMOpts()...)
		if err := m.Run(ctx); err != nil {
			return []string{"ERR: " + err.Error()}
		}
		n++
		var ts [4]*object.Function
		for k := range ts {
			o, err := m.Get(fmt.Sprintf("t%d", k))
			if err != nil {
				return []string{"ERR: " + err.Error()}
			}
			ts[k] = o.(*object.Function)
		}
		globals := cfg.Globals()
		type target struct {
			name string
			fn   object.Object
		}
		var targets []target
		for _, mod := range sweepGroups[group] {
			if mod == "" {
				for _, name := range sweepAllowTop {
					if o, ok := globals[name].(object.Object); ok {
						targets = append(targets, target{name, o})
					}
				}
				continue
			}
			mo, ok := globals[mod].(*object.Module)
			if !ok {
				continue
			}
			for _, name := range mo.VerifAttrNames() {
				full := mod + "." + name
				if sweepDeny[full] {
					continue
				}
				o, ok := mo.GetAttr(name)
				if !ok {
					continue
				}
				if _, callable := o.(object.Callable); !callable {
					continue
				}
				targets = append(targets, target{full, o})
			}
		}
		var out []string
		for _, t := range targets {
			for si, shape := range sweepShapes(g) {
				args := append([]object.Object{t.fn}, shape...)
				res, err := m.Call(ctx, ts[len(shape)], args)
				n++
				var r string
				switch {
				case err != nil:
					r = "ERR: " + clip(err.Error(), 200)
				case strings.HasPrefix(t.name, "rand."):
					r = string(res.Type())
				default:
					r = clip(renderObj(res), 200)
				}
				out = append(out, fmt.Sprintf("%s#%d => %s", t.name, si, r))
			}
		}
		return out
	})
	return lines, n
}

// ---------------------------------------------------------------------------------------
// scripts of the simple kinds

func codecScript(g int, own string) string {
	d := fmt.Sprintf("payload-%d-é", g)
	return fmt.Sprintf(`
d := %q
r := []
for _, name := range ["base64", "base32", "hex", "urlquery", %q] {
	x := encode(d, name)
	r.append(x)
	r.append(string(decode(x, name)))
}
r.append(string(decode(encode(d, "gzip"), "gzip")))
j := encode({"a": %d, "l": [1, 2, %d], "s": d, "n": nil, "f": 1.5}, "json")
r.append(j)
r.append(decode(j, "json"))
c := encode([["a", "b"], [d, "x%d"]], "csv")
r.append(c)
r.append(decode(c, "csv"))
r.append(try(func() { encode(d, "no-such-codec-%d") }, func(e) { string(e) }))
r.append(try(func() { decode("%%%%", "base64") }, func(e) { string(e) }))
r
`, d, own, g, g, g, g)
}

func registerOwnCodec(name string, g int) {
	prefix := fmt.Sprintf("<%d>", g)
	_ = builtins.RegisterCodec(name, &builtins.Codec{
		Encode: func(ctx context.Context, o object.Object) object.Object {
			s, err := object.AsString(o)
			if err != nil {
				return err
			}
			return object.NewString(prefix + s)
		},
		Decode: func(ctx context.Context, o object.Object) object.Object {
			s, err := object.AsString(o)
			if err != nil {
				return err
			}
			return object.NewString(strings.TrimPrefix(s, prefix))
		},
	})
}

func smallIntScript(g int) string {
	return fmt.Sprintf(`
G := %d
s := 0
l := []
for i := 0; i < 400; i++ {
	s += i %% 13
	if i %% 50 == 0 { l.append(i %% 7) }
}
bs := byte_slice([G %% 256, 1, 2, 255])
b := byte(G %% 200)
m := {}
for i := 0; i < 40; i++ { m[string(i %% 9)] = i + G }
e := try(func() { 1 + "a" }, func(e) { string(e) })
[s, l, bs, b, b + 1, int(b) * 2, len(os.args()), chr(65 + G %% 26), ord("a"), 255 + G, -1 + G, bs[0], type(bs[1]), m, e, len(bs), [1, 2, 3][G %% 3], 1024 + G, float(G) / 4]
`, g)
}

// ---------------------------------------------------------------------------------------
// plan of a process

func planJobs(c CaseData) []job {
	r := mon.NewRand(c.Seed).Split("jobs")
	tag := fmt.Sprintf("%x", c.Seed&0xfffff)
	var jobs []job
	for _, kind := range c.Kinds {
		switch kind {
		case "proxy":
			perm := r.Perm(len(instances))
			k := 12
			if k > len(perm) {
				k = len(perm)
			}
			for _, idx := range perm[:k] {
				in := &instances[idx]
				jobs = append(jobs, job{kind: "proxy", path: "proxy:" + in.Name, run: func(e *env, g int) ([]string, int) {
					recv := in.New()
					lines := evalScript(in.script(g), risor.WithGlobal(in.globalName(), recv))
					return append(lines, goState(recv)), 1
				}})
			}
		case "structof":
			for s := 0; s < 2; s++ {
				stag := fmt.Sprintf("%s%c", tag, 'a'+s)
				fs := structShape(r.Split(stag), stag)
				var kinds []string
				for _, f := range fs {
					kinds = append(kinds, f.Kind)
				}
				jobs = append(jobs, job{kind: "structof", path: "structof:{" + strings.Join(kinds, ",") + "}", run: func(e *env, g int) ([]string, int) {
					rec := newStructValue(fs, stag, g)
					lines := evalScript(structScript(fs, stag, g), risor.WithGlobal("rec", rec))
					return append(lines, goState(rec)), 1
				}})
			}
		case "codec":
			jobs = append(jobs, job{kind: "codec", path: "codec:base64,base32,hex,urlquery,gzip,json,csv,own", run: func(e *env, g int) ([]string, int) {
				own := fmt.Sprintf("c09-%s-%d", tag, g)
				registerOwnCodec(own, g)
				return evalScript(codecScript(g, own)), 1
			}})
		case "smallint":
			jobs = append(jobs, job{kind: "smallint", path: "smallint:int-byte-caches,os.args,type-error", run: func(e *env, g int) ([]string, int) {
				return evalScript(smallIntScript(g)), 1
			}})
		case "sweep":
			groups := []string{"text", "data", "core"}
			for _, grp := range groups {
				grp := grp
				jobs = append(jobs, job{kind: "sweep", path: "sweep:" + grp, run: func(e *env, g int) ([]string, int) {
					return sweep(grp, g)
				}})
			}
		case "import":
			for _, which := range []string{"local", "fs"} {
				which := which
				jobs = append(jobs, job{kind: "import", path: "import:" + which, run: func(e *env, g int) ([]string, int) {
					imp := e.localImp
					if which == "fs" {
						imp = e.fsImp
					}
					ctr := &Counter{}
					src := fmt.Sprintf(importScript, g, g, g%5+2, g, g+1, g)
					lines := evalScript(src, risor.WithImporter(imp), risor.WithGlobal("ctr", ctr))
					return append(lines, goState(ctr)), 1
				}})
			}
		case "sharedcode":
			jobs = append(jobs, job{kind: "sharedcode", path: "sharedcode:one-compiled-code,typed-globals", run: func(e *env, g int) ([]string, int) {
				if e.sharedCode == nil {
					return []string{"ERR: no shared code"}, 0
				}
				gl := sharedGlobals(g)
				lines := guard(func() []string {
					res, err := risor.EvalCode(context.Background(), e.sharedCode, risor.WithGlobals(gl))
					return render(res, err)
				})
				return append(lines, goState(gl["ctr"])), 1
			}})
		case "hammer":
			jobs = append(jobs, hammerJobs(c, tag)...)
		case "failfirst":
			jobs = append(jobs, failFirstJobs(c, tag)...)
		case "mutate":
			mr := mon.NewRand(c.Seed).Split("mutate")
			stag := tag + "m"
			jobs = append(jobs, mutateJobs(c, tag, mr.Perm, structShape(mr.Split("shape"), stag), stag)...)
		case "clone":
			jobs = append(jobs, job{kind: "clone", path: "clone:parent-idle", run: func(e *env, g int) ([]string, int) {
				if e.idle == nil {
					return []string{"ERR: no parent"}, 0
				}
				return cloneCall(e.idle, g)
			}})
			jobs = append(jobs, job{kind: "clone", path: "clone:parent-running", run: func(e *env, g int) ([]string, int) {
				if e.running == nil {
					return []string{"ERR: no parent"}, 0
				}
				if g == 0 {
					// the parent evaluation: opens the gate from inside the script, then calls 40
					// functions for the first time while the other goroutines clone it
					defer e.openGate()
					return parentCall(e.running, g)
				}
				<-e.gate
				return cloneCall(e.running, g)
			}})
			jobs = append(jobs, job{kind: "clone", path: "clone:parent-starting", run: func(e *env, g int) ([]string, int) {
				if e.starting == nil {
					return []string{"ERR: no parent"}, 0
				}
				if g == 0 {
					return parentCall(e.starting, g)
				}
				return cloneCall(e.starting, g)
			}})
		}
	}
	return jobs
}

// ---------------------------------------------------------------------------------------
// the worker: concurrent phase, then sequential reference phase(s), then comparison

func worker(kind string, data json.RawMessage) any {
	var c CaseData
	if err := json.Unmarshal(data, &c); err != nil {
		return &Out{Harness: "bad case: " + err.Error()}
	}
	o := &Out{Paths: map[string]int{}, Overlapped: map[string]int{}, GoMaxProcs: runtime.GOMAXPROCS(0)}
	dir := os.Getenv("VERIF_BATCH_DIR")
	if dir == "" {
		dir, _ = os.Getwd()
	}
	dir = filepath.Join(dir, fmt.Sprintf("mods-%d", c.Proc))
	if err := os.MkdirAll(dir, 0o755); err != nil {
		o.Harness = err.Error()
		return o
	}
	_ = os.WriteFile(filepath.Join(dir, "c09moda.risor"), []byte(modA), 0o644)
	_ = os.WriteFile(filepath.Join(dir, "c09modb.risor"), []byte(modB), 0o644)

	kinds := map[string]bool{}
	for _, k := range c.Kinds {
		kinds[k] = true
	}
	jobs := planJobs(c)
	if len(jobs) == 0 || c.N < 1 {
		o.Harness = "empty plan"
		return o
	}
	N := c.N

	// --- concurrent phase -------------------------------------------------------------
	e := newEnv(c, dir, kinds)
	if e.setupErr != "" {
		o.Harness = "setup: " + e.setupErr
		return o
	}
	conc := make([][][]string, N) // [g][job] -> lines
	evals := make([]int, N)
	starts := make([][]time.Time, N)
	ends := make([][]time.Time, N)
	orders := make([][]int, N)
	for g := 0; g < N; g++ {
		conc[g] = make([][]string, len(jobs))
		starts[g] = make([]time.Time, len(jobs))
		ends[g] = make([]time.Time, len(jobs))
		if c.Mode == "free" {
			// parent-running must not be started by g0 after everyone else already waits for the
			// gate: no deadlock is possible (g0 never waits), any order is fine
			orders[g] = mon.NewRand(c.Seed).Split("order").SplitN(g).Perm(len(jobs))
		} else {
			orders[g] = make([]int, len(jobs))
			for j := range jobs {
				orders[g][j] = j
			}
		}
	}
	rounds := 1
	if c.Mode != "free" {
		rounds = len(jobs)
	}
	// one channel per round, closed by the coordinator when all goroutines have arrived
	release := make([]chan struct{}, rounds)
	arrived := make([]sync.WaitGroup, rounds)
	for i := range release {
		release[i] = make(chan struct{})
		arrived[i].Add(N)
	}
	var done sync.WaitGroup
	done.Add(N)
	for g := 0; g < N; g++ {
		go func(g int) {
			defer done.Done()
			if c.Mode == "free" {
				arrived[0].Done()
				<-release[0]
				for _, j := range orders[g] {
					starts[g][j] = time.Now()
					lines, n := jobs[j].run(e, g)
					ends[g][j] = time.Now()
					conc[g][j] = lines
					evals[g] += n
				}
				return
			}
			for j := range jobs {
				arrived[j].Done()
				<-release[j]
				starts[g][j] = time.Now()
				lines, n := jobs[j].run(e, g)
				ends[g][j] = time.Now()
				conc[g][j] = lines
				evals[g] += n
			}
		}(g)
	}
	for i := range release {
		arrived[i].Wait()
		close(release[i])
	}
	done.Wait()
	for g := 0; g < N; g++ {
		o.ConcEvals += evals[g]
	}
	for j, jb := range jobs {
		o.Paths[jb.path] = N
		// informational: how many goroutines entered before the first one had left
		firstEnd := ends[0][j]
		for g := 1; g < N; g++ {
			if ends[g][j].Before(firstEnd) {
				firstEnd = ends[g][j]
			}
		}
		n := 0
		for g := 0; g < N; g++ {
			if starts[g][j].Before(firstEnd) {
				n++
			}
		}
		if n >= 2 {
			o.Overlapped[jb.path] = n
		}
	}

	// an evaluation that sees a key or element carrying another evaluation's id: reported whatever
	// the sequential reference says (it runs in the same, by then possibly polluted, process)
	for g := 0; g < N; g++ {
		for j := range jobs {
			for i, l := range conc[g][j] {
				if strings.Contains(l, "FOREIGN-EDIT") && len(o.Mismatches) < 20 {
					o.Mismatches = append(o.Mismatches, Mismatch{Class: "foreign-edit-visible", Kind: jobs[j].kind, Path: jobs[j].path, G: g, Line: i, Conc: l, Seq: "(not applicable: the line itself shows an edit made by another evaluation)"})
					break
				}
				// identical calls of a pure function gave different results inside one evaluation
				if strings.Contains(l, " INCONSISTENT call ") && len(o.Mismatches) < 20 {
					o.Mismatches = append(o.Mismatches, Mismatch{Class: "identical-calls-differ", Kind: jobs[j].kind, Path: jobs[j].path, G: g, Line: i, Conc: l, Seq: "(not applicable: the line itself shows two different results of one call)"})
					break
				}
			}
		}
	}

	for j := range jobs {
		if jobs[j].post == nil {
			continue
		}
		perG := make([][]string, N)
		for g := 0; g < N; g++ {
			perG[g] = conc[g][j]
		}
		for _, m := range jobs[j].post(perG) {
			if len(o.Mismatches) < 20 {
				m.Kind, m.Path = jobs[j].kind, jobs[j].path
				o.Mismatches = append(o.Mismatches, m)
			}
		}
	}

	// --- sequential reference phase -----------------------------------------------------
	seqRun := func() [][][]string {
		se := newEnv(c, dir, kinds)
		res := make([][][]string, N)
		for g := 0; g < N; g++ {
			res[g] = make([][]string, len(jobs))
		}
		if se.setupErr != "" {
			return res
		}
		// job-major order so that g0 opens the gate of parent-running before the others wait on it
		for j := range jobs {
			if jobs[j].nondet {
				continue
			}
			for g := 0; g < N; g++ {
				lines, n := jobs[j].run(se, g)
				res[g][j] = lines
				o.SeqEvals += n
			}
		}
		return res
	}
	seq := seqRun()
	var seq2 [][][]string
	for g := 0; g < N; g++ {
		for j := range jobs {
			if jobs[j].nondet {
				continue
			}
			a, b := conc[g][j], seq[g][j]
			same := len(a) == len(b)
			if same {
				for i := range a {
					if a[i] != b[i] {
						same = false
						break
					}
				}
			}
			o.Lines += len(a)
			if same {
				continue
			}
			// decide whether the program is deterministic when run alone: second sequential run
			if seq2 == nil {
				seq2 = seqRun()
			}
			b2 := seq2[g][j]
			n := len(a)
			if len(b) > n {
				n = len(b)
			}
			at := func(x []string, i int) string {
				if i < len(x) {
					return x[i]
				}
				return "<missing line>"
			}
			for i := 0; i < n; i++ {
				ca, sb, sb2 := at(a, i), at(b, i), at(b2, i)
				if ca == sb {
					continue
				}
				if sb != sb2 {
					o.Unstable++
					continue
				}
				class := "value-differs"
				switch {
				case strings.HasPrefix(ca, "GO-PANIC"):
					class = "go-panic-only-when-concurrent"
				case strings.HasPrefix(ca, "ERR:") && !strings.HasPrefix(sb, "ERR:"):
					class = "error-only-when-concurrent"
				}
				if len(o.Mismatches) < 20 {
					o.Mismatches = append(o.Mismatches, Mismatch{Class: class, Kind: jobs[j].kind, Path: jobs[j].path, G: g, Line: i, Conc: ca, Seq: sb})
				}
			}
		}
	}
	// one sample: the first job's program output of goroutine 0
	if len(conc) > 0 && len(conc[0]) > 0 {
		paths := make([]string, 0, len(o.Paths))
		for p := range o.Paths {
			paths = append(paths, p)
		}
		sort.Strings(paths)
		o.Sample = fmt.Sprintf("n=%d mode=%s jobs=%d first job %s, goroutine 0 -> %s", N, c.Mode, len(jobs), jobs[0].path, clip(strings.Join(conc[0][0], " | "), 300))
	}
	if os.Getenv("C09_DUMP") != "" {
		for j, jb := range jobs {
			if jb.kind == "sweep" && os.Getenv("C09_DUMP") != "all" {
				continue
			}
			for i, l := range conc[0][j] {
				if os.Getenv("C09_DUMP") == "all" || strings.Contains(l, "panic") || strings.HasPrefix(l, "ERR:") || strings.HasPrefix(l, "error:") {
					o.Dump = append(o.Dump, fmt.Sprintf("%s #%d: %s", jb.path, i, l))
				}
			}
		}
	}
	_ = os.RemoveAll(dir)
	return o
}
