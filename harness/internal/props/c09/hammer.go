package c09

import (
	"fmt"
	"os"
	"strconv"
	"strings"
)

// Workload kind "hammer".
//
// (a) hammer:<family> — every goroutine calls every pure module function, builtin and method that
// takes a pattern-, format-, layout-, key- or name-like argument in tight loops (tens to hundreds of
// calls per function, see hammerScript) with arguments DERIVED FROM ITS OWN ID, so that no two goroutines use the same
// pattern / layout / key at the same time. A cache that is keyed, published or invalidated wrongly
// gives a wrong result without any data race (all accesses may be atomic or locked). Two oracles:
// identical calls inside one evaluation must give identical results (INCONSISTENT line, reported
// directly), and every result line must equal the line of the same goroutine's sequential run.
//
// (b) hammer:nondeterministic — rand.*, time.now, time.since, os.getpid and the other sources whose
// results cannot be compared are called from all VMs in tight loops for the race detector, with
// cheap sanity oracles: values within range, shuffle keeps the elements, no error, no panic, and no
// 63-bit random value drawn twice in one process (within or across VMs).

// hammerPrelude: hammer(name, n, variants, run) calls run(variants[k]) n times, in runs of five
// identical calls before switching to the next variant (so that a last-value cache both hits and
// misses), and compares every result with the first result for the same arguments.
const hammerPrelude = `
func hammer(name, n, variants, run) {
	first := []
	for _, v := range variants { first.append(nil) }
	bad := 0
	witness := ""
	for i := 0; i < n; i++ {
		k := (i / 5) % len(variants)
		got := sprintf("%v", run(variants[k]))
		if first[k] == nil {
			first[k] = got
		} else if got != first[k] {
			bad++
			if witness == "" { witness = sprintf(" INCONSISTENT call %d with %v gave %s, the same call gave %s before;", i, variants[k], got, first[k]) }
		}
	}
	all := sprintf("%v", first)
	short := all
	if len(short) > 160 { short = short[:160] + "..." }
	// the digest covers the complete results (lines are clipped when they are rendered)
	return sprintf("%s calls=%d changed=%d%s results sha256=%s %s", name, n, bad, witness, encode(hash(all), "hex")[:20], short)
}
func guard(f) { return try(f, func(e) { return "E: " + string(e) }) }
r := []
`

type hammerEntry struct {
	name     string
	n        int
	variants string // script expression: list of argument lists
	run      string // script function of one argument list a
}

func q(s string) string { return strconv.Quote(s) }

// hammerFamilies builds the entries for goroutine g. T is the goroutine's own token, U the token
// of another goroutine of the same process (strings that fit U's patterns must not fit T's).
func hammerFamilies(T, U string, g int) map[string][]hammerEntry {
	lay := []string{"2006-01-02T15:04:05Z07:00", "2006-01-02", "2006-01-02 15:04:05", "Mon Jan _2 15:04:05 2006", "02 Jan 06 15:04 -0700", "Mon, 02 Jan 2006 15:04:05 -0700", "Jan _2 15:04:05", "3:04PM", "15:04:05.000", "2006/01/02 15h04"}
	l1, l2, l3 := lay[g%len(lay)], lay[(g+3)%len(lay)], lay[(g+7)%len(lay)]
	ts := 1700000000 + g*86400
	base := 2 + g%35
	num := 1000 + g*37
	f := map[string][]hammerEntry{}
	add := func(fam, name string, n int, variants, run string) {
		f[fam] = append(f[fam], hammerEntry{name, n, variants, run})
	}
	L := func(items ...string) string { return "[" + strings.Join(items, ", ") + "]" }

	// regexp: patterns carry the goroutine's token
	pa, pb := "^"+T+"a+$", "^"+T+"b[0-9]+x?$"
	add("regexp", "regexp.match", 900, L(L(q(pa), q(T+"aaa")), L(q(pa), q(U+"aaa")), L(q(pb), q(T+"b42")), L(q(pb), q(T+"aaa"))), `func(a) { return regexp.match(a[0], a[1]) }`)
	add("regexp", "regexp.compile.match", 100, L(L(q(pa), q(T+"aa")), L(q(pb), q(U+"b1"))), `func(a) { return regexp.compile(a[0]).match(a[1]) }`)
	add("regexp", "regexp.compile.find", 30, L(L(q(T+"[a-c]+"), q("xx"+T+"abcx")), L(q(T+"c+"), q(T+"ccc "+T+"c"))), `func(a) { re := regexp.compile(a[0]); return [re.find(a[1]), re.find_all(a[1]), re.find_submatch(a[1])] }`)
	add("regexp", "regexp.compile.replace_all", 30, L(L(q(T+"(x+)"), q(T+"xx-"+T+"x"), q("<"+T+">")), L(q("[0-9]+"+T), q("12"+T+"7"+T), q(T))), `func(a) { re := regexp.compile(a[0]); return [re.replace_all(a[1], a[2]), re.split(a[1])] }`)
	add("regexp", "filepath.match", 100, L(L(q(T+"*.tx?"), q(T+"file.txt")), L(q(T+"[a-c]"), q(T+"b")), L(q(T+"*"), q(U+"b"))), `func(a) { return filepath.match(a[0], a[1]) }`)

	// time: every goroutine uses its own layouts and instants
	add("time", "time.parse+format", 100, L(L(q(l1), fmt.Sprint(ts)), L(q(l2), fmt.Sprint(ts+3600)), L(q(l3), fmt.Sprint(ts+61))), `func(a) { t := time.unix(a[1], 0).utc(); s := t.format(a[0]); p := time.parse(a[0], s); return [s, p.format(a[0]), p.utc().format("2006-01-02T15:04:05Z07:00")] }`)
	add("time", "time.unix.format", 30, L(L(q(l2), fmt.Sprint(ts+5)), L(q(l1), fmt.Sprint(ts+6))), `func(a) { t := time.unix(a[1], 0).utc(); return [t.format(a[0]), t.unix(), t.add_date(0, 0, 1).format(a[0]), t.before(t.add_date(0, 1, 0))] }`)

	// formats
	fm1 := "%0" + fmt.Sprint(3+g%6) + "d|" + T + "|%s|%5.2f|%v|%x|%q"
	fm2 := T + ":%-" + fmt.Sprint(2+g%5) + "s:%+d:%t:%c"
	add("format", "sprintf", 100, L(L(q(fm1), fmt.Sprint(num), q(T), "2.5", L("1", q(T)), "255", q(T)), L(q(fm1), fmt.Sprint(num+1), q(U), "0.25", "nil", "4096", q("é"))), `func(a) { return sprintf(a[0], a[1], a[2], a[3], a[4], a[5], a[6]) }`)
	add("format", "fmt.sprintf", 100, L(L(q(fm2), q(T), fmt.Sprint(g), "true", "65"), L(q(fm2), q("x"), fmt.Sprint(-g-1), "false", "97")), `func(a) { return fmt.sprintf(a[0], a[1], a[2], a[3], a[4]) }`)
	add("format", "errorf", 30, L(L(q(T+" failed: %s (%d)"), q(T), fmt.Sprint(g)), L(q("%v/"+T), L(fmt.Sprint(g)), "0")), `func(a) { return [string(try(func() { errorf(a[0], a[1], a[2]) }, func(e) { return e })), string(fmt.errorf(a[0], a[1], a[2]))] }`)
	add("format", "string.conversions", 30, L(L(fmt.Sprint(num), q(fmt.Sprint(num)), q(fmt.Sprintf("%d.25", g))), L(fmt.Sprint(-num), q(fmt.Sprint(num*3)), q("1e"+fmt.Sprint(g%9)))), `func(a) { return [string(a[0]), int(a[1]), float(a[2]), string(float(a[2])), chr(65 + a[0] % 26), ord(a[1][0]), bool(a[0]), type(a[2]), byte(a[0] % 256)] }`)
	add("format", "strconv", 100, L(L(q(strconv.FormatInt(int64(num), base)), fmt.Sprint(base), q(fmt.Sprintf("%d.5", g)), q("true")), L(q(strconv.FormatInt(int64(-num-g), base)), fmt.Sprint(base), q(fmt.Sprintf("-%de2", g+1)), q("F"))), `func(a) { return [strconv.parse_int(a[0], a[1], 64), strconv.parse_float(a[2]), strconv.parse_bool(a[3]), try(func() { return strconv.atoi(a[0]) }, func(e) { return "no" })] }`)

	// strings, bytes, string methods: separators, cutsets and needles carry the token
	s1 := T + "-alpha," + T + "-Beta,," + T
	add("strings", "strings.module", 30, L(L(q(s1), q(","), q(T)), L(q("  "+T+" x "+T+"  "), q(" "), q("x"))), `func(a) { return [strings.split(a[0], a[1]), strings.contains(a[0], a[2]), strings.count(a[0], a[2]), strings.index(a[0], a[2]), strings.last_index(a[0], a[2]), strings.replace_all(a[0], a[2], "<>"), strings.trim(a[0], a[1]), strings.trim_prefix(a[0], a[2]), strings.trim_suffix(a[0], a[2]), strings.trim_space(a[0]), strings.fields(a[0]), strings.to_upper(a[0]), strings.to_lower(a[0]), strings.has_prefix(a[0], a[2]), strings.has_suffix(a[0], a[2]), strings.compare(a[0], a[2]), strings.repeat(a[2], 3), strings.join(strings.split(a[0], a[1]), a[2])] }`)
	add("strings", "string.methods", 30, L(L(q(s1), q(","), q(T)), L(q(T+"ab"+T+"ab"), q("a"), q(T+"a"))), `func(a) { s := a[0]; return [s.split(a[1]), s.contains(a[2]), s.count(a[2]), s.index(a[2]), s.last_index(a[2]), s.replace_all(a[2], "#"), s.trim(a[1]), s.trim_prefix(a[2]), s.trim_suffix(a[2]), s.fields(), s.to_upper(), s.to_lower(), s.has_prefix(a[2]), s.has_suffix(a[2]), a[1].join([a[2], s]), len(s), s[1:3], a[2] in s] }`)
	add("strings", "bytes.module", 30, L(L(q(s1), q(T)), L(q(T+T+"x"), q("x"))), `func(a) { b := byte_slice(a[0]); n := byte_slice(a[1]); return [bytes.contains(b, n), bytes.count(b, n), bytes.index(b, n), bytes.has_prefix(b, n), bytes.has_suffix(b, n), string(bytes.replace_all(b, n, byte_slice("_"))), string(bytes.repeat(n, 2)), bytes.equals(b, n), bytes.contains_any(b, a[1]), bytes.index_any(b, a[1]), string(bytes.clone(b))] }`)

	// codecs, json, hashes: payloads and keys carry the token
	add("codec", "encode/decode", 30, L(L(q("payload "+T+" é")), L(q(T+T+"\x00\x01"))), `func(a) { out := []; for _, c := range ["base64", "base32", "hex", "urlquery"] { e := encode(a[0], c); out.append(string(decode(e, c)) == a[0]); out.append(e) }; return out }`)
	// a gzip writer allocates about a megabyte: few calls
	add("codec", "gzip", 3, L(L(q("payload "+T+" é")), L(q(T+T+"\x00\x01"))), `func(a) { return string(decode(encode(a[0], "gzip"), "gzip")) }`)
	add("codec", "json", 30, L(L(q(T), fmt.Sprint(g)), L(q("k"+T), fmt.Sprint(-g))), `func(a) { m := {"id": a[0], "n": a[1], "l": [a[1], a[0]], "f": 0.5}; s := json.marshal(m); t := encode(m, "json"); return [s, t, json.unmarshal(s)["l"], decode(t, "json")["id"], json.valid(s), json.valid(a[0] + "{")] }`)
	add("codec", "csv", 30, L(L(q(T), q("a,"+T)), L(q("x\""+T), q(""))), `func(a) { s := encode([[a[0], a[1]], ["1", a[0]]], "csv"); return [s, decode(s, "csv")] }`)
	add("codec", "base64.module", 30, L(L(q(T+"??>>")), L(q("é"+T))), `func(a) { return [base64.encode(a[0]), string(base64.decode(base64.encode(a[0]))), base64.url_encode(a[0]), string(base64.url_decode(base64.url_encode(a[0])))] }`)
	add("codec", "hash", 100, L(L(q(T), q("md5")), L(q(T), q("sha1")), L(q(T), q("sha256")), L(q(T), q("sha512"))), `func(a) { return encode(hash(a[0], a[1]), "hex") }`)

	// numbers, paths, addresses, errors, containers keyed by the token
	add("misc", "math", 30, L(L(fmt.Sprint(g+2), fmt.Sprintf("%d.75", g)), L(fmt.Sprint(-g-3), "0.5")), `func(a) { return [math.pow(a[0], 3), math.sqrt(math.abs(a[0])), math.abs(a[0]), math.ceil(a[1]), math.floor(a[1]), math.round(a[1]), math.max(a[0], a[1]), math.min(a[0], a[1]), math.mod(a[0], 7), math.sum([a[0], a[1], 1]), math.log2(math.abs(a[0])), math.pow10(2), sprintf("%.6f", math.sin(a[1])), math.is_inf(math.inf(1))] }`)
	add("misc", "filepath", 30, L(L(q("/"+T+"/a/../b/"+T+".tar.gz"), q("/"+T)), L(q(T+"//x/./y"), q(T))), `func(a) { p := a[0]; return [filepath.clean(p), filepath.base(p), filepath.dir(p), filepath.ext(p), filepath.is_abs(p), filepath.join(a[1], "x", p), filepath.split(p), try(func() { return filepath.rel(a[1], filepath.clean(p)) }, func(e) { return "no" })] }`)
	add("misc", "net", 30, L(L(q(fmt.Sprintf("10.%d.0.%d", g, 1+g%200)), q(fmt.Sprint(1000+g))), L(q(fmt.Sprintf("fe80::%x", g+1)), q("80"))), `func(a) { hp := net.join_host_port(a[0], a[1]); return [hp, net.split_host_port(hp), string(net.parse_ip(a[0])), string(try(func() { return net.parse_cidr(a[0] + "/8") }, func(e) { return "no" }))] }`)
	add("misc", "errors", 30, L(L(q(T+" broke")), L(q("again "+T))), `func(a) { e := errors.new(a[0]); return [string(e), e.message(), string(try(func() { error(a[0]) }, func(x) { return x })), type(e)] }`)
	add("misc", "containers", 30, L(L(q(T), q(U)), L(q("k"+T), q(T))), `func(a) { m := {}; m[a[0]] = 1; m[a[1]] = 2; s := set([a[0], a[1], a[0]]); l := [a[1], a[0], a[1]]; return [sorted(keys(m)), a[0] in m, a[1] in s, len(s), sorted(l), reversed(l), l.index(a[0]), l.count(a[1]), m.get(a[0]), m.get("none", a[1]), getattr(m, "keys")(), is_hashable(a[0]), coalesce(nil, a[0]), any([false, a[0]]), all([a[0], ""]), chunk(l, 2)] }`)
	return f
}

var hammerFamilyNames = []string{"regexp", "time", "format", "strings", "codec", "misc"}

// hammerScript: the call counts are for up to 4 goroutines; with more goroutines every one makes
// proportionally fewer calls (the chance that two of them meet grows with their number anyway), so
// that a process costs about the same whatever N is.
func hammerScript(family, T, U string, g, N int) string {
	var b strings.Builder
	b.WriteString(hammerPrelude)
	for _, e := range hammerFamilies(T, U, g)[family] {
		n := e.n
		if N > 4 && n > 30 {
			n = n * 4 / N
			if n < 30 {
				n = 30
			}
		}
		fmt.Fprintf(&b, "r.append(guard(func() { return hammer(%s, %d, %s, %s) }))\n", q(e.name), n, e.variants, e.run)
	}
	b.WriteString("r\n")
	return b.String()
}

// nondetScript: sources whose results cannot be compared. The first lines are sanity verdicts
// (deterministic text when all is well), then the 63-bit values drawn by rand.int().
func nondetScript(n int) string {
	return fmt.Sprintf(`
N := %d
bad := []
vals := []
pid := os.getpid()
for i := 0; i < N; i++ {
	v := rand.int()
	if v < 0 { bad.append(sprintf("rand.int() = %%d", v)) }
	vals.append(v)
	k := rand.intn(7 + i)
	if k < 0 || k >= 7 + i { bad.append(sprintf("rand.intn(%%d) = %%d", 7 + i, k)) }
	f := rand.float()
	if f < 0.0 || f >= 1.0 { bad.append(sprintf("rand.float() = %%v", f)) }
	x := rand.exp_float()
	if x < 0.0 { bad.append(sprintf("rand.exp_float() = %%v", x)) }
	rand.norm_float()
	if i %% 4 == 0 {
		l := rand.shuffle([1, 2, 3, 4, 5, 6, 7, 8, 9])
		if sorted(l) != [1, 2, 3, 4, 5, 6, 7, 8, 9] { bad.append(sprintf("rand.shuffle gave %%v", l)) }
	}
	t := time.now()
	d := time.since(t)
	if d < 0.0 { bad.append(sprintf("time.since(now) = %%v", d)) }
	if os.getpid() != pid { bad.append("os.getpid() changed") }
	if i %% 16 == 0 {
		os.hostname(); os.getwd(); os.temp_dir(); os.user_home_dir(); os.getuid(); os.getenv("HOME"); len(os.environ()); os.args()
	}
}
shown := bad
if len(bad) > 3 { shown = bad[:3] }
[sprintf("sanity violations: %%d %%v", len(bad), shown)] + vals
`, n)
}

func hammerJobs(c CaseData, tag string) []job {
	tok := func(g int) string { return fmt.Sprintf("q%sp%dg%dz", tag, c.Proc%1000, g) }
	var jobs []job
	for _, fam := range hammerFamilyNames {
		if only := os.Getenv("C09_HAMMER"); only != "" && only != fam { // development aid
			continue
		}
		jobs = append(jobs, job{kind: "hammer", path: "hammer:" + fam, run: func(e *env, g int) ([]string, int) {
			return evalScript(hammerScript(fam, tok(g), tok((g+1)%c.N), g, c.N)), 1
		}})
	}
	jobs = append(jobs, job{kind: "hammer", path: "hammer:nondeterministic", nondet: true,
		run: func(e *env, g int) ([]string, int) {
			n := 300
			if c.N > 4 {
				n = 1200 / c.N
			}
			return evalScript(nondetScript(n)), 1
		},
		post: func(perG [][]string) []Mismatch {
			var ms []Mismatch
			seen := map[string]int{}
			for g, lines := range perG {
				if len(lines) < 2 || !strings.HasPrefix(lines[0], "list of ") {
					ms = append(ms, Mismatch{Class: "error-in-nondeterministic-source", G: g, Conc: strings.Join(lines, " | "), Seq: "a list of values"})
					continue
				}
				if !strings.Contains(lines[1], "sanity violations: 0 ") {
					ms = append(ms, Mismatch{Class: "nondeterministic-source-out-of-range", G: g, Line: 1, Conc: lines[1], Seq: "sanity violations: 0 []"})
				}
				for i, l := range lines[2:] {
					if !strings.HasPrefix(l, "int:") {
						ms = append(ms, Mismatch{Class: "error-in-nondeterministic-source", G: g, Line: i + 2, Conc: l, Seq: "int:<63-bit value>"})
						break
					}
					if og, dup := seen[l]; dup {
						ms = append(ms, Mismatch{Class: "random-value-drawn-twice", G: g, Line: i + 2, Conc: fmt.Sprintf("rand.int() returned %s to goroutine %d", l, g), Seq: fmt.Sprintf("the same 63-bit value was already returned to goroutine %d of this process", og)})
						break
					}
					seen[l] = g
				}
			}
			return ms
		}})
	return jobs
}
