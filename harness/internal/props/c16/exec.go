package c16

import (
	"context"
	"fmt"
	"strings"

	"github.com/risor-io/risor"
	"github.com/risor-io/risor/builtins"
	"github.com/risor-io/risor/object"
	"github.com/risor-io/risor/op"
)

// Obs is what was observed after one step (step 0 = initial state).
type Obs struct {
	Status string     `json:"status"`          // ok | err | panic | fatal | skip
	Msg    string     `json:"msg,omitempty"`   // error text (never compared)
	Res    string     `json:"res,omitempty"`   // typed rendering of the step's result
	Vars   []string   `json:"vars"`            // typed rendering of every variable (unbound: "nil:nil")
	Elems  [][]string `json:"elems,omitempty"` // for list variables: typed rendering of each element
}

func trObj(o object.Object) string {
	if o == nil {
		return "nil:nil"
	}
	return string(o.Type()) + ":" + o.Inspect()
}

func observeVars(vars []object.Object) ([]string, [][]string) {
	vs := make([]string, len(vars))
	es := make([][]string, len(vars))
	for i, v := range vars {
		vs[i] = trObj(v)
		if l, ok := v.(*object.List); ok {
			items := l.Value()
			e := make([]string, len(items))
			for j, it := range items {
				e[j] = trObj(it)
			}
			es[i] = e
		}
	}
	return vs, es
}

// ---------------------------------------------------------------------------------------
// script mode: the whole history is one risor program. Every step runs inside try() so that a
// raised error is observed instead of ending the program; after every step the host builtin
// __obs(step, status, result, a, b, c, d) records the renderings.

const errHandler = `func(e) { return [1, e.message()] }`

func (o *Op) scriptStep() (string, bool) {
	t := varNames[o.T]
	arg := func(i int) string {
		if i < len(o.A) {
			return o.A[i].lit()
		}
		return "nil"
	}
	var expr, stmt string
	switch o.Kind {
	case "getitem":
		expr = fmt.Sprintf("%s[%s]", t, arg(0))
	case "slice":
		a, b := "", ""
		if o.A[0].K != "omit" {
			a = o.A[0].lit()
		}
		if o.A[1].K != "omit" {
			b = o.A[1].lit()
		}
		expr = fmt.Sprintf("%s[%s:%s]", t, a, b)
	case "setitem":
		stmt = fmt.Sprintf("%s[%s] = %s", t, arg(0), arg(1))
	case "aug":
		stmt = fmt.Sprintf("%s[%s] %s= %s", t, arg(0), o.Name, arg(1))
	case "del":
		expr = fmt.Sprintf("delete(%s, %s)", t, arg(0))
	case "in":
		expr = fmt.Sprintf("%s in %s", arg(0), t)
	case "notin":
		expr = fmt.Sprintf("%s not in %s", arg(0), t)
	case "len":
		expr = fmt.Sprintf("len(%s)", t)
	case "fn":
		switch o.Name {
		case "sorted_keep":
			expr = fmt.Sprintf("sorted(%s, func(x, y) { return false })", t)
		case "sorted_by_type":
			expr = fmt.Sprintf("sorted(%s, func(x, y) { return type(x) < type(y) })", t)
		default:
			expr = fmt.Sprintf("%s(%s)", o.Name, t)
		}
	case "add":
		expr = fmt.Sprintf("%s + %s", t, arg(0))
	case "eq":
		expr = fmt.Sprintf("%s == %s", t, arg(0))
	case "iter":
		return fmt.Sprintf("func() { acc := []; for k, v := range %s { acc.append([k, v]) }; return [0, acc] }", t), true
	case "iter1":
		return fmt.Sprintf("func() { acc := []; for k := range %s { acc.append(k) }; return [0, acc] }", t), true
	case "iterin":
		return fmt.Sprintf("func() { acc := []; for v in %s { acc.append(v) }; return [0, acc] }", t), true
	case "alias":
		expr = t
	case "new":
		expr = arg(0)
	case "method":
		if o.Name == "difference" {
			return "", false // Set.Difference exists in the Go API only
		}
		parts := make([]string, len(o.A))
		for i := range o.A {
			parts[i] = o.A[i].lit()
		}
		expr = fmt.Sprintf("%s.%s(%s)", t, o.Name, strings.Join(parts, ", "))
	case "getattr":
		expr = fmt.Sprintf("%s.%s", t, o.Name)
	case "setattr":
		stmt = fmt.Sprintf("%s.%s = %s", t, o.Name, arg(0))
	case "augname":
		return fmt.Sprintf("func() { %s += %s; return [0, %s] }", t, arg(0), t), true
	case "cb":
		cb := o.Cb
		if cb == nil || cb.Builtin {
			return "", false
		}
		params, record, idx := "v", "seen.append(v)", "len(seen)"
		if cb.Params == 2 {
			params, record, idx = "i, v", "seen.append([i, v])", "i"
		}
		raise := ""
		if cb.RaiseAt >= 0 {
			raise = fmt.Sprintf("if %s == %d { error(\"boom\") }; ", idx, cb.RaiseAt)
		}
		ret := ""
		switch o.Name {
		case "map":
			switch cb.Ret {
			case "i":
				ret = "return i"
			case "pair":
				ret = "return [i, v]"
			default:
				ret = "return v"
			}
		case "filter":
			switch cb.Ret {
			case "eq":
				ret = "return v == " + cb.X.lit()
			case "ne":
				ret = "return v != " + cb.X.lit()
			case "true":
				ret = "return true"
			default:
				ret = "return false"
			}
		}
		// the raise test precedes the recording, so that "seen" holds exactly the completed calls
		return fmt.Sprintf("func() { seen = []; r := %s.%s(func(%s) { %s%s; %s }); return [0, [r, seen]] }",
			t, o.Name, params, raise, record, ret), true
	default:
		return "", false
	}
	if stmt != "" {
		return fmt.Sprintf("func() { %s; return [0, nil] }", stmt), true
	}
	if o.D >= 0 {
		d := varNames[o.D]
		return fmt.Sprintf("func() { %s = %s; return [0, %s] }", d, expr, d), true
	}
	return fmt.Sprintf("func() { return [0, %s] }", expr), true
}

// Script renders the history as one risor program.
func (h *History) Script() string {
	var sb strings.Builder
	fmt.Fprintf(&sb, "a := %s\nb := nil\nc := nil\nd := nil\nseen := []\n__r := nil\n__obs(0, 0, nil, a, b, c, d)\n", h.Init.lit())
	for i := range h.Ops {
		step, ok := h.Ops[i].scriptStep()
		if !ok {
			fmt.Fprintf(&sb, "__obs(%d, 2, nil, a, b, c, d)\n", i+1)
			continue
		}
		fmt.Fprintf(&sb, "__r = try(%s, %s)\n__obs(%d, __r[0], __r[1], a, b, c, d)\n", step, errHandler, i+1)
	}
	return sb.String()
}

// runScript executes the history as a script and returns one observation per step that was reached.
// A program that ends early (a Go panic recovered by the VM, or a fatal error) yields a final
// observation with status "fatal".
func runScript(h *History) (obs []Obs, src string) {
	src = h.Script()
	rec := func(ctx context.Context, args ...object.Object) object.Object {
		if len(args) != 3+maxVars {
			return object.Errorf("__obs: bad call")
		}
		o := Obs{}
		switch st, _ := args[1].(*object.Int); {
		case st == nil:
			o.Status = "?"
		case st.Value() == 0:
			o.Status = "ok"
			o.Res = trObj(args[2])
		case st.Value() == 1:
			o.Status = "err"
			o.Msg = args[2].Inspect()
		default:
			o.Status = "skip"
		}
		o.Vars, o.Elems = observeVars(args[3:])
		obs = append(obs, o)
		return object.Nil
	}
	var err error
	func() {
		defer func() {
			if r := recover(); r != nil {
				err = fmt.Errorf("go panic out of risor.Eval: %v", r)
			}
		}()
		_, err = risor.Eval(context.Background(), src, risor.WithGlobal("__obs", object.NewBuiltin("__obs", rec)))
	}()
	if err != nil {
		obs = append(obs, Obs{Status: "fatal", Msg: err.Error()})
	}
	return obs, src
}

// ---------------------------------------------------------------------------------------
// object-API mode: the same history through the Go API of the object package (container
// interfaces, method builtins via GetAttr + Call, operators via object.BinaryOp / Compare).

type apiEnv struct {
	vars [maxVars]object.Object
	ctx  context.Context
}

type apiErr struct{ msg string }

func (e apiErr) Error() string { return e.msg }

func asErr(o object.Object) error {
	if e, ok := o.(*object.Error); ok {
		return apiErr{e.Inspect()}
	}
	return nil
}

func (e *apiEnv) argObj(a Val) object.Object {
	if a.K == "var" {
		return e.vars[a.I]
	}
	return a.obj()
}

// step performs one operation; (result, statement?, error).
func (e *apiEnv) step(o *Op) (res object.Object, skip bool, err error) {
	t := e.vars[o.T]
	cont, _ := t.(object.Container)
	arg := func(i int) object.Object {
		if i < len(o.A) {
			return e.argObj(o.A[i])
		}
		return object.Nil
	}
	wrap := func(r object.Object, er *object.Error) (object.Object, bool, error) {
		if er != nil {
			return nil, false, apiErr{er.Inspect()}
		}
		return r, false, nil
	}
	switch o.Kind {
	case "getitem":
		return wrap(cont.GetItem(arg(0)))
	case "slice":
		var s object.Slice
		if o.A[0].K != "omit" {
			s.Start = arg(0)
		}
		if o.A[1].K != "omit" {
			s.Stop = arg(1)
		}
		return wrap(cont.GetSlice(s))
	case "setitem":
		return wrap(object.Nil, cont.SetItem(arg(0), arg(1)))
	case "aug":
		idx := arg(0)
		cur, er := cont.GetItem(idx)
		if er != nil {
			return wrap(nil, er)
		}
		var bop op.BinaryOpType
		switch o.Name {
		case "+":
			bop = op.Add
		case "-":
			bop = op.Subtract
		case "*":
			bop = op.Multiply
		}
		v, err := object.BinaryOp(bop, cur, arg(1))
		if err != nil {
			return nil, false, err
		}
		if er := asErr(v); er != nil {
			return nil, false, er
		}
		return wrap(object.Nil, cont.SetItem(idx, v))
	case "del":
		return wrap(object.Nil, cont.DelItem(arg(0)))
	case "in":
		return cont.Contains(arg(0)), false, nil
	case "notin":
		return object.Not(cont.Contains(arg(0))), false, nil
	case "len":
		return cont.Len(), false, nil
	case "fn":
		var f func(ctx context.Context, args ...object.Object) object.Object
		switch o.Name {
		case "keys":
			f = builtins.Keys
		case "sorted":
			f = builtins.Sorted
		case "reversed":
			f = builtins.Reversed
		case "list":
			f = builtins.List
		case "set":
			f = builtins.Set
		case "string":
			f = builtins.String
		case "byte_slice":
			f = builtins.ByteSlice
		case "map":
			f = builtins.Map
		case "any":
			f = builtins.Any
		case "all":
			f = builtins.All
		case "sorted_keep", "sorted_by_type":
			// the comparator has to be a compiled function: the call is made by a one-line evaluation that
			// receives the live object as a global
			less := "func(x, y) { return false }"
			if o.Name == "sorted_by_type" {
				less = "func(x, y) { return type(x) < type(y) }"
			}
			r, err := risor.Eval(context.Background(), "sorted(__t, "+less+")", risor.WithGlobal("__t", t))
			if err != nil {
				return nil, false, err
			}
			return r, false, asErr(r)
		default:
			return nil, true, nil
		}
		r := f(e.ctx, t)
		return r, false, asErr(r)
	case "add", "augname":
		r, err := object.BinaryOp(op.Add, t, arg(0))
		if err != nil {
			return nil, false, err
		}
		if er := asErr(r); er != nil {
			return nil, false, er
		}
		if o.Kind == "augname" {
			e.vars[o.T] = r
		}
		return r, false, nil
	case "eq":
		r, err := object.Compare(op.Equal, t, arg(0))
		return r, false, err
	case "iter", "iter1", "iterin":
		it, ok := t.(object.Iterable)
		if !ok {
			return nil, false, apiErr{"not iterable"}
		}
		iter := it.Iter()
		var acc []object.Object
		for n := 0; n < 100000; n++ {
			if _, ok := iter.Next(e.ctx); !ok {
				break
			}
			en, ok := iter.Entry()
			if !ok {
				break
			}
			switch o.Kind {
			case "iter":
				acc = append(acc, object.NewList([]object.Object{en.Key(), en.Value()}))
			case "iter1":
				acc = append(acc, en.Key())
			default:
				acc = append(acc, en.Value())
			}
		}
		return object.NewList(acc), false, nil
	case "alias":
		return t, false, nil
	case "new":
		return arg(0), false, nil
	case "method":
		if o.Name == "difference" {
			s, ok := t.(*object.Set)
			other, ok2 := arg(0).(*object.Set)
			if !ok {
				return nil, true, nil
			}
			if !ok2 {
				return nil, false, apiErr{"expected a set"}
			}
			return s.Difference(other), false, nil
		}
		attr, found := t.GetAttr(o.Name)
		if !found {
			return nil, false, apiErr{"attribute not found"}
		}
		b, ok := attr.(*object.Builtin)
		if !ok {
			return nil, false, apiErr{"attribute is not a builtin"}
		}
		args := make([]object.Object, len(o.A))
		for i := range o.A {
			args[i] = e.argObj(o.A[i])
		}
		r := b.Call(e.ctx, args...)
		return r, false, asErr(r)
	case "getattr":
		r, found := t.GetAttr(o.Name)
		if !found {
			return nil, false, apiErr{"attribute not found"}
		}
		return r, false, nil
	case "setattr":
		if err := t.SetAttr(o.Name, arg(0)); err != nil {
			return nil, false, err
		}
		return object.Nil, false, nil
	case "cb":
		// through the Go API only list.map with a Go builtin as callback (it receives the value)
		if o.Cb == nil || !o.Cb.Builtin || o.Name != "map" {
			return nil, true, nil
		}
		var seen []object.Object
		cb := object.NewBuiltin("cb", func(ctx context.Context, args ...object.Object) object.Object {
			if len(seen) == o.Cb.RaiseAt {
				return object.Errorf("boom")
			}
			seen = append(seen, args...)
			if len(args) == 1 {
				return args[0]
			}
			return object.Nil
		})
		attr, _ := t.GetAttr("map")
		r := attr.(*object.Builtin).Call(e.ctx, cb)
		if er := asErr(r); er != nil {
			return nil, false, er
		}
		return object.NewList([]object.Object{r, object.NewList(seen)}), false, nil
	}
	return nil, true, nil
}

func runAPI(h *History) []Obs {
	e := &apiEnv{}
	e.ctx = object.WithCallFunc(context.Background(), func(ctx context.Context, fn *object.Function, args []object.Object) (object.Object, error) {
		return nil, fmt.Errorf("no VM in object-API mode")
	})
	e.vars[0] = h.Init.obj()
	obs := make([]Obs, 0, len(h.Ops)+1)
	first := Obs{Status: "ok"}
	first.Vars, first.Elems = observeVars(e.vars[:])
	obs = append(obs, first)
	for i := range h.Ops {
		o := &h.Ops[i]
		ob := Obs{}
		func() {
			defer func() {
				if r := recover(); r != nil {
					ob.Status, ob.Msg = "panic", fmt.Sprint(r)
				}
			}()
			if o.T < 0 || o.T >= maxVars || e.vars[o.T] == nil {
				ob.Status = "skip"
				return
			}
			res, skip, err := e.step(o)
			switch {
			case skip:
				ob.Status = "skip"
			case err != nil:
				ob.Status, ob.Msg = "err", err.Error()
			default:
				ob.Status = "ok"
				ob.Res = trObj(res)
				if o.D >= 0 && o.D < maxVars && res != nil {
					e.vars[o.D] = res
				}
			}
		}()
		ob.Vars, ob.Elems = observeVars(e.vars[:])
		obs = append(obs, ob)
	}
	return obs
}
