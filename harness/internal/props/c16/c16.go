// Package c16: lists, maps, sets, strings and byte slices behave as the abstract containers they
// present (reference-model monitor over operation histories).
//
// A history is one primary container, up to three further variables (aliases, copies, slices,
// results of keys()/values()/a+b/union ...) and at most 40 operations. Every history is executed
// twice against the real code - as one risor script (each step inside try(), renderings recorded by
// a host builtin) and directly through the Go API of the object package - and after EVERY step the
// result (or the fact that it failed) and the rendering of EVERY live variable are compared with a
// model made of plain Go slices, maps and strings (model.go).
package c16

import (
	"encoding/json"
	"fmt"
	"hash/fnv"
	"sort"
	"strings"

	"verif/internal/mon"
)

const ID = "C16"

func Register() {
	mon.Register(&mon.Prop{ID: ID, Drive: drive})
	mon.RegisterWorker(ID, worker)
}

// ---------------------------------------------------------------------------------------
// judge: model vs observations

type Viol struct {
	Sig    string   `json:"sig"`
	Detail string   `json:"detail"`
	Mode   string   `json:"mode"`
	Hist   *History `json:"hist"`
}

type verdict struct {
	viol    *Viol
	more    []Viol // violations after which the history could be followed further (wrong value of a read)
	note    string // harness-level problem (inconclusive)
	steps   int
	changes int
	errors  int
	events  map[string]int
}

func mustJSON(x any) string {
	b, _ := json.Marshal(x)
	return string(b)
}

func derived(origin string) bool {
	switch origin {
	case "", "init", "new", "literal":
		return false
	}
	return true
}

func describeStep(h *History, i int) string {
	if i < 0 {
		return "initial value " + h.Init.lit()
	}
	s, ok := h.Ops[i].scriptStep()
	if !ok {
		b, _ := json.Marshal(h.Ops[i])
		return string(b)
	}
	return s
}

func judge(h *History, obs []Obs, mode string) verdict {
	v := verdict{events: map[string]int{}}
	m := &model{}
	m.vars[0] = contOf(h.Init, "init")
	if m.vars[0] == nil {
		v.note = "history without a container"
		return v
	}
	parent := map[*cont]string{} // type of the container a derived container was made from
	source := map[*cont]*cont{}  // ... and that container
	expect := func() []string {
		e := make([]string, maxVars)
		for i, c := range m.vars {
			if c == nil {
				e[i] = "nil:nil"
			} else {
				e[i] = c.snap().tr()
			}
		}
		return e
	}
	report := func(step int, sig, what string, ob *Obs, exp []string) {
		var sb strings.Builder
		fmt.Fprintf(&sb, "%s (mode: %s, step %d of %d)\n", what, mode, step+1, len(h.Ops))
		fmt.Fprintf(&sb, "step: %s\n", describeStep(h, step))
		if ob != nil {
			fmt.Fprintf(&sb, "observed: status=%s result=%s %s\n", ob.Status, ob.Res, ob.Msg)
			for i := range ob.Vars {
				mark := ""
				if exp != nil && exp[i] != ob.Vars[i] {
					mark = "   <-- differs"
				}
				e := ""
				if exp != nil {
					e = exp[i]
				}
				fmt.Fprintf(&sb, "  %s: observed %s | model %s%s\n", varNames[i], ob.Vars[i], e, mark)
			}
		}
		// the witness is the history up to and including the failing step
		w := &History{Init: h.Init, Ops: h.Ops}
		if step+1 < len(h.Ops) {
			w.Ops = append([]Op{}, h.Ops[:step+1]...)
		}
		sb.WriteString("history as a script:\n" + w.Script())
		v.viol = &Viol{Sig: sig, Detail: sb.String(), Mode: mode, Hist: w}
	}
	if len(obs) == 0 || obs[0].Status == "fatal" {
		msg := ""
		if len(obs) > 0 {
			msg = obs[0].Msg
		}
		v.note = "history did not start in mode " + mode + ": " + msg
		return v
	}
	if e := expect(); e[0] != obs[0].Vars[0] {
		report(-1, m.vars[0].typ()+".literal:wrong-state", "the initial container does not render as the model", &obs[0], e)
		return v
	}
	prev := obs[0].Vars
	resynced := false
	for i := range h.Ops {
		o := &h.Ops[i]
		if i+1 >= len(obs) {
			v.note = fmt.Sprintf("observation of step %d missing in mode %s", i+1, mode)
			return v
		}
		ob := &obs[i+1]
		unbound := o.T < 0 || o.T >= maxVars || m.vars[o.T] == nil
		for _, a := range o.A {
			if a.K == "var" && (a.I < 0 || a.I >= maxVars || m.vars[a.I] == nil) {
				unbound = true
			}
		}
		if unbound {
			// After a failed sort the model continues from the observed permutation, which the generator
			// could not know: from there on the generated steps may not fit the state any more (e.g. a
			// pop(0) removed another member, a later set(a) fails, its variable stays unbound).
			if resynced {
				v.events["history-cut-after-resync"]++
				return v
			}
			v.note = fmt.Sprintf("step %d uses an unbound variable: %s", i+1, mustJSON(h))
			return v
		}
		if ob.Status == "skip" {
			v.events["skipped-in-"+mode]++
			continue
		}
		c := m.vars[o.T]
		name := c.typ() + "." + o.sigName()
		var elems []string
		if ob.Status != "fatal" && o.T < len(ob.Elems) {
			elems = ob.Elems[o.T]
		}
		before := expect()
		out := m.apply(o, ob.Status == "ok", elems)
		if out.skip {
			v.events["model-skip"]++
			continue
		}
		if out.perm {
			resynced = true
		}
		if out.bind != nil && out.bind != c {
			if _, ok := parent[out.bind]; !ok {
				parent[out.bind] = c.typ()
				source[out.bind] = c
			}
		}
		v.steps++
		v.events[c.typ()+"."+o.Kind]++
		if out.changed {
			v.changes++
		}
		failed := ob.Status != "ok"
		if failed {
			v.errors++
			v.events["error-paths"]++
			if out.errClass != "" {
				v.events["error:"+out.errClass]++
			}
		}
		if out.either {
			v.events["slice-at-len("+ob.Status+")"]++
		}
		if out.orErr {
			v.events["absent-member("+ob.Status+")"]++
		}
		if !failed && out.bind != nil && o.D >= 0 {
			if out.bind == c {
				v.events["alias-bound"]++
			} else {
				v.events["derived-container-bound"]++
			}
		}
		if !failed && !out.readOnly && c != nil {
			shared := 0
			for _, x := range m.vars {
				if x == c {
					shared++
				}
			}
			if shared > 1 {
				v.events["mutation-seen-through-alias"]++
			}
		}
		// 1. did it fail when it must, and only then
		if ob.Status == "panic" || ob.Status == "fatal" {
			if out.mayPanic {
				v.events["known-go-panic(sort of a map/set member)"]++
			} else {
				kind := ":go-panic"
				if ob.Status == "fatal" && !strings.Contains(ob.Msg, "panic") {
					kind = ":fatal-error"
				}
				report(i, name+kind, "the step ended in a Go panic / fatal error instead of a catchable error", ob, nil)
				return v
			}
			if ob.Status == "fatal" {
				return v // the script is over; nothing more was observed
			}
		}
		switch {
		case out.either || out.permOK || out.orErr:
		case out.err && !failed:
			report(i, name+":no-error-on-"+out.errClass, "the step must fail ("+out.errClass+") but returned a value", ob, before)
			return v
		case !out.err && failed:
			report(i, name+":unexpected-error", "the step must succeed but failed", ob, before)
			return v
		}
		// 2. the value (when the operation returns its receiver, the state comparison below speaks first)
		selfResult := ""
		if !failed && out.res != nil && !out.perm && out.bind == c && o.returnsReceiver() {
			if want := out.res.tr(); want != ob.Res {
				selfResult = want
			}
		} else if !failed && out.res != nil && !out.perm {
			if want := out.res.tr(); want != ob.Res {
				if suffix, ok := out.alt[ob.Res]; ok && out.readOnly {
					// recognisable wrong value of a pure read: report it and follow the history further
					dup := false
					for _, x := range v.more {
						if x.Sig == name+":"+suffix {
							dup = true
						}
					}
					if !dup {
						report(i, name+":"+suffix, "result differs from the model: want "+want, ob, nil)
						v.more = append(v.more, *v.viol)
						v.viol = nil
					}
				} else {
					report(i, name+":wrong-value", "result differs from the model: want "+want, ob, nil)
					return v
				}
			}
		}
		// 3. every live variable
		exp := expect()
		for k := 0; k < maxVars; k++ {
			if exp[k] == ob.Vars[k] {
				continue
			}
			var sig, what string
			x := m.vars[k]
			isOperand := false
			for _, a := range o.A {
				if a.K == "var" && x != nil && a.I >= 0 && a.I < maxVars && m.vars[a.I] == x && x != c {
					isOperand = true
				}
			}
			switch {
			case failed && !out.perm:
				sig, what = name+":state-changed-on-error", "a failed step changed a container"
			case out.perm:
				sig, what = name+":wrong-state", "after a sort the list is not a permutation of its previous contents"
			case x != nil && x != c && x != out.bind && isOperand:
				sig, what = name+":mutates-operand", "the step changed its argument"
			case x != nil && x != c && x != out.bind:
				// name the operation that made the two containers relatives: the one derived from
				// the other, else whichever is a derived container at all
				ancestor := func(a, of *cont) bool {
					for n, k := source[of], 0; n != nil && k < 100; n, k = source[n], k+1 {
						if n == a {
							return true
						}
					}
					return false
				}
				d := c
				switch {
				case ancestor(c, x):
					d = x
				case ancestor(x, c):
					d = c
				case derived(x.origin):
					d = x // siblings, or no known relation
				}
				p := parent[d]
				if p == "" {
					p = d.typ()
				}
				origin := d.origin
				if !derived(origin) {
					origin = o.sigName()
					p = c.typ()
				}
				sig, what = p+"."+origin+":aliasing", "a container that must be independent of the target changed with it"
			case out.readOnly && ob.Vars[k] != prev[k]:
				sig, what = name+":read-mutates", "a read-only operation changed a container"
			default:
				sig, what = name+":wrong-state", "container contents differ from the model"
			}
			report(i, sig, what, ob, exp)
			return v
		}
		if selfResult != "" {
			report(i, name+":wrong-value", "result differs from the model: want "+selfResult, ob, nil)
			return v
		}
		prev = ob.Vars
	}
	return v
}

// returnsReceiver: the method hands back the container it was called on.
func (o *Op) returnsReceiver() bool { return o.Kind == "method" }

// ---------------------------------------------------------------------------------------
// worker

type caseData struct {
	Seed uint64   `json:"seed"`
	N    int      `json:"n"`
	Hist *History `json:"hist,omitempty"` // replay
	Mode string   `json:"mode,omitempty"` // replay: script | api | "" (both)
}

type workerOut struct {
	Histories int              `json:"histories"`
	Steps     int64            `json:"steps"`
	Events    map[string]int64 `json:"events"`
	Distinct  []string         `json:"distinct"`
	Viols     []Viol           `json:"viols"`
	Notes     []string         `json:"notes"`
	Samples   []string         `json:"samples"`
}

func histKey(h *History) string {
	f := fnv.New64a()
	f.Write([]byte(h.Init.K))
	for i := range h.Ops {
		f.Write([]byte{0})
		f.Write([]byte(h.Ops[i].kindKey()))
	}
	return fmt.Sprintf("%016x", f.Sum64())
}

func (w *workerOut) runOne(h *History, mode string) {
	w.Histories++
	nontrivial := false
	for _, md := range []string{"script", "api"} {
		if mode != "" && mode != md {
			continue
		}
		var obs []Obs
		if md == "script" {
			obs, _ = runScript(h)
		} else {
			obs = runAPI(h)
		}
		v := judge(h, obs, md)
		w.Steps += int64(v.steps)
		for k, n := range v.events {
			w.Events[k] += int64(n)
		}
		w.Events["histories-"+md]++
		if v.note != "" && len(w.Notes) < 10 {
			w.Notes = append(w.Notes, v.note)
		}
		if v.viol != nil {
			v.more = append(v.more, *v.viol)
		}
		for _, x := range v.more {
			if len(w.Viols) < 60 {
				w.Viols = append(w.Viols, x)
			}
		}
		if v.changes >= 3 || v.errors >= 1 {
			nontrivial = true
		}
	}
	if nontrivial {
		w.Distinct = append(w.Distinct, histKey(h))
	}
}

func worker(kind string, data json.RawMessage) any {
	var c caseData
	if err := json.Unmarshal(data, &c); err != nil {
		panic(err)
	}
	w := &workerOut{Events: map[string]int64{}}
	if c.Hist != nil {
		w.runOne(c.Hist, c.Mode)
		return w
	}
	r := mon.NewRand(c.Seed)
	for i := 0; i < c.N; i++ {
		h := Generate(r.SplitN(i))
		w.runOne(h, "")
		if i == 0 {
			w.Samples = append(w.Samples, h.Script())
		}
	}
	return w
}

// ---------------------------------------------------------------------------------------
// driver

func drive(d *mon.Driver, replay string) int {
	d.Rule = "an operation history (primary container of kind list/map/set/string/byte_slice + up to 3 aliases/copies/slices/derived containers, <= 40 steps, indices from [-len-2, len+2], values from a pool of ints incl. 0/-1/large, floats, strings incl. empty and multi-byte, bools, nil, small nested lists/maps/sets) is non-trivial when the model state changed >= 3 times or >= 1 step took an error path; distinct = distinct (container kind, sequence of operation kinds) among those. Every history is run as a script and through the object API; every step compares result/failure and the rendering of every live variable with a plain Go model"
	d.Assume = []string{
		"pinned (not wrong data, statement silent): list.insert clamps an out-of-range position like Python; map.get of an absent key gives the default or nil, map.pop of an absent key with a default gives the default; a non-string operand of `in` on a string / map and an unhashable operand of `in` on a set give false; set membership is by (type, value) as in known finding D24 of C15",
		"left open (either accepted, containers unchanged in both cases): list.remove / set.remove / delete(map|set, x) of an absent member is a no-op or an error; list.index of an absent value is -1 or an error; map.pop of an absent key without default is nil or an error",
		"not demanded: whether a slice that starts exactly at len is empty or an error (both accepted; such a slice is never kept in a variable)",
		"a sort that fails (incomparable members) may leave the list in any permutation of its contents; the model continues from the observed order",
		"a Go panic or fatal error in a container operation is reported (<type>.<op>:go-panic) even though it is not wrong data: the statement demands a raised error",
		"strings are valid UTF-8 (the model is a sequence of code points for len, s[i], s[i:j], range, reversed); string.index/last_index are modelled as Go's strings.Index/LastIndex, i.e. BYTE offsets (C19 requires the wrapped stdlib result), so s[s.index(x)] is not demanded to be the match in a multi-byte string; the other string methods are modelled by the Go strings function they wrap",
		"byte_slice is modelled as a mutable byte sequence whose slices, clones and concatenations are independent copies, as the statement demands for slices and copies",
		"not modelled: set[x] (membership through the index operator), byte_slice.contains_any/contains_rune/index_any/index_byte/index_rune/replace (thin wrappers over package bytes, no container state), byte_slice.repeat with a negative count (Go panic in bytes.Repeat), list.filter/each with a builtin as callback (type assertion panic), callbacks or loop bodies that mutate the container they iterate, mutation of nested containers through two parents (shallow copy semantics), float -0.0/NaN and non-UTF-8 strings as members (C15)",
		"Set.Difference exists only in the Go API and is exercised only there; list.map with a Go builtin as callback only through the Go API; map/filter/each with risor closures only in script mode",
		"error messages are not compared, only whether the step failed",
	}
	var cases []mon.Case
	if replay != "" {
		var c caseData
		if err := mon.LoadReplay(replay, &c); err != nil {
			fmt.Println("cannot load replay:", err)
			return 3
		}
		cases = append(cases, mon.NewCase("replay", "replay", c))
	} else {
		r := d.Rand("histories")
		per := d.N(100, 500)
		total := d.N(15000, 500000)
		for i := 0; i*per < total; i++ {
			cases = append(cases, mon.NewCase(fmt.Sprintf("h%05d", i), "gen", caseData{Seed: r.Uint64(), N: per}))
		}
	}
	histories := 0
	var all []Viol
	d.RunPool(cases, mon.PoolOpts{BatchSize: 4, BatchTimeout: 900e9}, func(c mon.Case, res mon.Result) {
		var cd caseData
		_ = json.Unmarshal(c.Data, &cd)
		if res.Status != "done" || res.Panic != "" {
			if res.Status == "timeout" {
				d.Inconclusive("watchdog timeout in case " + c.ID)
				return
			}
			detail := res.Panic
			if res.Crash != nil {
				if !res.Crash.Confirmed && res.Status != "done" {
					d.Inconclusive("worker died in case " + c.ID + " (not confirmed): " + res.Crash.FatalLine)
					return
				}
				detail = res.Crash.Exit + "\n" + res.Crash.StderrTail
			}
			d.Violation("container-operation-killed-the-process", detail, cd)
			return
		}
		var w workerOut
		if err := json.Unmarshal(res.Data, &w); err != nil {
			d.Fatal("bad worker output: " + err.Error())
			return
		}
		histories += w.Histories
		d.Eval(int(w.Steps))
		for k, n := range w.Events {
			d.Event(k, int(n))
		}
		for _, k := range w.Distinct {
			d.Distinct(k)
		}
		for _, s := range w.Samples {
			d.SampleAt(len(s), 1, mon.Truncate(s, 1500))
		}
		for _, n := range w.Notes {
			d.Inconclusive(n)
		}
		all = append(all, w.Viols...)
	})
	// mon.Driver stops printing after 25 violations in total, which would hide a rare signature behind
	// a frequent one: report the three shortest witnesses of every signature, and the full counts in
	// the evidence.
	bySig := map[string][]Viol{}
	for _, v := range all {
		bySig[v.Sig] = append(bySig[v.Sig], v)
	}
	sigs := make([]string, 0, len(bySig))
	counts := map[string]int{}
	for s, vs := range bySig {
		sigs = append(sigs, s)
		counts[s] = len(vs)
	}
	sort.Strings(sigs)
	for _, s := range sigs {
		vs := bySig[s]
		sort.SliceStable(vs, func(a, b int) bool { return len(vs[a].Hist.Ops) < len(vs[b].Hist.Ops) })
		for i := 0; i < len(vs) && i < 3; i++ {
			d.Violation(vs[i].Sig, vs[i].Detail, caseData{Hist: vs[i].Hist, Mode: vs[i].Mode})
		}
	}
	if len(counts) > 0 {
		d.Extra("histories_failing_by_signature", counts)
	}
	d.Extra("histories", histories)
	d.Extra("modes", []string{"script (one program per history, try() per step, host builtin __obs)", "object API (Container interface, GetAttr+Call, BinaryOp/Compare, Iter)"})
	if replay != "" {
		return d.Finish(1, 0)
	}
	return d.Finish(d.N(300000, 10000000), d.N(8000, 200000))
}
