package c16

import (
	"verif/internal/mon"
)

// clone copies the model, keeping the sharing between variables (aliases stay aliases).
func (m *model) clone() *model {
	n := &model{}
	seen := map[*cont]*cont{}
	for i, c := range m.vars {
		if c == nil {
			continue
		}
		if d, ok := seen[c]; ok {
			n.vars[i] = d
			continue
		}
		d := &cont{K: c.K, S: c.S, origin: c.origin}
		d.L = append([]Val{}, c.L...)
		d.Y = append([]byte{}, c.Y...)
		if c.M != nil {
			d.M = make(map[string]Val, len(c.M))
			for k, v := range c.M {
				d.M[k] = v
			}
		}
		seen[c] = d
		n.vars[i] = d
	}
	return n
}

const maxSize = 24 // containers are kept small; growth beyond this is re-rolled
const maxOps = 40

type gen struct {
	r *mon.Rand
	m *model
	h *History
	// ended: the last step is one after which a script cannot continue (known Go panic)
	ended bool
}

func (g *gen) scalar() Val {
	switch k := g.r.Intn(100); {
	case k < 40:
		return mon.Pick(g.r, poolInts)
	case k < 55:
		return mon.Pick(g.r, poolFloats)
	case k < 85:
		return mon.Pick(g.r, poolStrings)
	default:
		return mon.Pick(g.r, poolOther)
	}
}

func (g *gen) value() Val {
	if g.r.Chance(15, 100) {
		return mon.Pick(g.r, poolNested)
	}
	return g.scalar()
}

func (g *gen) text(max int) string {
	n := g.r.Intn(max + 1)
	s := ""
	for i := 0; i < n; i++ {
		s += mon.Pick(g.r, runeAlphabet)
	}
	return s
}

var byteAlphabet = []byte{65, 66, 67, 97, 0, 255, 0xc3, 0xa9, 32, 65}

func (g *gen) rawBytes(max int) []byte {
	n := g.r.Intn(max + 1)
	b := make([]byte, n)
	for i := range b {
		b[i] = mon.Pick(g.r, byteAlphabet)
	}
	return b
}

// container makes a literal container value of the given kind.
func (g *gen) container(kind string, max int) Val {
	switch kind {
	case "list":
		n := g.r.Intn(max + 1)
		l := make([]Val, n)
		mode := g.r.Intn(6)
		for i := range l {
			switch mode {
			case 0: // sortable: numbers
				if g.r.Chance(1, 4) {
					l[i] = mon.Pick(g.r, poolFloats)
				} else {
					l[i] = vInt(int64(g.r.Range(-3, 9)))
				}
			case 1: // sortable: strings
				l[i] = mon.Pick(g.r, poolStrings)
			case 2: // duplicates
				l[i] = vInt(int64(g.r.Range(0, 2)))
			case 3:
				l[i] = g.scalar()
			default:
				l[i] = g.value()
			}
		}
		return Val{K: "list", L: l}
	case "map":
		n := g.r.Intn(max + 1)
		v := Val{K: "map"}
		for _, ki := range g.r.Perm(len(poolKeys)) {
			if len(v.MK) >= n {
				break
			}
			v.MK = append(v.MK, poolKeys[ki])
			v.L = append(v.L, g.value())
		}
		return v
	case "set":
		n := g.r.Intn(max + 1)
		seen := map[string]bool{}
		v := Val{K: "set"}
		for i := 0; i < n; i++ {
			e := g.scalar()
			if g.r.Chance(1, 3) {
				e = vInt(int64(g.r.Range(0, 4)))
			}
			if !seen[e.hkey()] {
				seen[e.hkey()] = true
				v.L = append(v.L, e)
			}
		}
		return v
	case "string":
		return vStr(g.text(max))
	case "bytes":
		return vBytes(g.rawBytes(max))
	}
	panic("kind " + kind)
}

var contKinds = []string{"list", "list", "list", "list", "map", "map", "set", "set", "string", "string", "bytes"}

// index draws an index argument for a sequence of n elements: ints from [-n-2, n+2], sometimes a
// value of the wrong type.
func (g *gen) index(n int) Val {
	if g.r.Chance(1, 10) {
		return mon.Pick(g.r, []Val{vStr("0"), vFloat(1), vNil(), vBool(true), vList(vInt(0)), vStr("a")})
	}
	return vInt(int64(g.r.Range(-n-2, n+2)))
}

func (g *gen) bound(n int) Val {
	switch k := g.r.Intn(20); {
	case k < 4:
		return vOmit()
	case k == 4:
		return mon.Pick(g.r, []Val{vStr("1"), vFloat(1.5), vBool(false)})
	}
	return vInt(int64(g.r.Range(-n-2, n+2)))
}

func (g *gen) liveVars() []int {
	var l []int
	for i, c := range g.m.vars {
		if c != nil {
			l = append(l, i)
		}
	}
	return l
}

// operand picks a container operand: a live variable or a literal, mostly of the wanted kind.
func (g *gen) operand(kind string) Val {
	k := g.r.Intn(100)
	if k < 50 {
		var same []int
		for _, i := range g.liveVars() {
			if g.m.vars[i].K == kind {
				same = append(same, i)
			}
		}
		if len(same) > 0 {
			return vVar(mon.Pick(g.r, same))
		}
	}
	if k < 88 {
		return g.container(kind, 3)
	}
	// wrong kind
	switch g.r.Intn(4) {
	case 0:
		return vInt(1)
	case 1:
		return vNil()
	case 2:
		return vVar(mon.Pick(g.r, g.liveVars()))
	}
	return g.container(mon.Pick(g.r, contKinds), 2)
}

// member picks a value that is likely (half of the time) to be in the container.
func (g *gen) member(c *cont) Val {
	if g.r.Bool() {
		switch c.K {
		case "list":
			if len(c.L) > 0 {
				v := mon.Pick(g.r, c.L)
				// an equal value of the other numeric type is an interesting needle
				if v.K == "int" && v.I > -10 && v.I < 1000 && g.r.Chance(1, 4) {
					return vFloat(float64(v.I))
				}
				return v
			}
		case "set":
			if len(c.M) > 0 {
				return mon.Pick(g.r, c.snap().L)
			}
		}
	}
	return g.value()
}

func (g *gen) key(c *cont) Val {
	switch k := g.r.Intn(20); {
	case k < 9 && len(c.M) > 0:
		return vStr(mon.Pick(g.r, sortedKeys(c.M)))
	case k < 18:
		return vStr(mon.Pick(g.r, poolKeys))
	case k == 18:
		return vInt(0)
	}
	return mon.Pick(g.r, []Val{vNil(), vFloat(1), vList(vStr("a")), vBool(true)})
}

func (g *gen) substr(s string) Val {
	rs := []rune(s)
	switch k := g.r.Intn(10); {
	case k < 5 && len(rs) > 0:
		i := g.r.Intn(len(rs))
		j := i + 1 + g.r.Intn(2)
		if j > len(rs) {
			j = len(rs)
		}
		return vStr(string(rs[i:j]))
	case k < 8:
		return vStr(mon.Pick(g.r, runeAlphabet))
	case k == 8:
		return vStr("")
	}
	return mon.Pick(g.r, []Val{vInt(1), vNil(), vList()})
}

func (g *gen) subbytes(b []byte) Val {
	var v []byte
	switch k := g.r.Intn(10); {
	case k < 5 && len(b) > 0:
		i := g.r.Intn(len(b))
		j := i + 1 + g.r.Intn(2)
		if j > len(b) {
			j = len(b)
		}
		v = b[i:j]
	case k < 8:
		v = []byte{mon.Pick(g.r, byteAlphabet)}
	case k == 8:
		v = nil
	default:
		return mon.Pick(g.r, []Val{vInt(65), vNil(), vList()})
	}
	// as a string when it is valid text, else as a byte_slice
	if g.r.Bool() && validText(v) {
		return vStr(string(v))
	}
	return vBytes(v)
}

func validText(b []byte) bool {
	for _, r := range string(b) {
		if r == 0xFFFD || r == 0 {
			return false
		}
	}
	return true
}

type wop struct {
	w int
	f func(g *gen, t int, c *cont) Op
}

func mk(kind, name string, t int, a ...Val) Op { return Op{Kind: kind, Name: name, T: t, D: -1, A: a} }

var listOps, mapOps, setOps, stringOps, bytesOps []wop

func init() {
	common := []wop{
		{2, func(g *gen, t int, c *cont) Op { return mk("len", "", t) }},
		{3, func(g *gen, t int, c *cont) Op { return mk("alias", "", t) }},
		{2, func(g *gen, t int, c *cont) Op { return mk("new", "", t, g.container(c.K, 4)) }},
		{2, func(g *gen, t int, c *cont) Op { return mk("eq", "", t, g.operand(c.K)) }},
		{2, func(g *gen, t int, c *cont) Op { return mk("iter", "", t) }},
		{1, func(g *gen, t int, c *cont) Op { return mk("iter1", "", t) }},
		{1, func(g *gen, t int, c *cont) Op {
			return mk("fn", mon.Pick(g.r, []string{"string", "any", "all", "reversed", "keys", "set", "list"}), t)
		}},
		{2, func(g *gen, t int, c *cont) Op { return mk("fn", "sorted", t) }},
	}
	seq := []wop{
		{6, func(g *gen, t int, c *cont) Op { return mk("getitem", "", t, g.index(c.size())) }},
		{7, func(g *gen, t int, c *cont) Op { return mk("slice", "", t, g.bound(c.size()), g.bound(c.size())) }},
		{1, func(g *gen, t int, c *cont) Op { return mk("iterin", "", t) }},
		{4, func(g *gen, t int, c *cont) Op { return mk("add", "", t, g.operand(c.K)) }},
		{2, func(g *gen, t int, c *cont) Op { return mk("augname", "", t, g.operand(c.K)) }},
	}
	listOps = append(append([]wop{}, common...), seq...)
	listOps = append(listOps, []wop{
		{6, func(g *gen, t int, c *cont) Op { return mk("setitem", "", t, g.index(c.size()), g.value()) }},
		{5, func(g *gen, t int, c *cont) Op {
			v := mon.Pick(g.r, []Val{vInt(1), vInt(1), vInt(-3), vFloat(0.5), vStr("z"), vList(vInt(9)), vInt(1 << 62)})
			return mk("aug", mon.Pick(g.r, []string{"+", "+", "+", "-", "*"}), t, g.index(c.size()), v)
		}},
		{3, func(g *gen, t int, c *cont) Op { return mk("del", "", t, g.index(c.size())) }},
		{2, func(g *gen, t int, c *cont) Op { return mk("in", "", t, g.member(c)) }},
		{1, func(g *gen, t int, c *cont) Op { return mk("notin", "", t, g.member(c)) }},
		{9, func(g *gen, t int, c *cont) Op { return mk("method", "append", t, g.value()) }},
		{1, func(g *gen, t int, c *cont) Op { return mk("method", "clear", t) }},
		{4, func(g *gen, t int, c *cont) Op { return mk("method", "copy", t) }},
		{2, func(g *gen, t int, c *cont) Op { return mk("method", "count", t, g.member(c)) }},
		{4, func(g *gen, t int, c *cont) Op { return mk("method", "extend", t, g.operand("list")) }},
		{2, func(g *gen, t int, c *cont) Op { return mk("method", "index", t, g.member(c)) }},
		{6, func(g *gen, t int, c *cont) Op { return mk("method", "insert", t, g.index(c.size()), g.value()) }},
		{7, func(g *gen, t int, c *cont) Op { return mk("method", "pop", t, g.index(c.size())) }},
		{4, func(g *gen, t int, c *cont) Op { return mk("method", "remove", t, g.member(c)) }},
		{2, func(g *gen, t int, c *cont) Op { return mk("method", "reverse", t) }},
		{3, func(g *gen, t int, c *cont) Op { return mk("method", "sort", t) }},
		{3, func(g *gen, t int, c *cont) Op {
			return mk("fn", mon.Pick(g.r, []string{"sorted_by_type", "sorted_by_type", "sorted_keep"}), t)
		}},
		{6, func(g *gen, t int, c *cont) Op { return g.callback(t, c) }},
	}...)
	mapOps = append(append([]wop{}, common...), []wop{
		{6, func(g *gen, t int, c *cont) Op { return mk("getitem", "", t, g.key(c)) }},
		{1, func(g *gen, t int, c *cont) Op { return mk("slice", "", t, vInt(0), vInt(1)) }},
		{8, func(g *gen, t int, c *cont) Op { return mk("setitem", "", t, g.key(c), g.value()) }},
		{4, func(g *gen, t int, c *cont) Op {
			return mk("aug", mon.Pick(g.r, []string{"+", "+", "-", "*"}), t, g.key(c), mon.Pick(g.r, []Val{vInt(1), vFloat(0.5), vStr("z"), vInt(2)}))
		}},
		{4, func(g *gen, t int, c *cont) Op { return mk("del", "", t, g.key(c)) }},
		{2, func(g *gen, t int, c *cont) Op { return mk("in", "", t, g.key(c)) }},
		{1, func(g *gen, t int, c *cont) Op { return mk("notin", "", t, g.key(c)) }},
		{1, func(g *gen, t int, c *cont) Op { return mk("add", "", t, g.operand("map")) }},
		{2, func(g *gen, t int, c *cont) Op { return mk("getattr", mon.Pick(g.r, []string{"a", "b", "c", "k"}), t) }},
		{2, func(g *gen, t int, c *cont) Op {
			return mk("setattr", mon.Pick(g.r, []string{"a", "b", "c", "k"}), t, g.value())
		}},
		{1, func(g *gen, t int, c *cont) Op { return mk("fn", "map", t) }},
		{4, func(g *gen, t int, c *cont) Op { return mk("method", "keys", t) }},
		{4, func(g *gen, t int, c *cont) Op { return mk("method", "values", t) }},
		{3, func(g *gen, t int, c *cont) Op { return mk("method", "items", t) }},
		{4, func(g *gen, t int, c *cont) Op {
			if g.r.Bool() {
				return mk("method", "get", t, g.key(c))
			}
			return mk("method", "get", t, g.key(c), g.value())
		}},
		{1, func(g *gen, t int, c *cont) Op { return mk("method", "clear", t) }},
		{4, func(g *gen, t int, c *cont) Op { return mk("method", "copy", t) }},
		{6, func(g *gen, t int, c *cont) Op {
			if g.r.Bool() {
				return mk("method", "pop", t, g.key(c))
			}
			return mk("method", "pop", t, g.key(c), g.value())
		}},
		{5, func(g *gen, t int, c *cont) Op { return mk("method", "setdefault", t, g.key(c), g.value()) }},
		{5, func(g *gen, t int, c *cont) Op { return mk("method", "update", t, g.operand("map")) }},
	}...)
	setOps = append(append([]wop{}, common...), []wop{
		{1, func(g *gen, t int, c *cont) Op { return mk("slice", "", t, vInt(0), vInt(1)) }},
		{1, func(g *gen, t int, c *cont) Op { return mk("setitem", "", t, g.member(c), g.value()) }},
		{4, func(g *gen, t int, c *cont) Op { return mk("del", "", t, g.member(c)) }},
		{4, func(g *gen, t int, c *cont) Op { return mk("in", "", t, g.member(c)) }},
		{1, func(g *gen, t int, c *cont) Op { return mk("notin", "", t, g.member(c)) }},
		{1, func(g *gen, t int, c *cont) Op { return mk("add", "", t, g.operand("set")) }},
		{10, func(g *gen, t int, c *cont) Op { return mk("method", "add", t, g.member(c)) }},
		{6, func(g *gen, t int, c *cont) Op { return mk("method", "remove", t, g.member(c)) }},
		{1, func(g *gen, t int, c *cont) Op { return mk("method", "clear", t) }},
		{6, func(g *gen, t int, c *cont) Op { return mk("method", "union", t, g.operand("set")) }},
		{6, func(g *gen, t int, c *cont) Op { return mk("method", "intersection", t, g.operand("set")) }},
		{2, func(g *gen, t int, c *cont) Op { return mk("method", "difference", t, g.operand("set")) }},
		{3, func(g *gen, t int, c *cont) Op { return mk("fn", "set", t) }},
	}...)
	stringOps = append(append([]wop{}, common...), seq...)
	stringOps = append(stringOps, []wop{
		{4, func(g *gen, t int, c *cont) Op { return mk("getitem", "", t, g.index(c.size())) }},
		{4, func(g *gen, t int, c *cont) Op { return mk("slice", "", t, g.bound(c.size()), g.bound(c.size())) }},
		{1, func(g *gen, t int, c *cont) Op { return mk("setitem", "", t, g.index(c.size()), vStr("x")) }},
		{1, func(g *gen, t int, c *cont) Op { return mk("aug", "+", t, g.index(c.size()), vStr("x")) }},
		{1, func(g *gen, t int, c *cont) Op { return mk("del", "", t, g.index(c.size())) }},
		{3, func(g *gen, t int, c *cont) Op { return mk("in", "", t, g.substr(c.S)) }},
		{1, func(g *gen, t int, c *cont) Op { return mk("notin", "", t, g.substr(c.S)) }},
		{1, func(g *gen, t int, c *cont) Op { return mk("fn", "byte_slice", t) }},
		{10, func(g *gen, t int, c *cont) Op {
			name := mon.Pick(g.r, []string{"contains", "has_prefix", "has_suffix", "count", "index", "index", "last_index", "split", "trim", "trim_prefix", "trim_suffix"})
			return mk("method", name, t, g.substr(c.S))
		}},
		{2, func(g *gen, t int, c *cont) Op {
			return mk("method", mon.Pick(g.r, []string{"fields", "to_lower", "to_upper", "trim_space"}), t)
		}},
		{2, func(g *gen, t int, c *cont) Op { return mk("method", "replace_all", t, g.substr(c.S), g.substr(c.S)) }},
		{2, func(g *gen, t int, c *cont) Op {
			l := Val{K: "list"}
			for i := g.r.Intn(4); i > 0; i-- {
				l.L = append(l.L, vStr(g.text(2)))
			}
			if g.r.Chance(1, 8) {
				l.L = append(l.L, vInt(1))
			}
			return mk("method", "join", t, l)
		}},
	}...)
	bytesOps = append(append([]wop{}, common...), seq...)
	bytesOps = append(bytesOps, []wop{
		{4, func(g *gen, t int, c *cont) Op { return mk("getitem", "", t, g.index(c.size())) }},
		{6, func(g *gen, t int, c *cont) Op { return mk("slice", "", t, g.bound(c.size()), g.bound(c.size())) }},
		{10, func(g *gen, t int, c *cont) Op {
			v := mon.Pick(g.r, []Val{vStr("X"), vStr("y"), vBytes([]byte{0}), vBytes([]byte{200}), vStr("é"), vStr(""), vInt(65), vBytes([]byte{1, 2})})
			return mk("setitem", "", t, g.index(c.size()), v)
		}},
		{1, func(g *gen, t int, c *cont) Op { return mk("del", "", t, g.index(c.size())) }},
		{3, func(g *gen, t int, c *cont) Op { return mk("in", "", t, g.subbytes(c.Y)) }},
		{1, func(g *gen, t int, c *cont) Op { return mk("notin", "", t, g.subbytes(c.Y)) }},
		{1, func(g *gen, t int, c *cont) Op { return mk("fn", "byte_slice", t) }},
		{4, func(g *gen, t int, c *cont) Op { return mk("method", "clone", t) }},
		{2, func(g *gen, t int, c *cont) Op { return mk("method", "equals", t, g.operand("bytes")) }},
		{6, func(g *gen, t int, c *cont) Op {
			return mk("method", mon.Pick(g.r, []string{"contains", "count", "has_prefix", "has_suffix", "index"}), t, g.subbytes(c.Y))
		}},
		{2, func(g *gen, t int, c *cont) Op { return mk("method", "repeat", t, vInt(int64(g.r.Intn(3)))) }},
		{2, func(g *gen, t int, c *cont) Op {
			return mk("method", "replace_all", t, g.subbytes(c.Y), g.subbytes(c.Y))
		}},
	}...)
}

func (g *gen) callback(t int, c *cont) Op {
	o := mk("cb", mon.Pick(g.r, []string{"map", "map", "map", "filter", "filter", "each"}), t)
	cb := &CbSpec{Params: 1, RaiseAt: -1}
	switch o.Name {
	case "map":
		if g.r.Chance(3, 4) {
			cb.Params = 2
			cb.Ret = mon.Pick(g.r, []string{"v", "i", "pair"})
		} else {
			cb.Ret = "v"
			cb.Builtin = g.r.Chance(1, 3)
		}
	case "filter":
		cb.Ret = mon.Pick(g.r, []string{"eq", "ne", "true", "false"})
		x := g.member(c)
		cb.X = &x
	}
	if g.r.Chance(1, 8) {
		cb.RaiseAt = g.r.Intn(len(c.L) + 1)
	}
	o.Cb = cb
	return o
}

func pickOp(r *mon.Rand, ops []wop) wop {
	total := 0
	for _, o := range ops {
		total += o.w
	}
	k := r.Intn(total)
	for _, o := range ops {
		if k < o.w {
			return o
		}
		k -= o.w
	}
	return ops[0]
}

func opsFor(kind string) []wop {
	switch kind {
	case "list":
		return listOps
	case "map":
		return mapOps
	case "set":
		return setOps
	case "string":
		return stringOps
	}
	return bytesOps
}

// chooseDest gives the operation a destination variable when its result is a container.
func (g *gen) chooseDest(o *Op, p int) {
	if !g.r.Chance(p, 100) {
		return
	}
	for i := 1; i < maxVars; i++ {
		if g.m.vars[i] == nil {
			o.D = i
			return
		}
	}
	if g.r.Bool() {
		o.D = g.r.Range(1, maxVars-1)
	}
}

// push validates the operation on a copy of the model, fixes its destination, applies it and
// appends it. It reports false when the operation was rejected.
func (g *gen) push(o Op) bool {
	if g.ended || len(g.h.Ops) >= maxOps || o.T < 0 || o.T >= maxVars || g.m.vars[o.T] == nil {
		return false
	}
	for _, a := range o.A {
		if a.K == "var" && (a.I < 0 || a.I >= maxVars || g.m.vars[a.I] == nil) {
			return false
		}
	}
	dry := g.m.clone()
	out := dry.apply(&o, true, nil)
	if out.skip {
		return false
	}
	if o.D >= 0 && (out.bind == nil || out.err || out.either || out.orErr || out.perm) {
		// no container result to keep (or not certain that there is one)
		o.D = -1
	}
	if o.Kind == "method" && o.Name == "difference" {
		o.D = -1 // exists only in one of the two modes
	}
	if o.Kind == "augname" {
		o.D = -1 // rebinds its own target
	}
	for _, c := range dry.vars {
		if c != nil && c.size() > maxSize {
			return false
		}
	}
	out = g.m.apply(&o, true, nil)
	g.h.Ops = append(g.h.Ops, o)
	if out.mayPanic {
		g.ended = true
	}
	return true
}

// random appends one randomly chosen operation.
func (g *gen) random() {
	for try := 0; try < 8; try++ {
		live := g.liveVars()
		t := mon.Pick(g.r, live)
		if g.r.Chance(1, 3) {
			t = live[0]
		}
		c := g.m.vars[t]
		o := pickOp(g.r, opsFor(c.K)).f(g, t, c)
		p := 40
		switch {
		case o.Kind == "alias" || o.Kind == "new":
			p = 100
		case o.Kind == "slice" || o.Kind == "add" || o.Name == "copy" || o.Name == "clone" || o.Name == "keys" || o.Name == "values":
			p = 60
		case o.Kind == "cb":
			p = 0
		}
		g.chooseDest(&o, p)
		if (o.Kind == "alias" || o.Kind == "new") && o.D < 0 {
			continue
		}
		if g.push(o) {
			return
		}
	}
	g.push(mk("len", "", g.liveVars()[0]))
}

func withD(o Op, d int) Op { o.D = d; return o }

// template appends one of the directed aliasing scenarios named in the design (slice then mutate,
// copy then mutate, b := a, a + b, keys()/values() results mutated, pop/remove followed by append on
// an alias, callbacks retaining (index, value)).
func (g *gen) template() {
	c := g.m.vars[0]
	n := c.size()
	switch c.K {
	case "list":
		switch g.r.Intn(9) {
		case 0: // slice, then append to / assign into the slice, then to the original
			g.push(withD(mk("slice", "", 0, vInt(0), vInt(int64(g.r.Range(0, n)))), 1))
			g.push(mk("method", "append", 1, g.value()))
			g.push(mk("setitem", "", 1, vInt(0), g.value()))
			g.push(mk("method", "append", 0, g.value()))
		case 1: // alias, pop through one name, append through the other
			g.push(withD(mk("alias", "", 0), 1))
			g.push(mk("method", "pop", 0, vInt(int64(g.r.Range(-1, 1)))))
			g.push(mk("method", "append", 1, g.value()))
			g.push(mk("method", "remove", 1, g.member(c)))
			g.push(mk("method", "append", 0, g.value()))
		case 2: // c := a + b, then grow a, b and c
			g.push(withD(mk("new", "", 0, g.container("list", 3)), 1))
			g.push(withD(mk("add", "", 0, vVar(1)), 2))
			g.push(mk("method", "append", 0, g.value()))
			g.push(mk("method", "append", 2, g.value()))
			g.push(mk("method", "append", 1, g.value()))
		case 3: // copy then mutate both
			g.push(withD(mk("method", "copy", 0), 1))
			g.push(mk("setitem", "", 1, vInt(-1), g.value()))
			g.push(mk("method", "insert", 0, vInt(int64(g.r.Range(-n-1, 1))), g.value()))
			g.push(mk("method", "pop", 1, vInt(0)))
		case 4: // callbacks that keep what they are given
			g.push(Op{Kind: "cb", Name: "map", T: 0, D: -1, Cb: &CbSpec{Params: 2, Ret: mon.Pick(g.r, []string{"i", "pair", "v"}), RaiseAt: -1}})
			x := g.member(c)
			g.push(Op{Kind: "cb", Name: "filter", T: 0, D: -1, Cb: &CbSpec{Params: 1, Ret: "ne", X: &x, RaiseAt: -1}})
			g.push(Op{Kind: "cb", Name: "each", T: 0, D: -1, Cb: &CbSpec{Params: 1, RaiseAt: -1}})
		case 5: // pop in the middle, then append, then slice: the freed slot must not reappear
			g.push(mk("method", "pop", 0, vInt(int64(g.r.Range(0, n/2)))))
			g.push(withD(mk("slice", "", 0, vOmit(), vOmit()), 1))
			g.push(mk("method", "append", 0, g.value()))
			g.push(mk("del", "", 0, vInt(0)))
			g.push(mk("method", "append", 0, g.value()))
		case 6: // inserts at the edges and at negative positions
			g.push(mk("method", "insert", 0, vInt(-1), vStr("i1")))
			g.push(mk("method", "insert", 0, vInt(int64(-n-2)), vStr("i2")))
			g.push(mk("method", "insert", 0, vInt(int64(n+5)), vStr("i3")))
			g.push(mk("method", "insert", 0, vInt(-2), vStr("i4")))
		case 7: // extend by itself and by an alias; sorted/reversed copies are independent
			g.push(withD(mk("alias", "", 0), 1))
			g.push(mk("method", "extend", 0, vVar(1)))
			g.push(withD(mk("fn", "reversed", 0), 2))
			g.push(mk("method", "append", 2, g.value()))
			g.push(mk("method", "reverse", 0))
		case 8: // compound assignment through an alias, with negative indices
			g.push(withD(mk("alias", "", 0), 1))
			g.push(mk("aug", "+", 1, vInt(-1), vInt(1)))
			g.push(mk("aug", "+", 0, vInt(int64(-n)), vInt(1)))
			g.push(mk("aug", "+", 0, vInt(int64(-n-1)), vInt(1)))
		}
	case "map":
		switch g.r.Intn(4) {
		case 0: // keys()/values() results are lists of their own
			g.push(withD(mk("method", "keys", 0), 1))
			g.push(mk("method", "append", 1, vStr("zz")))
			g.push(withD(mk("method", "values", 0), 2))
			g.push(mk("method", "append", 2, g.value()))
			g.push(mk("setitem", "", 2, vInt(0), vStr("changed")))
		case 1: // copy then mutate
			g.push(withD(mk("method", "copy", 0), 1))
			g.push(mk("setitem", "", 1, g.key(c), g.value()))
			g.push(mk("method", "pop", 0, g.key(c)))
			g.push(mk("method", "clear", 1))
		case 2: // update from another map, then change the source
			g.push(withD(mk("new", "", 0, g.container("map", 3)), 1))
			g.push(mk("method", "update", 0, vVar(1)))
			g.push(mk("setitem", "", 1, vStr("a"), vStr("src-changed")))
			g.push(mk("method", "update", 1, vVar(1)))
		case 3: // alias
			g.push(withD(mk("alias", "", 0), 1))
			g.push(mk("method", "setdefault", 1, g.key(c), g.value()))
			g.push(mk("del", "", 0, g.key(c)))
			g.push(withD(mk("method", "items", 0), 2))
			g.push(mk("method", "clear", 2))
		}
	case "set":
		switch g.r.Intn(3) {
		case 0: // union / intersection results are sets of their own
			g.push(withD(mk("new", "", 0, g.container("set", 3)), 1))
			g.push(withD(mk("method", "union", 0, vVar(1)), 2))
			g.push(mk("method", "add", 2, vStr("only-in-union")))
			g.push(mk("method", "add", 0, vStr("only-in-a")))
			g.push(withD(mk("method", "intersection", 0, vVar(1)), 3))
			g.push(mk("method", "add", 3, vInt(99)))
		case 1:
			g.push(withD(mk("alias", "", 0), 1))
			g.push(mk("method", "add", 1, g.value()))
			g.push(mk("method", "remove", 0, g.member(c)))
			g.push(withD(mk("fn", "set", 0), 2))
			g.push(mk("method", "clear", 2))
		case 2:
			g.push(withD(mk("fn", "keys", 0), 1))
			g.push(mk("method", "append", 1, g.value()))
			g.push(mk("method", "union", 0, vVar(0)))
		}
	case "string":
		switch g.r.Intn(2) {
		case 0:
			g.push(mk("getitem", "", 0, vInt(int64(g.r.Range(-n, n-1)))))
			g.push(withD(mk("slice", "", 0, vInt(int64(g.r.Range(0, n/2))), vInt(int64(g.r.Range(n/2, n)))), 1))
			g.push(mk("iter", "", 0))
		case 1:
			g.push(withD(mk("alias", "", 0), 1))
			g.push(mk("augname", "", 0, vStr(g.text(2))))
			g.push(mk("len", "", 1))
		}
	case "bytes":
		switch g.r.Intn(2) {
		case 0: // clone / + results are byte slices of their own
			g.push(withD(mk("method", "clone", 0), 1))
			g.push(mk("setitem", "", 1, vInt(0), vStr("Z")))
			g.push(withD(mk("add", "", 0, vStr("q")), 2))
			g.push(mk("setitem", "", 2, vInt(0), vStr("Y")))
		case 1: // slice then write through the slice
			g.push(withD(mk("slice", "", 0, vInt(0), vInt(int64(g.r.Range(1, n)))), 1))
			g.push(mk("setitem", "", 1, vInt(0), vStr("W")))
		}
	}
}

// Generate builds one history from the stream r.
func Generate(r *mon.Rand) *History {
	kind := mon.Pick(r, contKinds)
	g := &gen{r: r, m: &model{}, h: &History{}}
	g.h.Init = g.container(kind, 7)
	g.m.vars[0] = contOf(g.h.Init, "init")
	n := r.Range(4, maxOps)
	if r.Chance(1, 6) {
		n = r.Range(1, 6)
	}
	for i := r.Intn(3); i > 0; i-- {
		g.random()
	}
	if r.Chance(6, 10) {
		g.template()
	}
	for len(g.h.Ops) < n && !g.ended {
		g.random()
		if r.Chance(1, 25) {
			g.template()
		}
	}
	return g.h
}
