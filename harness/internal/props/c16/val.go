package c16

import (
	"fmt"
	"math"
	"sort"
	"strconv"
	"strings"
	"unicode"
	"unicode/utf8"

	"github.com/risor-io/risor/object"
)

// Val is the harness-side description of a risor value. It is the element type of the reference
// model (plain Go data, no risor objects), the argument type of operations, and it is
// JSON-serialisable so that a history can be stored in a replay file.
//
// Kinds: int float string bool nil byte list map set bytes, plus two pseudo kinds that only occur
// as operation arguments: "var" (I = index of a live container variable) and "omit" (an omitted
// slice bound).
type Val struct {
	K  string   `json:"k"`
	I  int64    `json:"i,omitempty"`
	F  float64  `json:"f,omitempty"`
	S  string   `json:"s,omitempty"`
	B  bool     `json:"b,omitempty"`
	L  []Val    `json:"l,omitempty"`  // list items / set members / map values (keys in MK)
	MK []string `json:"mk,omitempty"` // map keys, parallel to L
	Y  []byte   `json:"y,omitempty"`  // bytes
}

func vInt(i int64) Val     { return Val{K: "int", I: i} }
func vFloat(f float64) Val { return Val{K: "float", F: f} }
func vStr(s string) Val    { return Val{K: "string", S: s} }
func vBool(b bool) Val     { return Val{K: "bool", B: b} }
func vNil() Val            { return Val{K: "nil"} }
func vByte(b byte) Val     { return Val{K: "byte", I: int64(b)} }
func vList(l ...Val) Val   { return Val{K: "list", L: l} }
func vSet(l ...Val) Val    { return Val{K: "set", L: l} }
func vBytes(b []byte) Val  { return Val{K: "bytes", Y: append([]byte{}, b...)} }
func vVar(i int) Val       { return Val{K: "var", I: int64(i)} }
func vOmit() Val           { return Val{K: "omit"} }
func vMap(kv ...any) Val {
	v := Val{K: "map"}
	for i := 0; i+1 < len(kv); i += 2 {
		v.MK = append(v.MK, kv[i].(string))
		v.L = append(v.L, kv[i+1].(Val))
	}
	return v
}

// typ is the risor type name of the value.
func (v Val) typ() string {
	if v.K == "bytes" {
		return "byte_slice"
	}
	return v.K
}

func inspectString(s string) string {
	// mirrors object.String.Inspect: a string that is wrapped in exactly two double quotes is
	// shown in single quotes
	if n := len(s); n >= 2 && s[0] == '"' && s[n-1] == '"' && strings.Count(s, "\"") == 2 {
		return "'" + s + "'"
	}
	return strconv.Quote(s)
}

// render is the model's own rendering of a value in the format of risor's Inspect (pinned in
// LANGUAGE_RULES: ints decimal, floats 'f' shortest, strings Go-quoted, lists [a, b], maps with
// sorted keys, sets sorted by (type, int, string, float) key).
func (v Val) render() string {
	switch v.K {
	case "int", "byte":
		return strconv.FormatInt(v.I, 10)
	case "float":
		return strconv.FormatFloat(v.F, 'f', -1, 64)
	case "string":
		return inspectString(v.S)
	case "bool":
		if v.B {
			return "true"
		}
		return "false"
	case "nil":
		return "nil"
	case "list":
		parts := make([]string, len(v.L))
		for i, e := range v.L {
			parts[i] = e.render()
		}
		return "[" + strings.Join(parts, ", ") + "]"
	case "map":
		idx := make([]int, len(v.MK))
		for i := range idx {
			idx[i] = i
		}
		sort.Slice(idx, func(a, b int) bool { return v.MK[idx[a]] < v.MK[idx[b]] })
		parts := make([]string, len(idx))
		for i, j := range idx {
			parts[i] = fmt.Sprintf("%q: %s", v.MK[j], v.L[j].render())
		}
		return "{" + strings.Join(parts, ", ") + "}"
	case "set":
		ms := sortedSetMembers(v.L)
		parts := make([]string, len(ms))
		for i, e := range ms {
			parts[i] = e.render()
		}
		return "{" + strings.Join(parts, ", ") + "}"
	case "bytes":
		return fmt.Sprintf("byte_slice(%q)", v.Y)
	}
	return "?" + v.K
}

// tr is the typed rendering that observations are compared by.
func (v Val) tr() string { return v.typ() + ":" + v.render() }

// hkey is the identity of a value as a set member: (type, value).
func (v Val) hkey() string {
	switch v.K {
	case "int", "byte":
		return v.K + "|" + strconv.FormatInt(v.I, 10)
	case "float":
		return "float|" + strconv.FormatUint(math.Float64bits(v.F+0), 16) // +0 folds -0 into 0
	case "string":
		return "string|" + v.S
	case "bool":
		return "bool|" + strconv.FormatBool(v.B)
	case "nil":
		return "nil|"
	}
	return ""
}

func (v Val) hashable() bool {
	switch v.K {
	case "int", "byte", "float", "string", "bool", "nil":
		return true
	}
	return false
}

// sortedSetMembers orders set members the way risor renders and iterates a set: by type name, then
// integer key, then string key, then float key.
func sortedSetMembers(l []Val) []Val {
	ms := append([]Val{}, l...)
	key := func(v Val) (string, int64, string, float64) {
		switch v.K {
		case "int", "byte":
			return v.K, v.I, "", 0
		case "bool":
			if v.B {
				return v.K, 1, "", 0
			}
			return v.K, 0, "", 0
		case "float":
			return v.K, 0, "", v.F
		case "string":
			return v.K, 0, v.S, 0
		}
		return v.K, 0, "", 0
	}
	sort.SliceStable(ms, func(a, b int) bool {
		t1, i1, s1, f1 := key(ms[a])
		t2, i2, s2, f2 := key(ms[b])
		if t1 != t2 {
			return t1 < t2
		}
		if i1 != i2 {
			return i1 < i2
		}
		if s1 != s2 {
			return s1 < s2
		}
		return f1 < f2
	})
	return ms
}

// equal is risor's == on model values: numbers compare by value across int/float/byte, other
// kinds only within the kind, containers structurally.
func equal(a, b Val) bool {
	num := func(v Val) (float64, bool) {
		switch v.K {
		case "int", "byte":
			return float64(v.I), true
		case "float":
			return v.F, true
		}
		return 0, false
	}
	if (a.K == "int" || a.K == "byte") && (b.K == "int" || b.K == "byte") {
		return a.I == b.I
	}
	if x, ok := num(a); ok {
		if y, ok := num(b); ok {
			return x == y
		}
		return false
	}
	if a.K != b.K {
		// a byte_slice equals the string with the same bytes, in either operand order
		if a.K == "bytes" && b.K == "string" {
			return string(a.Y) == b.S
		}
		if a.K == "string" && b.K == "bytes" {
			return a.S == string(b.Y)
		}
		return false
	}
	switch a.K {
	case "string":
		return a.S == b.S
	case "bool":
		return a.B == b.B
	case "nil":
		return true
	case "bytes":
		return string(a.Y) == string(b.Y)
	case "list":
		if len(a.L) != len(b.L) {
			return false
		}
		for i := range a.L {
			if !equal(a.L[i], b.L[i]) {
				return false
			}
		}
		return true
	case "map":
		if len(a.L) != len(b.L) {
			return false
		}
		for i, k := range a.MK {
			found := false
			for j, k2 := range b.MK {
				if k == k2 {
					found = true
					if !equal(a.L[i], b.L[j]) {
						return false
					}
				}
			}
			if !found {
				return false
			}
		}
		return true
	case "set":
		if len(a.L) != len(b.L) {
			return false
		}
		for _, x := range a.L {
			found := false
			for _, y := range b.L {
				if x.hkey() == y.hkey() {
					found = true
				}
			}
			if !found {
				return false
			}
		}
		return true
	}
	return false
}

// compare is risor's ordering: (sign, true) when the two values are ordered, (0, false) when
// comparing them is a type error. comparable(v) = false means the value has no ordering at all
// (maps, sets).
func compare(a, b Val) (int, bool) {
	sg := func(lt, eq bool) (int, bool) {
		if eq {
			return 0, true
		}
		if lt {
			return -1, true
		}
		return 1, true
	}
	isNum := func(v Val) bool { return v.K == "int" || v.K == "float" || v.K == "byte" }
	if isNum(a) && isNum(b) {
		if a.K != "float" && b.K != "float" {
			return sg(a.I < b.I, a.I == b.I)
		}
		x, y := a.F, b.F
		if a.K != "float" {
			x = float64(a.I)
		}
		if b.K != "float" {
			y = float64(b.I)
		}
		return sg(x < y, x == y)
	}
	if a.K != b.K {
		return 0, false
	}
	switch a.K {
	case "string":
		return sg(a.S < b.S, a.S == b.S)
	case "bool":
		return sg(!a.B && b.B, a.B == b.B)
	case "nil":
		return 0, true
	case "list":
		if len(a.L) != len(b.L) {
			return sg(len(a.L) < len(b.L), false)
		}
		for i := range a.L {
			if !comparableVal(a.L[i]) {
				return 0, false
			}
			c, ok := compare(a.L[i], b.L[i])
			if !ok {
				return 0, false
			}
			if c != 0 {
				return c, true
			}
		}
		return 0, true
	}
	return 0, false
}

func comparableVal(v Val) bool {
	switch v.K {
	case "map", "set":
		return false
	}
	return true
}

func truthy(v Val) bool {
	switch v.K {
	case "int", "byte":
		return v.I != 0
	case "float":
		return v.F != 0
	case "string":
		return v.S != ""
	case "bool":
		return v.B
	case "nil":
		return false
	case "list", "map", "set":
		return len(v.L) > 0
	case "bytes":
		return len(v.Y) > 0
	}
	return true
}

// arith is + - * on model values as the compound assignments use them. ok=false: type error.
func arith(opName string, a, b Val) (Val, bool) {
	isNum := func(v Val) bool { return v.K == "int" || v.K == "float" }
	if a.K == "byte" && b.K == "byte" {
		x, y := byte(a.I), byte(b.I)
		switch opName {
		case "+":
			return vByte(x + y), true
		case "-":
			return vByte(x - y), true
		case "*":
			return vByte(x * y), true
		}
		return Val{}, false
	}
	// a byte (member of list(byte_slice)) with an int or a float behaves as that int
	if a.K == "byte" && isNum(b) {
		a = vInt(a.I)
	}
	if b.K == "byte" && isNum(a) {
		b = vInt(b.I)
	}
	if isNum(a) && isNum(b) {
		if a.K == "int" && b.K == "int" {
			switch opName {
			case "+":
				return vInt(a.I + b.I), true
			case "-":
				return vInt(a.I - b.I), true
			case "*":
				return vInt(a.I * b.I), true
			}
			return Val{}, false
		}
		x, y := a.F, b.F
		if a.K == "int" {
			x = float64(a.I)
		}
		if b.K == "int" {
			y = float64(b.I)
		}
		switch opName {
		case "+":
			return vFloat(x + y), true
		case "-":
			return vFloat(x - y), true
		case "*":
			return vFloat(x * y), true
		}
		return Val{}, false
	}
	if opName != "+" {
		return Val{}, false
	}
	if a.K == "string" && b.K == "string" {
		return vStr(a.S + b.S), true
	}
	if a.K == "list" && b.K == "list" {
		return vList(append(append([]Val{}, a.L...), b.L...)...), true
	}
	return Val{}, false
}

// ---------------------------------------------------------------------------------------
// risor source literal

func litString(s string) string {
	var sb strings.Builder
	sb.WriteByte('"')
	for _, r := range s {
		switch {
		case r == '"':
			sb.WriteString(`\"`)
		case r == '\\':
			sb.WriteString(`\\`)
		case r == '\n':
			sb.WriteString(`\n`)
		case r == '\t':
			sb.WriteString(`\t`)
		case r == utf8.RuneError:
			panic("invalid UTF-8 in a literal")
		case r < 0x20 || r == 0x7f:
			fmt.Fprintf(&sb, `\x%02x`, r)
		case unicode.IsPrint(r):
			sb.WriteRune(r)
		case r <= 0xffff:
			fmt.Fprintf(&sb, `\u%04x`, r)
		default:
			fmt.Fprintf(&sb, `\U%08x`, r)
		}
	}
	sb.WriteByte('"')
	return sb.String()
}

var varNames = []string{"a", "b", "c", "d"}

// lit renders the value as risor source. Negative numbers are parenthesised because prefix minus
// binds no tighter than `in`.
func (v Val) lit() string {
	switch v.K {
	case "int":
		if v.I == math.MinInt64 {
			return "(-9223372036854775807 - 1)" // the literal 9223372036854775808 does not parse
		}
		if v.I < 0 {
			return "(" + strconv.FormatInt(v.I, 10) + ")"
		}
		return strconv.FormatInt(v.I, 10)
	case "float":
		s := strconv.FormatFloat(v.F, 'f', -1, 64)
		if !strings.Contains(s, ".") {
			s += ".0"
		}
		if v.F < 0 {
			return "(" + s + ")"
		}
		return s
	case "string":
		return litString(v.S)
	case "bool":
		if v.B {
			return "true"
		}
		return "false"
	case "nil":
		return "nil"
	case "byte":
		return fmt.Sprintf("byte(%d)", v.I)
	case "list":
		parts := make([]string, len(v.L))
		for i, e := range v.L {
			parts[i] = e.lit()
		}
		return "[" + strings.Join(parts, ", ") + "]"
	case "set":
		if len(v.L) == 0 {
			return "set()"
		}
		parts := make([]string, len(v.L))
		for i, e := range v.L {
			parts[i] = e.lit()
		}
		return "{" + strings.Join(parts, ", ") + "}"
	case "map":
		parts := make([]string, len(v.L))
		for i, e := range v.L {
			parts[i] = litString(v.MK[i]) + ": " + e.lit()
		}
		return "{" + strings.Join(parts, ", ") + "}"
	case "bytes":
		parts := make([]string, len(v.Y))
		for i, b := range v.Y {
			parts[i] = strconv.Itoa(int(b))
		}
		return "byte_slice([" + strings.Join(parts, ", ") + "])"
	case "var":
		return varNames[v.I]
	}
	panic("no literal for kind " + v.K)
}

// obj builds a fresh risor object.
func (v Val) obj() object.Object {
	switch v.K {
	case "int":
		return object.NewInt(v.I)
	case "float":
		return object.NewFloat(v.F)
	case "string":
		return object.NewString(v.S)
	case "bool":
		return object.NewBool(v.B)
	case "nil":
		return object.Nil
	case "byte":
		return object.NewByte(byte(v.I))
	case "list":
		items := make([]object.Object, len(v.L))
		for i, e := range v.L {
			items[i] = e.obj()
		}
		return object.NewList(items)
	case "set":
		items := make([]object.Object, len(v.L))
		for i, e := range v.L {
			items[i] = e.obj()
		}
		return object.NewSet(items)
	case "map":
		m := make(map[string]object.Object, len(v.L))
		for i, e := range v.L {
			m[v.MK[i]] = e.obj()
		}
		return object.NewMap(m)
	case "bytes":
		return object.NewByteSlice(append([]byte{}, v.Y...))
	}
	panic("no object for kind " + v.K)
}

// ---------------------------------------------------------------------------------------
// value pools (the scalar part follows C15's pool: ints incl. 0/-1/large, floats, strings incl.
// empty and multi-byte, bools, nil, small nested lists/maps). Left out on purpose: -0.0 and NaN
// (set membership / equality are C15's subject), invalid UTF-8 (strings are modelled as code point
// sequences), ints next to 2^53 together with floats (cross-type equality precision is C15's).

var poolInts = []Val{vInt(0), vInt(1), vInt(-1), vInt(2), vInt(3), vInt(7), vInt(255), vInt(1 << 40), vInt(math.MaxInt64), vInt(-math.MaxInt64)}
var poolFloats = []Val{vFloat(0.5), vFloat(1), vFloat(1.5), vFloat(2), vFloat(-0.5), vFloat(2.5), vFloat(0), vFloat(1000000.25)}
var poolStrings = []Val{vStr(""), vStr("a"), vStr("b"), vStr("ab"), vStr("é"), vStr("日本"), vStr("😀"), vStr("a b"), vStr("x\ny"), vStr(`"q"`), vStr("A"), vStr("0")}
var poolOther = []Val{vBool(true), vBool(false), vNil()}
var poolNested = []Val{vList(), vList(vInt(1)), vList(vInt(1), vInt(2)), vList(vStr("a")), vList(vList(vInt(1))), vMap(), vMap("a", vInt(1)), vMap("k", vList(vInt(1))), vSet(vInt(1))}

var poolKeys = []string{"a", "b", "c", "", "é", "k", "日本", "x y"}

// text material for strings / byte slices
var runeAlphabet = []string{"a", "b", "c", "é", "日", "本", "😀", " ", "A", "ß", "x", "0"}
