package c16

import (
	"bytes"
	"sort"
	"strings"
	"unicode/utf8"
)

// Op is one step of a history. Forms (Kind):
//
//	getitem  T[A0]                 slice    T[A0:A1]  (A = omit for an omitted bound)
//	setitem  T[A0] = A1            aug      T[A0] <Name>= A1     (Name: + - *)
//	del      delete(T, A0)         in       A0 in T              notin  A0 not in T
//	len      len(T)                fn       Name(T)              (keys sorted reversed list set string byte_slice map any all)
//	add      T + A0                eq       T == A0
//	iter     for k, v := range T   iter1    for k := range T     iterin for v in T
//	alias    D := T                new      D := A0
//	method   T.Name(A...)          getattr  T.Name               setattr T.Name = A0
//	augname  T += A0 (rebinds T)   cb       T.map/filter/each(callback) (Name, Cb)
//
// A container argument is either a literal value or {K:"var", I:n}: the live variable n.
// D >= 0: the (container) result is stored in variable D.
type Op struct {
	Kind string  `json:"kind"`
	Name string  `json:"name,omitempty"`
	T    int     `json:"t"`
	D    int     `json:"d"`
	A    []Val   `json:"a,omitempty"`
	Cb   *CbSpec `json:"cb,omitempty"`
}

// CbSpec describes the callback of list.map / filter / each.
type CbSpec struct {
	Params  int    `json:"params"`            // 1 or 2 (2 only for map: (index, value))
	Ret     string `json:"ret"`               // map: "v" "i" "pair"; filter: "eq" "ne" "true" "false"; each: ""
	X       *Val   `json:"x,omitempty"`       // filter operand
	RaiseAt int    `json:"raise_at"`          // -1: never; else the callback raises at this call number
	Builtin bool   `json:"builtin,omitempty"` // object-API flavour: a Go builtin as the map callback
}

// History is one scenario: the primary container's initial value and the steps.
type History struct {
	Init Val  `json:"init"`
	Ops  []Op `json:"ops"`
}

// sigName is the "<op>" part of a violation signature.
func (o *Op) sigName() string {
	switch o.Kind {
	case "method", "fn", "cb":
		return o.Name
	case "aug":
		return "augassign"
	case "getattr", "setattr":
		return o.Kind
	}
	return o.Kind
}

// kindKey identifies the operation kind for the distinct-history rule.
func (o *Op) kindKey() string {
	if o.Name != "" {
		return o.Kind + ":" + o.Name
	}
	return o.Kind
}

// ---------------------------------------------------------------------------------------
// containers of the reference model: plain Go data

type cont struct {
	K      string         // list map set string bytes
	L      []Val          // list
	M      map[string]Val // map: key -> value; set: hkey -> member
	S      string
	Y      []byte
	origin string // which operation produced this container (for aliasing signatures)
}

func contOf(v Val, origin string) *cont {
	c := &cont{K: v.K, origin: origin}
	switch v.K {
	case "list":
		c.L = append([]Val{}, v.L...)
	case "map":
		c.M = map[string]Val{}
		for i, k := range v.MK {
			c.M[k] = v.L[i]
		}
	case "set":
		c.M = map[string]Val{}
		for _, e := range v.L {
			c.M[e.hkey()] = e
		}
	case "string":
		c.S = v.S
	case "bytes":
		c.Y = append([]byte{}, v.Y...)
	default:
		return nil
	}
	return c
}

func isContKind(k string) bool {
	switch k {
	case "list", "map", "set", "string", "bytes":
		return true
	}
	return false
}

func (c *cont) typ() string {
	if c.K == "bytes" {
		return "byte_slice"
	}
	return c.K
}

func (c *cont) snap() Val {
	switch c.K {
	case "list":
		return Val{K: "list", L: append([]Val{}, c.L...)}
	case "map":
		keys := make([]string, 0, len(c.M))
		for k := range c.M {
			keys = append(keys, k)
		}
		sort.Strings(keys)
		v := Val{K: "map"}
		for _, k := range keys {
			v.MK = append(v.MK, k)
			v.L = append(v.L, c.M[k])
		}
		return v
	case "set":
		ms := make([]Val, 0, len(c.M))
		for _, e := range c.M {
			ms = append(ms, e)
		}
		return Val{K: "set", L: sortedSetMembers(ms)}
	case "string":
		return vStr(c.S)
	case "bytes":
		return vBytes(c.Y)
	}
	return vNil()
}

func (c *cont) size() int {
	switch c.K {
	case "list":
		return len(c.L)
	case "map", "set":
		return len(c.M)
	case "string":
		return utf8.RuneCountInString(c.S)
	case "bytes":
		return len(c.Y)
	}
	return 0
}

// ---------------------------------------------------------------------------------------

const maxVars = 4

type model struct {
	vars [maxVars]*cont
}

// outcome is what the model demands of one step.
type outcome struct {
	err      bool   // the step must fail
	errClass string // why (part of the signature when the real code does not fail)
	mayPanic bool   // a Go panic (script: fatal abort) is the known behaviour here, counted, not flagged
	either   bool   // statement leaves it open: an error, or ok with res (slice starting at len)
	orErr    bool   // statement leaves it open: the pinned result (a no-op / sentinel for an absent member), or an error
	perm     bool   // target list may end up permuted (failed or unpredictable sort): re-synchronise
	permOK   bool   // ... and the step itself may succeed or fail
	res      *Val   // expected result when ok (nil: not compared)
	bind     *cont  // container result (alias or fresh); stored in D when D >= 0
	changed  bool   // model state changed
	readOnly bool   // operation is a read: no container may change
	skip     bool   // not applicable in this mode
	// alt: wrong results with a recognisable cause (typed rendering -> signature suffix), so that a
	// listed finding does not hide a different failure of the same operation
	alt map[string]string
}

func fail(class string) outcome { return outcome{err: true, errClass: class} }
func okVal(v Val) outcome       { return outcome{res: &v, readOnly: true} }
func okFresh(c *cont) outcome {
	v := c.snap()
	return outcome{res: &v, bind: c, readOnly: true}
}

// resolveIndex: position of an index argument in a sequence of n elements, or the error class.
func resolveIndex(a Val, n int) (int, string) {
	if a.K != "int" {
		return 0, "wrong-type-index"
	}
	i := a.I
	if i >= int64(n) || i < -int64(n) {
		return 0, "out-of-range-index"
	}
	if i < 0 {
		i += int64(n)
	}
	return int(i), ""
}

// resolveSlice: [start, stop) of a slice expression over n elements. atLen: the slice starts exactly
// at len (the statement does not say whether that is empty or an error).
func resolveSlice(a, b Val, n int) (start, stop int, class string, atLen bool) {
	s, e := int64(0), int64(n)
	if a.K != "omit" {
		if a.K != "int" {
			return 0, 0, "wrong-type-slice-bound", false
		}
		s = a.I
	}
	if b.K != "omit" {
		if b.K != "int" {
			return 0, 0, "wrong-type-slice-bound", false
		}
		e = b.I
	}
	if s < 0 {
		s += int64(n)
		if s < 0 {
			return 0, 0, "out-of-range-slice", false
		}
	}
	if e < 0 {
		e += int64(n)
		if e < 0 {
			return 0, 0, "out-of-range-slice", false
		}
	}
	if s > e {
		return 0, 0, "slice-start-after-stop", false
	}
	if e > int64(n) {
		return 0, 0, "out-of-range-slice", false
	}
	if s == int64(n) {
		return int(s), int(e), "", true
	}
	return int(s), int(e), "", false
}

// argCont resolves a container argument (variable or literal) to model data without binding it.
func (m *model) argCont(a Val) *cont {
	if a.K == "var" {
		if a.I < 0 || a.I >= maxVars {
			return nil
		}
		return m.vars[a.I]
	}
	return contOf(a, "literal")
}

func ints(n int) []Val {
	l := make([]Val, n)
	for i := range l {
		l[i] = vInt(int64(i))
	}
	return l
}

// sortClass predicts list sorting: "ok" (all pairs ordered: a stable sort by risor's order),
// "err" (a map or set member, which has no order at all, or scalars of at least two incomparable
// classes: a type error is certain for the list sizes used, because every member takes part in at
// least one comparison and the first member of a new class meets one of the old class), "open"
// (anything else, e.g. nested lists with incomparable members).
func sortClass(l []Val) string {
	if len(l) < 2 {
		return "ok"
	}
	allPairs, nested := true, false
	for i := range l {
		if !comparableVal(l[i]) {
			return "err"
		}
		if l[i].K == "list" {
			nested = true
		}
	}
	for i := range l {
		for j := range l {
			if _, ok := compare(l[i], l[j]); !ok {
				allPairs = false
			}
		}
	}
	if allPairs {
		return "ok"
	}
	if !nested {
		return "err"
	}
	return "open"
}

// typeNameOf: what type(x) gives for a member ("" when the model does not know).
func typeNameOf(v Val) string {
	switch v.K {
	case "int", "float", "string", "bool", "nil", "byte", "list", "set", "map":
		return v.K
	case "bytes":
		return "byte_slice"
	}
	return ""
}

func stableSorted(l []Val) []Val {
	r := append([]Val{}, l...)
	sort.SliceStable(r, func(a, b int) bool {
		c, _ := compare(r[a], r[b])
		return c == -1
	})
	return r
}

func pairs(keys []Val, vals []Val) Val {
	l := make([]Val, len(keys))
	for i := range keys {
		l[i] = vList(keys[i], vals[i])
	}
	return Val{K: "list", L: l}
}

// apply runs one step on the model. elems (may be nil) are the observed element renderings of the
// target list after the step, used only to re-synchronise after a sort whose outcome is open.
func (m *model) apply(op *Op, ok bool, elems []string) outcome {
	if op.T < 0 || op.T >= maxVars || m.vars[op.T] == nil {
		return outcome{skip: true}
	}
	c := m.vars[op.T]
	var out outcome
	switch op.Kind {
	case "alias":
		out = outcome{bind: c, readOnly: true}
		v := c.snap()
		out.res = &v
	case "new":
		if len(op.A) != 1 {
			return outcome{skip: true}
		}
		n := contOf(op.A[0], "new")
		if n == nil {
			return outcome{skip: true}
		}
		out = okFresh(n)
	case "len":
		out = okVal(vInt(int64(c.size())))
	case "eq":
		o := m.argCont(op.A[0])
		var other Val
		if o != nil {
			other = o.snap()
		} else {
			other = op.A[0]
		}
		out = okVal(vBool(equal(c.snap(), other)))
	default:
		switch c.K {
		case "list":
			out = m.applyList(c, op, ok, elems)
		case "map":
			out = m.applyMap(c, op)
		case "set":
			out = m.applySet(c, op)
		case "string":
			out = m.applyString(c, op)
		case "bytes":
			out = m.applyBytes(c, op)
		}
	}
	if out.skip {
		return out
	}
	if out.bind != nil && op.D >= 0 && op.D < maxVars && !out.err && (!(out.either || out.orErr) || ok) {
		if m.vars[op.D] != out.bind {
			out.changed = true
		}
		m.vars[op.D] = out.bind
	}
	if op.Kind == "augname" && out.bind != nil && !out.err {
		m.vars[op.T] = out.bind
		out.changed = true
	}
	return out
}

func fresh(k string, origin string) *cont {
	c := &cont{K: k, origin: origin}
	if k == "map" || k == "set" {
		c.M = map[string]Val{}
	}
	return c
}

func freshList(l []Val, origin string) *cont {
	return &cont{K: "list", L: append([]Val{}, l...), origin: origin}
}

func setOf(l []Val, origin string) (*cont, bool) {
	s := fresh("set", origin)
	for _, e := range l {
		if !e.hashable() {
			return nil, false
		}
		s.M[e.hkey()] = e
	}
	return s, true
}

func self(c *cont, changed bool) outcome {
	v := c.snap()
	return outcome{res: &v, bind: c, changed: changed}
}

// ------------------------------- list

func (m *model) applyList(c *cont, op *Op, ok bool, elems []string) outcome {
	n := len(c.L)
	arg := func(i int) Val {
		if i < len(op.A) {
			return op.A[i]
		}
		return vNil()
	}
	switch op.Kind {
	case "getitem":
		p, class := resolveIndex(arg(0), n)
		if class != "" {
			return fail(class)
		}
		return okVal(c.L[p])
	case "slice":
		s, e, class, atLen := resolveSlice(arg(0), arg(1), n)
		if class != "" {
			return fail(class)
		}
		o := okFresh(freshList(c.L[s:e], "slice"))
		o.either = atLen
		return o
	case "setitem":
		p, class := resolveIndex(arg(0), n)
		if class != "" {
			return fail(class)
		}
		c.L[p] = arg(1)
		return outcome{changed: true}
	case "aug":
		p, class := resolveIndex(arg(0), n)
		if class != "" {
			return fail(class)
		}
		v, good := arith(op.Name, c.L[p], arg(1))
		if !good {
			return fail("wrong-type-operand")
		}
		c.L[p] = v
		return outcome{changed: true}
	case "del":
		p, class := resolveIndex(arg(0), n)
		if class != "" {
			return fail(class)
		}
		c.L = append(c.L[:p:p], c.L[p+1:]...)
		return outcome{changed: true}
	case "in", "notin":
		found := false
		for _, e := range c.L {
			if equal(e, arg(0)) {
				found = true
			}
		}
		return okVal(vBool(found != (op.Kind == "notin")))
	case "add", "augname":
		o := m.argCont(arg(0))
		if o == nil || o.K != "list" {
			return fail("wrong-type-operand")
		}
		return okFresh(freshList(append(append([]Val{}, c.L...), o.L...), "add"))
	case "iter":
		return okVal(pairs(ints(n), c.L))
	case "iter1":
		return okVal(Val{K: "list", L: ints(n)})
	case "iterin":
		return okVal(Val{K: "list", L: append([]Val{}, c.L...)})
	case "fn":
		switch op.Name {
		case "keys":
			return okFresh(freshList(ints(n), "keys"))
		case "sorted":
			switch sortClass(c.L) {
			case "ok":
				return okFresh(freshList(stableSorted(c.L), "sorted"))
			case "err":
				o := fail("incomparable-members")
				o.readOnly = true
				return o
			case "panic":
				o := fail("incomparable-members")
				o.mayPanic, o.readOnly = true, true
				return o
			}
			return outcome{skip: true}
		case "sorted_keep", "sorted_by_type":
			// sorted(T, less): a new list, stable; "keep": less is never true, so the order stays;
			// "by_type": less compares the members' type names
			r := append([]Val{}, c.L...)
			if op.Name == "sorted_by_type" {
				for _, e := range r {
					if typeNameOf(e) == "" {
						return outcome{skip: true}
					}
				}
				sort.SliceStable(r, func(a, b int) bool { return typeNameOf(r[a]) < typeNameOf(r[b]) })
			}
			return okFresh(freshList(r, "sorted"))
		case "reversed":
			r := make([]Val, n)
			for i, e := range c.L {
				r[n-1-i] = e
			}
			return okFresh(freshList(r, "reversed"))
		case "list":
			return okFresh(freshList(c.L, "list()"))
		case "set":
			s, good := setOf(c.L, "set()")
			if !good {
				o := fail("unhashable-member")
				o.readOnly = true
				return o
			}
			return okFresh(s)
		case "string":
			return okVal(vStr(c.snap().render()))
		case "any", "all":
			any, all := false, true
			for _, e := range c.L {
				if truthy(e) {
					any = true
				} else {
					all = false
				}
			}
			if op.Name == "any" {
				return okVal(vBool(any))
			}
			return okVal(vBool(all))
		}
		return outcome{skip: true}
	case "cb":
		return m.applyCallback(c, op)
	case "method":
		switch op.Name {
		case "append":
			c.L = append(c.L, arg(0))
			return self(c, true)
		case "clear":
			ch := len(c.L) > 0
			c.L = nil
			return self(c, ch)
		case "copy":
			return okFresh(freshList(c.L, "copy"))
		case "count":
			k := 0
			for _, e := range c.L {
				if equal(arg(0), e) {
					k++
				}
			}
			return okVal(vInt(int64(k)))
		case "extend":
			o := m.argCont(arg(0))
			if o == nil || o.K != "list" {
				return fail("wrong-type-operand")
			}
			add := append([]Val{}, o.L...)
			c.L = append(c.L, add...)
			return self(c, len(add) > 0)
		case "index":
			for i, e := range c.L {
				if equal(arg(0), e) {
					return okVal(vInt(int64(i)))
				}
			}
			o := okVal(vInt(-1))
			o.orErr = true
			return o
		case "insert":
			if arg(0).K != "int" {
				return fail("wrong-type-index")
			}
			i := arg(0).I
			if i < 0 {
				i += int64(n)
				if i < 0 {
					i = 0
				}
			}
			if i > int64(n) {
				i = int64(n)
			}
			l := append([]Val{}, c.L[:i]...)
			l = append(l, arg(1))
			c.L = append(l, c.L[i:]...)
			return self(c, true)
		case "pop":
			p, class := resolveIndex(arg(0), n)
			if class != "" {
				return fail(class)
			}
			v := c.L[p]
			c.L = append(c.L[:p:p], c.L[p+1:]...)
			return outcome{res: &v, changed: true}
		case "remove":
			for i, e := range c.L {
				if equal(arg(0), e) {
					c.L = append(c.L[:i:i], c.L[i+1:]...)
					return self(c, true)
				}
			}
			o := self(c, false)
			o.orErr = true
			return o
		case "reverse":
			for i, j := 0, len(c.L)-1; i < j; i, j = i+1, j-1 {
				c.L[i], c.L[j] = c.L[j], c.L[i]
			}
			return self(c, n > 1)
		case "sort":
			cls := sortClass(c.L)
			if cls == "ok" {
				before := c.snap().render()
				c.L = stableSorted(c.L)
				return self(c, before != c.snap().render())
			}
			// the list may have been permuted before the comparison failed: accept any permutation
			// and continue from the observed order
			o := outcome{perm: true, errClass: "incomparable-members"}
			switch cls {
			case "err":
				o.err = true
			case "panic":
				o.err, o.mayPanic = true, true
			default:
				o.permOK = true
				o.err = !ok
			}
			if elems != nil {
				if l, good := reorder(c.L, elems); good {
					c.L = l
				}
			}
			return o
		}
		return fail("no-such-method")
	}
	return outcome{skip: true}
}

// reorder arranges l in the order given by typed element renderings; false if they are not a
// permutation of each other.
func reorder(l []Val, elems []string) ([]Val, bool) {
	if len(l) != len(elems) {
		return nil, false
	}
	used := make([]bool, len(l))
	res := make([]Val, 0, len(l))
	for _, e := range elems {
		found := false
		for i, v := range l {
			if !used[i] && v.tr() == e {
				used[i], found = true, true
				res = append(res, v)
				break
			}
		}
		if !found {
			return nil, false
		}
	}
	return res, true
}

// applyCallback: list.map / filter / each with a callback that records what it receives in an
// outer list. Result compared: [result, seen].
func (m *model) applyCallback(c *cont, op *Op) outcome {
	cb := op.Cb
	if cb == nil {
		return outcome{skip: true}
	}
	var seen, res []Val
	for i, e := range c.L {
		if cb.RaiseAt == i {
			o := fail("callback-raised")
			o.readOnly = true
			return o
		}
		if cb.Params == 2 {
			seen = append(seen, vList(vInt(int64(i)), e))
		} else {
			seen = append(seen, e)
		}
		switch op.Name {
		case "map":
			switch cb.Ret {
			case "i":
				res = append(res, vInt(int64(i)))
			case "pair":
				res = append(res, vList(vInt(int64(i)), e))
			default:
				res = append(res, e)
			}
		case "filter":
			keep := false
			switch cb.Ret {
			case "eq":
				keep = equal(e, *cb.X)
			case "ne":
				keep = !equal(e, *cb.X)
			case "true":
				keep = true
			}
			if keep {
				res = append(res, e)
			}
		}
	}
	var r Val
	if op.Name == "each" {
		r = vNil()
	} else {
		r = Val{K: "list", L: res}
	}
	return okVal(vList(r, Val{K: "list", L: seen}))
}

// ------------------------------- map

func sortedKeys(mm map[string]Val) []string {
	keys := make([]string, 0, len(mm))
	for k := range mm {
		keys = append(keys, k)
	}
	sort.Strings(keys)
	return keys
}

func strVals(ss []string) []Val {
	l := make([]Val, len(ss))
	for i, s := range ss {
		l[i] = vStr(s)
	}
	return l
}

func (m *model) applyMap(c *cont, op *Op) outcome {
	arg := func(i int) Val {
		if i < len(op.A) {
			return op.A[i]
		}
		return vNil()
	}
	keys := sortedKeys(c.M)
	vals := make([]Val, len(keys))
	for i, k := range keys {
		vals[i] = c.M[k]
	}
	switch op.Kind {
	case "getitem":
		if arg(0).K != "string" {
			return fail("wrong-type-key")
		}
		v, found := c.M[arg(0).S]
		if !found {
			return fail("missing-key")
		}
		return okVal(v)
	case "slice":
		return fail("unsupported-slice")
	case "setitem":
		if arg(0).K != "string" {
			return fail("wrong-type-key")
		}
		c.M[arg(0).S] = arg(1)
		return outcome{changed: true}
	case "aug":
		if arg(0).K != "string" {
			return fail("wrong-type-key")
		}
		old, found := c.M[arg(0).S]
		if !found {
			return fail("missing-key")
		}
		v, good := arith(op.Name, old, arg(1))
		if !good {
			return fail("wrong-type-operand")
		}
		c.M[arg(0).S] = v
		return outcome{changed: true}
	case "del":
		if arg(0).K != "string" {
			return fail("wrong-type-key")
		}
		_, found := c.M[arg(0).S]
		delete(c.M, arg(0).S)
		return outcome{changed: found, orErr: !found}
	case "in", "notin":
		found := false
		if arg(0).K == "string" {
			_, found = c.M[arg(0).S]
		}
		return okVal(vBool(found != (op.Kind == "notin")))
	case "add", "augname":
		return fail("unsupported-operator")
	case "iter":
		return okVal(pairs(strVals(keys), vals))
	case "iter1":
		return okVal(Val{K: "list", L: strVals(keys)})
	case "getattr":
		v, found := c.M[op.Name]
		if !found {
			return fail("missing-key")
		}
		return okVal(v)
	case "setattr":
		c.M[op.Name] = arg(0)
		return outcome{changed: true}
	case "fn":
		switch op.Name {
		case "keys", "sorted", "list":
			return okFresh(freshList(strVals(keys), op.Name+"()"))
		case "set":
			s, _ := setOf(strVals(keys), "set()")
			return okFresh(s)
		case "map":
			n := fresh("map", "map()")
			for k, v := range c.M {
				n.M[k] = v
			}
			return okFresh(n)
		case "string":
			return okVal(vStr(c.snap().render()))
		case "reversed":
			o := fail("unsupported-argument")
			o.readOnly = true
			return o
		case "any", "all":
			any, all := false, true
			for _, k := range keys {
				if k != "" {
					any = true
				} else {
					all = false
				}
			}
			if op.Name == "any" {
				return okVal(vBool(any))
			}
			return okVal(vBool(all))
		}
		return outcome{skip: true}
	case "method":
		switch op.Name {
		case "keys":
			return okFresh(freshList(strVals(keys), "keys"))
		case "values":
			return okFresh(freshList(vals, "values"))
		case "items":
			return okFresh(freshList(pairs(strVals(keys), vals).L, "items"))
		case "get":
			if arg(0).K != "string" {
				o := fail("wrong-type-key")
				o.readOnly = true
				return o
			}
			if v, found := c.M[arg(0).S]; found {
				return okVal(v)
			}
			if len(op.A) == 2 {
				return okVal(arg(1))
			}
			return okVal(vNil())
		case "clear":
			ch := len(c.M) > 0
			c.M = map[string]Val{}
			return self(c, ch)
		case "copy":
			n := fresh("map", "copy")
			for k, v := range c.M {
				n.M[k] = v
			}
			return okFresh(n)
		case "pop":
			if arg(0).K != "string" {
				return fail("wrong-type-key")
			}
			if v, found := c.M[arg(0).S]; found {
				delete(c.M, arg(0).S)
				return outcome{res: &v, changed: true}
			}
			if len(op.A) == 2 {
				v := arg(1)
				return outcome{res: &v}
			}
			v := vNil()
			return outcome{res: &v, orErr: true}
		case "setdefault":
			if arg(0).K != "string" {
				return fail("wrong-type-key")
			}
			if v, found := c.M[arg(0).S]; found {
				return outcome{res: &v}
			}
			c.M[arg(0).S] = arg(1)
			v := arg(1)
			return outcome{res: &v, changed: true}
		case "update":
			o := m.argCont(arg(0))
			if o == nil || o.K != "map" {
				return fail("wrong-type-operand")
			}
			ch := false
			for k, v := range o.M {
				if old, found := c.M[k]; !found || old.tr() != v.tr() {
					ch = true
				}
				c.M[k] = v
			}
			return self(c, ch)
		}
		return fail("no-such-method")
	}
	return outcome{skip: true}
}

// ------------------------------- set

func (m *model) applySet(c *cont, op *Op) outcome {
	arg := func(i int) Val {
		if i < len(op.A) {
			return op.A[i]
		}
		return vNil()
	}
	members := c.snap().L // sorted
	switch op.Kind {
	case "slice":
		return fail("unsupported-slice")
	case "setitem":
		return fail("unsupported-setitem")
	case "del":
		if !arg(0).hashable() {
			return fail("unhashable-member")
		}
		_, found := c.M[arg(0).hkey()]
		delete(c.M, arg(0).hkey())
		return outcome{changed: found, orErr: !found}
	case "in", "notin":
		found := false
		if arg(0).hashable() {
			_, found = c.M[arg(0).hkey()]
		}
		return okVal(vBool(found != (op.Kind == "notin")))
	case "add", "augname":
		return fail("unsupported-operator")
	case "iter":
		tv := make([]Val, len(members))
		for i := range tv {
			tv[i] = vBool(true)
		}
		return okVal(pairs(members, tv))
	case "iter1":
		return okVal(Val{K: "list", L: members})
	case "fn":
		switch op.Name {
		case "keys", "list":
			return okFresh(freshList(members, op.Name+"()"))
		case "sorted":
			switch sortClass(members) {
			case "ok":
				return okFresh(freshList(stableSorted(members), "sorted"))
			case "err":
				o := fail("incomparable-members")
				o.readOnly = true
				return o
			}
			return outcome{skip: true}
		case "set":
			s, _ := setOf(members, "set()")
			return okFresh(s)
		case "string":
			return okVal(vStr(c.snap().render()))
		case "reversed":
			o := fail("unsupported-argument")
			o.readOnly = true
			return o
		case "any", "all":
			any, all := false, true
			for _, e := range members {
				if truthy(e) {
					any = true
				} else {
					all = false
				}
			}
			if op.Name == "any" {
				return okVal(vBool(any))
			}
			return okVal(vBool(all))
		}
		return outcome{skip: true}
	case "method":
		switch op.Name {
		case "add":
			if !arg(0).hashable() {
				return fail("unhashable-member")
			}
			_, found := c.M[arg(0).hkey()]
			c.M[arg(0).hkey()] = arg(0)
			return self(c, !found)
		case "remove":
			if !arg(0).hashable() {
				return fail("unhashable-member")
			}
			_, found := c.M[arg(0).hkey()]
			delete(c.M, arg(0).hkey())
			o := self(c, found)
			o.orErr = !found
			return o
		case "clear":
			ch := len(c.M) > 0
			c.M = map[string]Val{}
			return self(c, ch)
		case "union", "intersection", "difference":
			o := m.argCont(arg(0))
			if o == nil || o.K != "set" {
				return fail("wrong-type-operand")
			}
			n := fresh("set", op.Name)
			for k, v := range c.M {
				_, inO := o.M[k]
				switch op.Name {
				case "union":
					n.M[k] = v
				case "intersection":
					if inO {
						n.M[k] = v
					}
				case "difference":
					if !inO {
						n.M[k] = v
					}
				}
			}
			if op.Name == "union" {
				for k, v := range o.M {
					n.M[k] = v
				}
			}
			return okFresh(n)
		}
		return fail("no-such-method")
	}
	return outcome{skip: true}
}

// ------------------------------- string (a sequence of code points; immutable)

func runeStrs(s string) []Val {
	rs := []rune(s)
	l := make([]Val, len(rs))
	for i, r := range rs {
		l[i] = vStr(string(r))
	}
	return l
}

func freshStr(s string, origin string) *cont { return &cont{K: "string", S: s, origin: origin} }

func (m *model) applyString(c *cont, op *Op) outcome {
	arg := func(i int) Val {
		if i < len(op.A) {
			return op.A[i]
		}
		return vNil()
	}
	rs := []rune(c.S)
	n := len(rs)
	switch op.Kind {
	case "getitem":
		p, class := resolveIndex(arg(0), n)
		if class != "" {
			return fail(class)
		}
		return okVal(vStr(string(rs[p])))
	case "slice":
		s, e, class, atLen := resolveSlice(arg(0), arg(1), n)
		if class != "" {
			return fail(class)
		}
		o := okFresh(freshStr(string(rs[s:e]), "slice"))
		o.either = atLen
		return o
	case "setitem", "aug":
		return fail("immutable-setitem")
	case "del":
		return fail("immutable-delete")
	case "in", "notin":
		found := arg(0).K == "string" && strings.Contains(c.S, arg(0).S)
		return okVal(vBool(found != (op.Kind == "notin")))
	case "add", "augname":
		o := m.argCont(arg(0))
		if o == nil || o.K != "string" {
			return fail("wrong-type-operand")
		}
		return okFresh(freshStr(c.S+o.S, "add"))
	case "iter":
		return okVal(pairs(ints(n), runeStrs(c.S)))
	case "iter1":
		return okVal(Val{K: "list", L: ints(n)})
	case "iterin":
		return okVal(Val{K: "list", L: runeStrs(c.S)})
	case "fn":
		switch op.Name {
		case "keys":
			return okFresh(freshList(ints(n), "keys()"))
		case "sorted":
			return okFresh(freshList(stableSorted(runeStrs(c.S)), "sorted"))
		case "reversed":
			r := make([]rune, n)
			for i, x := range rs {
				r[n-1-i] = x
			}
			return okFresh(freshStr(string(r), "reversed"))
		case "list":
			return okFresh(freshList(runeStrs(c.S), "list()"))
		case "set":
			s, _ := setOf(runeStrs(c.S), "set()")
			return okFresh(s)
		case "string":
			return okFresh(freshStr(c.S, "string()"))
		case "byte_slice":
			return okFresh(&cont{K: "bytes", Y: []byte(c.S), origin: "byte_slice()"})
		case "any":
			return okVal(vBool(n > 0))
		case "all":
			return okVal(vBool(true))
		}
		return outcome{skip: true}
	case "method":
		needStr := func(i int) (string, bool) { return arg(i).S, arg(i).K == "string" }
		bad := func() outcome {
			o := fail("wrong-type-operand")
			o.readOnly = true
			return o
		}
		switch op.Name {
		case "contains":
			x, good := needStr(0)
			return okVal(vBool(good && strings.Contains(c.S, x)))
		case "has_prefix", "has_suffix", "count", "index", "last_index", "split", "trim", "trim_prefix", "trim_suffix":
			x, good := needStr(0)
			if !good {
				return bad()
			}
			switch op.Name {
			case "has_prefix":
				return okVal(vBool(strings.HasPrefix(c.S, x)))
			case "has_suffix":
				return okVal(vBool(strings.HasSuffix(c.S, x)))
			case "count":
				return okVal(vInt(int64(strings.Count(c.S, x))))
			case "index":
				// byte offsets, exactly as Go's strings.Index: C19 pins the wrapped stdlib result
				return okVal(vInt(int64(strings.Index(c.S, x))))
			case "last_index":
				return okVal(vInt(int64(strings.LastIndex(c.S, x))))
			case "split":
				return okFresh(freshList(strVals(strings.Split(c.S, x)), "split"))
			case "trim":
				return okFresh(freshStr(strings.Trim(c.S, x), "trim"))
			case "trim_prefix":
				return okFresh(freshStr(strings.TrimPrefix(c.S, x), "trim_prefix"))
			case "trim_suffix":
				return okFresh(freshStr(strings.TrimSuffix(c.S, x), "trim_suffix"))
			}
		case "join":
			if arg(0).K != "list" {
				return bad()
			}
			var parts []string
			for _, e := range arg(0).L {
				if e.K != "string" {
					return bad()
				}
				parts = append(parts, e.S)
			}
			return okFresh(freshStr(strings.Join(parts, c.S), "join"))
		case "fields":
			return okFresh(freshList(strVals(strings.Fields(c.S)), "fields"))
		case "replace_all":
			x, g1 := needStr(0)
			y, g2 := needStr(1)
			if !g1 || !g2 {
				return bad()
			}
			return okFresh(freshStr(strings.ReplaceAll(c.S, x, y), "replace_all"))
		case "to_lower":
			return okFresh(freshStr(strings.ToLower(c.S), "to_lower"))
		case "to_upper":
			return okFresh(freshStr(strings.ToUpper(c.S), "to_upper"))
		case "trim_space":
			return okFresh(freshStr(strings.TrimSpace(c.S), "trim_space"))
		}
		return fail("no-such-method")
	}
	return outcome{skip: true}
}

// ------------------------------- byte_slice (a mutable sequence of bytes)

func freshBytes(b []byte, origin string) *cont {
	return &cont{K: "bytes", Y: append([]byte{}, b...), origin: origin}
}

// asBytes: what risor accepts where bytes are expected (a string or a byte_slice).
func (m *model) asBytes(a Val) ([]byte, bool) {
	switch a.K {
	case "string":
		return []byte(a.S), true
	case "bytes":
		return a.Y, true
	case "var":
		if o := m.argCont(a); o != nil {
			switch o.K {
			case "bytes":
				return o.Y, true
			case "string":
				return []byte(o.S), true
			}
		}
	}
	return nil, false
}

func byteVals(b []byte) []Val {
	l := make([]Val, len(b))
	for i, x := range b {
		l[i] = vByte(x)
	}
	return l
}

func (m *model) applyBytes(c *cont, op *Op) outcome {
	arg := func(i int) Val {
		if i < len(op.A) {
			return op.A[i]
		}
		return vNil()
	}
	n := len(c.Y)
	switch op.Kind {
	case "getitem":
		p, class := resolveIndex(arg(0), n)
		if class != "" {
			return fail(class)
		}
		return okVal(vByte(c.Y[p]))
	case "slice":
		s, e, class, atLen := resolveSlice(arg(0), arg(1), n)
		if class != "" {
			return fail(class)
		}
		o := okFresh(freshBytes(c.Y[s:e], "slice"))
		o.either = atLen
		return o
	case "setitem":
		p, class := resolveIndex(arg(0), n)
		if class != "" {
			return fail(class)
		}
		data, good := m.asBytes(arg(1))
		if !good || len(data) != 1 {
			return fail("wrong-type-value")
		}
		c.Y[p] = data[0]
		return outcome{changed: true}
	case "del":
		return fail("unsupported-delete")
	case "in", "notin":
		data, good := m.asBytes(arg(0))
		found := good && bytes.Contains(c.Y, data)
		return okVal(vBool(found != (op.Kind == "notin")))
	case "add", "augname":
		data, good := m.asBytes(arg(0))
		if !good {
			return fail("wrong-type-operand")
		}
		return okFresh(freshBytes(append(append([]byte{}, c.Y...), data...), "add"))
	case "iter":
		return okVal(pairs(ints(n), byteVals(c.Y)))
	case "iter1":
		return okVal(Val{K: "list", L: ints(n)})
	case "iterin":
		return okVal(Val{K: "list", L: byteVals(c.Y)})
	case "fn":
		switch op.Name {
		case "keys":
			return okFresh(freshList(ints(n), "keys()"))
		case "sorted":
			l := make([]Val, n)
			for i, x := range c.Y {
				l[i] = vInt(int64(x))
			}
			return okFresh(freshList(stableSorted(l), "sorted"))
		case "reversed":
			r := make([]byte, n)
			for i, x := range c.Y {
				r[n-1-i] = x
			}
			return okFresh(freshBytes(r, "reversed"))
		case "list":
			return okFresh(freshList(byteVals(c.Y), "list()"))
		case "set":
			s, _ := setOf(byteVals(c.Y), "set()")
			return okFresh(s)
		case "byte_slice":
			return okFresh(freshBytes(c.Y, "byte_slice()"))
		case "string":
			// never kept in a variable: the bytes need not be valid UTF-8, string variables are
			return okVal(vStr(string(c.Y)))
		case "any", "all":
			any, all := false, true
			for _, x := range c.Y {
				if x != 0 {
					any = true
				} else {
					all = false
				}
			}
			if op.Name == "any" {
				return okVal(vBool(any))
			}
			return okVal(vBool(all))
		}
		return outcome{skip: true}
	case "method":
		bad := func() outcome {
			o := fail("wrong-type-operand")
			o.readOnly = true
			return o
		}
		switch op.Name {
		case "clone":
			return okFresh(freshBytes(c.Y, "clone"))
		case "equals":
			o := m.argCont(arg(0))
			var other Val
			if o != nil {
				other = o.snap()
			} else {
				other = arg(0)
			}
			return okVal(vBool(equal(c.snap(), other)))
		case "contains":
			data, good := m.asBytes(arg(0))
			return okVal(vBool(good && bytes.Contains(c.Y, data)))
		case "count", "has_prefix", "has_suffix", "index":
			data, good := m.asBytes(arg(0))
			if !good {
				return bad()
			}
			switch op.Name {
			case "count":
				return okVal(vInt(int64(bytes.Count(c.Y, data))))
			case "has_prefix":
				return okVal(vBool(bytes.HasPrefix(c.Y, data)))
			case "has_suffix":
				return okVal(vBool(bytes.HasSuffix(c.Y, data)))
			case "index":
				return okVal(vInt(int64(bytes.Index(c.Y, data))))
			}
		case "repeat":
			if arg(0).K != "int" {
				return bad()
			}
			if arg(0).I < 0 || arg(0).I > 8 {
				return outcome{skip: true}
			}
			return okFresh(freshBytes(bytes.Repeat(c.Y, int(arg(0).I)), "repeat"))
		case "replace_all":
			x, g1 := m.asBytes(arg(0))
			y, g2 := m.asBytes(arg(1))
			if !g1 || !g2 {
				return bad()
			}
			return okFresh(freshBytes(bytes.ReplaceAll(c.Y, x, y), "replace_all"))
		}
		return fail("no-such-method")
	}
	return outcome{skip: true}
}
