package props

import "verif/internal/props/c18"

func init() { registrars = append(registrars, c18.Register) }
