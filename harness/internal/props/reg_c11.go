package props

import "verif/internal/props/c11"

func init() { registrars = append(registrars, c11.Register) }
