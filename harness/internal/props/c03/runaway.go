package c03

import (
	"context"
	"fmt"
	"strings"
	"time"

	"github.com/risor-io/risor"
	"github.com/risor-io/risor/ast"
	"github.com/risor-io/risor/compiler"
	"github.com/risor-io/risor/object"
	"github.com/risor-io/risor/parser"
	"github.com/risor-io/risor/vm"

	"verif/internal/mon"
)

// ---------------------------------------------------------------------------------------
// Runaway recursion / exhaustion shapes.
//
// A script is the product of five independent choices; whatever the combination, the evaluation must end
// in an error value (or a value): the frame limit, the operand-stack limit or the native call-depth limit
// stops it. Never an escaped panic, never a dead process.
//
//	route    how the function re-enters itself        (direct, call(f), try(f), try handler, list.map/each/filter,
//	                                                   sorted comparator, bound method value, function held in a map,
//	                                                   closure returned from a function, mutual recursion of 2 / 3,
//	                                                   spawn(f).wait())
//	site     where the recursive call sits            (statement, return expression, `defer <call>`, inside a deferred
//	                                                   closure, inside a try handler)
//	pending  operands on the stack at the call        (none, arithmetic, list / map literal elements, argument list,
//	                                                   template string)
//	defers   script defers pending on every frame     (none, defer noop(), closure reading a local, closure pushing
//	                                                   values, closure that fails)
//	entry    how the embedder starts it               (risor.Eval, parse+compile+EvalCode, risor.Call on compiled code,
//	                                                   vm.Call on a VM that is then reused for a normal call)

type runawaySpec struct {
	Route   int `json:"r"`
	Site    int `json:"s"`
	Pending int `json:"p"`
	Defers  int `json:"d"`
	Entry   int `json:"e"`
}

var (
	rwRoutes  = []string{"direct", "call", "try", "try-handler", "list.map", "list.each", "list.filter", "sorted-cmp", "bound-method", "map-held", "returned-closure", "mutual-2", "mutual-3", "spawn-wait"}
	rwSites   = []string{"stmt", "return", "defer", "deferred-closure", "try-handler"}
	rwPending = []string{"none", "arith", "list", "map", "args", "template"}
	rwDefers  = []string{"none", "noop", "closure-read", "closure-push", "closure-fail"}
	rwEntries = []string{"eval", "evalcode", "risor.Call", "vm.Call+reuse"}
)

func (s runawaySpec) class() string {
	return fmt.Sprintf("runaway:%s/%s/%s/%s/%s", rwRoutes[s.Route], rwSites[s.Site], rwPending[s.Pending], rwDefers[s.Defers], rwEntries[s.Entry])
}

// shape is the part of the class that decides which limit has to stop the recursion (used to group
// dead workers so that every distinct shape is confirmed on its own).
func (s runawaySpec) shape() string {
	return fmt.Sprintf("%s/%s/%s/%s", rwRoutes[s.Route], rwSites[s.Site], rwPending[s.Pending], rwDefers[s.Defers])
}

// valid: `defer <call>` takes the recursive call itself, so nothing can be pending around it.
func (s runawaySpec) valid() bool {
	return !(rwSites[s.Site] == "defer" && s.Pending != 0)
}

// rec renders the recursive call to callee x.
func rwCall(route, x string) string {
	switch route {
	case "call":
		return "call(" + x + ", n)"
	case "try":
		return "try(" + x + ")"
	case "try-handler":
		return "try(boom, " + x + ")"
	case "list.map":
		return "one.map(" + x + ")"
	case "list.each":
		return "one.each(" + x + ")"
	case "list.filter":
		return "one.filter(" + x + ")"
	case "sorted-cmp":
		return "sorted([2, 1], " + x + ")"
	case "bound-method":
		return "mv(" + x + ")"
	case "map-held":
		return "o." + x + "(n)"
	case "spawn-wait":
		return "spawn(" + x + ", n).wait()"
	}
	return x + "(n)"
}

func rwWrap(pending, rec string) string {
	switch pending {
	case "arith":
		return "1 + (2 * " + rec + ")"
	case "list":
		return "[n, [n, n, " + rec + "]]"
	case "map":
		return `{"a": n, "b": [` + rec + `]}`
	case "args":
		return "g3(n, [n], " + rec + ")"
	case "template":
		return "'a{n}b{" + rec + "}c'"
	}
	return rec
}

func rwBody(s runawaySpec, callee string) string {
	var b strings.Builder
	switch rwDefers[s.Defers] {
	case "noop":
		b.WriteString("  defer noop()\n")
	case "closure-read":
		b.WriteString("  defer func() { n }()\n")
	case "closure-push":
		b.WriteString("  defer func() { v := [n, n, [n]]; len(v) }()\n")
	case "closure-fail":
		b.WriteString("  defer func() { error(\"deferred failure\") }()\n")
	}
	rec := rwCall(rwRoutes[s.Route], callee)
	e := rwWrap(rwPending[s.Pending], rec)
	st := e // as a statement (a map literal cannot start one)
	if rwPending[s.Pending] == "map" {
		st = "v := " + e
	}
	switch rwSites[s.Site] {
	case "stmt":
		b.WriteString("  " + st + "\n  return 0\n")
	case "return":
		b.WriteString("  return " + e + "\n")
	case "defer":
		b.WriteString("  defer " + rec + "\n  return 0\n")
	case "deferred-closure":
		b.WriteString("  defer func() { " + st + " }()\n  return 0\n")
	case "try-handler":
		b.WriteString("  return try(boom, func(e) { return " + e + " })\n")
	}
	return b.String()
}

// render returns the script, the names the embedder calls (entries risor.Call / vm.Call) and the deadline.
func (s runawaySpec) render() (src string, deadlineMS int) {
	route := rwRoutes[s.Route]
	var b strings.Builder
	b.WriteString("func noop() { }\nfunc boom() { error(\"e\") }\nfunc g3(a, b, c) { return c }\nfunc ok() { return 7 }\none := [1]\n")
	switch route {
	case "bound-method":
		b.WriteString("mv := [1].map\n")
	case "map-held":
		b.WriteString("o := {\"f\": nil}\n")
	}
	params := "(n=0, m=0)"
	switch route {
	case "returned-closure":
		b.WriteString("f := nil\nfunc mk() {\n  return func" + params + " {\n" + rwBody(s, "f") + "  }\n}\nf = mk()\n")
	case "mutual-2":
		b.WriteString("func f" + params + " {\n" + rwBody(s, "g") + "}\nfunc g" + params + " {\n" + rwBody(s, "f") + "}\n")
	case "mutual-3":
		b.WriteString("func f" + params + " {\n" + rwBody(s, "g") + "}\nfunc g" + params + " {\n" + rwBody(s, "h") + "}\nfunc h" + params + " {\n" + rwBody(s, "f") + "}\n")
	default:
		b.WriteString("func f" + params + " {\n" + rwBody(s, "f") + "}\n")
	}
	if route == "map-held" {
		b.WriteString("o[\"f\"] = f\n")
	}
	switch rwEntries[s.Entry] {
	case "eval", "evalcode":
		b.WriteString("f()\n")
	case "risor.Call":
		if route == "returned-closure" {
			// risor.Call needs a function declared by name
			b.WriteString("func start() { return f() }\n")
		}
	}
	deadlineMS = 1500
	if route == "spawn-wait" {
		deadlineMS = 300 // nothing bounds a chain of waiting threads but the context
	}
	return b.String(), deadlineMS
}

func (s runawaySpec) caseData() caseData {
	src, dl := s.render()
	cd := caseData{Src: &src, Class: s.class(), InputClass: "runaway-recursion", Runaway: &s, Conc: true, DeadlineMS: dl, StackMB: 64}
	switch rwEntries[s.Entry] {
	case "eval":
		cd.Direct = true
	case "risor.Call":
		cd.Call = true
		cd.CallNames = []string{"f", "ok"}
		if rwRoutes[s.Route] == "returned-closure" {
			cd.CallNames = []string{"start", "ok"}
		}
	case "vm.Call+reuse":
		cd.VMReuse = []string{"f", "ok", "f", "ok"}
	}
	return cd
}

// planRunaway: thorough runs the whole product; quick runs a fixed core (every route x site with and
// without pending operands and with the defers that matter, through Eval) plus a seed-determined sample
// of the rest, so that every value of every dimension occurs many times.
func planRunaway(r *mon.Rand, thorough bool, sample int) []runawaySpec {
	var all, core, rest []runawaySpec
	for ro := range rwRoutes {
		for si := range rwSites {
			for pe := range rwPending {
				for de := range rwDefers {
					for en := range rwEntries {
						s := runawaySpec{ro, si, pe, de, en}
						if !s.valid() {
							continue
						}
						all = append(all, s)
						isCore := en == 0 && (pe == 0 || pe == 1) && (de == 0 || de == 2)
						if isCore {
							core = append(core, s)
						} else {
							rest = append(rest, s)
						}
					}
				}
			}
		}
	}
	if thorough {
		return all
	}
	out := core
	perm := r.Perm(len(rest))
	if sample > len(rest) {
		sample = len(rest)
	}
	for _, i := range perm[:sample] {
		out = append(out, rest[i])
	}
	return out
}

// ---------------------------------------------------------------------------------------
// entry "vm.Call+reuse": one VM; the definitions are run once, then the named functions are called one
// after the other on that same VM (a runaway one, then a normal one, twice). Every call must return.

func (r *run) vmReuse(c *caseData, src string, ctx context.Context, opts []risor.Option, dl time.Duration) {
	o := r.o
	var prog *ast.Program
	var err error
	if !r.guard("parse", func() { prog, err = parser.Parse(ctx, src) }) {
		o.Outcome = "go-panic"
		return
	}
	if err != nil {
		r.formatErr("parse", err)
		o.Outcome = errKind("parse", err, o.ErrText)
		return
	}
	var cfg *risor.Config
	var code *compiler.Code
	if !r.guard("compile", func() {
		cfg = risor.NewConfig(opts...)
		code, err = compiler.Compile(prog, cfg.CompilerOpts()...)
	}) {
		o.Outcome = "go-panic"
		return
	}
	if err != nil {
		r.formatErr("compile", err)
		o.Outcome = errKind("compile", err, o.ErrText)
		return
	}
	var machine *vm.VirtualMachine
	if !r.guard("run", func() {
		machine = vm.New(code, cfg.VMOpts()...)
		err = machine.Run(ctx)
	}) {
		o.Outcome = "go-panic"
		return
	}
	if err != nil {
		r.formatErr("run", err)
		o.Outcome = errKind("run", err, o.ErrText)
		return
	}
	o.Outcome = "vm-reuse"
	for i, name := range c.VMReuse {
		stage := "vm-call"
		if i > 0 {
			stage = "vm-call-after-failed-call"
		}
		var obj object.Object
		var fn *object.Function
		if !r.guard(stage+"-get", func() {
			obj, err = machine.Get(name)
			fn, _ = obj.(*object.Function)
		}) || err != nil || fn == nil {
			continue
		}
		var res object.Object
		cctx, cancel := context.WithTimeout(context.Background(), dl)
		okc := r.guard(stage, func() { res, err = machine.Call(cctx, fn, nil) })
		cancel()
		if !okc {
			o.Outcome = "go-panic"
			continue
		}
		if err != nil {
			r.formatErr(stage, err)
			o.Outcome += "," + name + ":" + strings.TrimPrefix(errKind("e", err, o.ErrText), "e-error:")
		} else if res != nil {
			o.Outcome += "," + name + ":value"
			r.guard(stage+"-result-inspect", func() { _ = res.Inspect() })
			r.guard(stage+"-result-interface", func() { _ = res.Interface() })
		}
	}
	r.mark("done")
}
