// Package c03: no source text or script can crash or panic the embedding process.
//
// Monitors: (1) recover() in the worker around every embedding-API call (parse, compile, Eval / EvalCode /
// Call, the message-formatting methods of returned errors, Inspect / Interface of returned values): a
// recovered Go panic is a violation; (2) the Go runtime's own fatal checks observed from outside: a worker
// process that dies (stack exhaustion, concurrent map access, a panic in a goroutine nobody recovers) is
// attributed to the case it was executing, re-run alone with Go's default stack limit, and reported with
// the repeating functions of the fatal stack.
package c03

import (
	"encoding/json"
	"fmt"
	"os"
	"path/filepath"
	"sort"
	"strings"
	"time"
	"unicode/utf8"

	"verif/internal/mon"
)

const ID = "C03"

func Register() {
	mon.Register(&mon.Prop{ID: ID, Drive: drive})
	mon.RegisterWorker(ID, worker)
}

var slowKeep = func() int {
	if os.Getenv("VERIF_C03_DEBUG") != "" {
		return 400
	}
	return 25
}()

type slowCase struct {
	MS    int64  `json:"ms"`
	Class string `json:"class"`
	Stage string `json:"reached"`
}

// suspect is a case whose worker process died.
type suspect struct {
	Case   mon.Case
	Data   caseData
	Stage  string
	Notes  []string
	Fatal  fatalInfo
	Stderr string
	Exit   string
	Status string
}

type checker struct {
	d *mon.Driver
	// filled by AfterBatch for the case the process died in, consumed by handle
	lastKey    string
	lastStage  string
	lastNotes  []string
	lastStderr string

	suspects []suspect
	samples  map[string]int
	perFam   map[string]int
	enum     *enumOut
	slow     []slowCase
	crashed  map[string][]int // deep shape -> depths that crashed (confirmed)
	okDeep   map[string][]int // deep shape -> depths that ran to the end
	sigs     map[string]int   // every violation signature of this run -> count (mon prints only the first 25 violations)
	pending  *[]pendingViolation
}

type pendingViolation struct {
	sig, detail string
	replay      any
}

// violation buffers a violation. mon keeps witnesses for the first 25 violations of a run only, so they
// are handed over at the end in an order that gives every distinct signature its witness first.
func (k *checker) violation(sig, detail string, replay any) {
	k.sigs[sig]++
	if k.sigs[sig] <= 3 {
		*k.pending = append(*k.pending, pendingViolation{sig, detail, replay})
	} else {
		*k.pending = append(*k.pending, pendingViolation{sig, "", nil})
	}
}

func (k *checker) flushViolations() {
	pend := *k.pending
	*k.pending = nil
	sort.SliceStable(pend, func(i, j int) bool { return pend[i].sig < pend[j].sig })
	seen := map[string]int{}
	var later []pendingViolation
	for _, v := range pend {
		seen[v.sig]++
		if seen[v.sig] == 1 {
			k.d.Violation(v.sig, v.detail, v.replay)
		} else {
			later = append(later, v)
		}
	}
	for _, v := range later {
		k.d.Violation(v.sig, v.detail, v.replay)
	}
}

func (k *checker) summary() {
	if len(k.sigs) == 0 {
		return
	}
	keys := make([]string, 0, len(k.sigs))
	for s := range k.sigs {
		keys = append(keys, s)
	}
	sort.Strings(keys)
	fmt.Printf("C03 signatures of this run (%d):\n", len(keys))
	for _, s := range keys {
		fmt.Printf("  %4d x %s\n", k.sigs[s], s)
	}
	k.d.Extra("signatures", k.sigs)
}

func (k *checker) afterBatch(dir string, cases []mon.Case) {
	k.lastKey, k.lastStage, k.lastStderr, k.lastNotes = "", "", "", nil
	b, err := os.ReadFile(filepath.Join(dir, "stderr.txt"))
	if err != nil || len(b) == 0 {
		return
	}
	if len(b) > 400000 {
		b = append(b[:200000:200000], b[len(b)-200000:]...)
	}
	k.lastStderr = string(b)
	sb, _ := os.ReadFile(filepath.Join(dir, stagesFile))
	lines := strings.Split(strings.TrimSpace(string(sb)), "\n")
	// the last lines of the stage log belong to the case the process died in: "<key> <stage>" and "<key> #<note>"
	for i := len(lines) - 1; i >= 0; i-- {
		f := strings.SplitN(lines[i], " ", 2)
		if len(f) != 2 || k.lastKey != "" && f[0] != k.lastKey {
			break
		}
		k.lastKey = f[0]
		if strings.HasPrefix(f[1], "#") {
			k.lastNotes = append(k.lastNotes, f[1][1:])
		} else if k.lastStage == "" {
			k.lastStage = f[1]
		}
	}
}

func reachedOf(o *obs) string {
	switch {
	case strings.HasPrefix(o.Outcome, "parse-error"):
		return "parse"
	case strings.HasPrefix(o.Outcome, "compile-error"), o.Outcome == "compiled":
		return "compile"
	case strings.HasPrefix(o.Outcome, "value:"):
		return "result"
	case o.Outcome == "go-panic":
		return o.Stage
	}
	return "run"
}

func sourceOf(c *caseData) string {
	if c.Src != nil {
		return *c.Src
	}
	if c.Spec != nil {
		return genSource(*c.Spec).Src
	}
	return ""
}

// replayOf makes the replay case explicit: the source text itself is stored (unless it is huge, in
// which case the generator spec regenerates it).
func replayOf(c caseData) caseData {
	src := sourceOf(&c)
	// (JSON cannot carry invalid UTF-8: such inputs stay with their generator spec)
	if len(src) <= 1<<20 && (c.Spec == nil || utf8.ValidString(src)) {
		c.Src = &src
	}
	c.FullStack = true
	return c
}

func (k *checker) handle(c mon.Case, res mon.Result) {
	d := k.d
	var cd caseData
	_ = json.Unmarshal(c.Data, &cd)
	switch res.Status {
	case "done":
	case "crash", "timeout":
		s := suspect{Case: c, Data: cd, Status: res.Status}
		if res.Crash != nil {
			s.Exit = res.Crash.Exit
			s.Stderr = res.Crash.StderrTail
		}
		if k.lastStderr != "" {
			s.Stderr = k.lastStderr
		}
		if k.lastKey == c.ID {
			s.Stage = k.lastStage
			s.Notes = k.lastNotes
		}
		s.Fatal = parseFatal(s.Stderr)
		k.suspects = append(k.suspects, s)
		d.Event("worker-deaths-attributed", 1)
		return
	default:
		d.Inconclusive("case " + c.ID + ": " + res.Status)
		return
	}
	if res.Panic != "" {
		d.Fatal("harness panic in worker (outside the guarded API calls): " + mon.Truncate(res.Panic, 1500))
		return
	}
	var o obs
	if err := json.Unmarshal(res.Data, &o); err != nil {
		d.Fatal("bad worker output: " + err.Error())
		return
	}
	if o.Enum != nil {
		k.enum = o.Enum
		return
	}
	d.Eval(1)
	d.Event("api-calls-under-recover", o.Guarded)
	reached := reachedOf(&o)
	if o.MS >= 200 {
		k.slow = append(k.slow, slowCase{o.MS, o.Class, reached + "/" + o.Outcome})
		sort.Slice(k.slow, func(i, j int) bool { return k.slow[i].MS > k.slow[j].MS })
		if len(k.slow) > slowKeep {
			k.slow = k.slow[:slowKeep]
		}
	}
	d.Event("reached:"+reached, 1)
	d.Event("family:"+cd.Family, 1)
	k.perFam[cd.Family+":"+reached]++
	kind := o.Outcome
	if i := strings.Index(kind, ":"); i >= 0 && strings.HasPrefix(kind, "value:") {
		kind = "value"
	}
	d.Event("outcome:"+kind, 1)
	if len(o.Exits) > 0 {
		d.Event("exit-requests-recorded", len(o.Exits))
	}
	if o.TimedOut {
		d.Event("context-deadline-hit", 1)
	}
	d.Distinct(o.Class + "|" + reached + "|" + o.Outcome)
	if cd.Runaway != nil && (reached == "parse" || reached == "compile" || strings.Contains(o.Outcome, "parse-error")) {
		// the shapes are meant to be valid programs: one that is rejected tests nothing
		d.Event("runaway-shapes-rejected-by-parser-or-compiler", 1)
		if os.Getenv("VERIF_C03_DEBUG") != "" {
			fmt.Fprintf(os.Stderr, "rejected runaway shape %s: %s\n", o.Class, o.ErrText)
		}
	}
	if cd.Family == "deep" && cd.Spec != nil {
		k.okDeep[deepShapes[cd.Spec.A%len(deepShapes)].Name] = append(k.okDeep[deepShapes[cd.Spec.A%len(deepShapes)].Name], cd.Spec.B)
	}
	// samples: a few real cases per run, spread over the families, preferring ones that got far
	if wanted := map[string]bool{"soup": true, "mut": true, "deep": true, "script": true, "runaway": true}; wanted[cd.Family] && k.samples[cd.Family] < 1 {
		src := sourceOf(&cd)
		if (cd.Family != "soup" || len(src) >= 25) && (cd.Family != "script" || strings.Contains(cd.InputClass, "cyclic")) && (cd.Family != "deep" || cd.Spec.B >= 1000) {
			k.samples[cd.Family]++
			d.Sample(map[string]any{"family": cd.Family, "class": o.Class, "source": mon.Truncate(src, 400), "reached": reached, "outcome": o.Outcome, "error": o.ErrText})
		}
	}
	for _, p := range o.Panics {
		sig := "panic:" + p.Stage + ":" + p.Site
		detail := fmt.Sprintf("a Go panic propagated out of the embedding API (stage %s), recovered by the harness\npanic value: %s\ninnermost risor function: %s\nfamily: %s  class: %s\n--- source (%d bytes):\n%s\n--- stack:\n%s",
			p.Stage, p.Value, p.Site, cd.Family, o.Class, o.SrcLen, mon.Truncate(o.Src, 2000), mon.Truncate(p.Stack, 2500))
		k.violation(sig, detail, replayOf(cd))
	}
}

// ---------------------------------------------------------------------------------------
// signatures of process deaths

func normStage(stage string, fi fatalInfo) string {
	switch stage {
	case "eval", "": // risor.Eval does everything: name the stage after the package that was executing
		switch {
		case strings.HasPrefix(fi.Innermost, "parser.") || strings.HasPrefix(fi.Innermost, "lexer."):
			return "parse"
		case strings.HasPrefix(fi.Innermost, "compiler."):
			return "compile"
		case fi.Innermost == "":
			if stage == "" {
				return "unknown-stage"
			}
		}
		return "run"
	}
	return stage
}

func fatalSignature(stage string, fi fatalInfo, icls string) string {
	stage = normStage(stage, fi)
	if fi.Kind == "stack-overflow" {
		return "fatal:" + stage + ":" + recursionClass(fi.Repeating) + ":" + icls
	}
	site := fi.Innermost
	if site == "" {
		site = "no-risor-frame"
	}
	if fi.Kind == "concurrent-map-access" {
		// which of the racing goroutines notices (reader or writer, and in which method) varies from run
		// to run: the class is the container type
		if r := receiverOf(site); r != "" {
			// an iterator over the container reads the same Go map: object.MapIter -> object.Map
			site = strings.TrimSuffix(r, "Iter")
		}
	} else {
		site = collapse([]string{site})[0]
	}
	return "fatal:" + stage + ":" + fi.Kind + "@" + site + ":" + icls
}

func (s *suspect) inconclusiveReason() string {
	switch {
	case s.Status == "timeout":
		return "batch watchdog"
	case s.Fatal.Marker == markerOOM:
		return "memory guard (data size; excluded by the statement)"
	case s.Fatal.Marker == markerHang:
		return "per-case watchdog (a hang is not this property's business)"
	case s.Fatal.Kind == "out-of-memory":
		return "out of memory (excluded by the statement)"
	case s.Fatal.Kind == "unknown" && strings.Contains(s.Exit, "killed"):
		return "killed (out of memory?)"
	case s.Fatal.Kind == "sigquit":
		return "watchdog"
	}
	return ""
}

// inputClass names the class of the input in a fatal signature: scripts and nesting cases carry it from
// their construction; for arbitrary sources (token soup, mutated programs, snippets) that died in a
// natively recursive operation on data, it is what the worker observed about the returned value
// (cyclic / deep) or, when the data was not returned, "data-built-by-the-script".
func (s *suspect) inputClass() string {
	if s.Data.InputClass != "" {
		return s.Data.InputClass
	}
	for _, n := range s.Notes {
		switch n {
		case "shape=cyclic":
			return "cyclic-data"
		case "shape=deep":
			return "deep-data"
		}
	}
	if s.Fatal.Kind == "stack-overflow" && strings.HasPrefix(recursionClass(s.Fatal.Repeating), "object.") {
		return "data-built-by-the-script"
	}
	return s.Data.Family
}

// ---------------------------------------------------------------------------------------
// planning

type plan struct {
	cases []mon.Case
	n     int
}

var onlyFamilies = func() map[string]bool {
	v := os.Getenv("VERIF_C03_ONLY") // development knob: comma-separated families to run
	if v == "" {
		return nil
	}
	m := map[string]bool{}
	for _, f := range strings.Split(v, ",") {
		m[f] = true
	}
	return m
}()

func (p *plan) add(fam string, cd caseData) {
	if onlyFamilies != nil && !onlyFamilies[fam] {
		return
	}
	p.n++
	cd.Family = fam
	id := fmt.Sprintf("%s-%d", fam, p.n)
	cd.Key = id
	p.cases = append(p.cases, mon.NewCase(id, fam, cd))
}

func drive(d *mon.Driver, replay string) int {
	d.Rule = "an input is distinct when its (token-shape class, stage reached, outcome kind) triple is new; token-shape class = for token soup the set of token categories present, for mutated programs (mutation kind, token at the mutation point, substituted token), for byte soups (mode, UTF-8 validity, first byte class), for listed snippets (snippet, context), for nesting (production, depth), for scripts (builtin/method/operation, kinds of the argument values, try-wrapped or not); every input that was executed counts, none is trivial by construction except the empty source"
	d.Assume = []string{
		"scripts run under a VirtualOS without mounts whose exit handler records os.exit; the globals exec, http, net, dns, fetch are removed (external commands and explicit exit are excluded by the statement; the network is kept out of a check)",
		"the embedding API is exercised as: risor.NewConfig, parser.Parse, compiler.Compile, risor.Eval / EvalCode / Call, Error() / FriendlyErrorMessage() / the ParserError accessors of every returned error (and of what it wraps), Inspect() / Interface() of every returned value",
		fmt.Sprintf("screening runs limit the native stack to %d MB so that an unbounded native recursion dies fast; a dead worker is only reported after the case died again alone under Go's default 1 GB limit", screenStack>>20),
		"memory exhaustion by data size is excluded: value sizes are capped, a worker that exceeds 5 GB of live heap or is killed is inconclusive; a per-case watchdog (10 s, 30 s for the deep-nesting and deep-data cases) makes hangs inconclusive",
		"a crash that needs a race between script threads (concurrent map access) is only reported when it repeats in the confirmation run",
	}
	k := &checker{d: d, samples: map[string]int{}, perFam: map[string]int{}, crashed: map[string][]int{}, okDeep: map[string][]int{}, sigs: map[string]int{}, pending: &[]pendingViolation{}}

	if replay != "" {
		var cd caseData
		if err := mon.LoadReplay(replay, &cd); err != nil {
			fmt.Println("cannot load replay:", err)
			return 3
		}
		cd.FullStack = true
		cd.Key = "replay"
		c := mon.NewCase("replay", cd.Family, cd)
		d.RunPool([]mon.Case{c}, mon.PoolOpts{BatchSize: 1, NoRetry: true, BatchTimeout: 10 * time.Minute, AfterBatch: k.afterBatch}, k.handle)
		k.confirmAndReport(true)
		return d.Finish(0, 0)
	}

	// ---- enumeration of builtins and methods, in an isolated process
	d.RunPool([]mon.Case{mon.NewCase("enum", "enum", caseData{Enum: true, Key: "enum"})}, mon.PoolOpts{BatchSize: 1, NoRetry: true, AfterBatch: k.afterBatch}, k.handle)
	if k.enum == nil {
		d.Fatal("enumeration of builtins and methods failed (worker died?)")
		k.suspects = nil
		return d.Finish(1, 1)
	}
	for _, p := range k.enum.Problems {
		d.Inconclusive("enumeration: " + p)
	}
	calls := k.enum.callables()
	nm := 0
	for _, ms := range k.enum.Methods {
		nm += len(ms)
	}
	d.Extra("enumerated", map[string]any{"globals": len(k.enum.Globals), "modules": len(k.enum.Modules), "callables": len(calls), "method_names_in_source": len(k.enum.MethodNames), "methods_on_values": nm, "source_scan": k.enum.SourceScan, "values": len(values), "operation_templates": len(opTemplates), "deep_shapes": len(deepShapes), "listed_snippets": len(fixedSnippets), "repository_sources": len(repoSources())})
	if len(calls) < 300 || nm < 100 || len(repoSources()) < 20 {
		d.Fatal(fmt.Sprintf("enumeration too small: %d callables, %d methods, %d repository sources", len(calls), nm, len(repoSources())))
	}

	debug := os.Getenv("VERIF_C03_DEBUG") != ""
	t0 := time.Now()
	runChunk := func(p *plan, o mon.PoolOpts) {
		o.NoRetry = true
		o.AfterBatch = k.afterBatch
		if debug {
			fmt.Fprintf(os.Stderr, "[%6.1fs] pool of %d cases (batch %d) starts\n", time.Since(t0).Seconds(), len(p.cases), o.BatchSize)
		}
		d.RunPool(p.cases, o, k.handle)
		if debug {
			fmt.Fprintf(os.Stderr, "[%6.1fs] pool done\n", time.Since(t0).Seconds())
		}
		p.cases = nil
	}

	// ---- workload 1: source strings
	r := d.Rand("sources")
	seed := r.Uint64()
	srcOpts := mon.PoolOpts{BatchSize: 500, BatchTimeout: 5 * time.Minute}
	p := &plan{}
	flush := func(o mon.PoolOpts, force bool) {
		if len(p.cases) >= 100000 || force && len(p.cases) > 0 {
			runChunk(p, o)
		}
	}
	nSoup := d.N(8000, 600000)
	for i := 0; i < nSoup; i++ {
		p.add("soup", caseData{Spec: &spec{Fam: "soup", Seed: seed, A: i}, Filename: i%5 == 0, Direct: i%7 == 0})
		flush(srcOpts, false)
	}
	// every expression kind in every position that only accepts a restricted form
	for a, pos := range restrictPositions {
		for b := range exprKinds {
			if !pos.two() {
				p.add("restrict", caseData{Spec: &spec{Fam: "restrict", A: a, B: b, C: b}, Conc: true, DeadlineMS: 150, Filename: (a+b)%4 == 0, Direct: (a+b)%5 == 0})
				continue
			}
			if d.Thorough() {
				for c := range exprKinds {
					p.add("restrict", caseData{Spec: &spec{Fam: "restrict", A: a, B: b, C: c}, Conc: true, DeadlineMS: 150, Direct: (a+b+c)%5 == 0})
				}
				continue
			}
			for _, c := range []int{b, r.Intn(len(exprKinds)), r.Intn(len(exprKinds))} {
				p.add("restrict", caseData{Spec: &spec{Fam: "restrict", A: a, B: b, C: c}, Conc: true, DeadlineMS: 150, Direct: (a+b+c)%5 == 0})
			}
		}
		flush(srcOpts, false)
	}
	// every position inside a literal x a representative of every character class
	for a := range lexContexts {
		for b := range lexChars {
			p.add("lex", caseData{Spec: &spec{Fam: "lex", A: a, B: b}, DeadlineMS: 150, Filename: (a+b)%4 == 0, Direct: (a+b)%5 == 0})
		}
		flush(srcOpts, false)
	}
	// statement headers with every combination of present, absent and unusual clauses
	for a := range clauseSources {
		p.add("clauses", caseData{Spec: &spec{Fam: "clauses", A: a}, DeadlineMS: 150, Filename: a%4 == 0, Direct: a%5 == 0})
		flush(srcOpts, false)
	}
	d.Extra("clause_sources", len(clauseSources))
	d.Extra("restricted_positions", map[string]any{"positions": len(restrictPositions), "expression_kinds": len(exprKinds), "literal_contexts": len(lexContexts), "characters": len(lexChars)})
	nBytes := d.N(3000, 300000)
	for i := 0; i < nBytes; i++ {
		p.add("bytes", caseData{Spec: &spec{Fam: "bytes", Seed: seed, A: i}, Filename: i%5 == 0, Direct: i%7 == 0})
		flush(srcOpts, false)
	}
	// listed snippets: every snippet bare, plus contexts
	for a := range fixedSnippets {
		nctx := d.N(4, len(fixedContexts))
		for j := 0; j < nctx; j++ {
			b := j
			if j > 0 && nctx < len(fixedContexts) {
				b = 1 + r.Intn(len(fixedContexts)-1)
			}
			p.add("fixed", caseData{Spec: &spec{Fam: "fixed", A: a, B: b}, Filename: (a+j)%3 == 0, Conc: j%2 == 1})
		}
		flush(srcOpts, false)
	}
	// mutations of valid programs
	nGen := d.N(30, 600)
	perOp := d.N(40, 1<<30)
	nFiles := len(repoSources())
	perOpRepo := d.N(12, 1<<30)
	altSubs := d.N(1, 4)
	mutate := func(a int, per int) {
		e := corpus(seed, a)
		n := len(e.Toks)
		if n == 0 {
			return
		}
		p.add("mut", caseData{Spec: &spec{Fam: "mut", Seed: seed, A: a, B: mutWhole}, Call: true, Conc: true})
		for op := 0; op < mutWhole; op++ {
			cnt := n
			if per < n {
				cnt = per
			}
			reps := 1
			if op == mutSub || op == mutInsert {
				reps = altSubs
			}
			for j := 0; j < cnt; j++ {
				pos := j
				if cnt < n {
					pos = r.Intn(n)
				}
				for q := 0; q < reps; q++ {
					p.add("mut", caseData{Spec: &spec{Fam: "mut", Seed: seed, A: a, B: op, C: pos + q*n}, Call: (j+q)%10 == 0, Filename: j%4 == 0, Conc: j%2 == 0})
				}
			}
		}
	}
	for a := 0; a < nGen; a++ {
		mutate(a, perOp)
		flush(srcOpts, false)
	}
	for f := 0; f < nFiles; f++ {
		mutate(-(f + 1), perOpRepo)
		flush(srcOpts, false)
	}
	flush(srcOpts, true)

	// ---- deep nesting: one process per case, few at a time (a 1 GB native stack each at worst)
	for a, sh := range deepShapes {
		for _, depth := range sh.depths(d.Thorough()) {
			icls := "deep-nesting"
			if sh.Kind == "wide" {
				icls = "wide-source"
			}
			p.add("deep", caseData{Spec: &spec{Fam: "deep", A: a, B: depth}, InputClass: icls, DeadlineMS: 3000, FullStack: depth >= 100000, Conc: true})
		}
	}
	var small, big plan
	for _, c := range p.cases {
		var cd caseData
		_ = json.Unmarshal(c.Data, &cd)
		if cd.Spec.B >= 100000 {
			big.cases = append(big.cases, c)
		} else {
			small.cases = append(small.cases, c)
		}
	}
	p.cases = nil
	runChunk(&small, mon.PoolOpts{BatchSize: 20, BatchTimeout: 5 * time.Minute})
	runChunk(&big, mon.PoolOpts{BatchSize: 1, Parallel: 6, BatchTimeout: 5 * time.Minute})

	// ---- workload 2: scripts
	rs := d.Rand("scripts")
	scrOpts := mon.PoolOpts{BatchSize: 100, BatchTimeout: 5 * time.Minute}
	depth := 2000 // nesting depth of the "deep" values in bulk scripts (rendering is quadratic in the depth); really deep data below
	ids := make([]string, len(values))
	var nasty []string
	for i, v := range values {
		ids[i] = v.ID
		if v.Class == "cyclic" || v.Class == "deep" {
			nasty = append(nasty, v.ID)
		}
	}
	nScript := 0
	addScript := func(s scriptSpec, dl int) {
		src, class, icls := s.render()
		nScript++
		ss := s
		// Interface() of a returned cyclic value is one known way to die; most bulk scripts that handle cyclic
		// values skip that call so that they do not all end there (the dedicated cases keep it)
		noIface := strings.Contains(icls, "cyclic") && nScript%10 != 0
		p.add("script", caseData{Src: &src, Class: class, InputClass: icls, Script: &ss, Conc: nScript%4 != 0, Direct: nScript%5 == 0, DeadlineMS: dl, NoIface: noIface})
		flush(scrOpts, false)
	}
	for ci := range calls {
		c := &calls[ci]
		addScript(scriptSpec{Call: c, Depth: depth, Variant: ci % 2}, 400)
		for vi, id := range ids {
			addScript(scriptSpec{Call: c, Args: []string{id}, Depth: depth, Variant: (ci + vi) % 2}, 400)
		}
	}
	n2 := d.N(12000, 250000)
	for i := 0; i < n2; i++ {
		c := &calls[rs.Intn(len(calls))]
		addScript(scriptSpec{Call: c, Args: []string{mon.Pick(rs, ids), mon.Pick(rs, ids)}, Depth: depth, Variant: i % 2}, 400)
	}
	n3 := d.N(6000, 150000)
	for i := 0; i < n3; i++ {
		c := &calls[rs.Intn(len(calls))]
		addScript(scriptSpec{Call: c, Args: []string{mon.Pick(rs, ids), mon.Pick(rs, ids), mon.Pick(rs, ids)}, Depth: depth, Variant: i % 2}, 400)
	}
	// operations: every template on every pair of cyclic / deep values, and on sampled pairs of all values
	for _, op := range opTemplates {
		for _, a := range nasty {
			for _, b := range nasty {
				addScript(scriptSpec{Op: op, Args: []string{a, b, mon.Pick(rs, ids)}, Depth: depth}, 400)
			}
		}
	}
	nOps := d.N(8000, 100000)
	for i := 0; i < nOps; i++ {
		addScript(scriptSpec{Op: opTemplates[i%len(opTemplates)], Args: []string{mon.Pick(rs, ids), mon.Pick(rs, ids), mon.Pick(rs, ids)}, Depth: depth, Variant: (i / len(opTemplates)) % 2}, 400)
	}
	flush(scrOpts, true)

	// operations on really deep data and the special scripts: longer deadlines, default stack, one process each
	deepDepths := []int{10000}
	if d.Thorough() {
		deepDepths = []int{100000, 1000000}
	}
	for _, dd := range deepDepths {
		for _, op := range deepOps {
			if op.Renders && dd > 100000 {
				continue
			}
			for _, a := range []string{"deep-list", "deep-map"} {
				s := scriptSpec{Op: op.Op, Args: []string{a, a, "int-1"}, Depth: dd}
				src, class, icls := s.render()
				p.add("script-deep", caseData{Src: &src, Class: fmt.Sprintf("%s@%d", class, dd), InputClass: icls, Script: &s, Conc: true, DeadlineMS: 20000, FullStack: true})
			}
		}
	}
	for _, sp := range specialScripts(d.Thorough()) {
		src := sp.Src
		p.add("script-special", caseData{Src: &src, Class: "special:" + sp.Name, InputClass: sp.InputClass, Conc: sp.Conc, DeadlineMS: sp.DeadlineMS, FullStack: true, Call: sp.Call})
	}
	runChunk(p, mon.PoolOpts{BatchSize: 1, Parallel: 6, BatchTimeout: 5 * time.Minute})

	// runaway recursion / exhaustion shapes (route x site x pending operands x pending defers x entry)
	rw := planRunaway(d.Rand("runaway"), d.Thorough(), 500)
	for _, s := range rw {
		p.add("runaway", s.caseData())
	}
	d.Extra("runaway_shapes", map[string]any{"run": len(rw), "routes": rwRoutes, "sites": rwSites, "pending": rwPending, "defers": rwDefers, "entries": rwEntries})
	runChunk(p, mon.PoolOpts{BatchSize: 25, BatchTimeout: 5 * time.Minute})

	k.confirmAndReport(false)

	// self-checks of the generated families: shapes that are meant to be valid must not all be rejected
	// (a clash in a prelude would silently turn a family into parse/compile errors)
	if onlyFamilies == nil || onlyFamilies["restrict"] {
		if n := k.perFam["restrict:result"]; n < 2000 {
			d.Fatal(fmt.Sprintf("family restrict: only %d inputs evaluated to a value (prelude or templates broken?)", n))
		}
	}
	if onlyFamilies == nil || onlyFamilies["runaway"] {
		if n := k.perFam["runaway:parse"] + k.perFam["runaway:compile"]; n > 0 {
			d.Fatal(fmt.Sprintf("family runaway: %d shapes were rejected by the parser or compiler", n))
		}
	}
	d.Extra("script_cases", nScript)
	d.Extra("slowest_cases", k.slow)
	if onlyFamilies != nil {
		fmt.Println("development run restricted to families", os.Getenv("VERIF_C03_ONLY"))
		return d.Finish(0, 0)
	}
	return d.Finish(d.N(60000, 1500000), d.N(30000, 300000))
}

// operations applied to really deep data (quick: 3*10^4, thorough: 10^5 and 10^6 levels). Results are
// kept small except for "$a" itself; operations that render the value (quadratic in the depth) are
// not run at 10^6.
type deepOp struct {
	Op      string
	Renders bool
}

var deepOps = []deepOp{
	{"$a == $b", false}, {"$a != $b", false}, {"$a < $b", false}, {"$a in [$b]", false}, {"[$a] == [$b]", false}, {"len(sorted([$a, $b]))", false},
	{"json.marshal($a); 1", false}, {"len(encode($a, \"json\"))", false}, {"$a.copy() == $b", false}, {"{\"k\": $a} == {\"k\": $b}", false},
	{"keys($a); 1", false}, {"len($a)", false}, {"is_hashable($a)", false}, {"type($a)", false}, {"bool($a)", false}, {"len(list($a))", false},
	{"[$a].index($b)", false}, {"[$a].count($b)", false}, {"[$a].remove($b); 1", false}, {"{\"k\": $a}.get(\"k\") == $b", false},
	{"spawn(func(x) { return x }, $a).wait() == $b", false}, {"x := $a; x = nil; 1", false},
	{"len(string($a))", true}, {"print($a)", true}, {"len(sprintf(\"%v\", $a))", true}, {"hash(string($a)); 1", true}, {"$a", true},
	{"error(\"%v\", $a)", true}, {"try(func() { error($a) }, func(e) { return len(string(e)) })", true},
}

// ---------------------------------------------------------------------------------------
// confirmation of suspects and reporting

func (k *checker) confirmAndReport(isReplay bool) {
	d := k.d
	suspects := k.suspects
	k.suspects = nil
	sort.SliceStable(suspects, func(i, j int) bool { return suspects[i].Case.ID < suspects[j].Case.ID })

	type group struct {
		key  string
		list []suspect
	}
	groups := map[string]*group{}
	var order []string
	for _, s := range suspects {
		if why := s.inconclusiveReason(); why != "" {
			d.Inconclusive(fmt.Sprintf("case %s (%s): %s", s.Case.ID, mon.Truncate(sourceOf(&s.Data), 120), why))
			continue
		}
		key := fatalSignature(s.Stage, s.Fatal, s.inputClass())
		if s.Data.Script != nil {
			key += fmt.Sprintf("|depth=%d", s.Data.Script.Depth)
		}
		if s.Data.Family == "deep" && s.Data.Spec != nil {
			key += fmt.Sprintf("|%s", deepShapes[s.Data.Spec.A%len(deepShapes)].Name)
		}
		if s.Data.Runaway != nil {
			key += "|" + s.Data.Runaway.shape() // every shape is confirmed on its own
		}
		g := groups[key]
		if g == nil {
			g = &group{key: key}
			groups[key] = g
			order = append(order, key)
		}
		g.list = append(g.list, s)
	}
	sort.Strings(order)
	d.Event("distinct-screening-signatures", len(order))
	if os.Getenv("VERIF_C03_DEBUG") != "" {
		for _, key := range order {
			fmt.Fprintf(os.Stderr, "suspects %5d  %s   e.g. %s\n", len(groups[key].list), key, mon.Truncate(strings.ReplaceAll(sourceOf(&groups[key].list[0].Data), "\n", " ; "), 100))
		}
	}

	// Representatives that were screened with the small stack are re-run alone under the default stack
	// limit; cases that already ran alone with the default limit are confirmed by a second identical run.
	var reruns []mon.Case
	repOf := map[string]suspect{}
	confData := map[string]caseData{} // what the confirmation run executed (the replay file repeats exactly that)
	for _, key := range order {
		g := groups[key]
		nrep := 2
		if len(g.list) < nrep {
			nrep = len(g.list)
		}
		for i := 0; i < nrep; i++ {
			s := g.list[i]
			cd := s.Data
			cd.FullStack = true
			if s.Fatal.Kind == "stack-overflow" && cd.DeadlineMS < 25000 {
				// filling the default 1 GB stack takes a few seconds: the evaluation's own deadline must not
				// be what ends an unbounded native recursion in the confirmation run
				cd.DeadlineMS = 25000
			}
			confData[s.Case.ID] = cd
			id := fmt.Sprintf("confirm-%d-%s", len(reruns), s.Case.ID)
			cd.Key = id
			reruns = append(reruns, mon.NewCase(id, "confirm", cd))
			repOf[id] = s
			// control variants of scripts: the same script with every cyclic / deep value (or only the deep
			// ones) replaced by a small acyclic one of the same type
			if cd.Script != nil && (strings.Contains(cd.InputClass, "cyclic") || strings.Contains(cd.InputClass, "deep")) {
				kinds := []string{"all"}
				if cd.InputClass == "cyclic+deep-data" {
					kinds = append(kinds, "deep")
				}
				for _, kind := range kinds {
					ctl := controlOf(*cd.Script, kind)
					src, _, _ := ctl.render()
					c2 := cd
					c2.Src = &src
					c2.Script = &ctl
					cid := "control-" + kind + "-" + id
					c2.Key = cid
					reruns = append(reruns, mon.NewCase(cid, "control", c2))
				}
			}
		}
		if len(g.list) > nrep {
			d.Event("suspects-with-an-already-confirmed-signature-not-rerun", len(g.list)-nrep)
		}
	}
	type outcome struct {
		crashed bool
		s       suspect
	}
	results := map[string]outcome{}
	k2 := &checker{d: d, samples: k.samples, perFam: k.perFam, crashed: k.crashed, okDeep: k.okDeep, sigs: k.sigs, pending: k.pending}
	d.RunPool(reruns, mon.PoolOpts{BatchSize: 1, Parallel: 4, NoRetry: true, BatchTimeout: 10 * time.Minute, AfterBatch: k2.afterBatch},
		func(c mon.Case, res mon.Result) {
			if res.Status == "done" {
				results[c.ID] = outcome{}
				// a panic recovered in a confirmation run is reported like any other
				if !strings.HasPrefix(c.ID, "control-") {
					var o obs
					if json.Unmarshal(res.Data, &o) == nil {
						var cd caseData
						_ = json.Unmarshal(c.Data, &cd)
						for _, p := range o.Panics {
							k.violation("panic:"+p.Stage+":"+p.Site, fmt.Sprintf("a Go panic propagated out of the embedding API (stage %s)\npanic value: %s\n--- source:\n%s\n--- stack:\n%s", p.Stage, p.Value, mon.Truncate(o.Src, 2000), mon.Truncate(p.Stack, 2500)), replayOf(cd))
						}
					}
				}
				return
			}
			n := len(k2.suspects)
			k2.handle(c, res)
			if len(k2.suspects) > n {
				results[c.ID] = outcome{crashed: true, s: k2.suspects[len(k2.suspects)-1]}
			}
		})

	ids := make([]string, 0, len(repOf))
	for id := range repOf {
		ids = append(ids, id)
	}
	sort.Strings(ids)
	for _, id := range ids {
		orig := repOf[id]
		out, ok := results[id]
		switch {
		case !ok:
			d.Inconclusive("confirmation run of " + orig.Case.ID + " gave no result")
			continue
		case !out.crashed:
			if orig.Fatal.Kind == "stack-overflow" && !orig.Data.FullStack {
				d.Event("native-recursion-deeper-than-screening-stack-but-within-default-stack", 1)
				d.Eval(1)
			} else {
				d.Inconclusive(fmt.Sprintf("case %s died once (%s) but not when re-run alone", orig.Case.ID, orig.Fatal.Line))
			}
			continue
		}
		s := out.s
		if why := s.inconclusiveReason(); why != "" {
			d.Inconclusive(fmt.Sprintf("confirmation of %s: %s", orig.Case.ID, why))
			continue
		}
		icls := orig.inputClass()
		note := ""
		if c, ok := results["control-all-"+id]; ok {
			if c.crashed {
				icls = "independent-of-the-data"
				note = "\nthe control variant (cyclic / deep values replaced by small acyclic ones) died as well"
			} else {
				note = "\nthe control variant (cyclic / deep values replaced by small acyclic ones of the same type) ran normally"
			}
		}
		if c, ok := results["control-deep-"+id]; ok && icls == "cyclic+deep-data" {
			if c.crashed {
				icls = "cyclic-data"
				note += "\nthe variant with only the deep values replaced died as well: the cyclic value is what matters"
			} else {
				note += "\nthe variant with only the deep values replaced ran normally"
			}
		}
		if orig.Data.Family == "deep" && orig.Data.Spec != nil {
			name := deepShapes[orig.Data.Spec.A%len(deepShapes)].Name
			k.crashed[name] = append(k.crashed[name], orig.Data.Spec.B)
			minOK := 0
			for _, dd := range k.okDeep[name] {
				if dd > minOK && dd < orig.Data.Spec.B {
					minOK = dd
				}
			}
			if minOK == 0 && !isReplay {
				icls = "nesting-at-any-depth"
			}
			note = fmt.Sprintf("\nproduction %q nested %d deep; largest depth of this production that ran normally in this run: %d", name, orig.Data.Spec.B, minOK)
		}
		sig := fatalSignature(s.Stage, s.Fatal, icls)
		d.Event("process-deaths-confirmed", 1)
		src := sourceOf(&orig.Data)
		detail := fmt.Sprintf("the process died while executing the input (stage %s), and died again when the input was run alone under the default stack limit\n%s\nexit: %s\nrepeating functions in the fatal stack: %s\ninnermost risor function: %s\nfamily: %s  class: %s%s\n--- source (%d bytes):\n%s\n--- stderr of the dead process:\n%s",
			normStage(s.Stage, s.Fatal), s.Fatal.Line, s.Exit, strings.Join(shortAll(s.Fatal.Repeating), ", "), s.Fatal.Innermost, orig.Data.Family, orig.Data.Class, note, len(src), mon.Truncate(src, 1500), mon.Truncate(s.Stderr, 2500))
		rd, okc := confData[orig.Case.ID]
		if !okc {
			rd = orig.Data
		}
		k.violation(sig, detail, replayOf(rd))
	}
	k.flushViolations()
	k.summary()
}

func shortAll(fs []string) []string {
	out := make([]string, len(fs))
	for i, f := range fs {
		out[i] = short(f)
	}
	return out
}
